"""Independent reference bookkeeping for load-balancer episodes, used by the property oracles.

It tracks, from the op lines and the implementation's own answers only, what the
properties talk about: which backend objects are inside an unhealthy window, how many
failed responses each name has accumulated, which requests are in flight on which
backend, and the request tallies a client / scripted backend would count themselves."""
from urllib.parse import unquote

SEC = 10**9


class Obj:
    def __init__(self, oid, name, weight):
        self.id, self.name, self.weight = oid, name, weight
        self.healthy, self.until = True, None
        self.inflight = 0
        self.sent = 0          # requests actually sent to this backend object


class Shadow:
    def __init__(self, new_line):
        w = new_line.split()
        self.strategy = w[2]
        self.passive = w[3] == "1"
        self.thr = int(w[4])
        self.eject_ns = int(w[5]) * SEC
        self.rl = w[6] == "1"
        self.cb = w[9] == "1"
        self.pool = []           # objects in the pool (order not tracked)
        self.objs = {}
        self.nid = 0
        self.cnt = {}            # failed responses per name since the last ejection
        self.flight = {}         # tid -> obj
        self.tot = {"requests": 0, "ok": 0, "failed": 0, "limited": 0}
        self.sent_by_name = {}
        self.events = []         # (kind, name, time) ejection / recovery events

    def by_name(self, name):
        for o in self.pool:
            if o.name == name:
                return o
        return None

    def in_window(self, o, now):
        return (not o.healthy) and o.until is not None and now <= o.until

    def lazy(self, o, now):
        if not o.healthy and (o.until is None or now > o.until):
            o.healthy = True
            self.events.append(("recover", o.name, now))

    def eject_obj(self, o, now, dur, why):
        o.healthy, o.until = False, now + dur
        self.events.append((why, o.name, now))

    def apply(self, line, out):
        """Advance on one op and the implementation's answer; returns a dict describing it."""
        w = line.split()
        op = w[1]
        info = {"op": op}
        if op == "add":
            if out == "ok":
                o = Obj(self.nid, w[2], max(1, int(w[3])))
                self.nid += 1
                self.pool.append(o)
                self.objs[o.id] = o
        elif op == "remove":
            o = self.by_name(w[2])
            if o is not None:
                self.pool.remove(o)
        elif op == "strategy":
            if out == "ok":
                self.strategy = w[2]
        elif op == "eject":
            o = self.by_name(w[2])
            if o is not None:
                self.eject_obj(o, int(w[3]), int(w[4]), "eject")
        elif op == "probe":
            o = self.by_name(w[2])
            now = int(w[3])
            if o is not None:
                self.lazy(o, now)
                if o.healthy:
                    if w[4] != "ok":
                        self.eject_obj(o, now, self.eject_ns, "probe-eject")
                    else:
                        o.healthy = True
        elif op == "probe-begin":
            o = self.by_name(w[2])
            if o is not None:
                self.lazy(o, int(w[3]))
            self.pending_probe = w[2] if out == "started" else None
        elif op == "probe-end" and getattr(self, "pending_probe", None) != w[2]:
            pass
        elif op == "probe-end":
            self.pending_probe = None
            # the answer of a probe sent earlier: a failure ejects; a success never cuts a
            # running window short (the backend may have been ejected meanwhile)
            o = self.by_name(w[2])
            now = int(w[3])
            if o is not None:
                if w[4] != "ok":
                    self.eject_obj(o, now, self.eject_ns, "probe-eject")
                elif not self.in_window(o, now):
                    o.healthy = True
        elif op == "begin":
            now = int(w[3])
            self.tot["requests"] += 1
            info.update(now=now, tid=w[2], window=[o.name for o in self.pool if self.in_window(o, now)],
                        pool=[o.name for o in self.pool])
            if out.startswith("fwd "):
                name = unquote(out[4:])
                o = self.by_name(name)
                info["served"] = name
                info["served_obj"] = o
                if o is not None:
                    info["served_in_window"] = self.in_window(o, now)
                    self.lazy(o, now)
                    o.inflight += 1
                    o.sent += 1
                    self.sent_by_name[name] = self.sent_by_name.get(name, 0) + 1
                    self.flight[w[2]] = o
            elif out.startswith("resp "):
                info["status"] = int(out.split()[1])
        elif op == "end":
            now = int(w[3])
            o = self.flight.pop(w[2], None)
            info.update(now=now, tid=w[2], obj=o)
            if o is not None and out.startswith("done"):
                o.inflight -= 1
                res = w[4]
                failed = res in ("unreach", "abort") or (res.isdigit() and int(res) >= 500)
                info["failed"] = failed
                if res == "abort":
                    pass       # aborted exchanges do not feed the passive counter
                elif failed and self.passive:
                    self.cnt[o.name] = self.cnt.get(o.name, 0) + 1
                    info["count"] = self.cnt[o.name]
                    if self.cnt[o.name] >= self.thr:
                        self.eject_obj(o, now, self.eject_ns, "passive-eject")
                        self.cnt[o.name] = 0
                        info["ejected"] = True
        return info
