"""Configuration fidelity: what LoadConfig returns is what the file says (shared by the properties
whose statement is about configured values: C04, C06, C10, C17, C18).

`cfgfid <file>` (cmd/helios harness) compares LoadConfig(file) with a plain YAML decode of the same bytes.
The model's answer is always "same": `Cfg.validate` returns a verdict, never a changed configuration
(and Tie C's `Validate_refines` proves that of the translated `Validate`)."""
import os

BACKENDS = [
    ["web-1|http://10.0.0.1:80|1", "web-2|http://10.0.0.2:80|1", "web-3|http://10.0.0.3:80|1", "canary|http://10.0.0.9:80|1"],
    ["eu-west|http://10.1.0.1|2", "us-east|http://10.2.0.1|0", "ap-south|http://10.3.0.1|5", "eu-north|http://10.1.0.2|1"],
    ["b|http://h:1|3", "a|http://h:2|3"],
    ["only|http://127.0.0.1:9|0"],
    ["z9|http://z|1", "Z1|http://z|1", "m|http://z|1", "0|http://z|1", "_x|http://z|1"],
]
HEALTH = [
    "",
    "health_checks:\n  active:\n    enabled: true\n    interval: 10\n    timeout: 5\n    path: /health\n  passive:\n    enabled: true\n    unhealthy_threshold: 3\n    unhealthy_timeout: 30\n",
    # active checks only, with an ejection window and no threshold (not required while passive checks are off)
    "health_checks:\n  active:\n    enabled: true\n    interval: 5\n    timeout: 2\n    path: /healthz\n  passive:\n    enabled: false\n    unhealthy_timeout: 30\n",
    "health_checks:\n  active:\n    enabled: true\n    interval: 5\n    timeout: 2\n    path: /healthz\n",
    "health_checks:\n  passive:\n    enabled: true\n    unhealthy_threshold: 1\n    unhealthy_timeout: 7\n",
    "health_checks:\n  active:\n    enabled: false\n    interval: 3\n    timeout: 9\n  passive:\n    enabled: false\n    unhealthy_threshold: 0\n    unhealthy_timeout: 0\n",
]
LB = ["", "load_balancer:\n  strategy: ip_hash_consistent\n", "load_balancer:\n  strategy: weighted_round_robin\n  websocket_pool:\n    enabled: true\n    max_idle: 3\n    max_active: 7\n    idle_timeout_seconds: 11\n",
      "load_balancer:\n  strategy: least_connections\n  websocket_pool:\n    enabled: true\n"]
RL = ["", "rate_limit:\n  enabled: true\n  max_tokens: 7\n  refill_rate_seconds: 5\n", "rate_limit:\n  enabled: false\n  max_tokens: 3\n  refill_rate_seconds: 2\n"]
CB = ["", "circuit_breaker:\n  enabled: true\n  max_requests: 5\n  interval_seconds: 61\n  timeout_seconds: 59\n  failure_threshold: 1\n  success_threshold: 3\n",
      "circuit_breaker:\n  enabled: true\n  interval_seconds: 60\n  timeout_seconds: 60\n  failure_threshold: 5\n  success_threshold: 2\n",
      "circuit_breaker:\n  enabled: true\n  failure_threshold: 50\n  success_threshold: 1\n  interval_seconds: 1\n  timeout_seconds: 1\n"]
ADMIN = ["", "admin_api:\n  enabled: true\n  port: 9091\n  auth_token: 's3cr3t $x %41 '\n",
         "admin_api:\n  enabled: true\n  port: 9091\n  ip_allow_list:\n    - ''\n    - '  '\n",
         "admin_api:\n  enabled: true\n  port: 9091\n  ip_allow_list:\n    - ' 10.0.0.0/8'\n    - '10.0.0.0/8'\n    - '192.168.1.5 '\n  ip_deny_list:\n    - '203.0.113.0/28'\n    - '203.0.113.0/24'\n    - ''\n"]
LOGGING = ["", "logging:\n  format: json\n", "logging:\n  level: warn\n  format: console\n  request_id:\n    enabled: true\n    header: X-B3-ReqId.v2\n  trace:\n    enabled: true\n    header: X-B3-TraceId\n",
           "logging:\n  level: debug\n  include_caller: true\n  request_id:\n    enabled: true\n"]
PLUGINS = ["", "plugins:\n  enabled: true\n  chain:\n    - name: logging\n    - name: size_limit\n      config:\n        max_request_body: 1000\n        max_response_body: 5000\n    - name: gzip\n      config:\n        level: 5\n        min_size: 1024\n        content_types:\n          - text/html\n          - application/json\n    - name: headers\n      config:\n        set:\n          X-Via: helios\n",
           # entries a later stage refuses (start-up fails closed on them): loading must hand them on as they are
           "plugins:\n  enabled: true\n  chain:\n    - nmae: custom-auth\n      config:\n        apiKey: k1\n    - name: '  '\n    - name: logging\n",
           "plugins:\n  enabled: true\n  chain:\n    - name: ' custom-auth'\n      config:\n        apiKey: ' k 1 '\n    - name: custom-auth\n      config:\n        apiKey: k2\n",
           "plugins:\n  enabled: false\n  chain:\n    - name: gzip\n"]


def render(rng, pad_to=0, pad_where="head"):
    be = rng.choice(BACKENDS)
    y = "server:\n  port: %d\n  timeouts:\n    read: %d\n    handler: %d\n    backend_read: %d\n" % (rng.choice([8080, 1, 65535]), rng.choice([0, 15, 7]), rng.choice([0, 30, 1]), rng.choice([0, 30, 3]))
    y += "backends:\n" + "".join("  - name: '%s'\n    address: %s\n    weight: %s\n" % tuple(b.split("|")) for b in be)
    body = [rng.choice(LB), rng.choice(HEALTH), rng.choice(RL), rng.choice(CB), rng.choice(ADMIN), rng.choice(LOGGING)]
    rng.shuffle(body)
    tail = rng.choice(PLUGINS)
    text = y + "".join(body)
    if pad_to and pad_where == "head":
        line = "# " + "padding " * 9 + "\n"
        text = line * max(0, (pad_to - len(text) - len(tail)) // len(line) + 1) + text
    text += tail
    if pad_to and pad_where == "exact":
        # make byte `pad_to` the first byte of the last chain entry (a reader that stops there drops it silently)
        cut = text.rfind("    - name")
        if cut > 0 and cut < pad_to:
            text = "#" + "p" * (pad_to - cut - 2) + "\n" + text
    return text


def episodes(ctx, n):
    eps = []
    for i in range(n):
        kind = i % 7
        text = render(ctx.rng, pad_to=[0, 0, 4096 + ctx.rng.choice([1, 500, 5000]), 4096, 8192, 65536, 65536 + ctx.rng.choice([3000, 200000])][kind],
                      pad_where=["head", "head", "head", "exact", "exact", "exact", "head"][kind])
        path = ctx.path("fid_%d.yaml" % i)
        with open(path, "w", encoding="utf-8") as f:
            f.write(text)
        eps.append(["cfgfid " + path])
    return eps


def oracle(ep, outs):
    o = outs[0] if outs else ""
    if o == "same":
        return []
    path = ep[0].split()[1]
    size = os.path.getsize(path) if os.path.exists(path) else -1
    if o.startswith("rejected:"):
        return ["a configuration made of documented values (%d bytes) is rejected: %s (%s)" % (size, o[:200], path)]
    if o.startswith("DIFF"):
        return ["LoadConfig hands on a configuration that differs from the file (%d bytes): %s (%s)" % (size, o[:300], path)]
    return ["unexpected answer %r (%s)" % (o[:100], path)]


def check(ctx, d, n=None):
    """run with a Differential built on the cmd/helios harness binary"""
    eps = episodes(ctx, n or (60 if ctx.thorough() else 15))
    d.check(eps, oracle=oracle, label="config-fidelity")
    ctx.cov["config_fidelity_files"] = len(eps)
