"""Per-property manifest texts (source of MANIFEST.json, see bin/mkmanifest)."""

CHECKS = {
    "C09": {
        "text": "Lean theorems over the token-bucket model for all configurations, clients, time-ordered histories and windows (sharp window bound by a potential function, burst bound, isolation by projection, fresh-client and idle-refill guarantees); tied to ratelimiter.go by a differential run of the real limiter under a virtual clock against the compiled model, plus the property oracle on the implementation's own outputs.",
        "note": "Trusted: Lean kernel (axioms propext, Classical.choice, Quot.sound only); the virtual-clock overlay rewrite; generators (coverage reported in evidence). sync.Map/sync.Mutex semantics assumed; concurrency argued per bucket critical section.",
        "technique": "Lean 4 proof (induction + potential-function invariant) + differential correspondence",
    },
}

NOT_APPLICABLE = {}
