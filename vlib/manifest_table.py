"""Per-property manifest texts (source of MANIFEST.json, see bin/mkmanifest)."""

CHECKS = {
    "C09": {
        "text": "Lean theorems over the token-bucket model for all configurations, clients, time-ordered histories and windows (sharp window bound by a potential function, burst bound, isolation by projection, fresh-client and idle-refill guarantees); tied to ratelimiter.go by a differential run of the real limiter under a virtual clock against the compiled model, plus the property oracle on the implementation's own outputs.",
        "note": "Trusted: Lean kernel (axioms propext, Classical.choice, Quot.sound only); the virtual-clock overlay rewrite; generators (coverage reported in evidence). sync.Map/sync.Mutex semantics assumed; concurrency argued per bucket critical section.",
        "technique": "Lean 4 proof (induction + potential-function invariant) + differential correspondence",
    },
    "C01": {
        "text": "Lean theorems over the writer model: whatever a backend handler does (any sequence of header edits, 1xx and final WriteHeader calls, writes, flushes; HEAD or not) its net/http server puts a well-formed wire response on the wire (wire_ok, invariant over all op sequences); replaying such a response into another net/http server reproduces it exactly - status, headers, body pieces, framing error (replay); through the balancer's writer, the ID-header writer and ReverseProxy's contract the client of Helios therefore receives the backend's status, body and short-body error unchanged, every header other than the ID headers with the backend's value, the enabled ID headers with the identifier in force - also after 1xx interim responses wiped the header map - and every body piece flushed as soon as written (via_transparent, replay_flushes); the middleware forwards every request header unchanged except the ID headers (request_preserved). The pass-through configuration the model assumes (FlushInterval -1, DisableCompression, the balancer's writer only overrides WriteHeader/Flush/Hijack/Unwrap and forwards the status, handler composition order, every wrapper passes Flush/Hijack on) is re-derived from the source on every run. Tied to the code by a wire differential: every exchange is made twice over raw TCP, directly to a scripted real backend and through the real cmd/helios front end on a listener, compared header by header, byte by byte, framing and first-byte timing included, and against the model's prediction.",
        "note": "Trusted: Lean kernel; httputil.ReverseProxy's contract (rpOps) and net/http's server are parameters of the model validated by every exchange; TCP/TLS/HTTP2 outside the model; one recorded finding (empty un-lengthed response re-framed as Content-Length: 0, a race inside ReverseProxy).",
        "technique": "Lean 4 proof (invariant over all writer-op sequences + replay idempotence) + regenerated facts + wire-level differential correspondence",
    },
    "C02": {
        "text": "Lean theorems dispatch_sound / dispatch_complete / no_503_while_healthy over the model of ServeHTTP's dispatch path, for all five strategies and every pool, health, rotation, gauge and current-weight state; tied to the code by a differential run of the real LoadBalancer (scripted in-process transports, virtual clock) against the compiled model, with an independent window-bookkeeping oracle on the implementation's answers and a small-scope sweep of strategies x pool sizes x ejected subsets.",
        "note": "Trusted: Lean kernel; overlay clock rewrite; harness/generators. Guards stated in the theorem: no wrap of the 64-bit RR counter within one turn, gauges < MaxInt32. Dispatch is modelled sequentially; concurrent ejection racing a dispatch is out of this check.",
        "technique": "Lean 4 proof (per-strategy choice lemmas by induction) + differential correspondence + trace oracle",
    },
    "C06": {
        "text": "Lean theorems for all 2^64 keys and all pool sizes (jump_range, jump_monotone, no int64 overflow), affinity as a function of (address key, eligible list) only, source-port independence via a byte-level model of net.SplitHostPort, validity of the chosen index and append_minimal for every pool/health state; tied to the code by value-for-value comparison of jumpHash/FNV-1a with the Go functions and by differential + metamorphic runs of the real hash strategies.",
        "note": "Trusted: Lean kernel; hash/fnv and net.SplitHostPort are modelled by hand and validated by the differential run only.",
        "technique": "Lean 4 proof (induction on the jump loop; byte-string lemmas) + differential correspondence",
    },
    "C07": {
        "text": "Lean theorems over a begin/end model of the breaker (every overlap of concurrent requests at critical-section granularity): trips after failure_threshold failures without a gap > interval, rejects everything while open, at most max_requests trials per half-open episode for any number of concurrent callers, closes only after success_threshold trial successes, any trial failure re-opens, stale completions ignored; tied to circuitbreaker.go by a differential run with overlapping Execute calls under the virtual clock and an independent oracle on Execute results/State()/Counts().",
        "note": "Trusted: Lean kernel; sync.RWMutex gives atomicity of each critical section (the model's step granularity); uint32 counters do not wrap. System-level wiring (which proxied outcomes count as failures) is checked by the C13/C03 correspondence of the LB model.",
        "technique": "Lean 4 proof (invariant/potential over event histories) + differential correspondence",
    },
    "C08": {
        "text": "Lean theorem never_stuck: for every configuration with 1 <= success_threshold <= max_requests and every state reachable by any history (inductive invariant inv_run), once the timeout has elapsed success_threshold successful requests are all admitted and leave the breaker closed; accepted_config_live shows validation+defaulting yield such configurations. Tied to the code by running the recovery script on the real breaker from every generated history.",
        "note": "Trusted: Lean kernel; the validator relation is exercised by the C18 check; non-blocking notifications rely on the callback running after unlock (harness callback re-enters the breaker, so a regression hangs and is reported).",
        "technique": "Lean 4 proof (inductive invariant + measure argument) + differential correspondence",
    },
    "C03": {
        "text": "Lean theorems: from ANY balancer state (the theorem quantifies over every strategy, pool, health flag, gauge, rotation position, passive counter, breaker and limiter state - i.e. after any fault history) a request the three gates admit is forwarded to a backend outside its unhealthy window (recovers, from C02's dispatch theorems); the breaker gate opens by itself once its timeout has elapsed with nothing in flight, for every validated configuration (breaker_gate_opens, from C08's invariant); faults cannot skew the gauges or the accounting (C13 conservation theorems); no fault sequence can deadlock the mutexes (C12 lockorder_sound with the regenerated lock-order and no-callback-under-lock facts); every transport / dialer / server timeout is set to a non-zero value on every construction path and the end-to-end handler deadline is applied (fact timeouts_set, regenerated). Tied to the running code by fault sequences over a 10-fault alphabet (backend and client side) against the real front end with a raw-TCP backend: every faulted request must end within the configured timeouts, and 1.3 s after the sequence a clean request must be answered 200 with gauges at zero, accounting consistent and no goroutine growth.",
        "note": "Trusted: Lean kernel; net/http's deadline machinery (the socket-level half of the property: partial by nature); wall-clock slack in the fault runs; goroutine leaks observed, not proved.",
        "technique": "Lean 4 proof (recovery from every state, composed from C02/C08/C13/C12 theorems) + regenerated facts + fault-sequence runs of the real front end",
    },
    "C04": {
        "text": "Lean theorems over the LB model: passive ejection exactly at unhealthy_threshold (counter restarts), non-failing completions never touch health, failed probe ejects / successful probe never ejects, no traffic inside the window (dispatch_sound), eligibility and no-503 once the window elapsed under every strategy without probes, lazy expiry flips flag and mirror, mirror never shows an ejected backend healthy across ejections and expiries; tied to the code by differential histories over the event alphabet for thresholds 1..4 and all strategies with a recovery phase, listing/metrics read after most steps.",
        "note": "Trusted: Lean kernel; overlay clock; sequential histories only (the racing schedules of the property are repaired in /repo and exercised by the race-detector workload of C12, not enumerated). Mirror invariant proved per health operation, not yet closed over whole histories.",
        "technique": "Lean 4 proof (step theorems + invariant lemmas) + differential correspondence + trace oracle",
    },
    "C05": {
        "text": "Lean theorems: round_robin gives every backend exactly k of any n*k consecutive picks from any rotation position (no 64-bit wrap), which as a sequence of atomic increments covers every interleaving; least_connections picks an eligible backend with minimal gauge; weights < 1 count as 1. weighted_round_robin over a stable candidate set: for every number of candidates and every weight vector the running weights sum to zero and stay above -sum(w), in the first sum(w) picks from a fresh pool candidate j is picked exactly w[j] times and the pool is fresh again (wrr_exact, wrr_period), hence in EVERY window of sum(w) consecutive picks at any offset j is picked exactly w[j] times (wrr_window); the abstract step is what the model of NextBackend computes on all-eligible pools (core_refines). The drift bound after arbitrary membership/health histories, and pools with ineligible members interleaved, are evaluated by the independent oracle on the real strategy (all weight vectors 0..6, n<=4, in the thorough tier, and random histories).",
        "note": "Trusted: Lean kernel; harness. The weighted clauses are currently decided by exhaustive small-scope differential + oracle, not by a theorem (stated in evidence).",
        "technique": "Lean 4 proof (counting lemmas over residues; scan invariant) + differential correspondence + trace oracle",
    },
    "C11": {
        "text": "Lean theorems over the atomic admin steps of the LB model: successful add is listed with normalised weight and eligible; failed add/switch change nothing; names stay unique; after remove no backend of that name is in the pool (swap-with-last removal proved a permutation of erasing the slot) and all others stay; a strategy switch keeps the listing, windows and identities. Tied to the code by differential histories with repeated/absent names, bad addresses and unknown strategies against an abstract name->weight map.",
        "note": "Trusted: Lean kernel; atomicity of each admin operation rests on the balancer write lock held for the whole body (source fact); concurrent admin actors are exercised under -race in C12 only.",
        "technique": "Lean 4 proof (refinement lemmas on list operations) + differential correspondence",
    },
    "C12": {
        "text": "Lean theorems over a dynamic model of goroutines, sync.Mutex/RWMutex and shared locations, for any number of goroutines, any programs and every interleaving: if every access holds its location's guard (write mode to write) no data race is reachable (lockset_sound); if locks are acquired in strictly increasing rank and released, no reachable state is stuck (lockorder_sound). Their hypotheses are established for the current source by a lockset / lock-order analysis regenerated on every run (go/types; 1000+ access rows with must-hold sets through helper calls, freshness of unpublished objects, may-hold edges through interface and cross-package calls) and kernel-checked against a hand-written guard policy and lock ranking (accesses_guarded, lock_order_ranked, no_callback_under_lock, lock_classes_ranked, lock_analysis_clean). Race-detector builds of the whole cmd/helios composition under client / admin / metrics / probe / Stop load and of the WebSocket pool search for a concrete failing schedule and cross-check the analysis.",
        "note": "Trusted: Lean kernel; the analyser's soundness and its freshness/confinement/snapshot/start-up classifications (listed in the evidence assumptions); Go memory model. The race detector only searches; it never stands in for the theorem.",
        "technique": "Lean 4 proof (lockset + lock-order soundness over all interleavings) + regenerated static lock facts checked by decide +kernel + race-detector workloads as search",
    },
    "C13": {
        "text": "Lean theorem conserved_run: for every history of overlapping request begins/ends (all outcome classes incl. aborted, limiter/breaker rejections, no-backend), admin operations, ejections and probes, total = successful + failed + rate_limited + in_flight; at quiescence the counters add up; gauges are zero when idle given the gauge invariant. Tied to the code by differential runs through the real ServeHTTP/ReverseProxy with scripted transports and by comparing /metrics and listing numbers with the clients' and backends' own tallies.",
        "note": "Trusted: Lean kernel; harness. The per-object gauge invariant (GaugeOK) is stated and used but its preservation is checked by the correspondence, not yet proved.",
        "technique": "Lean 4 proof (inductive invariant over operation histories) + differential correspondence + trace oracle",
    },
    "C10": {
        "text": "Lean theorems over the decision function of the admin mux: the credential check passes exactly for 'Bearer <token>' (bearer_exact, auth_exact), only /v1/health is open (route table), refused requests run no handler and change nothing, the IP stage passes iff the peer parses, is in no deny entry and the allow list is empty or contains it (ip_policy), deny wins, unparsable peers and malformed lists are refused, and no client header is an input of the decision. Tied to the code by differential requests against the real NewMux over a real balancer with state digests before/after each request and an independent oracle.",
        "note": "Trusted: Lean kernel; net.ParseIP/ParseCIDR/Contains (model works on parsed values rendered by the generator); net/http.ServeMux routing; route table mirrored by hand and exercised route by route.",
        "technique": "Lean 4 proof (decision logic stated outright) + differential correspondence + trace oracle",
    },
    "C14": {
        "text": "Lean theorems over the transducer model of limitedResponseWriter and the request gate: at most max_response_body body bytes are ever passed down (resp_bounded, every op sequence), 413 when the excess shows before anything was sent, responses within the limit go through as exactly the same operations for every status >= 200 incl. bodiless ones, every write partition and flush placement (explicit status) or indistinguishably (implicit 200), declared lengths above max_request_body are answered 413 before anything inner runs and the backend can read at most the limit. Tied to the code by pairs of real HTTP exchanges with/without the plugin on a real net/http server.",
        "note": "Trusted: Lean kernel; the Base model of net/http's server side (validated against the real server on every run); transparency is for handlers that call WriteHeader once and not after writing.",
        "technique": "Lean 4 proof (transducer invariants, simulation by list equality) + differential correspondence on real connections",
    },
    "C15": {
        "text": "Lean theorems over the transducer model of gzipResponseWriter: for every operation sequence and configuration the bytes passed down (gzip members counted as their decoded content) are exactly the handler's body bytes in order, below and above the buffering cap (payload_preserved); exactly one status line, the backend's (status_preserved); a gzip member is emitted only if non-empty, not already encoded, >= min_size (also by declared length), content type matches, within the cap, and then Content-Encoding is set and Content-Length dropped before the status line (compress_only_if); otherwise no header is touched (identity_otherwise); clients not listing gzip bypass the plugin. Tied to the code by real exchanges decoded by the client according to the headers it received.",
        "note": "Trusted: Lean kernel; compress/gzip round-trip (the client really decodes); Base model of net/http validated on every run; Accept-Encoding tokenisation mirrored by hand and exercised with 11 spellings.",
        "technique": "Lean 4 proof (payload invariant over all op sequences) + differential correspondence on real connections",
    },
    "C17": {
        "text": "Lean theorems over the chain model: for every chain (any length) whose plugins do not reject, entry order is the configured order, the backend runs once, exit order is reversed (chain_order, chain_order_general through transforming plugins); a rejecting custom-auth / size_limit stops the request before every later plugin and the backend (reject_stops); BuildChain is all-or-nothing: a chain exactly when every entry is a known plugin with a valid configuration, else no handler (startup_fail_closed, unknown_plugin_fails). Tied to the code by real exchanges through chains with tracing probes and by BuildChain on valid/invalid option payloads in YAML typings.",
        "note": "Trusted: Lean kernel; the factories' option parsing is mirrored by hand (validated by the differential); buildHandler/main propagate the error (glue read, not modelled).",
        "technique": "Lean 4 proof (induction on the chain) + differential correspondence",
    },
    "C16": {
        "text": "Lean theorems over the model of RequestContextMiddleware: with a feature enabled the response carries the header and its value equals what is forwarded to the backend; a supplied non-blank identifier is propagated unchanged; a missing/blank one is generated; disabled means untouched; generated identifiers are an injective function of the 12 random bytes; the header set before the chain survives every inner response path that does not overwrite it (Base writer model). Tied to the code by differential requests through the real buildHandler composition (plugins -> middleware -> balancer) with a real backend reporting what it saw, over the 200/401/413/429/503 paths and default/custom header names.",
        "note": "Trusted: Lean kernel; crypto/rand yields distinct draws (assumption; duplicates among observed IDs are counted by the harness); HTTP/1.1 trims SP/HTAB around values before handlers see them (emulated by the harness); chains containing the `request-id` plugin (overwrites by design) are excluded.",
        "technique": "Lean 4 proof (decision logic; injectivity of hex encoding; header-survival invariant) + differential correspondence",
    },
    "C18": {
        "text": "Lean theorem validate_iff_documented: the first-error validator accepts a configuration iff the declaratively stated documented constraints hold, section by section, for every combination; validate_first gives the reported rule as the first violated one; the breaker relation needed by C08 follows from acceptance; the shipped helios.yaml as a Lean value is accepted. Tied to the code by loading YAML assembled from per-section valid/invalid variants with the real LoadConfig (exact first-error id compared), starting NewLoadBalancer/buildHandler/createHTTPServer in-process, plugin options in YAML typings, and by loading helios.yaml, helios.docker.yaml and every complete README configuration on every run.",
        "note": "Trusted: Lean kernel; yaml.v3 decoding; Documented transcribed from README/docs by hand; listeners/TLS files not exercised.",
        "technique": "Lean 4 proof (rule list vs declarative constraints) + differential correspondence",
    },
    "C19": {
        "text": "Lean theorems over a small-step model of the health-check loop, its probe fan-out and any number of concurrent Stop callers, for every interleaving: WaitGroup.Add is never concurrent with a Wait at counter zero (stop_safe: the loop has exited before anyone waits), Stop is never stuck - some goroutine can always step until every Stop has returned (stop_no_deadlock), when a Stop has returned no probe is in flight and none starts later (inv_step/inv_reach), the pool closes what it retains and stays closed (C20 theorems). That the code performs these critical actions in this order (cancel, wait for loop exit, wait for probes, then pool shutdown; only the loop goroutine calls Add; probes are bound to the context) is re-derived from the source on every run (fact shutdown_protocol). Tied to the running code by real balancers with active checks stopped at sampled instants by 1..4 goroutines, observing probes at the transport.",
        "note": "Trusted: Lean kernel; fair scheduling; http.Server.Shutdown drains in-flight client requests (stdlib; order re-derived as gracefulSequence); implementation runs sample Stop placements on the wall clock, the theorem covers all of them.",
        "technique": "Lean 4 proof (invariant over all interleavings of a small-step protocol model) + regenerated facts + scenario runs of the real Stop",
    },
    "C20": {
        "text": "Lean theorems over the pool model: Get never returns a connection idle longer than idle_timeout (takeFresh_spec, get_fresh), a connection handed out is no longer idle in that pool (get_exclusive), every pool holds at most max_idle idle connections after every operation (idle_bounded), Shutdown closes everything retained and afterwards nothing is ever retained again - a late Put closes the connection (shutdown_closes_all, down_forever); every ResponseWriter wrapper passes Hijack on (writer facts regenerated from the source). Tied to the code by differential pool histories with fake connections under the virtual clock, an independent holder/idle bookkeeping oracle, and real WebSocket sessions through 9 plugin chains on real sockets.",
        "note": "Trusted: Lean kernel; sequential pool histories (concurrent Put/Shutdown is exercised under -race in C12); the byte relay of an upgraded connection is httputil.ReverseProxy's (stdlib), validated by the sessions only.",
        "technique": "Lean 4 proof (list invariants of the LIFO pool) + regenerated facts + differential correspondence",
    },
}

NOT_APPLICABLE = {}


# What was added after the first version of each check (kept as addenda so that the original
# claims stay readable): later theorems, the translated-code tie (Tie C, DESIGN §0.7) and the
# observations added by the seeded-change rounds.
ADDENDA = {
    "C01": " Later: rec_transparent (the logging recorder); the front end is also run with breaker / limiter / passive and active checks / logging plugin switched on, and with 4-12 concurrent exchanges whose every byte is checked.",
    "C02": " Later: Backend.eligible is translated from the source on every run and proved equal to the model's eligibility (eligible_refines); histories include probes failing in transport, upgrade offers, 100+ requests in flight and requests reaching a removed backend object.",
    "C03": " Later: recovers_by_time, rlGate_admits; lock_analysis_clean (no lock still held at a return); slow-but-healthy probes racing passive ejections, the breaker with default max_requests, interim-then-5xx and upgrade-offer faults.",
    "C04": " Later: the mirror invariant is closed over whole histories (mirror_ok_run); eject_survives_expiry_check; the Go functions of the state machine (MarkBackendUnhealthy, IsBackendHealthy, handleHealthCheckFailure, processHealthCheckResponse, handlePassiveHealthCheck) are translated from the source on every run and proved equal to the model steps for every record, counter map and instant (Tie C).",
    "C05": " Later: wrr_exact / wrr_period / wrr_window / wrr_drift for every weight vector, core_refines_elig and reset_fresh (the weighted clauses after arbitrary histories); histories with persistent ejections, same-size swaps and strategy switches with requests in flight.",
    "C06": " Later: jumpHash is translated from the source with Go's exact machine integers and proved equal to the unbounded model for every key and bucket count (jumpHash_refines); concurrent per-client affinity; strategy switches; names not in lexicographic order.",
    "C07": " Later: beforeRequest / afterRequest / setState are translated from the source on every run and proved equal to the model's begin / end_ for every state and instant (Tie C); the breaker as wired into the real front end (three failures of any kind, also behind a 1xx; next request, also an upgrade offer, refused without reaching the backend).",
    "C08": " Later: same translated-code tie; lock-order and no-callback-under-lock facts; notifyrace; accepted values are read back from the running breaker (lb wire) with an oracle independent of the model.",
    "C09": " Later: refillTokens / Allow translated from the source and proved equal to the model (Go's truncating division, clock stepping back); upgrade offers at the gate; a crowd of other clients between two requests of one client.",
    "C10": " Later: every HTTP method, IPv6 hosts and neighbours of listed entries, Validate run before the mux is built, start-up leaves the configuration object untouched.",
    "C11": " Later: simultaneous adds of one name, replace-under-the-same-name with traffic, removed-object detection.",
    "C12": " Later: package-level variables and mutating calls on foreign-typed fields are rows too; a lock still held at a return is a reported problem; exchanges that run into the handler timeout under the race detector.",
    "C13": " Later: gauge_ok_run / gauges_zero_run (the gauge invariant over whole histories, keyed by object identity); per-backend books checked after every concurrent wave.",
    "C14": " Later: several exchanges through one plugin instance compared with a fresh instance; the plugin where buildHandler puts it; bodies with any method.",
    "C15": " Later: over-cap and streaming exchanges; one plugin instance across exchanges incl. cut ones and an over-cap response.",
    "C16": " Later: upgrade offers; backends that stamp identifiers of their own; concurrent generation bursts.",
    "C17": " Later: the chain as buildHandler composes it (front-end episodes); degenerate-but-accepted auth keys; nameless entries; sessions through one instance.",
    "C18": " Later: range rules and accepted_values_fit (accepted values survive the uint32 / time.Duration conversions), metrics-path rules; every configured number read back from the running balancer and server; start-up keeps configuration and log level; string values survive loading byte for byte.",
    "C19": " Later: gracefulStopAlways in shutdown_protocol; the process-level shutdown with the drain finishing and timing out; Put and the janitor pass at the moment of Shutdown.",
    "C20": " Later: wshold variants; pool numbers as wired from the configuration; pool concurrency searches.",
}
for _k, _v in ADDENDA.items():
    if _k in CHECKS:
        CHECKS[_k] = dict(CHECKS[_k], text=CHECKS[_k]["text"] + _v)
CHECKS["C04"] = dict(CHECKS["C04"], note=CHECKS["C04"]["note"].replace(" Mirror invariant proved per health operation, not yet closed over whole histories.", "") +
                     " Tie C trusts the translator's fragment and semantic choices (DESIGN §6).",
                     technique="Lean 4 proof (step theorems + whole-history invariant + refinement of the translated Go functions) + differential correspondence + trace oracle")
for _k in ("C02", "C06", "C07", "C08", "C09"):
    CHECKS[_k] = dict(CHECKS[_k], technique=CHECKS[_k]["technique"] + " + refinement proof of the Go functions translated from the source on every run")
