"""Per-property manifest texts (source of MANIFEST.json, see bin/mkmanifest)."""

CHECKS = {
    "C09": {
        "text": "Lean theorems over the token-bucket model for all configurations, clients, time-ordered histories and windows (sharp window bound by a potential function, burst bound, isolation by projection, fresh-client and idle-refill guarantees); tied to ratelimiter.go by a differential run of the real limiter under a virtual clock against the compiled model, plus the property oracle on the implementation's own outputs.",
        "note": "Trusted: Lean kernel (axioms propext, Classical.choice, Quot.sound only); the virtual-clock overlay rewrite; generators (coverage reported in evidence). sync.Map/sync.Mutex semantics assumed; concurrency argued per bucket critical section.",
        "technique": "Lean 4 proof (induction + potential-function invariant) + differential correspondence",
    },
    "C02": {
        "text": "Lean theorems dispatch_sound / dispatch_complete / no_503_while_healthy over the model of ServeHTTP's dispatch path, for all five strategies and every pool, health, rotation, gauge and current-weight state; tied to the code by a differential run of the real LoadBalancer (scripted in-process transports, virtual clock) against the compiled model, with an independent window-bookkeeping oracle on the implementation's answers and a small-scope sweep of strategies x pool sizes x ejected subsets.",
        "note": "Trusted: Lean kernel; overlay clock rewrite; harness/generators. Guards stated in the theorem: no wrap of the 64-bit RR counter within one turn, gauges < MaxInt32. Dispatch is modelled sequentially; concurrent ejection racing a dispatch is out of this check.",
        "technique": "Lean 4 proof (per-strategy choice lemmas by induction) + differential correspondence + trace oracle",
    },
    "C06": {
        "text": "Lean theorems for all 2^64 keys and all pool sizes (jump_range, jump_monotone, no int64 overflow), affinity as a function of (address key, eligible list) only, source-port independence via a byte-level model of net.SplitHostPort, validity of the chosen index and append_minimal for every pool/health state; tied to the code by value-for-value comparison of jumpHash/FNV-1a with the Go functions and by differential + metamorphic runs of the real hash strategies.",
        "note": "Trusted: Lean kernel; hash/fnv and net.SplitHostPort are modelled by hand and validated by the differential run only.",
        "technique": "Lean 4 proof (induction on the jump loop; byte-string lemmas) + differential correspondence",
    },
    "C07": {
        "text": "Lean theorems over a begin/end model of the breaker (every overlap of concurrent requests at critical-section granularity): trips after failure_threshold failures without a gap > interval, rejects everything while open, at most max_requests trials per half-open episode for any number of concurrent callers, closes only after success_threshold trial successes, any trial failure re-opens, stale completions ignored; tied to circuitbreaker.go by a differential run with overlapping Execute calls under the virtual clock and an independent oracle on Execute results/State()/Counts().",
        "note": "Trusted: Lean kernel; sync.RWMutex gives atomicity of each critical section (the model's step granularity); uint32 counters do not wrap. System-level wiring (which proxied outcomes count as failures) is checked by the C13/C03 correspondence of the LB model.",
        "technique": "Lean 4 proof (invariant/potential over event histories) + differential correspondence",
    },
    "C08": {
        "text": "Lean theorem never_stuck: for every configuration with 1 <= success_threshold <= max_requests and every state reachable by any history (inductive invariant inv_run), once the timeout has elapsed success_threshold successful requests are all admitted and leave the breaker closed; accepted_config_live shows validation+defaulting yield such configurations. Tied to the code by running the recovery script on the real breaker from every generated history.",
        "note": "Trusted: Lean kernel; the validator relation is exercised by the C18 check; non-blocking notifications rely on the callback running after unlock (harness callback re-enters the breaker, so a regression hangs and is reported).",
        "technique": "Lean 4 proof (inductive invariant + measure argument) + differential correspondence",
    },
}

NOT_APPLICABLE = {}
