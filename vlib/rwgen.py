"""Generator for `rw …` exchanges through the plugin chain (C14, C15, C17, C01 wrappers)."""
from .lbgen import enc

CTS = ["text/plain", "text/html; charset=utf-8", "application/json", "image/png", "text/css"]
STATUSES = [200, 200, 200, 201, 204, 206, 301, 302, 304, 400, 404, 500, 503]
AES = ["gzip", "gzip, deflate, br", "deflate, gzip", "br", "-", "GZIP", "gzip;q=1.0", " gzip ", "x-gzip", "deflate,gzip,br", "identity"]


def partition(rng, total, maxparts=6):
    if total == 0:
        return [0] if rng.random() < 0.3 else []
    k = rng.randint(1, maxparts)
    cuts = sorted(rng.randint(0, total) for _ in range(k - 1))
    parts, prev = [], 0
    for c in cuts + [total]:
        parts.append(c - prev)
        prev = c
    return parts


def response_ops(rng, total=None, status=None, ct=None, with_cl=None, late_headers=True):
    ops = []
    ct = ct or rng.choice(CTS)
    ops.append("sh:Content-Type:%s" % enc(ct))
    if total is None:
        total = rng.choice([0, 0, 1, 5, 50, 99, 100, 101, 600, 1023, 1024, 1025, 5000])
    if with_cl is None:
        with_cl = rng.random() < 0.35
    if with_cl:
        # a declared length may be too large (short body) but never smaller than what is written:
        # behind ReverseProxy the inner handler cannot write more than the backend declared (the
        # transport cuts the body at Content-Length), and net/http then rejects whole Write calls,
        # which makes the outcome depend on how writes are grouped - not a property of the plugins
        cl = total if rng.random() < 0.9 else total + rng.choice([1, 10])
        ops.append("sh:Content-Length:%d" % cl)
    if rng.random() < 0.08:
        ops.append("sh:Content-Encoding:%s" % rng.choice(["br", "gzip", "identity"]))
    if rng.random() < 0.3:
        ops.append("sh:X-V-K:%s" % rng.choice(["v1", "a%20b", "z"]))
    if rng.random() < 0.05:
        ops.append("wh:103")
    status = status if status is not None else rng.choice(STATUSES)
    explicit = rng.random() < 0.7 or status != 200
    if explicit:
        ops.append("wh:%d" % status)
        if late_headers and rng.random() < 0.06:
            ops.append("sh:X-V-Late:1")
        if rng.random() < 0.03:
            ops.append("wh:%d" % rng.choice(STATUSES))
    if rng.random() < 0.15:
        ops.append("fl")
    seed = rng.randint(0, 250)
    for p in partition(rng, total):
        ops.append("w:%d:%d" % (p, seed))
        seed = (seed + p) % 251
        if rng.random() < 0.2:
            ops.append("fl")
    if rng.random() < 0.1:
        ops.append("fl")
    return ops


def line(chain, method, ae, key, reqlen, mode, ops):
    return "rw %s %s %s %s %d %s %s" % (chain or "none", method, enc(ae) if ae != "-" else "-", key, reqlen, mode, ";".join(ops) or "fl")
