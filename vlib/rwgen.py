"""Generator for `rw …` exchanges through the plugin chain (C14, C15, C17, C01 wrappers)."""
from .lbgen import enc

CTS = ["text/plain", "text/html; charset=utf-8", "application/json", "image/png", "text/css", "text/event-stream", "application/x-ndjson"]
STATUSES = [200, 200, 200, 201, 204, 206, 301, 302, 304, 400, 404, 500, 503]
AES = ["gzip", "gzip, deflate, br", "deflate, gzip", "br", "-", "GZIP", "gzip;q=1.0", " gzip ", "x-gzip", "deflate,gzip,br", "identity"]


def partition(rng, total, maxparts=6):
    if total == 0:
        return [0] if rng.random() < 0.3 else []
    k = rng.randint(1, maxparts)
    cuts = sorted(rng.randint(0, total) for _ in range(k - 1))
    parts, prev = [], 0
    for c in cuts + [total]:
        parts.append(c - prev)
        prev = c
    return parts


def response_ops(rng, total=None, status=None, ct=None, with_cl=None, late_headers=True):
    ops = []
    ct = ct or rng.choice(CTS)
    ops.append("sh:Content-Type:%s" % enc(ct))
    if total is None:
        total = rng.choice([0, 0, 1, 5, 50, 99, 100, 101, 600, 1023, 1024, 1025, 5000])
    if with_cl is None:
        with_cl = rng.random() < 0.35
    if with_cl:
        # a declared length may be too large (short body) but never smaller than what is written:
        # behind ReverseProxy the inner handler cannot write more than the backend declared (the
        # transport cuts the body at Content-Length), and net/http then rejects whole Write calls,
        # which makes the outcome depend on how writes are grouped - not a property of the plugins
        cl = total if rng.random() < 0.9 else total + rng.choice([1, 10])
        ops.append("sh:Content-Length:%d" % cl)
    if rng.random() < 0.08:
        ops.append("sh:Content-Encoding:%s" % rng.choice(["br", "gzip", "identity"]))
    if rng.random() < 0.3:
        ops.append("sh:X-V-K:%s" % rng.choice(["v1", "a%20b", "z"]))
    if rng.random() < 0.05:
        ops.append("wh:103")
    status = status if status is not None else rng.choice(STATUSES)
    explicit = rng.random() < 0.7 or status != 200
    if explicit:
        ops.append("wh:%d" % status)
        if late_headers and rng.random() < 0.06:
            ops.append("sh:X-V-Late:1")
        if rng.random() < 0.03:
            ops.append("wh:%d" % rng.choice(STATUSES))
    if rng.random() < 0.15:
        ops.append("fl")
    seed = rng.randint(0, 250)
    for p in partition(rng, total):
        ops.append("w:%d:%d" % (p, seed))
        seed = (seed + p) % 251
        if rng.random() < 0.2:
            ops.append("fl")
    if rng.random() < 0.1:
        ops.append("fl")
    return ops


def line(chain, method, ae, key, reqlen, mode, ops):
    return "rw %s %s %s %s %d %s %s" % (chain or "none", method, enc(ae) if ae != "-" else "-", key, reqlen, mode, ";".join(ops) or "fl")


def session_episode(rng, chain, n=None, limit=None, ae=None):
    """Several exchanges through ONE instance of the chain (`rws` + `rw @`), each repeated through a
    fresh instance: what a client gets must not depend on the exchanges the instance served before —
    an over-limit response, an exchange the backend cut short, a HEAD, then an ordinary one."""
    ep = ["# session", "rws %s" % chain]
    n = n or rng.randint(3, 5)
    for i in range(n):
        kind = rng.choice(["big", "abort", "normal", "normal", "head"]) if i < n - 1 else "normal"
        method = "HEAD" if kind == "head" else rng.choice(["GET", "GET", "POST"])
        total = rng.choice([0, 5, 50, 600, 5000])
        if kind == "big" and limit:
            total = 3 * limit + 7
        ops = response_ops(rng, total=total, late_headers=False, status=rng.choice([200, 200, 201, 404]) if kind != "abort" else 200)
        # handlers that call WriteHeader once (as ReverseProxy does): a second call is outside the claims
        seen_wh, ops1 = False, []
        for o in ops:
            if o.startswith("wh:") and not o.startswith("wh:1"):
                if seen_wh:
                    continue
                seen_wh = True
            ops1.append(o)
        ops = ops1
        if kind == "abort":
            ops = [o for o in ops if not o.startswith("sh:Content-Length")]
            ops = ops + ["w:700:3", "fl", "ab"]
        a = ae if ae is not None else rng.choice(["gzip", "-"])
        reqlen = rng.choice([0, 3]) if method == "POST" else 0
        rest = line("X", method, a, "-", reqlen, "cl", ops).split(" ", 2)[2]
        ep.append("rw @ " + rest)
        ep.append("rw %s %s" % (chain, rest))
    ep.append("rws -")
    return ep


def session_oracle(ep, outs):
    if ep and ep[0] == "# session-batch":
        # all exchanges through the used instance first, then each of them through a fresh one
        lines = [l for l in ep if l and not l.startswith("#")]
        used = [(l, o) for l, o in zip(lines, outs) if l.startswith("rw @ ")]
        fresh = [(l, o) for l, o in zip(lines, outs) if l.startswith("rw ") and not l.startswith("rw @ ")]
        return ["the same exchange through a used plugin instance and through a fresh one differ: used=%s fresh=%s (%s)" % (a[1][:160], b[1][:160], a[0][:120])
                for a, b in zip(used, fresh) if a[1] != b[1]]
    if not ep or ep[0] != "# session":
        return None
    lines = [l for l in ep if l and not l.startswith("#")]
    fails = []
    if lines and lines[-1] == "rws -":
        lines = lines[:-1]
    for i in range(1, len(lines) - 1, 2):
        if i + 1 >= len(outs):
            break
        a, b = outs[i], outs[i + 1]
        if a != b:
            fails.append("the same exchange through a used plugin instance and through a fresh one differ: used=%s fresh=%s (%s)" % (
                a[:160], b[:160], lines[i][:120]))
    return fails
