"""Process-level shutdown (C19): the real binary, built from the current tree, a slow backend, a request in
flight, and stop signals delivered at chosen moments — once, twice, SIGINT then SIGTERM.

Expected of every scenario: the request in flight is answered in full, the process exits by itself with status 0
within the shutdown timeout, and a repeated signal changes nothing (it is absorbed)."""
import http.client
import http.server
import os
import signal
import socket
import subprocess
import threading
import time

from . import common as C


def free_port():
    s = socket.socket()
    s.bind(("127.0.0.1", 0))
    p = s.getsockname()[1]
    s.close()
    return p


class Slow(http.server.BaseHTTPRequestHandler):
    delay = 1.0
    hits = 0

    def do_GET(self):
        if self.path == "/health":
            self.send_response(200)
            self.send_header("Content-Length", "0")
            self.end_headers()
            return
        type(self).hits += 1
        time.sleep(type(self).delay)
        body = b"slow-answer-complete"
        try:
            self.send_response(200)
            self.send_header("Content-Type", "text/plain")
            self.send_header("Content-Length", str(len(body)))
            self.end_headers()
            self.wfile.write(body)
        except OSError:
            pass                      # the proxy gave up on the exchange (that is what the scenario reports)

    def log_message(self, *a):
        pass


def build_binary(ctx):
    out = ctx.path("helios-bin")
    p = subprocess.run(["go", "build", "-o", out, "./cmd/helios"], cwd=C.REPO, env=C.GOENV, stdout=subprocess.PIPE, stderr=subprocess.STDOUT, text=True, timeout=600)
    if p.returncode != 0:
        raise C.BuildError("cmd/helios does not build: " + p.stdout[-1500:])
    return out


def scenario(ctx, binary, sigs, gap_ms, first_after_ms=250, handler_s=30, shutdown_s=10, delay_s=1.0, upgrade_offer=False):
    """sigs: signals to deliver; the first `first_after_ms` after the request was sent, the others `gap_ms` apart.
    Returns a dict of observations."""
    bport, fport = free_port(), free_port()
    handler_cls = type("SlowD", (Slow,), {"delay": delay_s, "hits": 0})
    srv = http.server.ThreadingHTTPServer(("127.0.0.1", bport), handler_cls)
    th = threading.Thread(target=srv.serve_forever, daemon=True)
    th.start()
    cfg = ctx.path("sig_%d.yaml" % fport)
    with open(cfg, "w") as f:
        f.write("server:\n  port: %d\n  timeouts:\n    shutdown: %d\n    handler: %d\nbackends:\n  - name: slow\n    address: http://127.0.0.1:%d\n"
                "load_balancer:\n  strategy: round_robin\nlogging:\n  level: error\n" % (fport, shutdown_s, handler_s, bport))
    proc = subprocess.Popen([binary, "-config", cfg], stdout=subprocess.DEVNULL, stderr=subprocess.DEVNULL)
    obs = {"signals": [s.name for s in sigs], "gap_ms": gap_ms, "handler_s": handler_s, "shutdown_s": shutdown_s, "backend_delay_s": delay_s,
           "upgrade_offer": upgrade_offer}
    try:
        for _ in range(100):
            try:
                socket.create_connection(("127.0.0.1", fport), timeout=0.2).close()
                break
            except OSError:
                time.sleep(0.05)
        else:
            obs["error"] = "front end did not come up"
            return obs
        result = {}

        def client():
            try:
                c = http.client.HTTPConnection("127.0.0.1", fport, timeout=15)
                # (an upgrade offer the backend declines: such requests are exempt from the handler deadline, so the
                # shutdown timeout is the only bound on them)
                c.request("GET", "/slow", headers={"Connection": "Upgrade", "Upgrade": "h2c"} if upgrade_offer else {})
                r = c.getresponse()
                result["status"] = r.status
                result["body"] = r.read().decode("latin-1")
            except Exception as e:      # noqa
                result["error"] = type(e).__name__ + ": " + str(e)[:80]
        ct = threading.Thread(target=client)
        t0 = time.time()
        ct.start()
        time.sleep(first_after_ms / 1000.0)
        for i, s in enumerate(sigs):
            if i:
                time.sleep(gap_ms / 1000.0)
            if proc.poll() is None:
                proc.send_signal(s)
        ct.join(20)
        try:
            rc = proc.wait(timeout=14)
        except subprocess.TimeoutExpired:
            rc = None
        obs.update({"client": result, "exit": rc, "exit_after_ms": int((time.time() - t0) * 1000)})
        return obs
    finally:
        if proc.poll() is None:
            proc.kill()
        srv.shutdown()
        srv.server_close()


def judge(obs):
    fails = []
    if "error" in obs:
        return ["process-level scenario could not run: %s" % obs["error"]]
    c = obs.get("client", {})
    if c.get("status") != 200 or c.get("body") != "slow-answer-complete":
        fails.append("the request in flight when %s arrived was not answered in full: %s" % ("+".join(obs["signals"]), c))
    if obs.get("exit") != 0:
        fails.append("the process did not exit by itself with status 0 after %s (%d ms apart): exit=%s" % ("+".join(obs["signals"]), obs["gap_ms"], obs.get("exit")))
    return fails


def check(ctx):
    binary = build_binary(ctx)
    T, I = signal.SIGTERM, signal.SIGINT
    plans = [([T], 0), ([T, T], 300), ([I, T], 150), ([T, T, T], 100)] if ctx.thorough() else [([T], 0), ([T, T], 300)]
    ran = 0
    plans = [(sg, gp, {}) for sg, gp in plans]
    # the shutdown timeout is what bounds the wait, whatever the other timeouts are: a request that outlives the
    # (shorter) handler timeout legitimately — an upgrade offer — and ends well inside the shutdown timeout
    plans.append(([T], 0, dict(handler_s=1, shutdown_s=8, delay_s=2.5, upgrade_offer=True)))
    if ctx.thorough():
        plans.append(([T, T], 400, dict(handler_s=2, shutdown_s=9, delay_s=3.5, upgrade_offer=True)))
    for sigs, gap, kw in plans:
        obs = scenario(ctx, binary, sigs, gap, **kw)
        fails = judge(obs)
        if fails and "could not run" not in fails[0]:
            obs2 = scenario(ctx, binary, sigs, gap, **kw)        # wall-clock scenario: a defect shows again
            if judge(obs2):
                C.violation(ctx, "process-signals", {"what": "stop signals delivered to the real process while a request is in flight",
                                                     "oracle_failures": judge(obs2), "observed": obs2, "first_run": obs})
                break
            ctx.notes.append("process-signals: a failure did not reproduce: %s" % fails[0][:160])
        elif fails:
            ctx.notes.append(fails[0])
        ran += 1
    ctx.cov["process_level_signal_scenarios"] = ran
