"""Shared machinery for the Helios verification checks (python3 stdlib only).

Every check run:
  1. regenerates facts and the instrumented overlay copies from /repo's working tree,
  2. (re)builds the Lean proof modules of the property and audits their axioms,
  3. drives the real Go code and the compiled Lean model with the same op lines and diffs,
  4. evaluates the property oracle on what the implementation did,
  5. writes evidence/<id>.json and, on failure, a replay file + a VIOLATION line.
"""
import fcntl
import hashlib
import json
import os
import random
import re
import shutil
import subprocess
import sys
import time

VERIF = os.path.dirname(os.path.dirname(os.path.abspath(__file__)))
REPO = os.environ.get("VERIF_REPO", "/repo")
LEAN_DIR = os.path.join(VERIF, "lean")
DRIVER = os.path.join(LEAN_DIR, ".lake", "build", "bin", "driver")
HARNESS = os.path.join(VERIF, "harness")
EVIDENCE = os.path.join(VERIF, "evidence")
REPLAYS = os.path.join(VERIF, "replays")
MODULE = "github.com/0xReLogic/Helios"
ALLOWED_AXIOMS = {"propext", "Classical.choice", "Quot.sound"}

GOENV = dict(os.environ)
GOENV.update({
    "GOFLAGS": "-mod=mod", "GOPROXY": "off", "GOSUMDB": "off", "GOTOOLCHAIN": "local",
    "CGO_ENABLED": os.environ.get("CGO_ENABLED", "1"),
})


class Ctx:
    """Per-run context: tier, seed, scratch directory, accumulated evidence."""

    def __init__(self, prop, tier, seed):
        self.prop = prop
        self.tier = tier
        self.seed = seed
        self.rng = random.Random(seed * 1000003 + int(prop[1:]))
        self.t0 = time.time()
        self.scratch = "/var/tmp/verif-%s-%d" % (prop, os.getpid())
        shutil.rmtree(self.scratch, ignore_errors=True)
        os.makedirs(self.scratch)
        # replay files of earlier runs of this property are stale
        if os.path.isdir(REPLAYS):
            for fn in os.listdir(REPLAYS):
                if fn.startswith(prop + "-"):
                    try:
                        os.remove(os.path.join(REPLAYS, fn))
                    except OSError:
                        pass
        self.violations = []       # list of dict(kind, detail, replay)
        self.known = []            # KNOWN-FINDING lines printed
        self.known_hits = {}       # key -> times observed in this run
        self.notes = []
        self.cov = {}
        self.assumptions = []
        self.obligations = []      # (name, ok, detail)

    def cleanup(self):
        shutil.rmtree(self.scratch, ignore_errors=True)

    def thorough(self):
        return self.tier == "thorough"

    def path(self, name):
        return os.path.join(self.scratch, name)


# --------------------------------------------------------------------------- lean side

def _lake_lock():
    f = open(os.path.join(LEAN_DIR, ".lake.lock"), "w")
    fcntl.flock(f, fcntl.LOCK_EX)
    return f


def lake_build(targets, timeout=1800):
    """Build Lean targets (incremental).  Returns (ok, log)."""
    lock = _lake_lock()
    try:
        p = subprocess.run(["lake", "build"] + list(targets), cwd=LEAN_DIR,
                           stdout=subprocess.PIPE, stderr=subprocess.STDOUT, text=True,
                           timeout=timeout)
        return p.returncode == 0, p.stdout
    finally:
        lock.close()


def lean_run_file(path, timeout=600):
    lock = _lake_lock()
    try:
        p = subprocess.run(["lake", "env", "lean", path], cwd=LEAN_DIR,
                           stdout=subprocess.PIPE, stderr=subprocess.STDOUT, text=True,
                           timeout=timeout)
        return p.returncode, p.stdout
    finally:
        lock.close()


FORBIDDEN = re.compile(r"\b(sorry|admit|native_decide|bv_decide|implemented_by|unsafe)\b|^axiom |maxHeartbeats 0")


def grep_forbidden(modules):
    """Textual audit of the Lean sources of the given modules (and everything under Helios/)."""
    hits = []
    for root, _, files in os.walk(os.path.join(LEAN_DIR, "Helios")):
        for fn in files:
            if not fn.endswith(".lean"):
                continue
            p = os.path.join(root, fn)
            in_block = False
            for i, line in enumerate(open(p, encoding="utf-8"), 1):
                s = line
                # strip comments (line comments and simple block comments)
                if in_block:
                    if "-/" in s:
                        s = s.split("-/", 1)[1]
                        in_block = False
                    else:
                        continue
                while "/-" in s:
                    pre, rest = s.split("/-", 1)
                    if "-/" in rest:
                        s = pre + rest.split("-/", 1)[1]
                    else:
                        s = pre
                        in_block = True
                        break
                s = s.split("--", 1)[0]
                if FORBIDDEN.search(s):
                    hits.append("%s:%d: %s" % (os.path.relpath(p, LEAN_DIR), i, line.strip()))
    return hits


EXTRACT_DIR = os.path.join(VERIF, "go", "extract")
FACTS_LEAN = os.path.join(LEAN_DIR, "Helios", "Generated", "Facts.lean")


def regen_facts(ctx=None):
    """Tie B: re-derive the structural facts from /repo's current source and (re)write
    Helios/Generated/Facts.lean when they changed, so the fact obligations are re-checked."""
    exe = os.path.join(EXTRACT_DIR, "extract")
    lock = _lake_lock()
    try:
        if not os.path.exists(exe) or os.path.getmtime(exe) < os.path.getmtime(os.path.join(EXTRACT_DIR, "main.go")):
            p = subprocess.run(["go", "build", "-o", "extract", "."], cwd=EXTRACT_DIR, env=GOENV,
                               stdout=subprocess.PIPE, stderr=subprocess.STDOUT, text=True, timeout=600)
            if p.returncode != 0:
                raise BuildError("fact extractor does not build: " + p.stdout[-1500:])
        fj = os.path.join(ctx.scratch, "facts.json") if ctx else "/dev/null"
        p = subprocess.run([exe, REPO, fj], stdout=subprocess.PIPE, stderr=subprocess.PIPE, text=True, timeout=120)
        if p.returncode != 0 or "namespace Helios.Facts" not in p.stdout:
            raise BuildError("fact extractor failed: " + p.stderr[-1500:])
        old = open(FACTS_LEAN, encoding="utf-8").read() if os.path.exists(FACTS_LEAN) else ""
        if old != p.stdout:
            with open(FACTS_LEAN, "w", encoding="utf-8") as f:
                f.write(p.stdout)
            return True
        return False
    finally:
        lock.close()


LOCKS_DIR = os.path.join(VERIF, "go", "locks")
LOCKS_LEAN = os.path.join(LEAN_DIR, "Helios", "Generated", "Locks.lean")


def regen_locks(ctx=None):
    """Tie B for C12: re-run the lockset / lock-order analysis on /repo's current source and
    (re)write Helios/Generated/Locks.lean when the rows changed."""
    exe = os.path.join(LOCKS_DIR, "locks")
    lock = _lake_lock()
    try:
        if not os.path.exists(exe) or os.path.getmtime(exe) < os.path.getmtime(os.path.join(LOCKS_DIR, "main.go")):
            p = subprocess.run(["go", "build", "-o", "locks", "."], cwd=LOCKS_DIR, env=GOENV,
                               stdout=subprocess.PIPE, stderr=subprocess.STDOUT, text=True, timeout=600)
            if p.returncode != 0:
                raise BuildError("lock analyser does not build: " + p.stdout[-1500:])
        p = subprocess.run([exe, REPO], stdout=subprocess.PIPE, stderr=subprocess.PIPE, text=True, timeout=300, env=GOENV)
        if p.returncode != 0 or "namespace Helios.Generated.Locks" not in p.stdout:
            raise BuildError("lock analyser failed: " + p.stderr[-1500:])
        old = open(LOCKS_LEAN, encoding="utf-8").read() if os.path.exists(LOCKS_LEAN) else ""
        if old != p.stdout:
            with open(LOCKS_LEAN, "w", encoding="utf-8") as f:
                f.write(p.stdout)
            return True
        return False
    finally:
        lock.close()


TRANS_DIR = os.path.join(VERIF, "go", "trans")
CODE_LEAN = os.path.join(LEAN_DIR, "Helios", "Generated", "Code.lean")


def regen_code(ctx=None):
    """Tie C: re-translate the listed Go functions of /repo's current source into Lean
    (Helios/Generated/Code.lean); Props/Code.lean proves them equal to the hand-written models."""
    exe = os.path.join(TRANS_DIR, "trans")
    lock = _lake_lock()
    try:
        if not os.path.exists(exe) or os.path.getmtime(exe) < os.path.getmtime(os.path.join(TRANS_DIR, "main.go")):
            p = subprocess.run(["go", "build", "-o", "trans", "."], cwd=TRANS_DIR, env=GOENV,
                               stdout=subprocess.PIPE, stderr=subprocess.STDOUT, text=True, timeout=600)
            if p.returncode != 0:
                raise BuildError("translator does not build: " + p.stdout[-1500:])
        p = subprocess.run([exe, REPO], stdout=subprocess.PIPE, stderr=subprocess.PIPE, text=True, timeout=300, env=GOENV)
        if p.returncode != 0 or "namespace Helios.Generated.Code" not in p.stdout:
            raise BuildError("translator failed: " + p.stderr[-1500:])
        old = open(CODE_LEAN, encoding="utf-8").read() if os.path.exists(CODE_LEAN) else ""
        if old != p.stdout:
            with open(CODE_LEAN, "w", encoding="utf-8") as f:
                f.write(p.stdout)
            return True
        return False
    finally:
        lock.close()


def _theorem_blocks(path):
    """[(short name, namespace-qualified name, first line, last line, text)] of a Lean file"""
    lines = open(path, encoding="utf-8").read().split("\n")
    ns, starts = [], []
    for i, l in enumerate(lines, 1):
        m = re.match(r"namespace\s+(\S+)", l)
        if m:
            ns.append(m.group(1))
        m = re.match(r"end\s+(\S+)", l)
        if m and ns and ns[-1] == m.group(1):
            ns.pop()
        m = re.match(r"(?:private\s+|protected\s+|@\[[^\]]*\]\s*)*(?:theorem|lemma|def|example|instance|abbrev)\s+(\S+)?", l)
        if m:
            starts.append((i, m.group(1) or "", ".".join(ns)))
    out = []
    for k, (i, name, nsq) in enumerate(starts):
        j = starts[k + 1][0] - 1 if k + 1 < len(starts) else len(lines)
        out.append((name, (nsq + "." + name) if nsq else name, i, j, "\n".join(lines[i - 1:j])))
    return out


_FAILED_FILES = {}


def _blame(path, errs, theorems):
    """errors (line, msg) of one Lean file -> {qualified theorem: reason}, closed under use"""
    blocks = _theorem_blocks(path)
    _FAILED_FILES[path] = [b[1] for b in blocks]
    bad = {}
    for line, msg in errs:
        for name, q, i, j, _ in blocks:
            if i <= line <= j and name:
                bad.setdefault(q, "%s:%d %s" % (os.path.relpath(path, LEAN_DIR), line, msg[:300]))
    changed = True
    while changed:
        changed = False
        for name, q, i, j, text in blocks:
            if q in bad or not name:
                continue
            for b in list(bad):
                if re.search(r"\b%s\b" % re.escape(b.split(".")[-1]), text):
                    bad[q] = "uses %s, which no longer checks" % b
                    changed = True
                    break
    return {q: why for q, why in bad.items() if q in theorems}


def _in_failed_module(th, blamed):
    return any(th in names for names in _FAILED_FILES.values())


def prove(ctx, modules, theorems):
    """Build the proof modules and audit the axioms of every property theorem.
    Records one obligation per theorem in ctx.obligations."""
    changed = regen_facts(ctx)
    if changed:
        ctx.notes.append("facts regenerated from the source differ from the committed Generated/Facts.lean")
    if any(m in ("Helios.Props.C12", "Helios.Props.C03") for m in modules):
        # these modules import Generated/Locks.lean: it must describe the tree being checked
        if regen_locks(ctx):
            ctx.notes.append("lock rows regenerated from the source differ from the committed Generated/Locks.lean")
    if any(m.startswith("Helios.Props.Code") for m in modules):
        if regen_code(ctx):
            ctx.notes.append("functions translated from the source differ from the committed Generated/Code.lean")
    ok, log = lake_build(list(modules) + ["driver"])
    build_detail = ""
    blamed = {}      # theorem -> reason, for theorems of modules that no longer build
    if not ok:
        okd, logd = lake_build(["driver"])
        if not okd:
            raise BuildError("the model driver does not build: " + logd[-1200:])
        # find out which modules still build; in the others, blame the theorems whose text
        # encloses an error (and the theorems that use those); the rest elaborated fine but
        # cannot be axiom-audited until the module builds again
        failed = re.findall(r"error: (Helios/[^:]+):(\d+):\d+: (.*)", log)
        build_detail = "; ".join("%s:%s %s" % f for f in failed[:5]) or log[-1500:]
        good = []
        for m in modules:
            ok1, log1 = lake_build([m])
            if ok1:
                good.append(m)
                continue
            errs = re.findall(r"error: (Helios/[^:]+):(\d+):\d+: (.*)", log1)
            for path in sorted(set(e[0] for e in errs)):
                blamed.update(_blame(os.path.join(LEAN_DIR, path), [(int(e[1]), e[2]) for e in errs if e[0] == path], theorems))
            if not errs:
                for th in theorems:
                    blamed.setdefault(th, "module %s does not build: %s" % (m, log1[-300:]))
        if not good and not blamed:
            for th in theorems:
                ctx.obligations.append((th, False, "lake build failed: " + build_detail))
            return False
        modules = good
    imports = "\n".join("import " + m for m in modules)
    body = "\n".join("#print axioms %s" % th for th in theorems)
    af = ctx.path("Audit_%s.lean" % ctx.prop)
    with open(af, "w") as f:
        f.write(imports + "\n" + body + "\n")
    rc, out = lean_run_file(af)
    allok = True
    text = out.replace("\n  ", " ").replace("\n ", " ")
    for th in theorems:
        m = re.search(r"'%s' depends on axioms: \[([^\]]*)\]" % re.escape(th), text)
        m0 = re.search(r"'%s' does not depend on any axioms" % re.escape(th), text)
        if m0:
            ctx.obligations.append((th, True, "axioms: none"))
        elif m:
            axs = [a.strip() for a in m.group(1).split(",") if a.strip()]
            bad = [a for a in axs if a not in ALLOWED_AXIOMS]
            if bad:
                allok = False
                ctx.obligations.append((th, False, "forbidden axioms: " + ",".join(bad)))
            else:
                ctx.obligations.append((th, True, "axioms: " + ",".join(axs)))
        elif build_detail and th not in blamed and _in_failed_module(th, blamed):
            ctx.obligations.append((th, True, "elaborates; axiom audit skipped because another theorem of its module fails"))
        else:
            allok = False
            why = blamed.get(th) or (("its module no longer builds: " + build_detail) if build_detail else ("theorem not found / audit failed: " + out[-400:]))
            ctx.obligations.append((th, False, why))
    if ctx.thorough():
        # independent re-check of the compiled proofs with the toolchain's external checker
        lock = _lake_lock()
        try:
            p = subprocess.run(["lake", "env", "leanchecker"] + list(modules), cwd=LEAN_DIR, stdout=subprocess.PIPE,
                               stderr=subprocess.STDOUT, text=True, timeout=1800)
            okc = p.returncode == 0
            ctx.obligations.append(("leanchecker " + " ".join(modules), okc, "re-checked by leanchecker" if okc else p.stdout[-400:]))
            allok = allok and okc
        except Exception as e:      # noqa
            ctx.obligations.append(("leanchecker", False, "leanchecker did not run: %s" % e))
            allok = False
        finally:
            lock.close()
    hits = grep_forbidden(modules)
    if hits:
        allok = False
        ctx.obligations.append(("source-audit", False, "forbidden constructs: " + "; ".join(hits[:5])))
    return allok


def run_model(ops_path, out_path, timeout=600):
    with open(ops_path, "rb") as fin, open(out_path, "wb") as fout:
        p = subprocess.run([DRIVER], stdin=fin, stdout=fout, stderr=subprocess.PIPE, timeout=timeout)
    if p.returncode != 0:
        raise RuntimeError("lean driver failed: " + p.stderr.decode()[-500:])
    return [l.rstrip("\n") for l in open(out_path, encoding="utf-8", errors="replace")]


# --------------------------------------------------------------------------- go side

TIME_PAT = [("time.Now()", "verifclock.Now()"), ("time.Since(", "verifclock.Since(")]


def instrument_clock(src_path, dst_path):
    """Source-to-source: route time.Now/time.Since through the virtual clock.  Regenerated
    from the current working tree on every run."""
    s = open(src_path, encoding="utf-8").read()
    n = 0
    for a, b in TIME_PAT:
        n += s.count(a)
        s = s.replace(a, b)
    if n == 0:
        return False
    m = re.search(r"^package\s+\w+\s*$", s, re.M)
    imp = '\nimport verifclock "%s/internal/verifclock"\n' % MODULE
    s = s[:m.end()] + imp + s[m.end():]
    if re.search(r'^\s*"time"\s*$', s, re.M) or 'import "time"' in s:
        s += "\nvar _ = time.Second // keep the import used after instrumentation\n"
    with open(dst_path, "w", encoding="utf-8") as f:
        f.write(s)
    return True


def make_overlay(ctx, clock_pkgs=(), harness_pkgs=(), extra=None, tag="", hmap=None):
    """Build the overlay JSON: instrumented copies of every non-test source of clock_pkgs
    that reads the clock, the virtual clock package, and the harness test files."""
    rep = {}
    odir = ctx.path("overlay" + tag)
    os.makedirs(odir, exist_ok=True)
    for pkg in clock_pkgs:
        d = os.path.join(REPO, pkg)
        for fn in sorted(os.listdir(d)):
            if fn.endswith(".go") and not fn.endswith("_test.go"):
                dst = os.path.join(odir, pkg.replace("/", "_") + "__" + fn)
                if instrument_clock(os.path.join(d, fn), dst):
                    rep[os.path.join(d, fn)] = dst
    rep[os.path.join(REPO, "internal/verifclock/clock.go")] = os.path.join(HARNESS, "verifclock/clock.go")
    for pkg in harness_pkgs:
        hd = os.path.join(HARNESS, (hmap or {}).get(pkg, os.path.basename(pkg)))
        for fn in sorted(os.listdir(hd)):
            if fn.endswith(".go"):
                rep[os.path.join(REPO, pkg, fn)] = os.path.join(hd, fn)
    if extra:
        rep.update(extra)
    op = ctx.path("overlay%s.json" % tag)
    with open(op, "w") as f:
        json.dump({"Replace": rep}, f, indent=1)
    return op


def go_test_build(ctx, pkg, overlay, race=False, name=None):
    """Compile the test binary of a /repo package from the current working tree."""
    out = ctx.path((name or os.path.basename(pkg)) + (".race" if race else "") + ".test")
    cmd = ["go", "test", "-c", "-o", out, "-vet=off", "-tags", "verif", "-overlay", overlay]
    if race:
        cmd.append("-race")
    cmd.append("./" + pkg)
    p = subprocess.run(cmd, cwd=REPO, env=GOENV, stdout=subprocess.PIPE, stderr=subprocess.STDOUT,
                       text=True, timeout=900)
    if p.returncode != 0:
        raise BuildError(p.stdout[-3000:])
    return out


class BuildError(Exception):
    pass


def run_impl(ctx, binary, ops_path, out_path, test="TestVerifDriver", timeout=600, env=None, cwd=None):
    e = dict(GOENV)
    e.update({"VERIF_OPS": ops_path, "VERIF_OUT": out_path, "GOMEMLIMIT": "4GiB"})
    if env:
        e.update(env)
    try:
        p = subprocess.run([binary, "-test.run", "^" + test + "$", "-test.count=1", "-test.timeout", "%ds" % timeout],
                           cwd=cwd or ctx.scratch, env=e, stdout=subprocess.PIPE, stderr=subprocess.STDOUT,
                           text=True, timeout=timeout + 30)
        rc, log = p.returncode, p.stdout
    except subprocess.TimeoutExpired as ex:
        rc, log = 124, (ex.stdout or b"").decode(errors="replace") if isinstance(ex.stdout, bytes) else (ex.stdout or "")
    lines = []
    if os.path.exists(out_path):
        lines = [l.rstrip("\n") for l in open(out_path, encoding="utf-8", errors="replace")]
    return rc, log, lines


def write_lines(path, lines):
    with open(path, "w", encoding="utf-8") as f:
        for l in lines:
            f.write(l + "\n")


def op_lines(lines):
    """The lines that produce an output (no comments / blanks)."""
    return [l for l in lines if l and not l.startswith("#")]


def first_diff(a, b):
    n = min(len(a), len(b))
    for i in range(n):
        if a[i] != b[i]:
            return i
    if len(a) != len(b):
        return n
    return None


# --------------------------------------------------------------------------- verdicts

def load_known():
    p = os.path.join(VERIF, "known_findings.json")
    if os.path.exists(p):
        return json.load(open(p))
    return {"findings": [], "fixed": []}


def known_listed(ctx):
    """{key: text} of the recorded-but-unrepaired findings of this property (committed file;
    never written at run time)."""
    out = {}
    for f in load_known().get("findings", []):
        if isinstance(f, dict) and f.get("property") == ctx.prop:
            out[f["key"]] = f["text"]
    return out


def split_known(ctx, failures):
    """Oracle failures tagged "[known:KEY] ..." whose KEY is a listed finding are counted and
    removed; with the entry gone from known_findings.json they are ordinary failures again."""
    listed = known_listed(ctx)
    rest = []
    for f in failures:
        m = re.match(r"\[known:([^\]]+)\] ", f)
        if m and m.group(1) in listed:
            ctx.known_hits[m.group(1)] = ctx.known_hits.get(m.group(1), 0) + 1
        else:
            rest.append(f)
    return rest


def save_replay(ctx, name, obj):
    os.makedirs(REPLAYS, exist_ok=True)
    k = len(ctx.violations)
    p = os.path.join(REPLAYS, "%s-%s-seed%d%s.json" % (ctx.prop, name, ctx.seed, "" if k == 0 else "-%d" % k))
    obj = dict(obj)
    obj.setdefault("property", ctx.prop)
    obj.setdefault("seed", ctx.seed)
    obj.setdefault("tier", ctx.tier)
    obj.setdefault("replay_cmd", "bin/check %s --replay %s" % (ctx.prop, p))
    # files an op names (configuration files written into the run's scratch directory) travel with the replay
    files = {}
    for l in obj.get("ops") or []:
        for tok in str(l).split():
            if tok.startswith(ctx.scratch + os.sep) and os.path.isfile(tok) and os.path.getsize(tok) < (1 << 20):
                try:
                    files[os.path.basename(tok)] = open(tok, encoding="utf-8", errors="surrogateescape").read()
                except OSError:
                    pass
    if files:
        obj["files"] = files
    with open(p, "w") as f:
        json.dump(obj, f, indent=1)
    return p


def violation(ctx, kind, obj, no_input=False):
    p = save_replay(ctx, kind, obj)
    ctx.violations.append({"kind": kind, "replay": p, "no_input": no_input})
    return p


def finish(ctx, level="proof", checker_cmd=None, trusted=None, extra_cov=None):
    """Write evidence, print verdict lines, return exit code."""
    wall = time.time() - ctx.t0
    nob = len(ctx.obligations)
    ndis = sum(1 for o in ctx.obligations if o[1])
    cov = {
        "obligations": nob,
        "discharged": ndis,
        "checker_cmd": checker_cmd or ("cd lean && lake build && lake env lean <generated #print axioms file>"),
        "trusted_base": trusted or [],
        "theorems": [{"name": o[0], "ok": o[1], "detail": o[2]} for o in ctx.obligations],
    }
    cov.update(ctx.cov)
    if extra_cov:
        cov.update(extra_cov)
    cov.setdefault("evaluations", 0)
    cov.setdefault("distinct_nontrivial", 0)
    cov.setdefault("samples", [])
    ev = {
        "property_id": ctx.prop,
        "tier": ctx.tier,
        "seed": ctx.seed,
        "level": level,
        "coverage": cov,
        "assumptions": ctx.assumptions,
        "wall_s": round(wall, 2),
        "violations": len(ctx.violations),
        "known_findings": ctx.known,
        "notes": ctx.notes,
    }
    os.makedirs(EVIDENCE, exist_ok=True)
    with open(os.path.join(EVIDENCE, ctx.prop + ".json"), "w") as f:
        json.dump(ev, f, indent=1)
    for key, text in known_listed(ctx).items():
        ctx.known.append("%s (observed %d times in this run)" % (text, ctx.known_hits.get(key, 0)))
    ev["known_findings"] = ctx.known
    with open(os.path.join(EVIDENCE, ctx.prop + ".json"), "w") as f:
        json.dump(ev, f, indent=1)
    for k in ctx.known:
        print("KNOWN-FINDING: property=%s %s" % (ctx.prop, k))
    for n in ctx.notes:
        print("note: " + n)
    rc = 0
    for v in ctx.violations:
        rc = 1
        print("VIOLATION property=%s replay=%s%s" % (ctx.prop, v["replay"], " no-failing-input-found" if v["no_input"] else ""))
    if rc == 0:
        print("OK property=%s tier=%s seed=%d obligations=%d/%d evaluations=%d wall=%.1fs" % (
            ctx.prop, ctx.tier, ctx.seed, ndis, nob, cov.get("evaluations", 0), wall))
    ctx.cleanup()
    return rc


def ddmin(items, fails, max_runs=400):
    """Delta debugging: minimise `items` (a list) while fails(items) stays True."""
    runs = [0]

    def test(x):
        runs[0] += 1
        return runs[0] <= max_runs and fails(x)

    n = 2
    cur = list(items)
    while len(cur) >= 2:
        chunk = max(1, len(cur) // n)
        reduced = False
        for i in range(0, len(cur), chunk):
            cand = cur[:i] + cur[i + chunk:]
            if cand and test(cand):
                cur = cand
                n = max(n - 1, 2)
                reduced = True
                break
        if not reduced:
            if chunk == 1:
                break
            n = min(n * 2, len(cur))
        if runs[0] > max_runs:
            break
    return cur


# --------------------------------------------------------------------------- episode differential

class Differential:
    """Drive implementation and model with the same episodes, compare, evaluate the oracle.

    An episode is a list of op lines that starts from a fresh object (its first op
    re-creates the system under test), so episodes are independent and can be shrunk
    on their own."""

    def __init__(self, ctx, binary, test="TestVerifDriver", env=None, timeout=600, project=None, confirm=0):
        self.ctx = ctx
        self.binary = binary
        self.test = test
        self.env = env
        self.timeout = timeout
        self.n = 0
        # project: implementation output line -> the canonical part the model predicts (the rest
        # of the line is detail for the property oracle: timings, generated values, full headers)
        self.project = project or (lambda l: l)
        # confirm: for episodes measured in wall-clock time (real sockets, real timeouts) an oracle failure is
        # reported only if the same episode fails again in one of `confirm` re-runs: a defect in the code shows
        # every time, a machine too loaded to keep the episode's timing does not
        self.confirm = confirm

    def run_both(self, episodes, want_model=True, timeout=None):
        self.n += 1
        ops = [l for ep in episodes for l in ep]
        opsf = self.ctx.path("ops_%d.txt" % self.n)
        write_lines(opsf, ops)
        rc, log, impl = run_impl(self.ctx, self.binary, opsf, self.ctx.path("impl_%d.txt" % self.n),
                                 test=self.test, env=self.env, timeout=timeout or self.timeout)
        model = run_model(opsf, self.ctx.path("model_%d.txt" % self.n)) if want_model else None
        return rc, log, impl, model

    @staticmethod
    def split(episodes, outs):
        res, i = [], 0
        for ep in episodes:
            k = len(op_lines(ep))
            res.append(outs[i:i + k])
            i += k
        return res

    def check(self, episodes, oracle=None, label="diff"):
        """Returns number of failing episodes reported (violations are recorded in ctx)."""
        ctx = self.ctx
        rc, log, impl, model = self.run_both(episodes)
        nops = sum(len(op_lines(e)) for e in episodes)
        if rc != 0 or len(impl) != nops:
            # crash / hang of the implementation side: isolate the episode
            done = len(impl)
            acc = 0
            bad = None
            for ep in episodes:
                acc += len(op_lines(ep))
                if acc > done:
                    bad = ep
                    break
            violation(ctx, label + "-impl-crash", {
                "what": "implementation run ended early (exit %d) after %d/%d ops" % (rc, done, nops),
                "episode": bad, "log_tail": log[-3000:]}, no_input=False)
            return 1
        if len(model) != nops:
            raise RuntimeError("model produced %d lines for %d ops" % (len(model), nops))
        si, sm = self.split(episodes, impl), self.split(episodes, model)
        self.last = (si, sm)
        if ctx.thorough() and not getattr(ctx, "_interp_done", False):
            # the compiled driver against Lean's interpreter on a prefix of the same ops
            ctx._interp_done = True
            pref, n = [], 0
            for ep in episodes:
                if n + len(ep) > 400 and pref:
                    break
                pref.append(ep)
                n += len(ep)
            pf = ctx.path("interp_ops.txt")
            write_lines(pf, [l for ep in pref for l in ep])
            try:
                lock = _lake_lock()
                try:
                    with open(pf, "rb") as fin:
                        p = subprocess.run(["lake", "env", "lean", "--run", "Main.lean"], cwd=LEAN_DIR, stdin=fin,
                                           stdout=subprocess.PIPE, stderr=subprocess.PIPE, timeout=600)
                finally:
                    lock.close()
                interp = p.stdout.decode("utf-8", "replace").split("\n")
                if interp and interp[-1] == "":
                    interp.pop()
                compiled = [o for outs in sm[:len(pref)] for o in outs]
                same = p.returncode == 0 and interp == compiled
                ctx.obligations.append(("compiled driver = interpreter (%d ops)" % len(compiled), same,
                                        "identical output" if same else "outputs differ or interpreter failed: " + p.stderr.decode()[-300:]))
                if not same:
                    violation(ctx, label + "-driver", {"what": "the compiled Lean driver and the Lean interpreter disagree on the same ops",
                                                        "broken": "trusted base: Lean compiler vs interpreter", "ops_file": pf}, no_input=True)
            except Exception as e:      # noqa
                ctx.notes.append("interpreter cross-check did not run: %s" % e)
        reported = 0
        flagged = []
        for ep, oi, om in zip(episodes, si, sm):
            ofail = split_known(ctx, oracle(ep, oi)) if oracle else []
            d = first_diff([self.project(x) for x in oi], om)
            if not ofail and d is None:
                continue
            flagged.append((ep, oi, om, ofail, d))
        # episodes on which the property oracle fails are reported first: a concrete failing input is worth more than
        # a bare disagreement between model and implementation
        flagged.sort(key=lambda x: 0 if x[3] else 1)
        for ep, oi, om, ofail, d in flagged:
            if ofail and d is None and self.confirm:
                again = 0
                for _ in range(self.confirm):
                    rcc, _, oic, _ = self.run_both([ep], want_model=False, timeout=min(self.timeout, 300))
                    if rcc != 0 or len(oic) != len(op_lines(ep)) or split_known(ctx, oracle(ep, oic)):
                        again += 1
                        break
                if again == 0:
                    ctx.notes.append("%s: an oracle failure did not reproduce in %d re-runs of the same episode (wall-clock timing under load): %s" % (label, self.confirm, str(ofail[0])[:160]))
                    continue
            if reported >= 3:
                reported += 1
                continue
            reported += 1
            if ofail:
                small = self.shrink(ep, lambda e, o: bool([f for f in oracle(e, o) if not re.match(r"\[known:", f) or f[7:f.index("]")] not in known_listed(ctx)]))
                rc2, _, oi2, om2 = self.run_both([small])
                violation(ctx, label + "-oracle", {
                    "what": "property oracle fails on the implementation's own outputs",
                    "oracle_fn": "%s:%s" % (getattr(oracle, "__module__", ""), getattr(oracle, "__qualname__", "")),
                    "oracle_failures": oracle(small, oi2)[:5],
                    "ops": small, "impl_outputs": oi2, "model_outputs": om2,
                    "original_episode_len": len(ep)})
            else:
                small = self.shrink_diff(ep)
                rc2, _, oi2, om2 = self.run_both([small])
                d2 = first_diff([self.project(x) for x in oi2], om2)
                ol = op_lines(small)
                violation(ctx, label + "-correspondence", {
                    "what": "model and implementation disagree; the property oracle found no failing input, "
                            "so the theorems no longer transfer to this code",
                    "broken": "correspondence %s (model %s vs implementation)" % (label, ctx.prop),
                    "first_differing_op": ol[d2] if d2 is not None and d2 < len(ol) else None,
                    "impl_output": oi2[d2] if d2 is not None and d2 < len(oi2) else None,
                    "model_output": om2[d2] if d2 is not None and d2 < len(om2) else None,
                    "ops": small, "impl_outputs": oi2, "model_outputs": om2}, no_input=True)
        return reported

    def check_oracle_only(self, episodes, oracle, label):
        """Episodes judged by the property oracle alone (no model prediction exists for them: the model has no
        counterpart of the configuration they run under). Returns the number of failing episodes reported."""
        ctx = self.ctx
        rc, log, impl, _ = self.run_both(episodes, want_model=False)
        nops = sum(len(op_lines(e)) for e in episodes)
        if rc != 0 or len(impl) != nops:
            violation(ctx, label + "-impl-crash", {"what": "implementation run ended early (exit %d) after %d/%d ops" % (rc, len(impl), nops),
                                                   "log_tail": log[-3000:]}, no_input=False)
            return 1
        reported = 0
        for ep, oi in zip(episodes, self.split(episodes, impl)):
            ofail = split_known(ctx, oracle(ep, oi))
            if not ofail:
                continue
            if self.confirm:
                again = False
                for _ in range(self.confirm):
                    rcc, _, oic, _ = self.run_both([ep], want_model=False, timeout=min(self.timeout, 300))
                    if rcc != 0 or len(oic) != len(op_lines(ep)) or split_known(ctx, oracle(ep, oic)):
                        again = True
                        break
                if not again:
                    ctx.notes.append("%s: an oracle failure did not reproduce in %d re-runs of the same episode: %s" % (label, self.confirm, str(ofail[0])[:160]))
                    continue
            reported += 1
            if reported <= 3:
                small = self.shrink(ep, lambda e, o: bool(split_known(ctx, oracle(e, o))))
                rc2, _, oi2, _ = self.run_both([small], want_model=False)
                violation(ctx, label + "-oracle", {
                    "what": "property oracle fails on the implementation's own outputs",
                    "oracle_fn": "%s:%s" % (getattr(oracle, "__module__", ""), getattr(oracle, "__qualname__", "")),
                    "oracle_failures": (oracle(small, oi2) or ofail)[:5], "ops": small, "impl_outputs": oi2,
                    "original_episode_len": len(ep), "oracle_only": True})
        return reported

    def shrink(self, ep, pred):
        head, body = ep[:1], ep[1:]

        def fails(b):
            cand = head + b
            # a shrink candidate is a single episode: a hang must not cost the full budget
            rc, _, oi, _ = self.run_both([cand], want_model=False, timeout=min(self.timeout, 90))
            return rc == 0 and len(oi) == len(op_lines(cand)) and pred(cand, oi)
        return head + ddmin(body, fails, max_runs=150)

    def shrink_diff(self, ep):
        head, body = ep[:1], ep[1:]

        def fails(b):
            cand = head + b
            rc, _, oi, om = self.run_both([cand], timeout=min(self.timeout, 90))
            return rc == 0 and first_diff([self.project(x) for x in oi], om) is not None
        return head + ddmin(body, fails, max_runs=150)


def load_corpus(prop):
    """Minimised past failures and boundary cases: corpus/<id>/*.ops, one episode per file."""
    d = os.path.join(VERIF, "corpus", prop)
    eps = []
    if os.path.isdir(d):
        for fn in sorted(os.listdir(d)):
            if fn.endswith(".ops"):
                eps.append([l.rstrip("\n") for l in open(os.path.join(d, fn)) if l.strip()])
    return eps
