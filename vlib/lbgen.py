"""Episode generator and helpers for the load-balancer level harness (`lb …` ops)."""
from urllib.parse import quote

SEC = 10**9
STRATS = ["round_robin", "least_connections", "weighted_round_robin", "ip_hash", "ip_hash_consistent"]
XFF = ["-", "-", "-", "10.0.0.1", "10.0.0.2", "10.0.0.1, 10.9.9.9", " 10.0.0.3 ", ",1.2.3.4", "2001:db8::1", "junk value",
       "10.0.0.1,", " 10.0.0.4 ", "a" * 40, "10.0.0.1 ,x"]
XRI = ["-", "-", "-", "192.168.1.1", "192.168.1.2", " spaced ", "x,y", "client-c.corp.example", "unknown"]
REMOTE = ["10.1.2.3:4567", "10.1.2.3:9999", "10.1.2.4:4567", "[::1]:80", "[2001:db8::2]:443", "nonsense", "1.2.3.4",
          "::1", "[::1]", "a:b:c", "host:", ":80", "[::1]:80:90"]
# what is attributed need not be an address: host names, "unknown", ids, address:port, separators only
XFF += ["client-a.corp.example", "client-b.corp.example", "unknown", "198.51.100.7:51234", "_hidden8f2", ",", ", ,", ",,"]
XRI += ["client-c.corp.example", "unknown"]
OUTCOMES = ["200", "200", "200", "204", "404", "500", "503", "502", "unreach", "abort"]


def enc(s):
    if s == "-":
        return "-"
    return quote(s.encode("utf-8"), safe=",.:[]") or "-"


class Gen:
    """Builds one episode; keeps enough shadow state to produce mostly-valid ops."""

    def __init__(self, rng, strategy=None, passive=None, rl=False, cb=False, weights=None, nback=None,
                 maxw=6, thr=None, eject_s=None, scramble=False, active=None):
        self.rng = rng
        self.scramble = scramble      # names whose append order is not their lexicographic order
        r = rng
        self.strategy = strategy or r.choice(STRATS)
        self.passive = r.random() < 0.5 if passive is None else passive
        self.thr = thr if thr is not None else r.choice([1, 1, 2, 3, 4])
        self.eject_s = eject_s if eject_s is not None else r.choice([1, 2, 5])
        self.rl = rl
        self.cb = cb
        rlp = (r.choice([1, 2, 3, 5]), r.choice([1, 2])) if rl else (0, 0)
        if cb:
            st = r.choice([0, 1, 1, 2])
            mx = r.choice([0, max(st, 1), max(st, 1) + 1])
            cbp = (r.choice([0, 1, 2, 3]), st, mx, r.choice([0, 1, 5]), r.choice([0, 1, 3]))
        else:
            cbp = (0, 0, 0, 0, 0)
        self.cbp = cbp
        self.rlp = rlp
        self.active = (r.random() < 0.3) if active is None else active
        self.ops = ["lb new %s %d %d %d %d %d %d %d %d %d %d %d %d%s" % (
            self.strategy, 1 if self.passive else 0, self.thr, self.eject_s,
            1 if rl else 0, rlp[0], rlp[1], 1 if cb else 0, cbp[0], cbp[1], cbp[2], cbp[3], cbp[4], " act" if self.active else "")]
        self.t = 0
        self.tid = 0
        self.infl = []
        self.names = []
        self.nextname = 0
        n = nback if nback is not None else r.choice([1, 2, 2, 3, 3, 4, 5, 6])
        for i in range(n):
            w = weights[i] if weights else r.choice([0, 1, 1, 2, 3, 5, maxw])
            self.add(w)

    def add(self, w=None, name=None, bad=False):
        if name is None:
            name = ("%s%d" % ("nzdqkbwh"[self.nextname % 8], self.nextname)) if self.scramble else "b%d" % self.nextname
            self.nextname += 1
        if w is None:
            w = self.rng.choice([0, 1, 2, 3, -1])
        self.ops.append("lb add %s %d %s" % (name, w, "bad" if bad else "good"))
        if not bad and name not in self.names:
            self.names.append(name)

    def advance(self, dt):
        self.t += max(0, dt)

    def step_time(self):
        r = self.rng
        k = r.random()
        e = self.eject_s * SEC
        if k < 0.45:
            dt = 0
        elif k < 0.6:
            dt = r.randint(1, 10**6)
        elif k < 0.75:
            dt = r.choice([SEC, SEC // 2, 2 * SEC])
        elif k < 0.9:
            dt = r.choice([e - 1, e, e + 1, 1, SEC - 1, SEC + 1])
        else:
            dt = r.randint(0, 3 * e)
        self.advance(dt)

    def begin(self, xff=None, xri=None, remote=None):
        r = self.rng
        self.tid += 1
        xff = r.choice(XFF) if xff is None else xff
        xri = r.choice(XRI) if xri is None else xri
        remote = r.choice(REMOTE) if remote is None else remote
        # now and then the request offers a protocol upgrade (which the backend declines)
        upg = " upg" if r.random() < 0.06 else ""
        self.ops.append("lb begin %d %d %s %s %s%s" % (self.tid, self.t, enc(xff), enc(xri), enc(remote), upg))
        self.infl.append(self.tid)
        return self.tid

    def end(self, tid=None, outcome=None):
        r = self.rng
        if tid is None:
            if not self.infl:
                return
            tid = self.infl.pop(r.randrange(len(self.infl)))
        elif tid in self.infl:
            self.infl.remove(tid)
        self.ops.append("lb end %d %d %s" % (tid, self.t, outcome or r.choice(OUTCOMES)))

    def request(self, outcome=None, **kw):
        tid = self.begin(**kw)
        self.end(tid, outcome)

    def eject(self, name=None, dur=None):
        r = self.rng
        if not self.names and name is None:
            return
        name = name or r.choice(self.names)
        dur = dur if dur is not None else r.choice([SEC, 2 * SEC, 5 * SEC, 1, 10**6])
        self.ops.append("lb eject %s %d %d" % (name, self.t, dur))

    def probe(self, name=None, ok=None):
        r = self.rng
        if not self.names and name is None:
            return
        name = name or r.choice(self.names)
        ok = (r.random() < 0.5) if ok is None else ok
        # a failing probe fails by status or in transport (no answer at all)
        self.ops.append("lb probe %s %d %s" % (name, self.t, "ok" if ok else r.choice(["fail", "err"])))

    def probe_begin(self, name):
        self.ops.append("lb probe-begin %s %d" % (name, self.t))

    def probe_end(self, name, ok):
        self.ops.append("lb probe-end %s %d %s" % (name, self.t, "ok" if ok else self.rng.choice(["fail", "err"])))

    def remove(self, name=None):
        r = self.rng
        name = name or (r.choice(self.names) if self.names and r.random() < 0.85 else "absent")
        self.ops.append("lb remove %s" % name)
        if name in self.names:
            self.names.remove(name)

    def set_strategy(self, s=None):
        s = s or self.rng.choice(STRATS + ["bogus"])
        self.ops.append("lb strategy %s" % s)
        if s in STRATS:
            self.strategy = s

    def observe(self):
        self.ops.append("lb list")
        self.ops.append("lb metrics")

    def finish(self):
        while self.infl:
            self.end()
        self.observe()
        return self.ops


def mixed_episode(rng, n=30, **kw):
    g = Gen(rng, **kw)
    for _ in range(n):
        g.step_time()
        k = rng.random()
        if k < 0.35:
            g.begin()
            if rng.random() < 0.6:
                g.end(g.infl[-1])
        elif k < 0.55:
            g.end()
        elif k < 0.65:
            g.eject()
        elif k < 0.70:
            g.probe()
        elif k < 0.72 and g.names:
            # an active probe held in flight while the backend is ejected / requests complete
            name = rng.choice(g.names)
            g.probe_begin(name)
            for _ in range(rng.randint(0, 2)):
                if rng.random() < 0.5:
                    g.eject(name=name)
                else:
                    g.begin()
                    g.end(g.infl[-1])
            g.probe_end(name, ok=rng.random() < 0.8)
        elif k < 0.78:
            g.remove()
        elif k < 0.85:
            if rng.random() < 0.25 and g.names:
                g.add(name=rng.choice(g.names))       # duplicate name
            else:
                g.add(bad=rng.random() < 0.2)
        elif k < 0.9:
            g.set_strategy()
        else:
            g.observe()
    return g.finish()
