"""C09 — rate limiting: token-bucket bound, isolation, refill (sequential core)."""
from .. import common as C

ID = "C09"
MODULES = ["Helios.Props.C09", "Helios.Props.Facts", "Helios.Props.CodeRL", "Helios.Props.CodeWire", "Helios.Props.CodeAddr"]
THEOREMS = [
    "Helios.RL.window_bound_sharp", "Helios.RL.window_bound", "Helios.RL.burst_bound",
    "Helios.RL.isolation", "Helios.RL.isolation_frame", "Helios.RL.fresh_full",
    "Helios.RL.idle_refill",
            "Helios.Facts.rl_cutoff_eq", "Helios.Facts.extraction_clean",
            "Helios.CodeTie.refillTokens_refines", "Helios.CodeTie.allow_refines", "Helios.CodeTie.setupRateLimiter_refines", "Helios.CodeTie.rlEff_accepted", "Helios.CodeTie.translation_clean_wire", "Helios.CodeTie.translation_clean_rl",
            # Tie C: utils.GetClientIP (the bucket key), translated from the source on every run
            "Helios.CodeTie.GetClientIP_refines", "Helios.CodeTie.translation_clean_addr"]
CUTOFF = 3600 * 10**9
CLIENTS = ["a", "b", "10.0.0.1", "[::1]", "x,y", "%20", "A"]


def crowd_episode(rng, others):
    """one client spends its burst, then tens of thousands of other addresses are seen (a crawler
    wave, a forged X-Forwarded-For sweep): the first client's spent bucket is still spent"""
    mx = rng.choice([2, 3])
    ops = ["rl new %d %d %d" % (mx, 3600 * 10**9, CUTOFF)]
    for _ in range(mx + 1):
        ops.append("rl allow victim 1000")
    for i in range(others):
        ops.append("rl allow c%d 1001" % i)
    ops += ["rl allow victim 1002", "rl allow victim 1003", "rl allow c7 1003"]
    return ops


def gen_episode(rng, long=False):
    mx = rng.choice([0, 1, 1, 2, 2, 3, 4, 5, 5, 7])
    R = rng.choice([1, 3, 10, 10, 1000, 10**9, 10**9, 1000 * 10**9, 3600 * 10**9])
    nclients = rng.choice([1, 1, 2, 3, 4])
    clients = rng.sample(CLIENTS, nclients)
    n = rng.randint(5, 120 if long else 40)
    t = rng.choice([0, 0, 5, R, 12345])
    ops = ["rl new %d %d %d" % (mx, R, CUTOFF)]
    for _ in range(n):
        k = rng.random()
        if k < 0.35:
            dt = 0
        elif k < 0.55:
            dt = rng.randint(1, max(1, R - 1))
        elif k < 0.7:
            dt = R
        elif k < 0.85:
            dt = R * rng.randint(1, mx + 2) + rng.randint(0, R - 1) if R > 1 else rng.randint(1, mx + 3)
        elif k < 0.95:
            dt = CUTOFF + rng.choice([-1, 0, 1, 2, R, 17])
        else:
            dt = rng.randint(0, 3 * R)
        t += max(0, dt)
        if rng.random() < 0.12:
            ops.append("rl cleanup %d" % t)
        else:
            ops.append("rl allow %s %d" % (rng.choice(clients), t))
    return ops


def parse(ep):
    w = ep[0].split()
    mx, R = int(w[2]), int(w[3])
    return mx, R


def oracle(ep, outs):
    """The property evaluated on what the implementation did (API level only)."""
    mx, R = parse(ep)
    fails = []
    per = {}
    ol = C.op_lines(ep)
    for line, o in zip(ol[1:], outs[1:]):
        w = line.split()
        if w[1] == "allow":
            if o not in ("0", "1"):
                fails.append("non-boolean Allow result %r for %r" % (o, line))
                continue
            per.setdefault(w[2], []).append((int(w[3]), o == "1"))
    for k, reqs in per.items():
        n = len(reqs)
        # sharp window bound (implies burst ≤ max and max + T/R + 1)
        pref = [0]
        for _, a in reqs:
            pref.append(pref[-1] + (1 if a else 0))
        for i in range(n):
            for j in range(i, n):
                adm = pref[j + 1] - pref[i]
                T = reqs[j][0] - reqs[i][0]
                if adm * R > mx * R + R - 1 + T:
                    fails.append("window: client %s admitted %d in T=%d (max=%d refill=%d) ops %d..%d" % (k, adm, T, mx, R, i, j))
                    break
            else:
                continue
            break
        # fresh client: first max requests admitted
        for i in range(min(mx, n)):
            if not reqs[i][1]:
                fails.append("fresh: request #%d of new client %s rejected (max=%d)" % (i, k, mx))
                break
        # idle refill
        for i in range(1, n):
            gap = reqs[i][0] - reqs[i - 1][0]
            kk = min(gap // R, mx)
            for j in range(i, min(i + kk, n)):
                if not reqs[j][1]:
                    fails.append("idle: client %s idle %d periods before op %d but request %d rejected" % (k, gap // R, i, j))
                    break
    return fails


def project(ep, client):
    return [ep[0]] + [l for l in ep[1:] if l.split()[1] == "cleanup" or l.split()[2] == client]


GATE_CLIENTS = ["10.0.0.1", "10.0.0.2", "10.0.0.11", "2001:db8::1", "2001:db8::2", "2001:db8::1:1", "::1", "::2",
                "fe80::1", "203.0.113.7", "198.51.100.200", "1.2.3.4",
                # identities that are not address literals (what a proxy in front may put there)
                "client-a.corp.example", "client-b.corp.example", "unknown", "198.51.100.7:51234", "_hidden8f2", "2001:DB8::1"]


def gate_episode(rng):
    """The limiter as the balancer applies it: one bucket per client identity (first
    X-Forwarded-For element). All requests at the same instant, so nothing refills."""
    mx = rng.choice([1, 2, 3, 5])
    ep = ["lb new round_robin 0 1 1 1 %d 3600 0 0 0 0 0 0" % mx, "lb add g0 1 good"]
    clients = rng.sample(GATE_CLIENTS, rng.randint(2, 6))
    tid = 0
    for _ in range(rng.randint(6, 40)):
        c = rng.choice(clients)
        xff = c if rng.random() < 0.7 else c + rng.choice([", 10.9.9.9", ",192.0.2.1", " , 10.0.0.99"])
        tid += 1
        ep.append("lb begin %d 0 %s - 192.0.2.50:4000%s" % (tid, lbgen_enc(xff), " upg" if rng.random() < 0.2 else ""))
        ep.append("lb end %d 0 200" % tid)
    return ep


# peers identified by their connection's address alone (no forwarding headers): the host part of RemoteAddr, whatever
# the port; IPv6 zones are part of the address (fe80::1 on eth0 and on eth1 are different hosts)
PEERS = {"[fe80::1%25eth0]:51000": "fe80::1%eth0", "[fe80::1%25eth1]:51000": "fe80::1%eth1", "[fe80::1%25eth0]:52000": "fe80::1%eth0",
         "[fe80::1]:51000": "fe80::1", "10.0.0.1:1": "10.0.0.1", "10.0.0.1:65535": "10.0.0.1", "10.0.0.10:1": "10.0.0.10",
         "[2001:db8::1]:443": "2001:db8::1", "[2001:db8::1%25lo]:443": "2001:db8::1%lo", "[::ffff:10.0.0.1]:9": "::ffff:10.0.0.1"}


def peer_gate_episode(rng):
    mx = rng.choice([1, 2, 3])
    ep = ["lb new round_robin 0 1 1 1 %d 3600 0 0 0 0 0 0 " % mx, "lb add g0 1 good"]      # (trailing blank = peers episode)
    peers = rng.sample(sorted(PEERS), rng.randint(3, 6))
    for tid in range(1, rng.randint(8, 30)):
        ep.append("lb begin %d 0 - - %s" % (tid, rng.choice(peers)))
        ep.append("lb end %d 0 200" % tid)
    return ep


def gate_oracle(ep, outs):
    """each client identity is admitted exactly min(requests, max_tokens) times, whatever the others do"""
    ol = C.op_lines(ep)
    if not ol or not ol[0].startswith("lb new") or len(ol[0].split()) < 8:
        return []
    mx = int(ol[0].split()[7])
    seen = {}
    fails = []
    for l, o in zip(ol, outs):
        w = l.split()
        if w[1] != "begin":
            continue
        from urllib.parse import unquote
        client = unquote(w[4]).split(",")[0].strip()
        if ep and ep[0].endswith(" "):
            if w[6] not in PEERS:
                return []
            client = PEERS[w[6]]
        n = seen.get(client, 0)
        if n < mx and o.startswith("resp 429"):
            fails.append("client %s refused on its request #%d although its own bucket holds %d tokens (another client's traffic was charged to it): %s" % (client, n + 1, mx, l))
        if n >= mx and not o.startswith("resp 429"):
            fails.append("client %s admitted on its request #%d beyond its %d tokens: %s" % (client, n + 1, mx, l))
        seen[client] = n + 1
    return fails


def lbgen_enc(s):
    from ..lbgen import enc
    return enc(s)


def check(ctx):
    ctx.assumptions += [
        "time is the virtual clock injected by the overlay (time.Now/time.Since rewritten); monotone non-decreasing",
        "sync.Map / sync.Mutex behave as specified; concurrency is covered by the per-bucket critical-section argument, not by this sequential differential",
        "cleanup cutoff constant (1h) read from the source by the fact extractor",
    ]
    proofs_ok = C.prove(ctx, MODULES, THEOREMS)
    overlay = C.make_overlay(ctx, clock_pkgs=["internal/ratelimiter"], harness_pkgs=["internal/ratelimiter"])
    binary = C.go_test_build(ctx, "internal/ratelimiter", overlay)
    d = C.Differential(ctx, binary)
    nep = 3000 if ctx.thorough() else 400
    corpus = C.load_corpus(ctx.prop)
    episodes = corpus + [gen_episode(ctx.rng, long=ctx.thorough()) for _ in range(nep)] + [crowd_episode(ctx.rng, 70000 if ctx.thorough() else 6000)]
    # isolation (metamorphic): every episode is also run projected onto each of its clients
    pairs = []
    base_n = len(episodes)
    for idx in range(base_n):
        ep = episodes[idx]
        clients = sorted({l.split()[2] for l in ep[1:] if l.split()[1] == "allow"})
        if 2 <= len(clients) <= 12 and (ctx.thorough() or idx % 2 == 0):
            for cl in clients:
                pairs.append((idx, cl, len(episodes)))
                episodes.append(project(ep, cl))
    bad = d.check(episodes, oracle=oracle, label="rl")
    # a crowd larger than any table bound an implementation might have (tens of thousands of addresses between two
    # requests of one client), judged by the oracle alone: the model's client map is a function chain, quadratic in
    # the number of clients, so the quick tier gives the model 6 000 clients (above) and the implementation 70 000 here
    crowd_n = 1100000 if ctx.thorough() else 140000      # beyond 2^16, 10^5 / beyond 2^20, 10^6
    if True:
        big = crowd_episode(ctx.rng, crowd_n)
        rc, log, oi, _ = d.run_both([big], want_model=False)
        if rc != 0 or len(oi) != len(C.op_lines(big)):
            C.violation(ctx, "rl-crowd-impl-crash", {"what": "implementation run ended early (exit %d) after %d/%d ops" % (rc, len(oi), len(big)),
                                                     "ops_head": big[:8], "log_tail": log[-2000:]})
        else:
            fails = oracle(big, oi)
            if fails:
                C.violation(ctx, "rl-crowd-oracle", {
                    "what": "property oracle fails on the implementation's own outputs (one client spends its burst, %d other addresses are seen, the client asks again)" % crowd_n,
                    "oracle_failures": fails[:5], "ops": big, "impl_outputs_head": oi[:8], "impl_outputs_tail": oi[-4:],
                    "oracle_only": True, "oracle_fn": "vlib.props.c09:oracle"})
        ctx.cov["crowd_clients_oracle_only"] = crowd_n
    iso_checked = 0
    if bad == 0:
        si, _ = d.last
        for idx, cl, pidx in pairs:
            full = [o for l, o in zip(C.op_lines(episodes[idx]), si[idx]) if l.split()[1] == "allow" and l.split()[2] == cl]
            projd = [o for l, o in zip(C.op_lines(episodes[pidx]), si[pidx]) if l.split()[1] == "allow"]
            iso_checked += 1
            if full != projd:
                C.violation(ctx, "rl-isolation", {
                    "what": "client %s gets different answers when other clients' requests are removed" % cl,
                    "ops": episodes[idx], "impl_outputs": si[idx], "projected_ops": episodes[pidx],
                    "projected_outputs": si[pidx]})
                break
    # the limiter behind the balancer's client-identity extraction (per-client isolation end to end)
    from . import c02
    lbbin = c02.build(ctx)
    dg = C.Differential(ctx, lbbin)
    dg.n = 500
    gate_eps = [gate_episode(ctx.rng) for _ in range(300 if ctx.thorough() else 60)] + [peer_gate_episode(ctx.rng) for _ in range(100 if ctx.thorough() else 20)]
    ctx.cov["gate_episodes_by_peer_address_incl_ipv6_zones"] = 100 if ctx.thorough() else 20
    dg.check(gate_eps, oracle=gate_oracle, label="gate")
    ctx.cov["gate_episodes"] = len(gate_eps)
    # the limiter the balancer builds runs with the configured numbers (seconds become that many seconds)
    from . import c18
    wire = [c18.wireall_episode(ctx.rng) for _ in range(60 if ctx.thorough() else 15)]
    dg.check(wire, oracle=c18.wireall_oracle, label="rl-wiring")
    ctx.cov["wiring_episodes"] = len(wire)
    # coverage accounting
    nontriv = set()
    kinds = {"allow": 0, "cleanup": 0}
    rejected = admitted = 0
    si = d.last[0] if bad == 0 else []
    for ep, outs in zip(episodes, si):
        seen_rej = False
        refill_after = False
        for l, o in zip(C.op_lines(ep)[1:], outs[1:]):
            w = l.split()
            kinds[w[1]] += 1
            if w[1] == "allow":
                if o == "0":
                    seen_rej = True
                    rejected += 1
                else:
                    admitted += 1
                    if seen_rej:
                        refill_after = True
        if seen_rej and refill_after:
            nontriv.add(hash(tuple(ep)))
    total_ops = sum(len(C.op_lines(e)) for e in episodes)
    ctx.cov.update({
        "evaluations": total_ops,
        "distinct_nontrivial": len(nontriv),
        "rule": "episode = fresh limiter + 5..%d time-ordered allow/cleanup ops over 1-4 clients; non-trivial = contains a rejection followed by an admission after refill; distinct by op text" % (120 if ctx.thorough() else 40),
        "episodes": len(episodes),
        "traces_validated_against_impl": len(episodes),
        "op_kinds": kinds, "admitted": admitted, "rejected": rejected,
        "isolation_pairs_checked": iso_checked,
        "samples": [episodes[len(corpus)][:12]] if len(episodes) > len(corpus) else [],
    })
    if not proofs_ok:
        C.violation(ctx, "proof", {
            "what": "a proof obligation of C09 no longer checks",
            "broken": [o for o in ctx.obligations if not o[1]]}, no_input=not any(not v["no_input"] for v in ctx.violations))
