"""C15 — gzip plugin: what the client decodes is exactly what the backend sent."""
from .. import common as C
from .. import rwgen
from . import c01
from . import c14

ID = "C15"
MODULES = ["Helios.Props.CodeRW", "Helios.Props.C15"]
THEOREMS = ["Helios.Http.payload_preserved", "Helios.Http.status_preserved", "Helios.Http.compress_only_if",
            "Helios.Http.identity_otherwise", "Helios.Http.not_accepting_passthrough",
            # Tie C: the buffering half of the plugin's response writer (WriteHeader, commitHeader, Write, Flush),
            # translated from the source on every run, is the model's Gz.step — same state, same byte stream handed on
            "Helios.CodeTie.gzWrite_sim", "Helios.CodeTie.gzWriteHeader_sim", "Helios.CodeTie.gzCommit_sim",
            "Helios.CodeTie.gzFlush_sim", "Helios.CodeTie.flat_chunks", "Helios.CodeTie.translation_clean_rw"]
TYPES = ["text/|application/json", "text/html|text/css|application/json", "application/", "text/plain"]
CAP = 10 * 1024 * 1024


def gen_pair(rng, big=False):
    ms = rng.choice([0, 1, 10, 100, 1024])
    types = rng.choice(TYPES)
    level = rng.choice([-1, 0, 1, 5, 6, 9])
    if big:
        total = rng.choice([CAP - 1, CAP, CAP + 1, CAP + 70000])
    else:
        total = rng.choice([0, max(0, ms - 1), ms, ms + 1, 3 * ms + 5, 600, 5000])
    method = rng.choice(["GET", "GET", "GET", "POST", "HEAD"])
    ae = rng.choice(rwgen.AES)
    ops = rwgen.response_ops(rng, total=total, late_headers=False)
    if big:
        # ReverseProxy-like: fixed-size chunks
        ops = [o for o in ops if not o.startswith("w:")]
        seed, left = 3, total
        while left > 0:
            n = min(left, rng.choice([32768, 1 << 20, 4 << 20]))
            ops.append("w:%d:%d" % (n, seed))
            seed = (seed + n) % 251
            left -= n
    pos = rng.choice(["gz", "gz", "log+gz", "gz+log", "pr.1+gz+pr.2", "hdr+gz", "sl.1000000.100000000+gz", "gz+sl.1000000.100000000"])
    chain = pos.replace("gz", "gz.%d.%d.%s" % (level, ms, rwgen.enc(types)))
    plain = pos.replace("+gz", "").replace("gz+", "").replace("gz", "") or "none"
    return ["# meta %d %s" % (ms, rwgen.enc(types)),
            rwgen.line(chain, method, ae, "-", 0, "cl", ops), rwgen.line(plain, method, ae, "-", 0, "cl", ops)]


def over_cap_pairs():
    """The buffering cap crossed early, with many ReverseProxy-sized writes after it — the shape in
    which a writer that falls back to streaming must keep streaming (with and without a declared
    length, the crossing write first / in the middle)."""
    eps = []
    for k, (first, tail, with_cl) in enumerate([(CAP - 100, 6, False), (CAP + 1, 4, True), (4 << 20, 0, False)]):
        sizes = [first] + [32768] * tail + [123]
        if first == 4 << 20:
            sizes = [4 << 20, 4 << 20, 4 << 20, 32768, 32768, 1 << 20, 77]
        total = sum(sizes)
        # (statuses other than 200 too: a large partial answer, a large error page — the status travels with the body)
        ops = ["sh:Content-Type:text%2Fplain"] + (["sh:Content-Length:%d" % total] if with_cl else []) + ["wh:%d" % [206, 404, 200][k]]
        seed = 5 + k
        for n in sizes:
            ops.append("w:%d:%d" % (n, seed))
            seed = (seed + n) % 251
        chain = ["gz.6.100.text%2F", "log+gz.-1.0.text%2F", "gz.1.10.text%2F+sl.1000000.100000000"][k]
        plain = ["none", "log", "sl.1000000.100000000"][k]
        eps.append(["# meta %d %s" % ([100, 0, 10][k], "text%2F"),
                    rwgen.line(chain, "GET", "gzip", "-", 0, "cl", ops), rwgen.line(plain, "GET", "gzip", "-", 0, "cl", ops)])
    return eps


def preencoded_pairs():
    """answers that already carry a Content-Encoding (a backend that compresses itself): left as they are, whether the
    handler calls WriteHeader or lets the first Write do it, whatever the status"""
    eps = []
    for enc in ("br", "gzip", "deflate"):
        for wh in ([], ["wh:200"], ["wh:404"]):
            for chain, plain in (("gz.5.10.text%2F", "none"), ("log+gz.-1.0.text%2F", "log"), ("gz.9.1.text%2F+hdr", "hdr")):
                ops = ["sh:Content-Type:text%2Fplain", "sh:Content-Encoding:" + enc] + wh + ["w:600:3", "w:300:7"]
                eps.append(["# meta %d %s" % (10 if "5.10" in chain else (1 if "9.1" in chain else 0), "text%2F"),
                            rwgen.line(chain, "GET", "gzip", "-", 0, "cl", ops), rwgen.line(plain, "GET", "gzip", "-", 0, "cl", ops)])
    return eps


def stream_pairs():
    """handlers that flush while they write (event streams, ndjson) behind the plugin: status,
    encoding header and body must still be the backend's"""
    eps = []
    for ct, status, with_cl in (("text%2Fevent-stream", 404, False), ("text%2Fevent-stream", 200, True),
                                ("application%2Fx-ndjson", 503, False), ("text%2Fplain", 201, False)):
        sizes = [300, 300, 500]
        ops = ["sh:Content-Type:" + ct] + (["sh:Content-Length:%d" % sum(sizes)] if with_cl else []) + ["wh:%d" % status]
        for k, n in enumerate(sizes):
            ops += ["w:%d:%d" % (n, 11 + k), "fl"]
        for chain, plain, types in (("gz.5.10.text%2F%7Capplication%2F", "none", "text%2F%7Capplication%2F"), ("log+gz.-1.0.text%2F", "log", "text%2F")):
            eps.append(["# meta %d %s" % (10 if "5.10" in chain else 0, types),
                        rwgen.line(chain, "GET", "gzip", "-", 0, "cl", ops), rwgen.line(plain, "GET", "gzip", "-", 0, "cl", ops)])
    return eps


def oracle_pair(ep, outs):
    if not ep or not ep[0].startswith("# meta") or len(outs) != 2:
        return []
    a, b = c14.parse_out(outs[0]), c14.parse_out(outs[1])
    if "status" not in a or "status" not in b:
        return ["exchange failed: %s | %s" % (outs[0], outs[1])]
    line = C.op_lines(ep)[0]
    ops = line.split()[7].split(";")
    whs = [o for o in ops if o.startswith("wh:") and not o.startswith("wh:1")]
    wi = [i for i, o in enumerate(ops) if o.startswith("w:") or o == "fl"]
    late_wh = any(o.startswith("wh:") and not o.startswith("wh:1") and wi and i > wi[0] for i, o in enumerate(ops))
    fails = []
    if len(whs) > 1 or late_wh:
        return fails            # handlers calling WriteHeader twice / after writing are outside the claim
    if a["gz"] == "2":
        if b["gz"] != "2":
            fails.append("client cannot decode the response by its own Content-Encoding header: %s" % outs[0])
        return fails
    if a["status"] != b["status"]:
        fails.append("status %s with gzip plugin, %s without" % (a["status"], b["status"]))
    # ... and both are what the handler wrote (an interim 1xx before it does not count): a plugin common to the two chains
    # — logging — must not change it either
    wrote_status = whs[0][3:] if whs else "200"
    if b["status"] != wrote_status and b["status"] != "413":
        fails.append("the handler wrote status %s; through the chain without gzip the client got %s (%s)" % (wrote_status, b["status"], line))
    if a["body"] != b["body"]:
        fails.append("decoded body %s with gzip plugin, backend sent %s" % (a["body"], b["body"]))
    if a["short"] != b["short"] and b["short"] == "0":
        fails.append("framing: short=%s with plugin, %s without" % (a["short"], b["short"]))
    wrote = sum(int(o.split(":")[1]) for o in ops if o.startswith("w:"))
    if wrote > 0 and (line.split()[2] == "HEAD" or b["status"] in ("204", "304")):
        return fails            # a handler writing a body where none is allowed: header comparison is meaningless
    if a["gz"] == "1" and b["gz"] == "0":
        ms = int(ep[0].split()[2])
        import urllib.parse
        types = [t for t in urllib.parse.unquote(ep[0].split()[3]).split("|") if t]
        ae = line.split()[3]
        ae = "" if ae == "-" else urllib.parse.unquote(ae)
        ct = "" if b["ct"] == "-" else urllib.parse.unquote(b["ct"])
        blen = int(b["body"].split(":")[0])
        if "gzip" not in [p.strip() for p in ae.split(",")]:
            fails.append("compressed although the client did not list gzip (Accept-Encoding %r)" % ae)
        if not any(ct.startswith(t) for t in types):
            fails.append("compressed content type %r not in %s" % (ct, types))
        if blen < ms:
            fails.append("compressed %d bytes < min_size %d" % (blen, ms))
        if blen > CAP:
            fails.append("compressed %d bytes > buffering cap" % blen)
        if b["ce"] != "-":
            fails.append("compressed an already encoded response (Content-Encoding %s)" % b["ce"])
    if a["gz"] == "0" and (a["ce"] != b["ce"] or a["ct"] != b["ct"]):
        fails.append("identity delivery but headers differ: %s vs %s" % (outs[0], outs[1]))
    return fails


def front_episode(rng, cut=False):
    """the plugin where cmd/helios puts it — buildHandler over the real balancer, with the circuit breaker / limiter /
    passive checks switched on or off — against the same exchange made directly: statuses of every class (a 5xx is
    what the breaker counts), text bodies above min_size, clients that do and do not accept gzip"""
    feats = "g" + "".join(f for f in "crp" if rng.random() < 0.6) + rng.choice(["", "", "l", "L", "lL"])
    ep = ["px new round_robin 00 - %s" % feats]
    for _ in range(rng.randint(3, 6)):
        status = rng.choice([200, 200, 201, 404, 410, 500, 502, 503, 503, 504])
        ct = rng.choice(["text/plain", "text/html; charset=utf-8", "application/json", "image/png"])
        total = rng.choice([1, 40, 600, 5000, 70000])
        ops = ["sh:Content-Type:%s" % c01.enc(ct)]
        if cut:
            # the backend dies mid-body (it declared more than it sends): what the client decodes must break off too
            ops.append("sh:Content-Length:%d" % (total + rng.choice([1, 9, 5000])))
        elif rng.random() < 0.5:
            ops.append("sh:Content-Length:%d" % total)
        ops.append("wh:%d" % status)
        seed = rng.randint(0, 250)
        for part in c01.partition(rng, total, 3):
            ops.append("w:%d:%d" % (part, seed))
            seed = (seed + part) % 251
        h = [("Accept-Encoding", rng.choice(["gzip", "gzip", "gzip, deflate", "identity"]))] if rng.random() < 0.85 else []
        for mode in ("direct", "via"):
            ep.append("px x %s GET /p %s 0 cl %s" % (mode, c01.hdr_tok(h), ";".join(ops)))
    ep.append("px close")
    return ep


def overlap_episode(cap):
    """one plugin instance in the real front end: an answer beyond the buffering cap first, then waves of clients served at
    the same time, each with a body of its own — every client decodes exactly its own bytes"""
    return ["px new round_robin 00 - g",
            "px x via GET /p Accept-Encoding=gzip 0 cl sh:Content-Type:text%%2Fplain;wh:200;w:%d:3" % (cap + 1000),
            "px conc 16 200000", "px conc 32 60000", "px conc 16 200000", "px close"]


def front_cut_oracle(ep, outs):
    """a backend that dies mid-body, seen through the buffering plugin: the client gets no answer at all or one that
    breaks off — never a complete, well-formed answer made of part of the body"""
    lines = C.op_lines(ep)
    fails = []
    for l, o in zip(lines, outs):
        if not l.startswith("px x via"):
            continue
        if o.startswith("read-error") or " short=1 " in o.split("||")[0] + " ":
            continue
        if o.startswith("px status="):
            fails.append("a response whose backend died mid-body reached the client as a complete answer: %s (%s)" % (o.split("||")[0][:120], l))
    return fails


def front_oracle(ep, outs):
    """what the client decodes through Helios is what the backend sent, with the backend's status"""
    lines = C.op_lines(ep)
    fails = []
    i = 1
    while i + 1 < len(lines):
        if not (lines[i].startswith("px x direct") and lines[i + 1].startswith("px x via")):
            i += 1
            continue
        od, ov = outs[i].split("||")[0], outs[i + 1].split("||")[0]
        fd = dict(t.split("=", 1) for t in od.split()[1:] if "=" in t)
        fv = dict(t.split("=", 1) for t in ov.split()[1:] if "=" in t)
        if "status" in fd and "status" in fv:
            if fd["status"] != fv["status"]:
                fails.append("status changed behind the gzip plugin: backend %s, client %s (%s)" % (fd["status"], fv["status"], lines[i + 1]))
            if fd.get("body") != fv.get("body") or fv.get("short") != fd.get("short"):
                fails.append("payload not preserved behind the gzip plugin: backend sent len:hash %s, client decoded %s short=%s (%s)" % (
                    fd.get("body"), fv.get("body"), fv.get("short"), lines[i + 1]))
        i += 2
    return fails


def check(ctx):
    ctx.assumptions += [
        "compress/gzip round-trips (gunzip(gzip(b)) = b): the harness client really decodes what it receives",
        "net/http server semantics modelled (Base) and validated on a real server on every run",
        "claims about status/body are for handlers that call WriteHeader at most once and not after writing",
    ]
    ok = C.prove(ctx, MODULES, THEOREMS)
    binary = c14.build(ctx)
    d = C.Differential(ctx, binary, timeout=1200)
    n = 2500 if ctx.thorough() else 350
    episodes = [gen_pair(ctx.rng) for _ in range(n)] + [gen_pair(ctx.rng, big=True) for _ in range(6 if ctx.thorough() else 2)] + over_cap_pairs() + stream_pairs() + preencoded_pairs()
    corpus = C.load_corpus(ID)
    bad = d.check(corpus + episodes, oracle=oracle_pair, label="gzip")
    sess = []
    for _ in range(150 if ctx.thorough() else 30):
        pos = ctx.rng.choice(["gz", "log+gz", "gz+sl.1000.100000", "pr.1+gz+pr.2"])
        sess.append(rwgen.session_episode(ctx.rng, pos.replace("gz", "gz.%d.%d.text%%2F%%7Capplication%%2Fjson" % (ctx.rng.choice([-1, 1, 5, 9]), ctx.rng.choice([0, 10, 100]))),
                                          ae=ctx.rng.choice(["gzip", "gzip", "-"])))
    # ... and one instance that has carried a response beyond the buffering cap before
    for chain in ("gz.5.10.text%2F", "log+gz.1.0.text%2F"):
        big = ["sh:Content-Type:text%2Fplain", "wh:200"] + ["w:%d:%d" % (4 << 20, 3 + k) for k in range(3)] + ["w:70000:9"]
        rests = [rwgen.line("X", method, "gzip", "-", 0, "cl", ops).split(" ", 2)[2] for method, ops in (
            ("GET", big), ("GET", ["sh:Content-Type:text%2Fplain", "wh:404", "w:600:4"]), ("GET", ["sh:Content-Type:text%2Fplain", "wh:410"]),
            ("GET", ["sh:Content-Type:text%2Fplain", "wh:200", "w:900:5"]))]
        sess.append(["# session-batch", "rws " + chain] + ["rw @ " + r for r in rests] + ["rws -"] + ["rw %s %s" % (chain, r) for r in rests])
    d.check(sess, oracle=lambda e, o: rwgen.session_oracle(e, o) or [], label="gzip-session")
    ctx.cov["session_episodes"] = len(sess)
    # the plugin in the front end cmd/helios builds, over the real balancer with its other features on
    fbin = c01.build(ctx)
    df = C.Differential(ctx, fbin, timeout=600, project=c01.project)
    fronts = [front_episode(ctx.rng) for _ in range(60 if ctx.thorough() else 12)]
    df.check(fronts, oracle=front_oracle, label="gzip-front")
    def overlap_oracle(ep, outs):
        return ["clients served at the same time by one gzip plugin instance do not each get their own body: %s -> %s" % (l, o)
                for l, o in zip(C.op_lines(ep), outs) if l.startswith("px conc") and o != "conc ok %s" % l.split()[2]]
    C.Differential(ctx, fbin, timeout=600, confirm=1).check_oracle_only([overlap_episode(CAP)] * (3 if ctx.thorough() else 1), overlap_oracle, "gzip-overlap")
    cuts = [front_episode(ctx.rng, cut=True) for _ in range(30 if ctx.thorough() else 6)]
    df.check_oracle_only(cuts, front_cut_oracle, "gzip-front-cut")
    ctx.cov["front_end_episodes"] = len(fronts)
    if getattr(df, "last", None):
        ctx.cov["front_end_exchanges_compressed"] = sum(1 for outs in df.last[0] for o in outs if "Content-Encoding=gzip" in o)
        ctx.cov["front_end_exchanges_5xx_compressed"] = sum(1 for outs in df.last[0] for o in outs if "Content-Encoding=gzip" in o and " status=5" in o)
    comp = ident = 0
    nontriv = set()
    if bad == 0:
        for ep, outs in zip(episodes, d.last[0][len(corpus):]):
            a = c14.parse_out(outs[0])
            if a.get("gz") == "1":
                comp += 1
                nontriv.add(hash(tuple(ep)))
            else:
                ident += 1
    ctx.cov.update({
        "evaluations": 2 * len(episodes) + len(corpus),
        "distinct_nontrivial": len(nontriv),
        "rule": "pairs of real HTTP exchanges (with / without the gzip plugin at 8 chain positions): 11 Accept-Encoding spellings, 5 content types x 4 configured prefix lists, sizes around min_size (0..1024) and around the 10MB cap (32KB..4MB chunks), levels -1..9, explicit/implicit WriteHeader, declared Content-Length (sometimes wrong), pre-encoded responses, 13 statuses, GET/POST/HEAD; the client decodes by the headers it received. non-trivial = the response was actually compressed",
        "pairs": len(episodes), "traces_validated_against_impl": 2 * len(episodes),
        "compressed": comp, "identity": ident,
        "samples": [episodes[0]],
    })
    if not ok:
        C.violation(ctx, "proof", {"what": "a proof obligation of C15 no longer checks",
                                   "broken": [o for o in ctx.obligations if not o[1]]},
                    no_input=not any(not v["no_input"] for v in ctx.violations))
