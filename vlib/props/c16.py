"""C16 — request-ID / trace-ID propagation is consistent end to end."""
from .. import common as C
from ..lbgen import enc

ID = "C16"
MODULES = ["Helios.Props.C16", "Helios.Props.C01", "Helios.Props.CodeHdr"]
THEOREMS = ["Helios.Ids.id_consistent", "Helios.Ids.supplied_unchanged", "Helios.Ids.blank_generated",
            "Helios.Ids.disabled_untouched", "Helios.Ids.id_injective", "Helios.Http.id_on_every_path",
            "Helios.Proxy.via_transparent",
            "Helios.CodeTie.validHeaderFieldName_refines", "Helios.CodeTie.translation_clean_hdr"]
VALUES = ["abc", " lead", "trail\t", "abc ", " abc", " \t ", " ", " ", "x" * 300, "id with spaces", "ünïcödé",
          "req_0123", "a,b", "%41", "-", "none", "none", "none"]
HEADERS = [("-", "-"), ("-", "-"), ("X-Correlation-Id", "X-B3-Traceid"), ("x-my-req", "-"), (" X-Padded ", "traceparent"),
           # every character RFC 7230 allows in a field name, not only letters, digits and '-'
           ("X.Request.Id", "x-b3.traceid"), ("X_Req~1", "t!#$%&'*+^`|~9"), ("req.id", "-"), ("-", "trace.id")]


def gen_episode(rng, long=False):
    ron, ton = rng.random() < 0.8, rng.random() < 0.7
    rh, th = rng.choice(HEADERS)
    plugins = rng.choice(["none", "none", "auth", "sl", "auth+sl", "sl+auth"])
    rl = rng.random() < 0.4
    ops = ["id new %d %s %d %s %s %d" % (ron, enc(rh), ton, enc(th), plugins, rl)]
    ejected = False
    for _ in range(rng.randint(3, 30 if long else 10)):
        rid, tr = rng.choice(VALUES), rng.choice(VALUES)
        key = rng.choice(["k1", "k1", "k1", "bad", "-"])
        blen = rng.choice([0, 5, 10, 11, 500])
        ej = 1 if (not ejected and rng.random() < 0.1) else 0
        ejected = ejected or ej == 1
        f = lambda v: v if v in ("none",) else (enc(v) if v != "-" else "-")
        ops.append("id req %s %s %s %d %d%s" % (f(rid), f(tr), key, blen, ej, rng.choice([" upg", " own"]) if rng.random() < 0.2 else ""))
    if rng.random() < 0.35:
        # concurrent generation: identifiers handed out at the same instant must differ
        ops.append("id burst %d %d" % (rng.choice([200, 2000, 5000] if not long else [2000, 20000, 100000]), rng.choice([2, 8, 16])))
    return ops


TOKEN = set("!#$%&'*+-.^_`|~0123456789abcdefghijklmnopqrstuvwxyzABCDEFGHIJKLMNOPQRSTUVWXYZ")


def canonical(name):
    """net/http's canonical form of a header name (names with a byte outside the token set stay as they are)"""
    if any(c not in TOKEN for c in name):
        return name
    out, up = [], True
    for c in name:
        out.append(c.upper() if up else c.lower())
        up = c == "-"
    return "".join(out)


def oracle(ep, outs):
    import urllib.parse
    fails = []
    w0 = C.op_lines(ep)[0].split()
    ron, ton = w0[2] == "1", w0[4] == "1"
    if w0[:2] == ["id", "new"] and len(w0) == 8 and outs and outs[0].startswith("ok "):
        used = [urllib.parse.unquote(x) for x in outs[0].split()[1:3]]
        for cfgd, dflt, u, what in ((w0[3], "X-Request-ID", used[0], "request-ID"), (w0[5], "X-Trace-ID", used[1], "trace")):
            name = ("" if cfgd == "-" else urllib.parse.unquote(cfgd)).strip(" \t\r\n")
            want = canonical(name or dflt)
            if u != want:
                fails.append("the %s header in use is %r, the configuration names %r" % (what, u, want))
    for line, o in zip(C.op_lines(ep)[1:], outs[1:]):
        if line.startswith("id burst"):
            if "dups=0" not in o:
                fails.append("identifiers generated concurrently collide: %s -> %s" % (line, o))
            continue
        if "DIFF" in o:
            fails.append("value seen by the backend differs from the value the client gets: %s -> %s" % (line, o))
        if "dups=0" not in o:
            fails.append("a generated identifier was handed out twice: %s" % o)
        w = line.split()
        parts = dict(p.split("=", 1) for p in o.split()[1:] if "=" in p)
        for i, (on, tok) in enumerate([(ron, w[2]), (ton, w[3])]):
            hv = parts.get("h%d" % i, "")
            c = hv.split("/")[0]
            if on and c == "none":
                fails.append("feature %d enabled but the response carries no ID header (status %s)" % (i, o.split()[0]))
            if not on and c != "none":
                fails.append("feature %d disabled but a header was set on the response: %s" % (i, o))
            if on and tok not in ("none", "-") and not c.startswith("GEN:"):
                import urllib.parse
                if urllib.parse.unquote(c) != urllib.parse.unquote(tok).strip(" \t"):
                    fails.append("supplied ID %s echoed as %s" % (tok, c))
    return fails


def wire_episodes(rng):
    """identifiers on the wire, with the plugins that wrap the response writer in the chain and backends that send
    an interim response first: answers with and without a body, HEAD, 204 — every one must carry the identifiers"""
    from . import c01
    eps = []
    for feats in ("s", "ls", "l", "-"):
        ep = ["px new round_robin 11 - %s" % feats]
        for method, ops, *hfix in (("GET", ["sh:Link:%s" % c01.enc("</s.css>; rel=preload"), "wh:103", "wh:200"]),
                            ("GET", ["wh:103", "sh:Content-Length:0", "wh:200"]),
                            ("HEAD", ["wh:103", "sh:Content-Length:5000", "wh:200"]),
                            ("GET", ["wh:103", "wh:204"]),
                            # every interim status is interim: 102 Processing, an unknown 1xx, several in a row
                            ("GET", ["wh:102", "wh:200", "w:3:1"]), ("GET", ["wh:199", "wh:102", "wh:103", "wh:200"]), ("POST", ["wh:102", "wh:500"]),
                            ("GET", ["wh:103", "wh:201", "w:10:3"]),
                            ("GET", ["wh:200"]), ("GET", ["wh:404"]), ("HEAD", ["wh:200"]),
                            # a backend that echoes one of the two identifiers it was sent on its final answer, after an
                            # interim one (the reverse proxy wipes the header map in between): the other one must not get lost
                            ("GET", ["wh:103", "sh:X-Request-Id:client-77", "wh:200", "w:4:1"], [("X-Request-Id", "client-77")]),
                            ("GET", ["wh:103", "sh:X-Trace-Id:t-1", "wh:200"], [("X-Trace-Id", "t-1")]),
                            ("GET", ["sh:X-Request-Id:client-77", "wh:103", "wh:200"], [("X-Request-Id", "client-77"), ("X-Trace-Id", "t-1")]),
                            ("GET", ["sh:X-Trace-Id:t-1", "wh:200"], [("X-Trace-Id", "t-1")])):
            h = hfix[0] if hfix else rng.choice([[], [("X-Request-Id", "client-77")], [("X-Trace-Id", "t-1")]])
            for mode in ("direct", "via"):
                ep.append("px x %s %s /p %s 0 cl %s" % (mode, method, c01.hdr_tok(h), ";".join(ops)))
        ep.append("px close")
        eps.append(ep)
    return eps


def own_id_episodes(rng):
    """a backend that stamps its answers with an identifier of its own under the same header name, with and without an
    interim response first: the client gets the propagated identifier as the first value AND the backend's line (a
    response header like any other). Judged by the oracles alone: the wire model's headers are single-valued."""
    from . import c01
    eps = []
    for feats in ("-", "ls", "l"):
        ep = ["px new round_robin 11 - %s" % feats]
        for ops, h in ((["sh:X-Request-Id:backend-77", "wh:200", "w:2:1"], [("X-Request-Id", "client-77")]),
                       (["sh:X-Trace-Id:backend-t", "wh:200"], []),
                       (["wh:103", "sh:X-Request-Id:backend-78", "wh:201"], [("X-Trace-Id", "t-9")]),
                       (["wh:102", "sh:X-Request-Id:backend-79", "sh:X-Trace-Id:backend-tt", "wh:200", "w:5:2"], []),
                       (["sh:X-Request-Id:backend-80", "wh:103", "wh:404"], [("X-Request-Id", "client-80")])):
            for mode in ("direct", "via"):
                ep.append("px x %s GET /p %s 0 cl %s" % (mode, c01.hdr_tok(h), ";".join(ops)))
        ep.append("px close")
        eps.append(ep)
    return eps


def own_id_oracle(ep, outs):
    from . import c01
    fails = list(c01.oracle(ep, outs))
    for l, o in zip(C.op_lines(ep), outs):
        if l.startswith("px x via") and " ids=" in o:
            ids = o.split(" ids=", 1)[1].split()[0]
            for part, what in zip(ids.split("/"), ("request-ID", "trace")):
                if part not in ("sup", "gen", "off"):
                    fails.append("the %s the client gets is not the one the backend was sent (%s) although the backend merely added a header "
                                 "of its own under that name [%s]" % (what, part, l))
    return fails


def check(ctx):
    ctx.assumptions += [
        "crypto/rand yields pairwise distinct 12-byte draws (id_injective turns that into distinct identifiers); the harness counts duplicates among all generated IDs it sees",
        "the optional `request-id` plugin, which overwrites X-Request-ID by design, is not part of the chains of the propagation episodes; the identifiers it draws are counted for uniqueness under concurrency (`id burst` with the plugin in the chain)",
        "requests are built in-process through the real buildHandler composition (plugins -> RequestContextMiddleware -> LoadBalancer) with one real backend",
    ]
    ok = C.prove(ctx, MODULES, THEOREMS)
    overlay = C.make_overlay(ctx, clock_pkgs=[], harness_pkgs=["cmd/helios"], hmap={"cmd/helios": "helios"})
    binary = C.go_test_build(ctx, "cmd/helios", overlay, name="helios")
    d = C.Differential(ctx, binary, timeout=900)
    n = 1500 if ctx.thorough() else 250
    episodes = C.load_corpus(ID) + [gen_episode(ctx.rng, ctx.thorough()) for _ in range(n)]
    # the optional request-id plugin draws identifiers of its own: they too are distinct under concurrency
    episodes += [["id new %s - %s - rid 0" % (a, b), "id burst %d %d" % (n, wk)] for a, b, n, wk in
                 (("0", "0", 20000 if not ctx.thorough() else 100000, 16), ("1", "1", 5000, 8), ("0", "1", 5000, 12))]
    bad = d.check(episodes, oracle=oracle, label="ids")
    # header names the two features are configured with, judged at start-up: a usable name starts and serves with the
    # identifier on the response, an unusable one is refused with an error that names it — per feature, whatever the other one is
    from . import c18
    names_eps = c18.serve_episodes(ctx, names_only=True)
    d.check_oracle_only(names_eps, c18.serve_oracle, "id-names")
    ctx.cov["identifier_header_names_judged_at_start_up"] = len(names_eps)
    from . import c01
    we = wire_episodes(ctx.rng)
    C.Differential(ctx, binary, timeout=600, project=c01.project).check(we, oracle=c01.oracle, label="ids-wire")
    ctx.cov["wire_episodes_with_interim_responses"] = len(we)
    own = own_id_episodes(ctx.rng)
    C.Differential(ctx, binary, timeout=600).check_oracle_only(own, own_id_oracle, "ids-own")
    ctx.cov["episodes_with_a_backend_header_under_the_identifier_name"] = len(own)
    paths = {}
    nontriv = set()
    if bad == 0:
        for ep, outs in zip(episodes, d.last[0]):
            seen = set()
            for o in outs[1:]:
                st = o.split()[0]
                paths[st] = paths.get(st, 0) + 1
                seen.add(st)
            if len(seen) >= 3:
                nontriv.add(hash(tuple(ep)))
    ctx.cov.update({
        "evaluations": sum(len(C.op_lines(e)) for e in episodes),
        "distinct_nontrivial": len(nontriv),
        "rule": "episodes: one handler composition (request-id / trace on or off, default and custom header names, custom-auth / size_limit chains, limiter on or off) and 3..%d requests with supplied IDs (plain, Unicode-space padded, blank, long, non-ASCII, look-alike generated), keys and body sizes that steer the response path (200 proxied, 401, 413, 429, 503). non-trivial = at least three different response paths in the episode" % (30 if ctx.thorough() else 10),
        "episodes": len(episodes), "traces_validated_against_impl": len(episodes), "response_paths": paths,
        "samples": [episodes[-1][:6]],
    })
    if not ok:
        C.violation(ctx, "proof", {"what": "a proof obligation of C16 no longer checks",
                                   "broken": [o for o in ctx.obligations if not o[1]]},
                    no_input=not any(not v["no_input"] for v in ctx.violations))
