"""C13 — accounting: counters conserve requests; in-flight gauges return to zero."""
from urllib.parse import unquote

from .. import common as C
from .. import lbgen, lbshadow
from . import c02

ID = "C13"
MODULES = ["Helios.Props.C13", "Helios.Props.C13G", "Helios.Props.Facts"]
THEOREMS = ["Helios.LB.begin_conserved", "Helios.LB.end_conserved", "Helios.LB.conserved_run",
            "Helios.LB.quiescent_totals", "Helios.LB.gauges_zero_when_idle",
            "Helios.LB.ginv_step", "Helios.LB.gauge_ok_run", "Helios.LB.gauges_zero_run",
            "Helios.Facts.execute_panic_is_failure_and_propagates"]


def gen_episode(rng, long=False):
    g = lbgen.Gen(rng, rl=rng.random() < 0.4, cb=rng.random() < 0.4, passive=rng.random() < 0.5)
    n = rng.randint(10, 80 if long else 40)
    gaps = rng.random() < 0.3
    for _ in range(n):
        g.step_time()
        if gaps and rng.random() < 0.12:
            # a quiet hour, a quiet day: what was counted stays counted
            g.advance(rng.choice([61 * 60, 3 * 3600, 25 * 3600]) * lbgen.SEC)
        k = rng.random()
        if k < 0.45:
            g.begin()
            if rng.random() < 0.5:
                g.end(g.infl[-1])
        elif k < 0.7:
            g.end()
        elif k < 0.78:
            g.eject()
        elif k < 0.82:
            g.remove()
        elif k < 0.86:
            g.add()
        elif k < 0.9:
            g.set_strategy()
        else:
            g.observe()
    return g.finish()


def oracle(ep, outs):
    ol = C.op_lines(ep)
    sh = lbshadow.Shadow(ol[0])
    fails = []
    answered = {"ok": 0, "failed": 0, "limited": 0}
    ended_by_name = {}
    for line, o in zip(ol[1:], outs[1:]):
        if o in ("hang", "bad-op") or o.startswith("resp aborted"):   # a panic in the balancer before any backend was contacted
            fails.append("%s -> %s" % (line, o))
            break
        info = sh.apply(line, o)
        w = line.split()
        if w[1] == "begin" and o.startswith("resp "):
            # answered by Helios itself: 429 from the limiter is "rate-limited"; everything else "failed"
            code = int(o.split()[1])
            answered["limited" if (code == 429 and sh.rl and not sh.cb) else "other"] = 0  # classified below
        if w[1] == "end" and o.startswith("done"):
            obj = info.get("obj")
            if obj is not None:
                ended_by_name[obj.name] = ended_by_name.get(obj.name, 0) + 1
                if info.get("failed"):
                    answered["failed"] += 1
                else:
                    answered["ok"] += 1
        if w[1] == "metrics":
            p = o.split()
            tot, ok, failed, limited = int(p[1]), int(p[2]), int(p[3]), int(p[4])
            inflight = len(sh.flight)
            if tot != sh.tot["requests"]:
                fails.append("total_requests=%d but %d requests reached the balancer" % (tot, sh.tot["requests"]))
            if tot != ok + failed + limited + inflight:
                fails.append("total=%d != ok %d + failed %d + limited %d + in-flight %d" % (tot, ok, failed, limited, inflight))
            if ok != answered["ok"]:
                fails.append("successful_requests=%d but clients saw %d successful proxied responses" % (ok, answered["ok"]))
            per = {}
            if len(p) > 5:
                for ent in p[5].split(","):
                    f = ent.split(":")
                    per[unquote(f[0])] = (int(f[1]), int(f[2]), int(f[3]), int(f[4]))
            for name, cnt in ended_by_name.items():
                if name in per and per[name][0] != cnt:
                    fails.append("backend %s: total_requests=%d but %d exchanges with it ended" % (name, per[name][0], cnt))
            for name, cnt in sh.sent_by_name.items():
                if cnt > 0 and sh.by_name(name) is not None and name not in per:
                    fails.append("backend %s was sent %d requests and has no metrics entry" % (name, cnt))
            if inflight == 0:
                for name, (t, okb, fb, conns) in per.items():
                    if conns != 0 and sh.by_name(name) is not None:
                        fails.append("backend %s: metrics gauge %d at quiescence" % (name, conns))
                    if t != sh.sent_by_name.get(name, 0):
                        fails.append("backend %s: total_requests=%d but it was sent %d requests" % (name, t, sh.sent_by_name.get(name, 0)))
        if w[1] == "list":
            body = o[5:]
            for ent in [e for e in body.split(",") if e]:
                f = ent.split(":")
                obj = sh.by_name(unquote(f[0]))
                if obj is not None and int(f[2]) != obj.inflight:
                    fails.append("backend %s: active_connections=%s but %d requests are in flight on it" % (f[0], f[2], obj.inflight))
    return fails


def check(ctx):
    ctx.assumptions += [
        "virtual clock via overlay; scripted in-process backends; requests overlap at begin/end granularity",
        "aborted responses are produced as under a real server (http.ServerContextKey set, ReverseProxy panics with ErrAbortHandler)",
        "metrics cap of 1000 backends not reached",
    ]
    ok = C.prove(ctx, MODULES, THEOREMS)
    binary = c02.build(ctx)
    d = C.Differential(ctx, binary)
    nep = 1500 if ctx.thorough() else 300
    episodes = C.load_corpus(ID) + [gen_episode(ctx.rng, ctx.thorough()) for _ in range(nep)]
    bad = d.check(episodes, oracle=oracle, label="acct")
    # through the real front end (cmd/helios handler behind a real http.Server): clients that walk away before, during and
    # after the answer, backends that break off — every request that arrived is counted exactly once when all is quiet
    from . import c03
    fe = [["ft new %s 0 0 %d %d" % (st, hc, pl), "ft req cad", "ft req ok", "ft req cad", "ft req cau", "ft req cah", "ft req reset", "ft req cad", "ft req short",
           "ft req s500", "ft probe"] for st, hc, pl in (("round_robin", 0, 0), ("least_connections", 2, 1), ("ip_hash", 0, 1))]
    C.Differential(ctx, c03.build(ctx), timeout=600, project=c03.project, confirm=2).check(fe, oracle=c03.oracle, label="front-acct")
    ctx.cov["front_end_accounting_episodes"] = len(fe)
    # waves of requests finishing together, then quiescence: real gauge and published gauge at zero,
    # accounting consistent (a search over schedules; the conservation theorems carry the claim)
    from . import c12
    overlay = C.make_overlay(ctx, clock_pkgs=[], harness_pkgs=["cmd/helios"], hmap={"cmd/helios": "helios"}, tag="gauge")
    hel = C.go_test_build(ctx, "cmd/helios", overlay, name="helios")
    env = {"VERIF_GAUGE_ROUNDS": str(12000 if ctx.thorough() else 1200)}
    rc, out = c12.run_workload(ctx, hel, "TestVerifGauge", env, timeout=600)
    cls = c12.classify(rc, out)
    if cls:
        C.violation(ctx, "concurrent-" + cls[0], {"what": "requests finishing together, then idle: " + cls[0],
                                                  "test": "TestVerifGauge", "env": env, "report": cls[1]})
    ctx.cov["gauge_rounds"] = int(env["VERIF_GAUGE_ROUNDS"])
    kinds = {}
    nontriv = set()
    if bad == 0:
        for ep, outs in zip(episodes, d.last[0]):
            seen = set()
            for line, o in zip(C.op_lines(ep), outs):
                w = line.split()
                if w[1] == "end" and o.startswith("done"):
                    k = w[4] if not w[4].isdigit() else ("5xx" if int(w[4]) >= 500 else "ok")
                    kinds[k] = kinds.get(k, 0) + 1
                    seen.add(k)
                if w[1] == "begin" and o.startswith("resp"):
                    kinds[o] = kinds.get(o, 0) + 1
                    seen.add(o)
            if len(seen) >= 3:
                nontriv.add(hash(tuple(ep)))
    ctx.cov.update({
        "evaluations": sum(len(C.op_lines(e)) for e in episodes),
        "distinct_nontrivial": len(nontriv),
        "rule": "episodes mix ok/4xx/5xx/unreachable/aborted/rate-limited/breaker-rejected/no-healthy-backend requests, overlapping, with limiter and breaker on or off, ejections, removals of backends with requests in flight, strategy switches; metrics and listing read at random cuts and at quiescence. non-trivial = at least three different outcome classes in the episode",
        "episodes": len(episodes), "traces_validated_against_impl": len(episodes), "outcome_classes": kinds,
        "samples": [episodes[-1][:14]],
    })
    if not ok:
        C.violation(ctx, "proof", {"what": "a proof obligation of C13 no longer checks",
                                   "broken": [o for o in ctx.obligations if not o[1]]},
                    no_input=not any(not v["no_input"] for v in ctx.violations))
