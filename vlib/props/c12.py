"""C12 — concurrent requests, health checks and admin calls never corrupt shared state."""
import os
import re
import subprocess
from .. import common as C

ID = "C12"
MODULES = ["Helios.Props.C12"]
THEOREMS = ["Helios.Locks.lockset_sound", "Helios.Locks.lockorder_sound",
            "Helios.Facts.lock_analysis_clean", "Helios.Facts.accesses_guarded",
            "Helios.Facts.lock_classes_ranked", "Helios.Facts.lock_order_ranked",
            "Helios.Facts.no_callback_under_lock", "Helios.Facts.no_wait_under_lock", "Helios.Facts.no_shared_guarded_returns", "Helios.Facts.caller_releases_known",
            "Helios.Facts.sync_literals_known", "Helios.Facts.init_writers_called_from_init"]
STRATEGIES = ["round_robin", "least_connections", "weighted_round_robin", "ip_hash", "ip_hash_consistent"]

TRUSTED = ["Lean 4 kernel (decide +kernel evaluates the row tables in the kernel; no native_decide)",
           "/verif/go/locks analyser and go/types", "hand-written policy and ranks in Model/LockPolicy.lean",
           "Go race detector and scheduler for the search part"]

DIAG = """import Helios.Model.LockPolicy
import Helios.Generated.Locks
open Helios.Locks Helios.Generated.Locks
#eval IO.println s!"BAD-ACCESS {badAccesses initFuncs accessChunks}"
#eval IO.println s!"BAD-EDGE {orderEdges.filter (fun e => !edgeOk e)}"
#eval IO.println s!"UNRANKED {lockClasses.filter (fun c => (rankOf c).isNone)}"
#eval IO.println s!"DYNCALL {dynamicCallsUnderLock}"
#eval IO.println s!"RELEASES {callerLockReleases}"
#eval IO.println s!"SYNCLIT {syncLiteralCallees}"
#eval IO.println s!"PROBLEMS {problems}"
"""


def run_workload(ctx, binary, test, env, timeout=180):
    e = dict(C.GOENV)
    e.update(env)
    e["GORACE"] = "halt_on_error=0"
    try:
        p = subprocess.run([binary, "-test.run", "^" + test + "$", "-test.count=1", "-test.timeout", "%ds" % timeout],
                           cwd=ctx.scratch, env=e, stdout=subprocess.PIPE, stderr=subprocess.STDOUT, text=True,
                           timeout=timeout + 30)
        return p.returncode, p.stdout
    except subprocess.TimeoutExpired as ex:
        out = ex.stdout.decode(errors="replace") if isinstance(ex.stdout, bytes) else (ex.stdout or "")
        return 124, out


def classify(rc, out):
    """-> (kind, excerpt) or None"""
    if "WARNING: DATA RACE" in out:
        i = out.index("WARNING: DATA RACE")
        return "data-race", out[i:i + 6000]
    if "VERIF-DEADLOCK" in out or "test timed out" in out or rc == 124:
        i = max(out.find("VERIF-DEADLOCK"), out.find("test timed out"), 0)
        return "deadlock", out[i:i + 6000]
    if "VERIF-GAUGE" in out:
        i = out.find("VERIF-GAUGE")
        return "gauge", out[i:i + 600]
    if "VERIF-ADMIN" in out:
        i = out.find("VERIF-ADMIN")
        return "admin-consistency", out[max(0, i - 200):i + 1500]
    if "VERIF-POOL" in out:
        return "pool-invariant", out[-2000:]
    if "fatal error:" in out or "panic:" in out:
        i = max(out.find("fatal error:"), out.find("panic:"))
        return "crash", out[i:i + 6000]
    if rc != 0:
        return "failed", out[-3000:]
    return None


def check(ctx):
    ctx.assumptions += [
        "the lockset / lock-order analyser (/verif/go/locks, go/types over the current source) is sound for the statement forms Helios uses; forms it does not handle are reported (fact lock_analysis_clean)",
        "objects classified fresh are not published before the function that created them starts a goroutine; snapshot readers (HealthHandler) only see the deep copy GetMetrics returns; per-request writer wrappers are used by one goroutine; start-up functions run before the listeners start",
        "each weightedBackend belongs to exactly one weighted strategy; Go's memory model gives data-race-free programs sequentially consistent semantics",
        "sync.Map, sync.Pool, sync.WaitGroup, atomic values and channels are internally synchronised (their misuse as in C19 is covered there)",
        "the race detector only sees the interleavings the workloads produce: it is used to search for a concrete failing schedule, the theorems carry the claim",
    ]
    ok = C.prove(ctx, MODULES, THEOREMS)
    diag = ""
    if not ok:
        df = ctx.path("LockDiag.lean")
        with open(df, "w") as f:
            f.write(DIAG)
        _, diag = C.lean_run_file(df)
    # the workloads: always run as a cross-check; longer and wider when an obligation broke
    overlay = C.make_overlay(ctx, clock_pkgs=[], harness_pkgs=["cmd/helios", "internal/loadbalancer"],
                             hmap={"cmd/helios": "helios", "internal/loadbalancer": "loadbalancer"}, tag="race")
    hel = C.go_test_build(ctx, "cmd/helios", overlay, race=True, name="helios")
    lbb = C.go_test_build(ctx, "internal/loadbalancer", overlay, race=True, name="loadbalancer")
    runs = []
    deep = ctx.thorough() or not ok
    ms = 4000 if deep else 1200
    profiles = ["calm", "storm"]
    for i, st in enumerate(STRATEGIES if deep else [STRATEGIES[(ctx.seed + k) % 5] for k in range(2)]):
        for pr in (profiles if deep else [profiles[i % 2]]):
            runs.append(("TestVerifRace", hel, {"VERIF_RACE_MS": str(ms), "VERIF_RACE_SEED": str(ctx.seed * 7 + i),
                                               "VERIF_RACE_STRATEGY": st, "VERIF_RACE_PROFILE": pr}))
    for i in range(4 if deep else 1):
        runs.append(("TestVerifPoolRace", lbb, {"VERIF_RACE_MS": str(1500 if deep else 500), "VERIF_RACE_SEED": str(ctx.seed * 5 + i)}))
    found = False
    summaries = []
    # run up to 4 workloads at a time
    from concurrent.futures import ThreadPoolExecutor
    with ThreadPoolExecutor(max_workers=4) as ex:
        results = list(ex.map(lambda r: run_workload(ctx, r[1], r[0], r[2]), runs))
    for (test, _, env), (rc, out) in zip(runs, results):
        m = re.search(r"^(race-workload done.*|pool-race done.*)$", out, re.M)
        summaries.append((m.group(1) if m else "no summary line") + " rc=%d" % rc)
        c = classify(rc, out)
        if c and found and sum(1 for v in ctx.violations if v["kind"].startswith("workload")) >= 3:
            continue      # enough replays of the same kind
        if c:
            found = True
            C.violation(ctx, "workload-" + c[0], {
                "what": "concurrent workload against the real code: " + c[0],
                "test": test, "env": env, "report": c[1],
                "how_to_replay": "go test -race -tags verif -overlay <overlay of /verif/harness> -run %s with the env above" % test,
                "static_diagnosis": diag[-3000:]})
    ctx.cov.update({
        "evaluations": len(runs),
        "distinct_nontrivial": len(set(s.split(" requests=")[0] for s in summaries)),
        "rule": "race-detector builds of the full cmd/helios composition: 8 client goroutines through plugins->request context->balancer to 3-4 misbehaving real backends (500s, resets), 2 admin actors (add/remove/strategy/list/metrics through the admin mux), 2 metrics/health/list readers, active probes, Stop during load; calm and storm threshold profiles; plus the WebSocket pool under concurrent Get/Put/Close/Stats/cleanup/Shutdown with double-hand-out and leak checks. non-trivial = distinct (profile, strategy) workloads",
        "workloads": summaries,
        "scenarios": len(runs), "traces_validated_against_impl": len(runs),
        "samples": summaries[:2],
    })
    try:
        rows = open(C.LOCKS_LEAN, encoding="utf-8").read()
        ctx.cov["static_rows"] = {"accesses": len(re.findall(r"^  ⟨\"", rows, re.M)),
                                  "order_edges": len(re.findall(r"^  \(\"", rows, re.M)),
                                  "lock_classes": rows.split("def lockClasses")[1].split("\n")[0].count('"') // 2}
    except Exception:
        pass
    if not ok and any(o[0].endswith("no_wait_under_lock") and not o[1] for o in ctx.obligations) and not found:
        # something waits while holding a lock: look for the schedule in which the goroutine waited for needs that
        # lock — the pool's own janitor goroutine against Shutdown (has to wait for the real 30 s tick)
        rc, out = run_workload(ctx, lbb, "TestVerifTickShutdown", {}, timeout=120)
        c = classify(rc, out)
        if c:
            found = True
            C.violation(ctx, "workload-" + c[0], {"what": "Shutdown called while the pool's own janitor goroutine is inside a pass: " + c[0],
                                                  "test": "TestVerifTickShutdown", "report": c[1], "static_diagnosis": diag[-3000:]})
    if not ok:
        C.violation(ctx, "proof", {"what": "a proof obligation of C12 no longer checks",
                                   "broken": [o for o in ctx.obligations if not o[1]],
                                   "static_diagnosis": diag[-6000:],
                                   "search": "race-detector workloads run: %d, failing: %s" % (len(runs), found)},
                    no_input=not found)
