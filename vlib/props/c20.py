"""C20 — WebSocket tunnelling and connection-pool invariants."""
from .. import common as C
from . import c02

ID = "C20"
MODULES = ["Helios.Props.CodePool", "Helios.Props.CodeWire", "Helios.Props.C20", "Helios.Props.Facts"]
THEOREMS = ["Helios.Pool.takeFresh_spec", "Helios.Pool.get_fresh", "Helios.Pool.get_exclusive", "Helios.Pool.idle_bounded",
            "Helios.Pool.shutdown_closes_all", "Helios.Pool.down_forever", "Helios.Facts.wrappers_capable",
            "Helios.Facts.wrappers_known",
            # Tie C: Get / Put / Close / cleanupBackend of the pool, translated from the source on every run, do to the
            # backend's pool object what the model's get / put / close / cleanup do to its entry
            "Helios.CodeTie.get_refines", "Helios.CodeTie.put_refines", "Helios.CodeTie.put_down", "Helios.CodeTie.put_nil",
            "Helios.CodeTie.close_refines", "Helios.CodeTie.cleanup_refines", "Helios.CodeTie.translation_clean_pool",
            "Helios.CodeTie.setupWebSocketPool_refines", "Helios.CodeTie.wsEff_accepted", "Helios.CodeTie.translation_clean_wire"]


def gen_pool_episode(rng, long=False):
    mi = rng.choice([0, 1, 2, 3])
    to = rng.choice([10, 100, 1000])
    ops = ["pool new %d %d" % (mi, to)]
    t = 0
    nextc = 1
    held = {}          # conn -> backend
    down = False
    for _ in range(rng.randint(5, 60 if long else 25)):
        k = rng.random()
        t += rng.choice([0, 1, to - 1, to, to + 1, 3 * to])
        b = rng.choice(["b1", "b1", "b2"])
        if k < 0.3:
            ops.append("pool get %s %d" % (b, t))
            ops.append("# got %s" % b)
        elif k < 0.6:
            if held and rng.random() < 0.7:
                c = rng.choice(list(held))
                b = held.pop(c)
            else:
                c = nextc
                nextc += 1
            ops.append("pool put %s %d %d" % (b, c, t))
        elif k < 0.7:
            if held:
                c = rng.choice(list(held))
                ops.append("pool close %s %d" % (held.pop(c), c))
            else:
                ops.append("pool close %s %d" % (b, nextc))
                nextc += 1
        elif k < 0.8:
            ops.append("pool cleanup %d" % t)
        elif k < 0.88:
            ops.append("pool stats %s" % b)
        elif k < 0.93 and not down:
            ops.append("pool shutdown")
            down = True
        else:
            ops.append("pool stats %s" % b)
    ops.append("pool shutdown")
    ops.append("pool stats b1")
    ops.append("pool stats b2")
    return ops


def oracle_pool(ep, outs):
    ol = C.op_lines(ep)
    w0 = ol[0].split()
    mi, to = int(w0[2]), int(w0[3])
    fails = []
    idle = {}        # conn -> (backend, time put)
    held = set()
    closed = set()
    down = False
    for line, o in zip(ol[1:], outs[1:]):
        w = line.split()
        cl = set(int(x) for x in o.split("closed=")[1].split(",") if x) if "closed=" in o else closed
        if w[1] == "get":
            now = int(w[3])
            if o.startswith("conn "):
                c = int(o.split()[1])
                if c in held:
                    fails.append("connection %d handed out while another holder still has it (%s)" % (c, line))
                if c in closed:
                    fails.append("connection %d handed out after the pool closed it" % c)
                if c not in idle:
                    fails.append("connection %d handed out but it was never returned to the pool" % c)
                else:
                    b, tput = idle.pop(c)
                    if now - tput > to:
                        fails.append("connection %d returned by Get after %d idle (idle_timeout %d)" % (c, now - tput, to))
                    if b != w[2]:
                        fails.append("connection %d of backend %s handed out for backend %s" % (c, b, w[2]))
                held.add(c)
        elif w[1] == "put":
            c, now = int(w[3]), int(w[4])
            held.discard(c)
            if o.startswith("true"):
                if down:
                    fails.append("connection %d retained by Put after Shutdown" % c)
                idle[c] = (w[2], now)
                per = sum(1 for (b, _) in idle.values() if b == w[2])
                if per > mi:
                    fails.append("%d idle connections kept for %s (max_idle %d)" % (per, w[2], mi))
            elif c not in cl:
                fails.append("Put refused connection %d but left it open" % c)
        elif w[1] == "close":
            held.discard(int(w[3]))
        elif w[1] == "shutdown":
            down = True
            for c in idle:
                if c not in cl:
                    fails.append("Shutdown left idle connection %d open" % c)
            idle = {}
        elif w[1] == "stats":
            i = int(o.split()[1])
            if i > mi:
                fails.append("stats reports %d idle connections (max_idle %d)" % (i, mi))
        for c in cl:
            idle.pop(c, None)
        closed = cl
    return fails


CHAINS = ["none", "log", "sl", "gz", "hdr", "log+sl+gz+hdr", "gz+sl", "rid+log", "sl+sl"]


def check(ctx):
    ctx.assumptions += [
        "pool: virtual clock via overlay, fake connections (identity + closed flag); sequential histories (the Put/Shutdown race is repaired in /repo and covered by the race workload of C12)",
        "tunnel: httputil.ReverseProxy's upgrade relay is stdlib; what Helios must provide is that Hijack reaches the connection through every wrapper (writer facts, re-derived from the source) — exercised by real WebSocket sessions through real sockets",
    ]
    ok = C.prove(ctx, MODULES, THEOREMS)
    binary = c02.build(ctx)
    d = C.Differential(ctx, binary)
    n = 3000 if ctx.thorough() else 500
    episodes = C.load_corpus(ID) + [gen_pool_episode(ctx.rng, ctx.thorough()) for _ in range(n)]
    bad = d.check(episodes, oracle=oracle_pool, label="pool")
    # tunnel sessions through cmd/helios' real handler composition
    overlay = C.make_overlay(ctx, clock_pkgs=[], harness_pkgs=["cmd/helios"], hmap={"cmd/helios": "helios"}, tag="ws")
    hbin = C.go_test_build(ctx, "cmd/helios", overlay, name="helios")
    d2 = C.Differential(ctx, hbin, timeout=900)
    sessions = []
    for i in range(60 if ctx.thorough() else 12):
        sizes = [ctx.rng.choice([0, 1, 125, 126, 127, 1000, 65535, 65536, 100000]) for _ in range(ctx.rng.randint(1, 8))]
        sessions.append(["ws %s %s" % (CHAINS[i % len(CHAINS)], ",".join(str(s) for s in sizes))])
    # sessions that outlive the end-to-end handler timeout (1 s), with the Connection token lists
    # real clients send: the tunnel must stay up as long as both ends want
    for variant in ("upgrade", "ka-upgrade", "upgrade-ka", "lower"):
        sessions.append(["wshold %s 1 1500" % variant])

    def orc_ws(ep, outs):
        return [] if outs and outs[0].startswith("ws ok") else ["WebSocket session failed: %s -> %s" % (ep[0], outs[0] if outs else "")]
    bad2 = d2.check(sessions, oracle=orc_ws, label="tunnel")
    # the pool the balancer really builds from the configuration (max_idle, max_active, idle timeout as
    # configured, documented defaults for 0): the pool theorems are about those numbers
    from . import c18
    wired = [c18.wireall_episode(ctx.rng) for _ in range(600 if ctx.thorough() else 120)]
    d.check(wired, oracle=c18.wireall_oracle, label="pool-wiring")
    # the pool of a balancer that is stopped — with and without active health checks, one pooled connection whose Close
    # reports an error: every pooled connection is closed when Stop has returned
    stops = [["stop %d %d %d %d %d" % (nb, 0, 100, st, pool)] for nb, st, pool in ((1, 1, 2), (2, 1, 1), (2, 2, 2), (8, 1, 2))]

    def orc_stop(ep, outs):
        o = outs[0] if outs else ""
        return [] if o.startswith("stop returned within=true") and "pooledClosed=true" in o else [
            "the balancer was stopped and a pooled connection is still open (or Stop did not return): %s -> %s" % (ep[0], o)]
    d.check(stops, oracle=orc_stop, label="pool-stop")
    # the pool under real concurrency: double hand-out / leak detection (search; also run under -race by C12)
    from . import c12
    import re as _re
    pool_runs = [{"VERIF_RACE_MS": str(1200 if ctx.thorough() else 400), "VERIF_RACE_SEED": str(ctx.seed * 11 + i)}
                 for i in range(6 if ctx.thorough() else 2)]
    for env in pool_runs:
        rc, out = c12.run_workload(ctx, binary, "TestVerifPoolRace", env)
        cls = c12.classify(rc, out)
        if cls:
            C.violation(ctx, "pool-concurrent-" + cls[0], {"what": "pool under concurrent Get/Put/Close/cleanup/Shutdown: " + cls[0],
                                                          "test": "TestVerifPoolRace", "env": env, "report": cls[1]})
            break
    ctx.cov["pool_concurrency_runs"] = len(pool_runs)
    if not any(v["kind"].startswith("pool-concurrent") for v in ctx.violations):
        # the same question with the schedule forced: Get / Put while the janitor pass is inside a slow Close
        rc, out = c12.run_workload(ctx, binary, "TestVerifShutdownWindow", {})
        cls = c12.classify(rc, out)
        if cls:
            C.violation(ctx, "pool-concurrent-" + cls[0], {"what": "connections handed back while Shutdown is closing an idle one: " + cls[0],
                                                          "test": "TestVerifShutdownWindow", "report": cls[1]})
        rc, out = c12.run_workload(ctx, binary, "TestVerifCleanupWindow", {})
        cls = c12.classify(rc, out)
        if cls:
            C.violation(ctx, "pool-concurrent-" + cls[0], {"what": "Get / Put while the janitor pass is closing a stale connection: " + cls[0],
                                                          "test": "TestVerifCleanupWindow", "report": cls[1]})
    nontriv = set()
    if bad == 0:
        for ep, outs in zip(episodes, d.last[0]):
            if any(o.startswith("conn ") for o in outs) and any(o.startswith("false") for o in outs):
                nontriv.add(hash(tuple(ep)))
    ctx.cov.update({
        "evaluations": sum(len(C.op_lines(e)) for e in episodes) + len(sessions),
        "distinct_nontrivial": len(nontriv),
        "rule": "pool: histories over {put, get, close, time passes, cleanup, stats, shutdown} for 2 backends, max_idle 0..3, idle timeouts 10..1000 with steps around the timeout; non-trivial = some Get returned a pooled connection and some Put was refused. tunnel: WebSocket sessions (messages of 0..100000 bytes, text/binary alternating, both directions interleaved) through 9 plugin chains on real sockets",
        "pool_episodes": len(episodes), "tunnel_sessions": len(sessions), "traces_validated_against_impl": len(episodes) + len(sessions),
        "samples": [episodes[-1][:12], sessions[0]],
    })
    if not ok:
        C.violation(ctx, "proof", {"what": "a proof obligation of C20 no longer checks",
                                   "broken": [o for o in ctx.obligations if not o[1]]},
                    no_input=not any(not v["no_input"] for v in ctx.violations))
