"""C08 — circuit breaker liveness (shares the breaker harness with C07)."""
from .. import common as C
from . import c07

ID = "C08"
MODULES = ["Helios.Props.C08", "Helios.Props.Code"]
THEOREMS = [
    "Helios.CB.inv_init", "Helios.CB.inv_step", "Helios.CB.inv_run",
    "Helios.CB.never_stuck", "Helios.CB.accepted_config_live",
    "Helios.CodeTie.beforeRequest_refines", "Helios.CodeTie.afterRequest_refines", "Helios.CodeTie.translation_clean",
]


def check(ctx):
    ctx.assumptions += [
        "virtual clock via overlay; requests overlap at critical-section granularity",
        "configuration validation + defaulting give 1 <= success_threshold <= max_requests (theorem accepted_config_live; validator relation checked by the C18 correspondence)",
        "state-change notifications run after the breaker lock is released (lock-order fact, re-derived from the source by the C12 extractor); the harness callback calls Counts() so a regression hangs the run and is reported",
    ]
    ok = C.prove(ctx, MODULES, THEOREMS)
    c07.run_checks(ctx, ("C08",))
    if not ok:
        C.violation(ctx, "proof", {"what": "a proof obligation of C08 no longer checks",
                                   "broken": [o for o in ctx.obligations if not o[1]]},
                    no_input=not any(not v["no_input"] for v in ctx.violations))
