"""C08 — circuit breaker liveness (shares the breaker harness with C07)."""
from .. import common as C
from . import c07

ID = "C08"
MODULES = ["Helios.Props.C08", "Helios.Props.CodeCB", "Helios.Props.CodeWire", "Helios.Props.C12"]
THEOREMS = [
    "Helios.CB.inv_init", "Helios.CB.inv_step", "Helios.CB.inv_run",
    "Helios.CB.never_stuck", "Helios.CB.accepted_config_live",
    # Tie C: setupCircuitBreaker as written constructs the breaker with Wire.cbEff; for an accepted configuration that is the
    # configured numbers, an omitted max_requests becoming success_threshold (never fewer trials than successes needed)
    "Helios.CodeTie.setupCircuitBreaker_refines", "Helios.CodeTie.cbEff_accepted", "Helios.CodeTie.translation_clean_wire",
    # notifications never block request processing: no observer runs under a lock, every lock has a
    # rank and locks are taken in rank order (lockorder_sound: no reachable state is stuck)
    "Helios.Locks.lockorder_sound", "Helios.Facts.no_callback_under_lock", "Helios.Facts.no_wait_under_lock", "Helios.Facts.lock_classes_ranked",
    "Helios.Facts.lock_order_ranked", "Helios.Facts.lock_analysis_clean",
    "Helios.CodeTie.beforeRequest_refines", "Helios.CodeTie.afterRequest_refines", "Helios.CodeTie.translation_clean_cb",
]


MAX_SECONDS = (2**63 - 1) // 10**9
WIRE_VALUES = [0, 1, 2, 5, 60, 2**31, 2**32 - 1, 2**32, 2**32 + 1, MAX_SECONDS, MAX_SECONDS + 1, 10**12, -1]


def wire_episode(rng):
    """one breaker configuration through validation and NewLoadBalancer; values at and beyond the
    ranges of the types the balancer converts them to (uint32 counts, time.Duration nanoseconds)"""
    small = lambda: rng.choice([1, 1, 2, 3, 5, 60])
    pick = lambda: rng.choice(WIRE_VALUES) if rng.random() < 0.4 else small()
    mx = rng.choice([0, 0, 1, 5]) if rng.random() < 0.6 else rng.choice(WIRE_VALUES)
    return ["lb wire %d %d %d %d %d" % (mx, pick(), pick(), pick(), pick())]


def wire_oracle(ep, outs):
    """independent of the model: an accepted configuration runs with exactly the configured
    numbers (max_requests 0 = success_threshold), and is live: success_threshold <= max_requests"""
    w = ep[0].split()
    mx, iv, to, ft, st = (int(x) for x in w[2:7])
    o = outs[0] if outs else ""
    documented = ft >= 1 and st >= 1 and to >= 1 and iv >= 1 and mx >= 0 and (mx == 0 or st <= mx) and \
        iv <= MAX_SECONDS and to <= MAX_SECONDS and max(mx, ft, st) <= 2**32 - 1
    if o == "rejected":
        return [] if not documented else ["a breaker configuration meeting every documented constraint is rejected: %s" % ep[0]]
    if not o.startswith("eff "):
        return ["unexpected answer %r to %s" % (o, ep[0])]
    e = [int(x) for x in o.split()[1:]]
    want = [mx if mx else st, iv * 10**9, to * 10**9, ft, st]
    fails = []
    names = ["max_requests", "interval (ns)", "timeout (ns)", "failure_threshold", "success_threshold"]
    for n, a, b in zip(names, e, want):
        if a != b:
            fails.append("accepted breaker configuration %s runs with %s=%d instead of %d" % (" ".join(w[2:7]), n, a, b))
    if e[4] > e[0]:
        fails.append("C08: accepted configuration %s can never close: effective success_threshold %d > max_requests %d" % (" ".join(w[2:7]), e[4], e[0]))
    return fails


def front_live_episodes():
    """liveness as wired into the real front end (cmd/helios handler with every shipped plugin in the chain, real
    sockets): the breaker is tripped, its timeout passes, the half-open trial meets a backend that hangs or stops
    mid-body — the handler deadline must end that trial so that its slot comes back —, the timeout passes again and
    the recovered backend must be admitted and close the breaker"""
    eps = []
    for pl in (1, 0):
        for trial in ("stall", "hang"):
            eps.append(["ft new round_robin 1 0 0 %d" % pl] + ["ft req s500"] * 3 + ["ft wait 1150", "ft req " + trial, "ft wait 1150",
                                                                              "ft req ok", "ft req ok", "ft close"])
    return eps


def front_live_oracle(ep, outs):
    lines = C.op_lines(ep)
    reqs = []
    for l, o in zip(lines, outs):
        if l.startswith("ft req"):
            d = dict(t.split("=", 1) for t in o.split(" || ", 1)[-1].split() if "=" in t)
            reqs.append((l.split()[2], d.get("class"), int(d.get("ms", "0"))))
    if [r[0] for r in reqs][:3] != ["s500"] * 3 or len(reqs) != 6 or reqs[3][0] not in ("stall", "hang") or [r[0] for r in reqs[4:]] != ["ok", "ok"]:
        return []           # (a shrunk episode)
    fails = []
    if reqs[3][2] > 2000 + 900:
        fails.append("C08 (as wired): a half-open trial against a backend that %s was not ended by the handler deadline (2 s): it held its trial slot for %d ms" % (
            "stops mid-body" if reqs[3][0] == "stall" else "never answers", reqs[3][2]))
    elif reqs[4][1] != "200" or reqs[5][1] != "200":
        fails.append("C08 (as wired): after the failed trial and another breaker timeout the recovered backend is still refused: answers %s, %s" % (reqs[4][1], reqs[5][1]))
    return fails


def both_oracle(ep, outs):
    ol = C.op_lines(ep)
    begins = [(l, o) for l, o in zip(ol, outs) if l.split()[1] == "begin"]
    if len(begins) < 10 or not ol[0].startswith("lb new") or "lb add b0 1 good" not in ol or not begins[0][1].startswith("fwd "):
        return []           # (a shrunk episode without its backend or its first exchange says nothing)
    tail = begins[-3:]
    if not all(o.startswith("fwd ") for _, o in tail):
        return ["the backend has been answering again for seconds (ejection window and breaker timeout elapsed, %d requests sent since) and "
                "requests are still refused: %s" % (len(begins) - 4, ["%s -> %s" % (l.split()[2], o) for l, o in begins[-8:]])]
    return []


def check(ctx):
    ctx.assumptions += [
        "virtual clock via overlay; requests overlap at critical-section granularity",
        "every admitted request ends (never_stuck is about requests that complete): exchanges are bounded by the handler deadline, which the front-end liveness episodes observe with every shipped plugin in the chain; an upgraded (WebSocket) session is exempt from that deadline by design and, if it happens to be the half-open trial, holds its slot until either peer closes",
        "configuration validation + defaulting give 1 <= success_threshold <= max_requests (theorem accepted_config_live; validator relation checked by the C18 correspondence)",
        "state-change notifications run after the breaker lock is released (lock-order fact, re-derived from the source by the C12 extractor); the harness callback calls Counts() so a regression hangs the run and is reported",
    ]
    ok = C.prove(ctx, MODULES, THEOREMS)
    c07.run_checks(ctx, ("C08",))
    from . import c02
    dw = C.Differential(ctx, c02.build(ctx))
    wired = [["lb wire 4294967297 60 1 2 5"], ["lb wire 1 9223372037 1 3 1"], ["lb wire 0 60 60 5 2"]] + \
        [wire_episode(ctx.rng) for _ in range(3000 if ctx.thorough() else 400)]
    dw.check(wired, oracle=wire_oracle, label="cb-config")
    ctx.cov["breaker_configs_through_validation_and_wiring"] = len(wired)
    # the breaker next to passive ejection, both tripped by one outage, the ejection window longer than the breaker timeout:
    # the half-open trial meets an empty candidate set; once the window has run out too, traffic flows again after a
    # bounded number of requests (judged by the oracle alone)
    S = 10**9
    both = []
    for strat, thr, ft, st, mx in (("round_robin", 2, 2, 1, 0), ("least_connections", 1, 1, 2, 0), ("ip_hash", 2, 2, 1, 1), ("weighted_round_robin", 2, 2, 2, 2)):
        ops = ["lb new %s 1 %d 5 0 0 0 1 %d %d %d 60 1" % (strat, thr, ft, st, mx), "lb add b0 1 good"]
        t, tid = S, 0
        for _ in range(max(thr, ft)):
            tid += 1
            ops += ["lb begin %d %d - - 10.0.0.1:1" % (tid, t), "lb end %d %d 500" % (tid, t + 1000)]
            t += 10**6
        for dt in (int(1.5 * S), int(0.4 * S)):            # breaker timeout elapsed, backend still ejected
            t += dt
            tid += 1
            ops += ["lb begin %d %d - - 10.0.0.1:1" % (tid, t), "lb end %d %d 200" % (tid, t + 1000)]
        t += 6 * S                                          # ... and now the ejection window has run out as well
        for _ in range(8):
            tid += 1
            t += int(1.2 * S)
            ops += ["lb begin %d %d - - 10.0.0.1:1" % (tid, t), "lb end %d %d 200" % (tid, t + 1000)]
        both.append(ops)

    dw.check_oracle_only(both, both_oracle, "cb-with-passive-liveness")
    ctx.cov["breaker_with_passive_ejection_episodes"] = len(both)
    from . import c03
    fl = front_live_episodes() if ctx.thorough() else [front_live_episodes()[0], front_live_episodes()[3]]
    C.Differential(ctx, c03.build(ctx), timeout=600, project=c03.project, confirm=2).check(fl, oracle=front_live_oracle, label="cb-front-liveness")
    ctx.cov["front_end_liveness_episodes"] = len(fl)
    if not ok:
        C.violation(ctx, "proof", {"what": "a proof obligation of C08 no longer checks",
                                   "broken": [o for o in ctx.obligations if not o[1]]},
                    no_input=not any(not v["no_input"] for v in ctx.violations))
