"""C02 — failover: only healthy backends are used; 503 only when none is healthy."""
from .. import common as C
from .. import lbgen, lbshadow

ID = "C02"
MODULES = ["Helios.Props.CodeLB", "Helios.Props.CodeStrat", "Helios.Props.CodeAddr", "Helios.Props.C02", "Helios.Props.Facts"]
THEOREMS = ["Helios.LB.dispatch_sound", "Helios.LB.dispatch_complete", "Helios.LB.no_503_while_healthy",
            "Helios.Facts.retry_budget_eq", "Helios.Facts.strategies_eq", "Helios.Facts.extraction_clean",
            "Helios.CodeTie.eligible_refines", "Helios.CodeTie.translation_clean_lb",
            # Tie C: NextBackend of the least-connections and round-robin strategies, translated from the source on every run
            "Helios.CodeTie.lcNext_refines", "Helios.CodeTie.rrNext_refines", "Helios.CodeTie.residues_covered",
            "Helios.CodeTie.translation_clean_strat",
            "Helios.CodeTie.ipNext_eligible", "Helios.CodeTie.ipNext_refines", "Helios.CodeTie.ipcNext_refines", "Helios.CodeTie.translation_clean_addr"]
CLOCK_PKGS = ["internal/loadbalancer", "internal/ratelimiter", "internal/circuitbreaker", "internal/metrics"]


def build(ctx):
    overlay = C.make_overlay(ctx, clock_pkgs=CLOCK_PKGS, harness_pkgs=["internal/loadbalancer"])
    return C.go_test_build(ctx, "internal/loadbalancer", overlay)


def gen_episode(rng, long=False):
    g = lbgen.Gen(rng, rl=False, cb=False, passive=rng.random() < 0.4)
    if g.strategy == "least_connections" and rng.random() < 0.25:
        # deep queues: a backend with 100+ requests in flight is still a backend
        for _ in range(rng.choice([100, 101, 140]) * max(1, min(2, len(g.names)))):
            g.begin()
    n = rng.randint(10, 70 if long else 35)
    for _ in range(n):
        g.step_time()
        k = rng.random()
        if k < 0.4:
            g.begin()
            if rng.random() < 0.5:
                g.end(g.infl[-1])
        elif k < 0.55:
            g.end()
        elif k < 0.75:
            g.eject()
        elif k < 0.78:
            g.probe()
        elif k < 0.8 and g.names:
            # an active probe in flight while the backend is ejected: its late 200 must not
            # bring the backend back inside the window
            name = rng.choice(g.names)
            g.probe_begin(name)
            if rng.random() < 0.7:
                g.eject(name=name)
            g.probe_end(name, ok=rng.random() < 0.85)
        elif k < 0.85:
            g.remove()
        elif k < 0.9:
            g.add()
        elif k < 0.95:
            g.set_strategy()
        else:
            g.ops.append("lb list")
    ops = g.finish()
    if rng.random() < 0.4:
        # concurrent pickers on whatever state the history left (last op: the rotation state
        # afterwards depends on the schedule)
        ops.append("lb pickconc %d %d %d" % (g.t, rng.choice([2, 4, 8]), rng.choice([200, 1000])))
    return ops


def pickconc_episodes(rng):
    """round robin (and the others) with part of the pool inside an unhealthy window and many pickers at once: whatever
    the other pickers do to the shared rotation state, a pick finds an eligible backend"""
    eps = []
    for strat, n, out in (("round_robin", 2, [0]), ("round_robin", 3, [1]), ("round_robin", 4, [0, 2]), ("round_robin", 6, [1, 2, 3, 4]),
                          ("weighted_round_robin", 3, [0]), ("least_connections", 3, [2]), ("ip_hash", 3, [1]), ("ip_hash_consistent", 4, [0, 3])):
        g = lbgen.Gen(rng, strategy=strat, passive=False, nback=n, weights=[1] * n)
        g.advance(lbgen.SEC)
        for i in out:
            g.eject(name=g.names[i], dur=3600 * lbgen.SEC)
        for _ in range(3):
            g.request(outcome="200")
        ops = g.finish()
        ops.append("lb pickconc %d %d %d" % (g.t, 16, 4000))
        eps.append(ops)
    return eps


def subsets_episodes(rng, full):
    """Small-scope exhaustive part: every strategy x pool size x ejected subset x rotation offset."""
    eps = []
    sizes = range(1, 7) if full else range(1, 5)
    for strat in lbgen.STRATS:
        for n in sizes:
            for mask in range(1 << n):
                if not full and rng.random() < 0.5:
                    continue
                g = lbgen.Gen(rng, strategy=strat, passive=False, nback=n, weights=[rng.choice([1, 2, 3]) for _ in range(n)])
                for _ in range(rng.randint(0, n)):          # rotation position / wrr state
                    g.request(outcome="200")
                for i in range(rng.randint(0, 3)):          # gauge vector
                    g.begin()
                g.advance(1000)
                for i in range(n):
                    if mask >> i & 1:
                        g.eject("b%d" % i, dur=5 * lbgen.SEC)
                for _ in range(n + 1):
                    g.request(outcome="200")
                g.advance(5 * lbgen.SEC + 1)                 # every window elapsed: all must serve again
                for _ in range(n + 1):
                    g.request(outcome="200")
                eps.append(g.finish())
    return eps


def oracle(ep, outs):
    ol = C.op_lines(ep)
    sh = lbshadow.Shadow(ol[0])
    fails = []
    for line, o in zip(ol[1:], outs[1:]):
        if o in ("hang", "bad-op") or o.startswith("resp aborted"):   # a panic in the balancer before any backend was contacted
            fails.append("%s -> %s" % (line, o))
            break
        if line.startswith("lb pickconc"):
            now = int(line.split()[2])
            if o.startswith("INCOMPLETE") or (o == "n/a" and any(not sh.in_window(x, now) for x in sh.pool)):
                fails.append("concurrent pickers: %s although a backend is outside its unhealthy window (%s)" % (o, line))
            continue
        info = sh.apply(line, o)
        if info["op"] != "begin":
            continue
        if info.get("served") is not None:
            if info.get("served_obj") is None:
                fails.append("dispatched to %s which is not a configured backend (%s)" % (info["served"], line))
            elif info.get("served_in_window"):
                fails.append("dispatched to %s inside its unhealthy window at %d (%s)" % (info["served"], info["now"], line))
        elif info.get("status") == 503 and not sh.cb:
            outside = [n for n in info["pool"] if n not in info["window"]]
            if outside:
                fails.append("503 'no healthy backend' while %s outside any unhealthy window at %d (%s)" % (outside, info["now"], line))
    return fails


def check(ctx):
    ctx.assumptions += [
        "virtual clock via overlay; scripted in-process backend transports (no sockets) under the real ReverseProxy",
        "Guard of dispatch_complete: the 64-bit round-robin counter does not wrap within one turn; in-flight gauges stay below MaxInt32",
        "sequential dispatch (one NextBackend/IsBackendHealthy pair at a time); concurrent ejections racing a dispatch are covered by C04/C12",
    ]
    ok = C.prove(ctx, MODULES, THEOREMS)
    binary = build(ctx)
    d = C.Differential(ctx, binary)
    nep = 1500 if ctx.thorough() else 250
    episodes = C.load_corpus(ID) + subsets_episodes(ctx.rng, ctx.thorough()) + [gen_episode(ctx.rng, ctx.thorough()) for _ in range(nep)] + pickconc_episodes(ctx.rng)
    bad = d.check(episodes, oracle=oracle, label="lb")
    served = resp503 = with_window = 0
    nontriv = set()
    if bad == 0:
        for ep, outs in zip(episodes, d.last[0]):
            sh = lbshadow.Shadow(C.op_lines(ep)[0])
            hit = False
            for line, o in zip(C.op_lines(ep)[1:], outs[1:]):
                info = sh.apply(line, o)
                if info["op"] == "begin":
                    if info.get("served"):
                        served += 1
                    if info.get("status") == 503:
                        resp503 += 1
                    if info["window"] and len(info["window"]) < len(info["pool"]):
                        with_window += 1
                        hit = True
            if hit:
                nontriv.add(hash(tuple(ep)))
    ctx.cov.update({
        "evaluations": sum(len(C.op_lines(e)) for e in episodes),
        "distinct_nontrivial": len(nontriv),
        "rule": "episodes: (a) every strategy x pool size 1..%d x ejected subset (%s) x random rotation/gauge prefix, dispatches inside and after the windows; (b) random histories of eject/expire/add/remove/strategy/request. non-trivial = some dispatch happened while a proper non-empty subset of the pool was inside a window" % (6 if ctx.thorough() else 4, "all" if ctx.thorough() else "sampled"),
        "episodes": len(episodes), "traces_validated_against_impl": len(episodes),
        "dispatches_served": served, "answers_503": resp503, "dispatches_with_partial_window": with_window,
        "exhaustive": False,
        "samples": [episodes[-1][:16]],
    })
    if not ok:
        C.violation(ctx, "proof", {"what": "a proof obligation of C02 no longer checks",
                                   "broken": [o for o in ctx.obligations if not o[1]]},
                    no_input=not any(not v["no_input"] for v in ctx.violations))
