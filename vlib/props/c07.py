"""C07 — circuit breaker safety; shared breaker harness (also used by C08)."""
from .. import common as C

ID = "C07"
MODULES = ["Helios.Props.CodeCB", "Helios.Props.C07", "Helios.Props.Facts"]
THEOREMS = [
    "Helios.CB.trips", "Helios.CB.blocks_while_open", "Helios.CB.halfopen_budget",
    "Helios.CB.closes_only_after_trial_successes", "Helios.CB.reopens_on_trial_failure",
    "Helios.CB.stale_completion_ignored",
    "Helios.CodeTie.beforeRequest_refines", "Helios.CodeTie.afterRequest_refines", "Helios.CodeTie.translation_clean_cb",
    "Helios.Facts.execute_panic_is_failure_and_propagates",
]
DEF_NS = 60 * 10**9


def defaults(cfg):
    ft, st, mx, iv, to = cfg
    return (ft or 5, st or 1, mx or 1, iv or DEF_NS, to or DEF_NS)


def gen_episode(rng, live=None, long=False):
    """live=True: success_threshold <= max_requests (accepted configurations)."""
    while True:
        ft, st, mx = rng.choice([0, 1, 1, 2, 2, 3]), rng.choice([0, 1, 1, 2, 3]), rng.choice([0, 1, 1, 2, 3])
        iv, to = rng.choice([0, 1, 10, 100, 1000]), rng.choice([0, 1, 10, 50, 1000])
        d = defaults((ft, st, mx, iv, to))
        ok = d[1] <= d[2]
        if live is None or live == ok:
            break
    ft_, st_, mx_, iv_, to_ = d
    ops = ["cb new %d %d %d %d %d" % (ft, st, mx, iv, to)]
    t = 0
    tid = 0
    infl = []
    n = rng.randint(4, 60 if long else 25)
    for _ in range(n):
        k = rng.random()
        if k < 0.3:
            dt = 0
        elif k < 0.5:
            dt = rng.randint(1, max(1, min(iv_, to_)))
        elif k < 0.7:
            dt = rng.choice([iv_, iv_ + 1, to_, to_ + 1, max(0, to_ - 1)])
        elif k < 0.9:
            dt = rng.randint(0, 2 * max(iv_, to_))
        else:
            dt = 3 * max(iv_, to_) + 1
        if dt > 10**12:
            dt = dt if rng.random() < 0.5 else rng.randint(0, 1000)
        t += dt
        r = rng.random()
        if infl and (r < 0.45 or len(infl) > 4):
            x = infl.pop(rng.randrange(len(infl)))
            ops.append("cb end %d %s %d" % (x, rng.choice(["ok", "ok", "fail", "fail", "panic"]), t))
        elif r < 0.9:
            tid += 1
            ops.append("cb begin %d %d" % (tid, t))
            infl.append(tid)   # may be rejected: then the end answers "unknown"
            if rng.random() < 0.5:   # sequential Execute
                infl.pop()
                ops.append("cb end %d %s %d" % (tid, rng.choice(["ok", "fail", "fail"]), t))
        elif r < 0.95:
            ops.append("cb end %d ok %d" % (tid + 1000, t))
        else:
            ops.append("cb changes")
    # recovery script (C08): finish what is in flight, wait out the timeout, succeed st times
    for x in infl:
        ops.append("cb end %d ok %d" % (x, t))
    ops.append("cb changes")
    ops.append("# recovery")
    t += to_ + 1
    for i in range(st_):
        tid += 1
        ops.append("cb begin %d %d" % (tid, t))
        ops.append("cb end %d ok %d" % (tid, t))
    return ops


def multi_epoch_episodes():
    """several half-open episodes in a row — each with fewer successes than success_threshold and then a failure —
    before a last one with exactly success_threshold successes: nothing a failed episode counted carries over into the
    next (the breaker closes on the last success of the last episode, not before; no trial is refused for lack of budget)"""
    eps = []
    for ft, st, mx in ((1, 2, 3), (1, 1, 1), (2, 2, 2), (1, 3, 3), (2, 3, 5), (3, 2, 2)):
        for pattern in ([0], [1], [0, 0], [1, 0], [st - 1, st - 1], [0, 1, 0]):
            pattern = [min(k, st - 1) for k in pattern]
            iv, to = 1000, 10
            ops = ["cb new %d %d %d %d %d" % (ft, st, mx, iv, to)]
            t, tid = 0, 0

            def call(res):
                nonlocal tid
                tid += 1
                ops.append("cb begin %d %d" % (tid, t))
                ops.append("cb end %d %s %d" % (tid, res, t))
            for _ in range(ft):
                call("fail")
                t += 1
            for k in pattern:
                t += to + 1
                for _ in range(k):
                    call("ok")
                call("fail")
            ops.append("cb changes")
            ops.append("# recovery")
            t += to + 1
            for _ in range(st):
                call("ok")
            eps.append(ops)
    return eps


def parse_obs(o):
    w = o.split()
    st = w[1].split("=")[1]
    f, s, r = [int(x) for x in w[2].split("=")[1].split(",")]
    return w[0], st, (f, s, r)


def oracle(ep, outs, want=("C07", "C08")):
    """C07/C08 evaluated on the implementation's own answers (Execute results, State(), Counts())."""
    if ep[0].startswith("cb race"):
        return [] if outs and outs[0] == "within-budget" else \
            ["half-open budget exceeded by callers arriving together: %s -> %s" % (ep[0], outs[0] if outs else "?")]
    if ep[0].startswith("cb reopen"):
        return [] if outs and outs[0] == "single-trial" else \
            ["a backend was contacted while the breaker was open and its timeout had not elapsed (callers racing a failed trial): %s -> %s" % (ep[0], outs[0] if outs else "?")]
    if ep[0].startswith("cb notifyrace"):
        return [] if outs and outs[0] == "live" else \
            ["C08: state-change notification blocks request processing: %s -> %s" % (ep[0], outs[0] if outs else "?")]
    cfg = tuple(int(x) for x in ep[0].split()[2:7])
    ft, st_thr, mx, iv, to = defaults(cfg)
    fails = []
    state = "C"
    next_attempt = None
    episode_adm = 0           # admissions in the current half-open episode
    trial_tids = set()
    trial_ok = 0
    closed_tids = set()
    run = 0
    last_fail = None
    admitted = {}             # tid -> (state at admission, episode id)
    epi = 0
    in_recovery = False
    ol = [l for l in ep if l]
    oi = 0
    for line in ol:
        if line.startswith("#"):
            if line.startswith("# recovery"):
                in_recovery = True
            continue
        o = outs[oi]
        oi += 1
        w = line.split()
        if w[1] in ("new", "changes"):
            continue
        if o in ("hang", "bad-op") or o.startswith("other"):
            fails.append("%s -> %s" % (line, o))
            break
        tag, st_after, cnt = parse_obs(o)
        if w[1] == "begin":
            now = int(w[3])
            if state == "O" and next_attempt is not None and now <= next_attempt and tag != "open":
                fails.append("C07 blocks_while_open: %s answered %s at now=%d <= nextAttempt=%d" % (line, tag, now, next_attempt))
            if state == "O" and st_after == "H":
                epi += 1
                episode_adm, trial_tids, trial_ok = 0, set(), 0
            if tag == "adm":
                admitted[w[2]] = (st_after, epi)
                if st_after == "H":
                    episode_adm += 1
                    trial_tids.add(w[2])
                    if episode_adm > mx:
                        fails.append("C07 halfopen_budget: %d trials admitted in one half-open episode (max_requests=%d)" % (episode_adm, mx))
            if in_recovery and tag != "adm" and st_thr <= mx and "C08" in want:
                fails.append("C08 never_stuck: recovery request %s answered %s" % (line, tag))
        elif w[1] == "end":
            now = int(w[4])
            if tag != "ended":
                state = st_after
                continue
            adm_state, adm_epi = admitted.get(w[2], ("?", -1))
            current = adm_epi == epi and adm_state == state
            ok = w[3] == "ok"
            if state == "H" and current and w[2] in trial_tids:
                if ok:
                    trial_ok += 1
                elif st_after != "O":
                    fails.append("C07 reopens_on_trial_failure: trial %s failed but state is %s" % (w[2], st_after))
            if state == "H" and st_after == "C":
                if not (current and ok and trial_ok >= st_thr):
                    fails.append("C07 closes_only_after: closed after %d trial successes (success_threshold=%d) on %s" % (trial_ok, st_thr, line))
            if state == "C" and current and not ok:
                run = run + 1 if (last_fail is not None and now - last_fail <= iv) else 1
                last_fail = now
                if run >= ft and st_after != "O":
                    fails.append("C07 trips: %d failures with gaps <= interval but state is %s" % (run, st_after))
            if st_after == "O" and state != "O":
                next_attempt = now + to
                epi += 1
                run, last_fail = 0, None
            if st_after == "C" and state != "C":
                epi += 1
                run, last_fail = 0, None
        state = st_after
    if "C08" in want and st_thr <= mx and not fails and state != "C":
        fails.append("C08 never_stuck: recovery script (timeout elapsed, %d successes) ended in state %s" % (st_thr, state))
    return fails


def trip_episodes():
    """the breaker as wired into the real front end (cmd/helios handler, real sockets): three
    backend failures of any kind in a row — also one announced by an interim 1xx response — and the
    next request must be refused without reaching the backend"""
    eps = []
    for fault in ("s500", "i503", "refuse", "garbage"):
        for strat in ("round_robin", "least_connections"):
            eps.append(["ft new %s 1 0 0 0" % strat] + ["ft req " + fault] * 3 + ["ft req ok", "ft close"])
    # ... also when the next request offers a protocol upgrade: the open breaker refuses it like any other
    eps.append(["ft new round_robin 1 0 0 0"] + ["ft req s500"] * 3 + ["ft req upg", "ft close"])
    eps.append(["ft new ip_hash 1 0 0 0"] + ["ft req refuse"] * 3 + ["ft req upg", "ft close"])
    return eps


def abandoned_trial_episodes():
    """a half-open trial the client walks away from while the backend is still silent did not succeed: the breaker
    (max_requests 1, success_threshold 1) must not be closed by it. Two requests to a failing backend follow at
    once: a closed breaker would send both on (failure_threshold is 3)"""
    return [["ft new %s 1 0 0 %d" % (strat, pl)] + ["ft req s500"] * 3 + ["ft wait 1150", "ft req cah", "ft req s500", "ft req s500", "ft close"]
            for strat, pl in (("round_robin", 0), ("least_connections", 1))]


def abandoned_trial_oracle(ep, outs):
    lines = C.op_lines(ep)
    reqs = []
    for l, o in zip(lines, outs):
        if l.startswith("ft req"):
            d = dict(t.split("=", 1) for t in o.split(" || ", 1)[-1].split() if "=" in t)
            reqs.append((l.split()[2], d.get("class"), int(d.get("hits", "-1")), int(d.get("at", "0"))))
    if [r[0] for r in reqs] != ["s500"] * 3 + ["cah", "s500", "s500"]:
        return []           # (a shrunk episode)
    if reqs[5][3] - reqs[3][3] > 800:
        return []           # a loaded machine: the breaker timeout may have run out again in between
    if reqs[3][2] != reqs[2][2] + 1:
        return []           # the abandoned request was not the trial (it never reached the backend)
    if reqs[5][2] - reqs[3][2] >= 2:
        return ["C07 (as wired): a half-open trial abandoned by its client closed the breaker: the next two requests (answered %s, %s) were both sent to the failing backend although no trial had succeeded" % (reqs[4][1], reqs[5][1])]
    return []


def trip_oracle(ep, outs):
    lines = C.op_lines(ep)
    hits = []
    for l, o in zip(lines, outs):
        if l.startswith("ft req"):
            d = dict(t.split("=", 1) for t in o.split(" || ", 1)[-1].split() if "=" in t)
            hits.append((l, d.get("class"), int(d.get("hits", "-1")), int(d.get("at", "0")), int(d.get("ms", "0"))))
    if len(hits) < 4 or len(set(h[0] for h in hits[:3])) != 1 or not hits[3][0].endswith((" ok", " upg")):
        return []           # (a shrunk episode)
    fails = []
    (l3, c3, h3, at3, _), (l4, c4, h4, at4, ms4) = hits[2], hits[3]
    if at4 - ms4 - at3 > 700:
        return []           # a loaded machine: the 1 s open period may have run out in between
    if h4 != h3 or c4 != "503":
        fails.append("C07 trips (as wired): after 3 consecutive backend failures (%s) the next request was answered %s and %s the backend" % (
            hits[0][0].split()[2], c4, "reached" if h4 != h3 else "did not reach"))
    return fails


def build(ctx):
    overlay = C.make_overlay(ctx, clock_pkgs=["internal/circuitbreaker"], harness_pkgs=["internal/circuitbreaker"])
    return C.go_test_build(ctx, "internal/circuitbreaker", overlay)


def run_checks(ctx, want):
    binary = build(ctx)
    d = C.Differential(ctx, binary)
    nep = 4000 if ctx.thorough() else 500
    episodes = C.load_corpus("C07") + [gen_episode(ctx.rng, live=(None if i % 5 == 0 else True), long=ctx.thorough()) for i in range(nep)]
    if "C07" in want:
        # callers arriving together at the open -> half-open transition (real goroutines)
        rounds = 3000 if ctx.thorough() else 300
        episodes += [["cb race %d %d %d" % (c, m, rounds)] for c, m in ((2, 1), (6, 1), (12, 1), (8, 2))]
        episodes += [["cb reopen %d %d" % (c, rounds * 2)] for c in (3, 8, 16)]
    episodes += multi_epoch_episodes()
    ctx.cov["multi_epoch_episodes"] = len(multi_epoch_episodes())
    if "C08" in want:
        # state changes from concurrent requests while an observer that reads the breaker is running
        episodes += [["cb notifyrace %d %d" % (c, 1500 if ctx.thorough() else 150)] for c in (2, 4, 8)]
    bad = d.check(episodes, oracle=lambda e, o: oracle(e, o, want), label="cb")
    # the breaker as the balancer wires it (setupCircuitBreaker: thresholds, interval, timeout,
    # max_requests defaulting) under the virtual clock: correspondence with the LB model
    from .. import lbgen
    from . import c02
    lbbin = c02.build(ctx)
    dl = C.Differential(ctx, lbbin)
    dl.n = 700
    wired = [lbgen.mixed_episode(ctx.rng, n=40, cb=True, passive=False) for _ in range(400 if ctx.thorough() else 80)]
    dl.check(wired, oracle=None, label="cb-wiring")
    # the plainest trip there is, through the balancer: F failed answers in a row (every 5xx status, with the headers
    # real backends put on such answers — Retry-After, problem+json, Connection: close; the harness picks them by
    # request number) and the next request is not forwarded
    trips_lb = []
    for F in (1, 2, 3):
        for status in (500, 502, 503, 504, 599):
            for base in range(4):
                ops = ["# wired-trip %d" % F, "lb new round_robin 0 2 1 0 0 0 1 %d 1 1 0 60" % F, "lb add b0 1 good"]
                t = 10**9
                for i in range(F):
                    ops += ["lb begin %d %d - - 10.0.0.1:1" % (base + 4 * i, t), "lb end %d %d %d" % (base + 4 * i, t + 1000, status)]
                    t += 10**6
                ops.append("lb begin %d %d - - 10.0.0.1:1" % (base + 4 * F + 1, t))
                trips_lb.append(ops)

    def wired_trip_oracle(ep, outs):
        if not ep or not ep[0].startswith("# wired-trip"):
            return []
        F = int(ep[0].split()[2])
        ol = C.op_lines(ep)
        if len(ol) != 2 + 2 * F + 1:
            return []                       # (a shrunk episode)
        fails = []
        for l, o in zip(ol[2:-1], outs[2:-1]):
            if l.split()[1] == "begin" and not o.startswith("fwd "):
                fails.append("closed breaker, fewer than %d failures so far, request not forwarded: %s -> %s" % (F, l, o))
        if not fails and not outs[-1].startswith("resp 503"):
            fails.append("%d consecutive failed answers (%s) and the next request is still forwarded: %s -> %s" % (F, ol[3].split()[4], ol[-1], outs[-1]))
        return fails
    dl.check(trips_lb, oracle=wired_trip_oracle, label="cb-wired-trip")
    ctx.cov["wiring_episodes"] = len(wired)
    if "C07" in want:
        from . import c03
        dt = C.Differential(ctx, c03.build(ctx), timeout=600, project=c03.project, confirm=2)
        trips = trip_episodes()
        dt.check(trips, oracle=trip_oracle, label="cb-front")
        ctx.cov["front_end_trip_episodes"] = len(trips)
        ab = abandoned_trial_episodes()
        dt.check(ab, oracle=abandoned_trial_oracle, label="cb-front-abandoned")
        ctx.cov["front_end_abandoned_trial_episodes"] = len(ab)
    trans = {}
    nontriv = set()
    tags = {}
    if bad == 0:
        for ep, outs in zip(episodes, d.last[0]):
            sig = []
            for o in outs:
                tg = o.split()[0].split("=")[0]
                tags[tg] = tags.get(tg, 0) + 1
                if o.startswith("changes="):
                    for c in o[8:].split(","):
                        if c:
                            trans[c] = trans.get(c, 0) + 1
                            sig.append(c)
            if "O>H" in sig and ("H>C" in sig or "H>O" in sig):
                nontriv.add(hash(tuple(ep)))
    ctx.cov.update({
        "evaluations": sum(len(C.op_lines(e)) for e in episodes),
        "distinct_nontrivial": len(nontriv),
        "rule": "episode = fresh breaker (thresholds 0..3, 0 = default) + 4..%d begin/end events with overlapping requests, then the recovery script; non-trivial = went through a half-open episode that closed or re-opened; distinct by op text" % (60 if ctx.thorough() else 25),
        "episodes": len(episodes), "traces_validated_against_impl": len(episodes),
        "transitions_seen": trans, "answer_kinds": tags,
        "samples": [episodes[-1][:14]],
    })


def check(ctx):
    ctx.assumptions += [
        "virtual clock via overlay (time.Now rewritten)",
        "requests overlap at the granularity of the breaker's critical sections (begin = beforeRequest, end = afterRequest); sync.RWMutex provides the atomicity of each section; callers arriving together at the half-open transition are additionally run as real goroutines (cb race) - a search over schedules, the theorem halfopen_budget carries the claim",
        "uint32 counters do not wrap (2^32 consecutive failures)",
    ]
    ok = C.prove(ctx, MODULES, THEOREMS)
    run_checks(ctx, ("C07",))
    if not ok:
        C.violation(ctx, "proof", {"what": "a proof obligation of C07 no longer checks",
                                   "broken": [o for o in ctx.obligations if not o[1]]},
                    no_input=not any(not v["no_input"] for v in ctx.violations))
