"""C17 — plugin chain: configured order, rejection stops the chain, startup fails closed."""
import re

from .. import common as C
from .. import rwgen
from . import c14

ID = "C17"
MODULES = ["Helios.Props.C17", "Helios.Props.Facts"]
THEOREMS = ["Helios.Http.chain_order", "Helios.Http.chain_order_general", "Helios.Http.reject_stops",
            "Helios.Http.startup_fail_closed", "Helios.Http.unknown_plugin_fails",
            "Helios.Facts.plugins_eq"]
BUILTINS = ["log", "hdr", "sl.1000.100000", "gz.5.10.text%2F", "auth.k1"]
# degenerate but accepted keys: no client can present them (header values arrive trimmed), so the
# protection must reject every request — never turn into "no key required"
ODD_AUTH = ["auth.%20", "auth.%09%20", "auth.%0A", "auth.k1%20", "auth.%20k1"]


# keys with characters that mean something to a shell or a template engine: to the plugin they are plain bytes
# (VERIF_UNSET_VAR is not set in the environment of the harness)
LITERAL_AUTH = ["auth.pa%24%24w0rd", "auth.%24%7BVERIF_UNSET_VAR%7D", "auth.%24HOME", "auth.a%24b", "auth.%25s", "auth.%7B%7Bkey%7D%7D", "auth.%5Cn"]


def gen_order(rng):
    """a chain of up to 5 built-ins interleaved with numbered probes"""
    k = rng.randint(0, 5)
    items = [rng.choice(BUILTINS) if rng.random() < 0.85 else rng.choice(ODD_AUTH + LITERAL_AUTH) for _ in range(k)]
    chain, pid = [], 0
    for it in items:
        if rng.random() < 0.7:
            pid += 1
            chain.append("pr.%d" % pid)
        chain.append(it)
    pid += 1
    chain.append("pr.%d" % pid)
    key = rng.choice(["k1", "k1", "k1", "bad", "-"])
    lit = [it[5:] for it in items if it in LITERAL_AUTH]
    if lit and rng.random() < 0.6:
        key = rng.choice(lit + ["-"])         # the configured key itself, or no key at all
    reqlen = rng.choice([0, 10, 1000, 1001, 5000])
    # a declared body is a body whatever the method
    method = rng.choice(["POST", "POST", "PUT", "GET", "DELETE", "PATCH"]) if reqlen else "GET"
    ops = rwgen.response_ops(rng, total=rng.choice([0, 5, 50]), late_headers=False)
    return [rwgen.line("+".join(chain), method, rng.choice(["gzip", "-"]), key, reqlen, rng.choice(["cl", "chunked"]) if reqlen else "cl", ops)]


def oracle_order(ep, outs):
    line = C.op_lines(ep)[0]
    w = line.split()
    if w[0] != "rw":
        return []
    o = c14.parse_out(outs[0])
    if "trace" not in o:
        return ["exchange failed: " + outs[0]]
    chain = w[1].split("+")
    key, reqlen, mode = w[4], int(w[5]), w[6]
    expect_in = []
    rejected = False
    for p in chain:
        if p.startswith("pr."):
            expect_in.append(p[3:])
        elif p.startswith("auth.") and key != p[5:]:
            rejected = True
            break
        elif p.startswith("sl.") and mode == "cl" and reqlen > int(p.split(".")[1]):
            rejected = True
            break
    want = ["e" + i for i in expect_in] + ([] if rejected else ["in"]) + ["x" + i for i in reversed(expect_in)]
    got = [t for t in o["trace"].split(",") if t]
    fails = []
    if got != want:
        fails.append("plugin order: trace %s, configured order demands %s" % (got, want))
    if rejected and o["status"] not in ("401", "413"):
        fails.append("rejected request answered %s" % o["status"])
    return fails


VALID = {
    "logging": [""],
    "size_limit": ["", "@max_request_body=i:10", "@max_request_body=f:10.0@max_response_body=i:5", "@max_response_body=f:2.5"],
    "gzip": ["@level=i:5@min_size=i:1024@content_types=l:text/|application/json", "@level=f:-1.0@min_size=f:0.0@content_types=l:text/",
             "@level=i:9@min_size=i:1@content_types=l:", "@level=i:0@min_size=i:1@content_types=l:a"],
    "headers": ["", "@set=m:X-App:Helios", "@set=m:X-A:1|X-B:2@request_set=m:X-From:LB"],
    "custom-auth": ["@apiKey=s:secret"],
}
INVALID = {
    "size_limit": ["@max_request_body=i:0", "@max_request_body=i:-5", "@max_response_body=s:big", "@max_request_body=f:0.5", "@max_response_body=B:1"],
    "gzip": ["", "@level=i:10@min_size=i:1@content_types=l:a", "@level=i:-2@min_size=i:1@content_types=l:a", "@level=s:5@min_size=i:1@content_types=l:a",
             "@level=i:5@content_types=l:a", "@level=i:5@min_size=i:1", "@level=i:5@min_size=i:1@content_types=x:1", "@level=i:5@min_size=i:1@content_types=s:text/",
             "@level=f:9.5@min_size=s:1@content_types=l:a"],
    "headers": ["@set=b:1", "@request_set=s:x", "@set=l:a"],
    "custom-auth": ["", "@apiKey=s:", "@apiKey=i:5"],
    "no-such-plugin": [""],
    # an entry whose name is missing (a mistyped `name:` key keeps its config): not a plugin
    "": ["@apiKey=s:secret", "@max_request_body=i:10"],
    "Logging": [""],
}


def gen_build(rng):
    k = rng.randint(1, 5)
    parts, valid = [], True
    for _ in range(k):
        if rng.random() < 0.75:
            n = rng.choice(list(VALID))
            parts.append(n + rng.choice(VALID[n]))
        else:
            n = rng.choice(list(INVALID))
            parts.append(n + rng.choice(INVALID[n]))
            valid = False
    return ["# build %s" % ("valid" if valid else "invalid"), "bc " + "+".join(parts)]


def twin_builds():
    """chains built one after the other in one process whose options print alike but differ in type or structure: a
    valid one first, then its ill-typed twin (and the other way round) — each build is judged on its own options"""
    pairs = [("custom-auth@apiKey=s:12345", "custom-auth@apiKey=i:12345"),
             ("gzip@level=i:5@min_size=i:1@content_types=l:text/", "gzip@level=s:5@min_size=i:1@content_types=l:text/"),
             ("gzip@level=i:7@min_size=i:1@content_types=l:text/css", "gzip@level=i:7@min_size=i:1@content_types=s:[text/css]"),
             ("size_limit@max_request_body=i:64", "size_limit@max_request_body=s:64"),
             ("size_limit@max_response_body=f:4321.0", "size_limit@max_response_body=s:4321"),
             ("headers@set=m:X-A:1", "headers@set=s:map[X-A:1]")]
    eps = []
    for good, bad in pairs:
        eps.append(["# builds ok err ok", "bc " + good, "bc " + bad, "bc " + good])
        eps.append(["# builds err ok err", "bc logging+" + bad, "bc logging+" + good, "bc " + bad])
    return eps


def oracle(ep, outs):
    if ep and ep[0].startswith("# builds"):
        want = ep[0].split()[2:]
        ol = C.op_lines(ep)
        if len(ol) != len(want):
            return []           # (a shrunk episode)
        return ["BuildChain answered %s for a chain whose own options make it %s (it was built after a chain whose options print alike): %s" % (
            o, "valid" if w == "ok" else "invalid", l) for l, o, w in zip(ol, outs, want) if o != w][:2]
    if ep and ep[0].startswith("# build"):
        want = "ok" if ep[0].split()[2] == "valid" else "err"
        return [] if not outs or outs[0] == want else ["BuildChain answered %s for a chain the documentation makes %s: %s" % (outs[0], ep[0].split()[2], ep[1])]
    return oracle_order(ep, outs)


def front_episode(rng):
    """the chain as cmd/helios composes it (buildHandler: plugins, request-context middleware, balancer)
    with requests each rejecting plugin accepts or rejects — also requests that offer a protocol upgrade"""
    plugins = rng.choice(["auth", "sl", "auth+sl", "sl+auth"])
    ops = ["id new 1 - 1 - %s 0" % plugins]
    for _ in range(rng.randint(4, 10)):
        key = rng.choice(["k1", "k1", "bad", "-"])
        blen = rng.choice([0, 5, 10, 11, 500])
        ops.append("id req none none %s %d 0%s" % (key, blen, rng.choice([" upg", " ws"]) if rng.random() < 0.45 else ""))
    return ops


def front_oracle(ep, outs):
    ol = C.op_lines(ep)
    plugins = ol[0].split()[6].split("+")
    fails = []
    for l, o in zip(ol[1:], outs[1:]):
        w = l.split()
        key, blen = w[4], int(w[5])
        want = None
        for p in plugins:            # the first listed plugin is outermost
            if p == "auth" and key != "k1":
                want = "401"
                break
            if p == "sl" and blen > 10:
                want = "413"
                break
        m = re.match(r"status=(\d+)", o)
        if not m:
            fails.append("exchange failed: %s -> %s" % (l, o))
            continue
        if want is not None and (m.group(1) != want or "/nobackend" not in o):
            fails.append("a request the chain must reject with %s was answered %s%s (%s)" % (
                want, m.group(1), "" if "/nobackend" in o else " and reached the backend", l))
        if want is None and m.group(1) != "200":
            fails.append("a request every plugin accepts was answered %s (%s)" % (m.group(1), l))
    return fails


def check(ctx):
    ctx.assumptions += [
        "a tracing probe plugin is registered by the harness (RegisterBuiltin) to observe entry/exit order",
        "buildHandler / main propagate BuildChain's error and exit (two-line glue, read but not modelled)",
    ]
    ok = C.prove(ctx, MODULES, THEOREMS)
    binary = c14.build(ctx)
    d = C.Differential(ctx, binary, timeout=900)
    n = 2000 if ctx.thorough() else 300
    episodes = C.load_corpus(ID) + [gen_order(ctx.rng) for _ in range(n)] + [gen_build(ctx.rng) for _ in range(2 * n)] + twin_builds()
    bad = d.check(episodes, oracle=oracle, label="chain")
    sess = [rwgen.session_episode(ctx.rng, ctx.rng.choice(["pr.1+sl.1000.100+hdr+pr.2", "log+pr.1+gz.5.10.text%2F+sl.1000.5000+pr.2", "hdr+pr.1"]), limit=100)
            for _ in range(100 if ctx.thorough() else 20)]
    d.check(sess, oracle=lambda e, o: rwgen.session_oracle(e, o) or [], label="chain-session")
    ctx.cov["session_episodes"] = len(sess)
    overlay = C.make_overlay(ctx, clock_pkgs=[], harness_pkgs=["cmd/helios"], hmap={"cmd/helios": "helios"})
    hel = C.go_test_build(ctx, "cmd/helios", overlay, name="helios")
    dfe = C.Differential(ctx, hel, timeout=600)
    fronts = [front_episode(ctx.rng) for _ in range(300 if ctx.thorough() else 50)]
    dfe.check(fronts, oracle=front_oracle, label="chain-front")
    ctx.cov["front_end_episodes"] = len(fronts)
    # the chain that is built is the chain the file lists: entries, names, options and order as written
    from .. import cfgfid
    cfgfid.check(ctx, C.Differential(ctx, hel, timeout=300), n=40 if ctx.thorough() else 10)
    rej = built = failed = 0
    nontriv = set()
    if bad == 0:
        for ep, outs in zip(episodes, d.last[0]):
            if outs and outs[0] == "ok":
                built += 1
            elif outs and outs[0] == "err":
                failed += 1
                nontriv.add(hash(tuple(ep)))
            elif outs and "trace=" in outs[0]:
                tr = outs[0].split("trace=")[1]
                if "in" not in tr.split(","):
                    rej += 1
                    nontriv.add(hash(tuple(ep)))
    ctx.cov.update({
        "evaluations": len(episodes),
        "distinct_nontrivial": len(nontriv),
        "rule": "(a) real exchanges through chains of 0..5 built-in plugins (repeats allowed) interleaved with numbered tracing probes, with keys / declared lengths that each rejecting plugin accepts or rejects; (b) BuildChain on chains of 1..5 entries drawn from valid and invalid option payloads per plugin (YAML int / float / string / list / map typings, unknown names). non-trivial = a request was rejected inside the chain, or construction failed",
        "episodes": len(episodes), "traces_validated_against_impl": len(episodes),
        "rejected_in_chain": rej, "build_ok": built, "build_failed": failed,
        "samples": [episodes[len(C.load_corpus(ID))], episodes[-1]],
    })
    if not ok:
        C.violation(ctx, "proof", {"what": "a proof obligation of C17 no longer checks",
                                   "broken": [o for o in ctx.obligations if not o[1]]},
                    no_input=not any(not v["no_input"] for v in ctx.violations))
