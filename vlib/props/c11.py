"""C11 — runtime reconfiguration is atomic and consistent under traffic (sequential histories)."""
from urllib.parse import unquote

from .. import common as C
from .. import lbgen
from . import c02

ID = "C11"
MODULES = ["Helios.Props.C11", "Helios.Props.Facts"]
THEOREMS = ["Helios.LB.add_listed_eligible", "Helios.LB.add_failed_noop", "Helios.LB.add_nodup",
            "Helios.LB.remove_absent_after", "Helios.LB.remove_keeps_others", "Helios.LB.switch_preserves",
            "Helios.LB.switch_failed_noop", "Helios.LB.strategy_names",
            "Helios.Facts.strategies_eq"]
NAMES = ["a", "b", "c", "d"]


def gen_episode(rng, long=False):
    g = lbgen.Gen(rng, passive=False, nback=rng.choice([0, 1, 2, 3]))
    g.names = list(g.names)
    n = rng.randint(6, 40 if long else 18)
    for _ in range(n):
        g.step_time()
        k = rng.random()
        if k < 0.3:
            nm = rng.choice(NAMES + g.names) if rng.random() < 0.8 else "b%d" % rng.randint(0, 5)
            g.add(name=nm, w=rng.choice([-3, 0, 1, 2, 7]), bad=rng.random() < 0.15)
        elif k < 0.5:
            nm = rng.choice(NAMES + g.names + ["absent"])
            g.ops.append("lb remove %s" % nm)
            if nm in g.names:
                g.names.remove(nm)
        elif k < 0.56 and g.names:
            # a backend is replaced under its own name (remove + add, nothing in between): the old
            # object is gone for good, new requests go to the new one
            nm = rng.choice(g.names)
            g.ops.append("lb remove %s" % nm)
            g.names.remove(nm)
            g.add(name=nm, w=rng.choice([1, 2, 7]))
            for _ in range(rng.randint(1, 4)):
                g.request(outcome="200")
        elif k < 0.62:
            g.set_strategy()
        elif k < 0.8:
            g.ops.append("lb list")
        else:
            g.begin()
            if rng.random() < 0.6:
                g.end(g.infl[-1], outcome="200")
        if rng.random() < 0.4:
            g.ops.append("lb list")
    return g.finish()


def swap_episode(rng):
    """blue/green through the admin API with the circuit breaker on: the pool is empty for a moment, requests
    arriving then are answered 503, the new backend is added — and must be served at once (nothing has failed)"""
    g = lbgen.Gen(rng, passive=rng.random() < 0.5, cb=True, nback=0)
    g.names = []
    g.add(name="blue", w=1)
    for _ in range(rng.randint(1, 5)):
        g.request(outcome="200")
    g.ops.append("lb remove blue")
    g.names.remove("blue")
    for _ in range(rng.randint(4, 9)):
        g.step_time()
        g.begin()                       # answered by Helios itself: no backend configured
        g.infl.pop()
    g.add(name="green", w=1)
    g.ops.append("lb list")
    for _ in range(3):
        g.request(outcome="200")
    return g.finish()


def churn_episode(rng):
    """a long-lived balancer whose backends come and go through the admin API (autoscaling): after more than a
    thousand distinct names adds, removals, listings and traffic still work"""
    ops = ["lb new %s 0 1 1 0 0 0 0 0 0 0 0 0" % rng.choice(["round_robin", "least_connections"]), "lb add keep 1 good"]
    t = 0
    for i in range(1010):
        ops.append("lb add n%d 1 good" % i)
        if i % 101 == 0:
            t += 1
            ops += ["lb list", "lb begin %d %d - - 10.0.0.1:1" % (t, t), "lb end %d %d 200" % (t, t)]
        ops.append("lb remove n%d" % i)
    ops += ["lb list"]
    return ops


ADDRS = ["http://127.0.0.1:1", "http://127.0.0.1:1/blue", "http://127.0.0.1:1/green", "https://127.0.0.1:1/blue", "http://127.0.0.1:2", "http://[::1]:3/x"]


def post_episode(rng):
    """the admin handlers on request bodies that carry only some of the keys (an absent weight is the default, an
    absent name or address is a refusal), re-adds on an address that shares its host with a removed one, removes of
    names that were never there — every answer and the listing after it depend on that request and the registry only"""
    ops = ["adm new - A= D="]
    names = ["heavy", "plain", "tmp", "blue", "green", "x y"]
    for _ in range(rng.randint(6, 16)):
        k = rng.random()
        n = rng.choice(names)
        if k < 0.55:
            nm = lbgen.enc(n) if rng.random() < 0.9 else "-"
            ad = lbgen.enc(rng.choice(ADDRS)) if rng.random() < 0.85 else "-"
            wt = rng.choice(["-", "-", "7", "1", "0", "-3", "12"])
            ops.append("adm padd %s %s %s" % (nm, ad, wt))
        elif k < 0.8:
            ops.append("adm prm %s" % (lbgen.enc(n) if rng.random() < 0.9 else "-"))
        else:
            ops.append("adm padd - - -")
    return ops


def post_oracle(ep, outs):
    from urllib.parse import unquote as uq
    reg = {}
    fails = []
    for l, o in zip(C.op_lines(ep)[1:], outs[1:]):
        w = l.split()
        dec = lambda t: "" if t == "-" else uq(t)
        want = None
        if w[1] == "padd":
            name, addr = dec(w[2]), dec(w[3])
            wt = 0 if w[4] == "-" else int(w[4])
            if name and addr and name not in reg:
                reg[name] = (max(1, wt), addr)
                want = 201
            else:
                want = 400
        elif w[1] == "prm":
            name = dec(w[2])
            want = 200 if name else 400
            reg.pop(name, None)
        else:
            continue
        exp = "code=%d list=%s" % (want, ",".join(sorted("%s|%d|%s" % (k.encode().hex(), v[0], v[1].encode().hex()) for k, v in reg.items())))
        if o != exp:
            def show(t):
                try:
                    return ["%s weight %s at %s" % (bytes.fromhex(e.split("|")[0]).decode(), e.split("|")[1], bytes.fromhex(e.split("|")[2]).decode()) for e in t.split("list=")[1].split(",") if e]
                except Exception:      # noqa
                    return t
            fails.append("%s answered %s, listing %s; the request itself and the registry before it give %d, listing %s" % (
                l, o.split()[0], show(o), want, show(exp)))
            break
    return fails


def parse_list(o):
    res = []
    for ent in [e for e in o[5:].split(",") if e]:
        f = ent.split(":")
        res.append((unquote(f[0]), f[1] == "true", int(f[2]), int(f[3])))
    return res


def oracle(ep, outs):
    ol = C.op_lines(ep)
    spec = {}           # abstract spec: name -> normalised weight
    fails = []
    last = None
    for line, o in zip(ol[1:], outs[1:]):
        w = line.split()
        if w[1] == "add":
            name, wt, flag = w[2], int(w[3]), w[4]
            should = flag == "good" and name not in spec
            if (o == "ok") != should:
                fails.append("add %s (%s, present=%s) answered %s" % (name, flag, name in spec, o))
            if o == "ok":
                spec[name] = max(1, wt)
        elif w[1] == "remove":
            spec.pop(w[2], None)
        elif w[1] == "strategy":
            ok = w[2] in lbgen.STRATS
            if (o == "ok") != ok:
                fails.append("strategy %s answered %s" % (w[2], o))
        elif w[1] == "list":
            got = parse_list(o)
            names = [g[0] for g in got]
            if sorted(names) != sorted(spec):
                fails.append("listing %s but the operations so far leave exactly %s" % (sorted(names), sorted(spec)))
            for nme, healthy, conns, wt in got:
                if nme in spec and wt != spec[nme]:
                    fails.append("backend %s listed with weight %d, added with %d" % (nme, wt, spec[nme]))
            if len(set(names)) != len(names):
                fails.append("listing has duplicate names %s" % names)
        elif w[1] == "begin" and o.startswith("fwd "):
            nme = unquote(o[4:])
            if nme not in spec:
                fails.append("request served by %s which is not configured (removed or never added)" % nme)
        elif w[1] == "begin" and o.startswith("resp 503") and spec:
            fails.append("503 while backends %s are configured and healthy" % sorted(spec))
    return fails


def check(ctx):
    ctx.assumptions += [
        "each admin operation holds the balancer write lock for its whole body, so it is one atomic step; concurrent histories are searched with real admin actors (each the sole owner of a name), strategy switches and traffic - a lost update or a wedged request shows as a listing that contradicts the answers an actor received",
        "the admin HTTP handlers add only JSON decoding and empty-field checks on top of AddBackend/RemoveBackend/SetStrategy (exercised by the C10 harness)",
    ]
    ok = C.prove(ctx, MODULES, THEOREMS)
    binary = c02.build(ctx)
    d = C.Differential(ctx, binary)
    nep = 2000 if ctx.thorough() else 400
    episodes = C.load_corpus(ID) + [gen_episode(ctx.rng, ctx.thorough()) for _ in range(nep)] + \
        [swap_episode(ctx.rng) for _ in range(100 if ctx.thorough() else 20)] + [churn_episode(ctx.rng)]
    bad = d.check(episodes, oracle=oracle, label="admin")
    # the add / remove handlers themselves (JSON bodies with some keys missing, listing read back)
    from . import c10
    posts = [post_episode(ctx.rng) for _ in range(300 if ctx.thorough() else 60)]
    C.Differential(ctx, c10.build(ctx)).check(posts, oracle=post_oracle, label="admin-handlers")
    ctx.cov["admin_handler_episodes"] = len(posts)
    # concurrent admin actors (each the sole owner of one backend name), strategy switches and
    # traffic through the real admin mux: what an actor was told must be what the listing shows
    from . import c12, c16
    hel = c16.build(ctx) if hasattr(c16, "build") else None
    if hel is None:
        overlay = C.make_overlay(ctx, clock_pkgs=[], harness_pkgs=["cmd/helios"], hmap={"cmd/helios": "helios"}, tag="adm")
        hel = C.go_test_build(ctx, "cmd/helios", overlay, name="helios")
    runs = [{"VERIF_RACE_MS": str(3000 if ctx.thorough() else 900), "VERIF_RACE_SEED": str(ctx.seed * 3 + i),
             "VERIF_RACE_STRATEGY": st, "VERIF_RACE_PROFILE": pr}
            for i, (st, pr) in enumerate([(s_, p_) for s_ in (lbgen.STRATS if ctx.thorough() else lbgen.STRATS[:1])
                                          for p_ in ("admin", "calm")])]
    from concurrent.futures import ThreadPoolExecutor
    with ThreadPoolExecutor(max_workers=4) as ex:
        results = list(ex.map(lambda e: c12.run_workload(ctx, hel, "TestVerifRace", e), runs))
    for env, (rc, out) in zip(runs, results):
        cls = c12.classify(rc, out)
        if cls and cls[0] in ("admin-consistency", "deadlock", "crash"):
            C.violation(ctx, "concurrent-" + cls[0], {
                "what": "concurrent admin actors + traffic against the real code: " + cls[0],
                "test": "TestVerifRace", "env": env, "report": cls[1]})
            break
    if not any(v["kind"].startswith("concurrent") for v in ctx.violations):
        # simultaneous adds of ONE name: exactly one is created, the name is listed once
        env = {"VERIF_DUP_ROUNDS": str(4000 if ctx.thorough() else 500)}
        rc, out = c12.run_workload(ctx, hel, "TestVerifDupAdd", env)
        cls = c12.classify(rc, out)
        if cls:
            C.violation(ctx, "concurrent-" + cls[0], {
                "what": "simultaneous admin adds of one name against the real code: " + cls[0],
                "test": "TestVerifDupAdd", "env": env, "report": cls[1]})
    ctx.cov["concurrent_admin_workloads"] = len(runs) + 1
    kinds = {}
    nontriv = set()
    if bad == 0:
        for ep, outs in zip(episodes, d.last[0]):
            errs = 0
            for line, o in zip(C.op_lines(ep), outs):
                k = line.split()[1] + ("" if o in ("ok",) or not o == "err" else "-err")
                kinds[k] = kinds.get(k, 0) + 1
                errs += o == "err"
            if errs and any(" remove " in l for l in ep):
                nontriv.add(hash(tuple(ep)))
    ctx.cov.update({
        "evaluations": sum(len(C.op_lines(e)) for e in episodes),
        "distinct_nontrivial": len(nontriv),
        "rule": "histories over add(name,weight,good|bad address)/remove/strategy/list/request with repeated names, absent names, unparsable addresses and unknown strategies over a 4-name alphabet; listing compared with an abstract name->weight map after every step. non-trivial = contains a refused operation and a removal",
        "episodes": len(episodes), "traces_validated_against_impl": len(episodes), "op_kinds": kinds,
        "samples": [episodes[-1][:14]],
    })
    if not ok:
        C.violation(ctx, "proof", {"what": "a proof obligation of C11 no longer checks",
                                   "broken": [o for o in ctx.obligations if not o[1]]},
                    no_input=not any(not v["no_input"] for v in ctx.violations))
