"""C10 — admin API access control: bearer token and IP allow/deny fail closed."""
import ipaddress

from .. import common as C
from ..lbgen import enc

ID = "C10"
MODULES = ["Helios.Props.C10", "Helios.Props.Facts", "Helios.Props.CodeAdm"]
THEOREMS = ["Helios.Admin.bearer_exact", "Helios.Admin.auth_exact", "Helios.Admin.health_only_open",
            "Helios.Admin.no_token_no_401", "Helios.Admin.ip_policy", "Helios.Admin.deny_wins",
            "Helios.Admin.unparsable_refused", "Helios.Admin.malformed_list_fails_closed",
            "Helios.Admin.header_independent", "Helios.Admin.unauth_no_effect",
            "Helios.Facts.routes_eq", "Helios.Facts.ip_filter_closed", "Helios.Facts.extraction_clean",
            # Tie C: IPFilter.IsAllowed, translated from the source on every run
            "Helios.CodeTie.IsAllowed_refines", "Helios.CodeTie.IsAllowed_deny_wins", "Helios.CodeTie.IsAllowed_unparsable",
            "Helios.CodeTie.translation_clean_adm"]

PATHS = ["/v1/health", "/v1/metrics", "/v1/backends", "/v1/backends/add", "/v1/backends/remove", "/v1/strategy"]
ODD_PATHS = ["/v1/unknown", "/v1/backends/", "/", "/v1/health/", "/v1", "/V1/backends", "/v1/backends/add/x"]
LONG_TOKEN = "eyJhbGciOiJIUzI1NiJ9." + "p4yl0ad" * 40 + "." + "s1gnatur3" * 6          # a JWT-sized secret (355 bytes)
TOKENS = ["-", "s3cr3t", "tok en", "Bearer", "t", LONG_TOKEN, "k" * 129]
NETS4 = ["10.0.0.0/8", "192.168.1.0/24", "192.168.1.5", "203.0.113.0/30", "10.1.2.3/8", "0.0.0.0/0", "127.0.0.1"]
NETS6 = ["2001:db8::/32", "::1", "fe80::/10", "2001:db8:0:1::/64", "2001:db8:0:1::10", "2001:db9:5::7", "::2"]
# ranges that share their first address: a narrower one listed before (or after) a wider one
NESTED = [["203.0.113.0/28", "203.0.113.0/24"], ["10.0.0.0", "10.0.0.0/8"], ["2001:db8::/64", "2001:db8::/32"], ["192.168.1.0/30", "192.168.1.0/24", "192.168.0.0/16"],
          ["2001:db8::", "2001:db8::/112"], ["10.1.0.0/16", "10.0.0.0/8"]]
# list entries written in the IPv4-mapped IPv6 form: an IPv4 host / network (Go's net package and the model agree that a
# mapped address IS the IPv4 address; a mapped entry with a prefix shorter than 96 is an IPv6 network and holds no IPv4 peer)
MAPPED = ["::ffff:10.0.0.5", "::ffff:192.168.1.0/120", "::ffff:10.0.0.0/104", "::ffff:203.0.113.7/128", "::FFFF:127.0.0.1", "::ffff:a00:5",
          "0:0:0:0:0:ffff:10.0.0.6", "::ffff:0:0/90"]
BADNETS = ["not-an-ip", "10.0.0.0/33", "10.0.0/8", "10.0.0.0/", "/8", "2001:db8::/129", "1.2.3.4.5", "", " ", "\t", "", " "]


def parsed_net(s):
    try:
        n = ipaddress.ip_network(s, strict=False)
    except ValueError:
        return "x"
    if n.version == 6 and n.prefixlen >= 96 and n.network_address.ipv4_mapped is not None:
        return "4.%d.%d" % (int(n.network_address.ipv4_mapped), n.prefixlen - 96)
    return "%d.%d.%d" % (n.version, int(n.network_address), n.prefixlen)


def peer(rng, nets):
    """(RemoteAddr string, parsed form for the model)"""
    k = rng.random()
    if k < 0.12:
        return rng.choice([("garbage:1", "x"), ("300.1.1.1:80", "x"), ("[::1]", "x"), ("", "x"), ("host.example:80", "x"),
                           ("1.2.3:80", "x"), ("[::g]:80", "x")])
    # pick a value inside or outside one of the nets
    v = None
    if nets and rng.random() < 0.6:
        n = rng.choice(nets)
        try:
            net = ipaddress.ip_network(n, strict=False)
            v = net.network_address + rng.randrange(min(net.num_addresses, 1 << 16))
        except ValueError:
            v = None
    if nets and rng.random() < 0.3:
        # a neighbour of a listed entry: next address, same /64, same /32 (a listed single host
        # covers that host only, a listed network nothing beyond its last address)
        try:
            net = ipaddress.ip_network(rng.choice(nets), strict=False)
            off = rng.choice([1, -1, 2, 1 << 8, 1 << 16, 1 << 64, 1 << 80, (1 << 95) + 3, net.num_addresses, net.num_addresses + 1])
            cand = int(net.network_address) + off
            if 0 <= cand < (1 << (32 if net.version == 4 else 128)):
                v = ipaddress.ip_address(cand) if net.version == 4 else ipaddress.IPv6Address(cand)
        except ValueError:
            pass
    if v is None and rng.random() < 0.15:
        # IPv6 addresses whose first 32 bits are zero (what a list entry mis-read as ::/32 would cover)
        v = ipaddress.IPv6Address(rng.choice([1, 5, (1 << 80) + 5, (0xfffe << 32) + 7, 1 << 95]))
    if v is None:
        v = ipaddress.ip_address(rng.getrandbits(32)) if rng.random() < 0.7 else ipaddress.ip_address(rng.getrandbits(128))
    if v.version == 4:
        form = rng.random()
        if form < 0.7:
            return "%s:%d" % (v, rng.randint(1, 65535)), "4.%d" % int(v)
        if form < 0.85:
            return str(v), "4.%d" % int(v)                       # no port: raw RemoteAddr is used
        return "[::ffff:%s]:%d" % (v, rng.randint(1, 65535)), "4.%d" % int(v)   # IPv4-mapped
    if v.ipv4_mapped is not None:
        return "[%s]:80" % v, "4.%d" % int(v.ipv4_mapped)
    s = rng.choice([v.compressed, v.exploded])
    return "[%s]:%d" % (s, rng.randint(1, 65535)), "6.%d" % int(v)


def authz(rng, tok):
    t = "x" if tok == "-" else tok
    if len(t) > 20 and rng.random() < 0.5:
        # wrong credentials of the right length that agree with the secret on a long prefix (a rotated-out token, a
        # truncated compare, a fixed-size buffer): exact means every byte
        k = rng.choice([8, 16, 32, 64, 127, 128, len(t) - 1])
        k = min(k, len(t) - 1)
        return "Bearer " + t[:k] + "".join("Z" if c != "Z" else "Y" for c in t[k:])
    return rng.choice(["Bearer " + t] * 4 + ["bearer " + t, "Bearer  " + t, "Bearer " + t + " ", "Bearer" + t, t, "Basic " + t,
                                             "-", "Bearer ", " Bearer " + t, "Bearer " + t + "x", "BEARER " + t, "Bearer\t" + t])


def gen_episode(rng, long=False):
    tok = rng.choice(TOKENS)
    allow, deny = [], []
    mode = rng.random()
    if mode > 0.25:
        allow = rng.sample(NETS4 + NETS6, rng.randint(0, 3))
        deny = rng.sample(NETS4 + NETS6, rng.randint(0, 2))
        if rng.random() < 0.25:
            (allow if rng.random() < 0.5 else deny).insert(0, rng.choice(MAPPED))
        if rng.random() < 0.2:
            (allow if rng.random() < 0.5 else deny).insert(rng.randint(0, 1), rng.choice(BADNETS))
        if rng.random() < 0.3:
            nest = list(rng.choice(NESTED))
            if rng.random() < 0.3:
                nest.reverse()
            if rng.random() < 0.5:
                deny = nest + deny[:1]
            else:
                allow = nest + allow[:1]
    fmt = lambda l: ",".join("%s~%s" % (enc(x) if x else "%00", parsed_net(x)) for x in l)
    ops = ["adm new %s A=%s D=%s" % (enc(tok), fmt(allow), fmt(deny))]
    names = ["a", "b", "c"]
    for _ in range(rng.randint(6, 40 if long else 18)):
        path = rng.choice(PATHS * 4 + ODD_PATHS)
        method = rng.choice(["GET", "GET", "POST", "POST", "DELETE", "PUT", "OPTIONS", "HEAD", "PATCH", "OPTIONS"])
        remote, pp = peer(rng, allow + deny)
        if path.endswith("/add"):
            body = rng.choice(["add:%s:good" % rng.choice(names), "add:%s:bad" % rng.choice(names), "add:-:good", "bad", "none"])
        elif path.endswith("/remove"):
            body = rng.choice(["rm:%s" % rng.choice(names), "rm:-", "bad"])
        elif path.endswith("/strategy"):
            body = rng.choice(["st:least_connections", "st:ip_hash", "st:bogus", "st:-", "bad"])
        else:
            body = "none"
        xff = rng.choice(["-", "-", "10.1.2.3", "127.0.0.1", "192.168.1.5, 8.8.8.8", "::1"])
        xri = rng.choice(["-", "-", "10.9.9.9", "127.0.0.1"])
        ops.append("adm req %s %s %s %s %s %s %s %s" % (method, enc(path), enc(authz(rng, tok)), enc(remote) if remote else "-", pp, enc(xff), enc(xri), body))
    return ops


def oracle(ep, outs):
    """Property statements evaluated on the implementation's answers (independent of the Lean model)."""
    ol = C.op_lines(ep)
    w0 = ol[0].split()
    tok = w0[2]
    import urllib.parse
    token = "" if tok == "-" else urllib.parse.unquote(tok)

    def ents(s):
        body = s[2:]
        return [] if not body else [e.split("~")[1] for e in body.split(",")]
    allow, deny = ents(w0[3]), ents(w0[4])
    configured = bool(allow or deny)
    malformed = "x" in allow or "x" in deny

    def contains(net, p):
        fam, base, ln = net.split(".")
        pf, a = p.split(".")
        if fam != pf:
            return False
        bits = 32 if fam == "4" else 128
        return int(base) >> (bits - int(ln)) == int(a) >> (bits - int(ln))
    fails = []
    prev_state = "|round_robin"
    for line, o in zip(ol[1:], outs[1:]):
        w = line.split()
        if w[1] != "req":
            continue
        cls = o.split()[0]
        state = o.split("state=")[1].split()[0] if "state=" in o else ""
        if "LEAK" in o:
            fails.append("refused request changed state or revealed data: %s -> %s" % (line, o))
        path = urllib.parse.unquote(w[3])
        az = "" if w[4] == "-" else urllib.parse.unquote(w[4])
        pp = w[6]
        # expected IP verdict from the property text
        if configured:
            if malformed or pp == "x":
                ip_ok = False
            else:
                ip_ok = not any(contains(d, pp) for d in deny) and (not allow or any(contains(a, pp) for a in allow))
        else:
            ip_ok = True
        if not ip_ok and cls != "forbidden":
            fails.append("peer %s must be refused by the IP lists (allow=%s deny=%s) but got %s" % (w[5], allow, deny, o))
        if ip_ok and cls == "forbidden":
            fails.append("peer %s is permitted by the IP lists (allow=%s deny=%s) but was refused" % (w[5], allow, deny))
        if ip_ok and path in PATHS:
            need_auth = token != "" and path != "/v1/health"
            if need_auth and az != "Bearer " + token and cls != "unauth":
                fails.append("%s answered %s to Authorization %r (token %r)" % (path, o, az, token))
            if (not need_auth or az == "Bearer " + token) and cls == "unauth":
                fails.append("%s answered 401 to a request that carries exactly the credential (or needs none)" % path)
        if cls in ("forbidden", "unauth", "noroute") and state != prev_state:
            fails.append("state changed by a request that was not served: %s -> %s" % (prev_state, state))
        prev_state = state
    return fails


def startup_oracle(ep, outs):
    o = outs[0] if outs else ""
    lvl = ep[0].split()[1]
    if o == "config-unchanged level=" + ("info" if lvl == "-" else lvl):
        return []
    if o.startswith("config-unchanged"):
        return ["configured log level %s, the logger runs at %s" % ("(omitted: info)" if lvl == "-" else lvl, o.split("level=")[-1])]
    return [
        "start-up changes the configuration the admin API enforces (token / lists are read from it on every request): %s -> %s" % (ep[0], o)]


def build(ctx):
    overlay = C.make_overlay(ctx, clock_pkgs=[], harness_pkgs=["internal/adminapi"])
    return C.go_test_build(ctx, "internal/adminapi", overlay)


def check(ctx):
    ctx.assumptions += [
        "net.ParseIP / net.ParseCIDR / IPNet.Contains are taken as given: the model works on parsed values, the generator renders values into address strings (v4, v6 compressed/exploded, IPv4-mapped, with/without port) and a fixed set of malformed strings",
        "requests are built in-process (httptest); header values reach the handler exactly as set",
        "net/http.ServeMux routes only the six registered exact paths to handlers (everything else is 404/301)",
    ]
    ok = C.prove(ctx, MODULES, THEOREMS)
    overlay = C.make_overlay(ctx, clock_pkgs=[], harness_pkgs=["internal/adminapi"])
    binary = C.go_test_build(ctx, "internal/adminapi", overlay)
    d = C.Differential(ctx, binary)
    nep = 2500 if ctx.thorough() else 400
    episodes = C.load_corpus(ID) + [gen_episode(ctx.rng, ctx.thorough()) for _ in range(nep)]
    bad = d.check(episodes, oracle=oracle, label="admin")
    # the configuration object the mux reads on every request, after everything main() does at start-up
    ov2 = C.make_overlay(ctx, clock_pkgs=[], harness_pkgs=["cmd/helios"], hmap={"cmd/helios": "helios"})
    hel = C.go_test_build(ctx, "cmd/helios", ov2, name="helios")
    C.Differential(ctx, hel, timeout=300).check([["startup debug"], ["startup info"], ["startup error"]], oracle=startup_oracle, label="admin-startup")
    classes = {}
    nontriv = set()
    if bad == 0:
        for ep, outs in zip(episodes, d.last[0]):
            seen = set()
            for o in outs[1:]:
                c = o.split()[0]
                classes[c] = classes.get(c, 0) + 1
                seen.add(c.split(":")[0])
            if {"forbidden", "unauth", "served"} <= seen:
                nontriv.add(hash(tuple(ep)))
    ctx.cov.update({
        "evaluations": sum(len(C.op_lines(e)) for e in episodes),
        "distinct_nontrivial": len(nontriv),
        "rule": "episodes: one mux configuration (token or none; allow/deny lists of v4/v6 CIDRs and single addresses, overlapping, sometimes with a malformed entry) and 6..%d requests over all routes and odd paths, 7 methods (incl. OPTIONS / HEAD, which no rule exempts), 16 Authorization spellings, v4/v6/IPv4-mapped/unparsable peers inside and outside the lists, forged X-Forwarded-For / X-Real-IP, valid and malformed bodies; balancer state digested before/after every request. non-trivial = episode containing refused-by-IP, 401 and served requests" % (40 if ctx.thorough() else 18),
        "episodes": len(episodes), "traces_validated_against_impl": len(episodes), "answer_classes": classes,
        "samples": [episodes[-1][:8]],
    })
    if not ok:
        C.violation(ctx, "proof", {"what": "a proof obligation of C10 no longer checks",
                                   "broken": [o for o in ctx.obligations if not o[1]]},
                    no_input=not any(not v["no_input"] for v in ctx.violations))
