"""C14 — size_limit plugin: bodies are bounded, everything within bounds is untouched."""
from .. import common as C
from .. import rwgen

ID = "C14"
MODULES = ["Helios.Props.CodeRW", "Helios.Props.C14"]
THEOREMS = ["Helios.Http.resp_bounded", "Helios.Http.resp_413_if_early", "Helios.Http.within_transparent",
            "Helios.Http.within_transparent_implicit",
            "Helios.Http.req_gate",
            # Tie C: the plugin's response writer (Write, checkLimit, ensureHeaderWritten, WriteHeader, Flush), translated
            # from the source on every run, is the model's Lim.step — state and the calls handed on, in order
            "Helios.CodeTie.write_refines", "Helios.CodeTie.writeHeader_refines", "Helios.CodeTie.ensure_refines",
            "Helios.CodeTie.flush_refines", "Helios.CodeTie.flush_no_flusher", "Helios.CodeTie.translation_clean_rw"]


def build(ctx):
    overlay = C.make_overlay(ctx, clock_pkgs=[], harness_pkgs=["internal/plugins"])
    return C.go_test_build(ctx, "internal/plugins", overlay)


def parse_out(o):
    d = {}
    for f in o.split():
        k, _, v = f.partition("=")
        d[k] = v
    return d


def gen_pair(rng):
    """the same exchange with and without size_limit (transparency), around the limits"""
    L = rng.choice([1, 2, 5, 10, 64, 100, 1000])
    total = rng.choice([0, max(0, L - 1), L, L + 1, 3 * L + 7, 0, L])
    method = rng.choice(["GET", "GET", "POST", "HEAD", "PUT", "GET+", "DELETE+"])
    reqL = rng.choice([1, 8, 100])
    withbody = method in ("POST", "PUT") or method.endswith("+")     # a declared body is a body whatever the method
    method = method.rstrip("+")
    reqlen = rng.choice([0, reqL - 1, reqL, reqL + 1, 5 * reqL]) if withbody else 0
    mode = rng.choice(["cl", "cl", "chunked"]) if withbody else "cl"
    ops = rwgen.response_ops(rng, total=total, with_cl=(rng.random() < 0.3))
    pos = rng.choice(["sl", "log+sl", "sl+log", "pr.1+sl+pr.2", "hdr+sl"])
    chain = pos.replace("sl", "sl.%d.%d" % (reqL, L))
    plain = pos.replace("+sl", "").replace("sl+", "").replace("sl", "") or "none"
    return ["# meta %d %d %d %d %s" % (reqL, L, total, reqlen, mode),
            rwgen.line(chain, method, "-", "-", reqlen, mode, ops), rwgen.line(plain, method, "-", "-", reqlen, mode, ops)]


def oracle_pair(ep, outs):
    if not ep or not ep[0].startswith("# meta") or len(outs) != 2:
        return []
    m = ep[0].split()
    reqL, L, total, reqlen, mode = int(m[2]), int(m[3]), int(m[4]), int(m[5]), m[6]
    lines = C.op_lines(ep)
    a, b = parse_out(outs[0]), parse_out(outs[1])
    fails = []
    if "status" not in a or "status" not in b:
        return ["exchange failed: %s | %s" % (outs[0], outs[1])]
    blen = int(a["body"].split(":")[0])
    method = lines[0].split()[2]
    over_req = mode == "cl" and reqlen > reqL
    if over_req:
        if a["status"] != "413" or "in" in a["trace"].split(","):
            fails.append("declared request body %d > limit %d: got %s, backend contacted=%s" % (reqlen, reqL, a["status"], "in" in a["trace"]))
        return fails
    got = a["xh"]
    if "X-Got=" in got:
        g = got.split("X-Got=")[1].split("&")[0].split("%21")[0]
        if g.isdigit() and int(g) > reqL:
            fails.append("backend received %s request body bytes, limit %d" % (g, reqL))
    if a["status"] != "413" and blen > L:
        fails.append("client received %d body bytes, limit %d" % (blen, L))
    within_resp = int(b["body"].split(":")[0]) <= L and b["short"] == "0"
    # what the handler tried to send, from the op text
    tried = sum(int(o.split(":")[1]) for o in lines[0].split()[7].split(";") if o.startswith("w:"))
    whs = [o for o in lines[0].split()[7].split(";") if o.startswith("wh:") and not o.startswith("wh:1")]
    if tried <= L and reqlen <= reqL and len(whs) <= 1:
        for k in ("status", "ce", "ct", "body", "short"):
            if a[k] != b[k]:
                fails.append("within limits but %s differs: with plugin %s, without %s" % (k, a[k], b[k]))
        xa = "&".join(x for x in a["xh"].split("&") if not x.startswith("X-V-Late"))
        xb = "&".join(x for x in b["xh"].split("&") if not x.startswith("X-V-Late"))
        if xa != xb:
            fails.append("within limits but headers differ: %s vs %s" % (a["xh"], b["xh"]))
    return fails


def check(ctx):
    ctx.assumptions += [
        "net/http server response semantics are modelled (Base) and validated against a real http.Server on loopback on every run",
        "bodies are pattern-generated; header names/values are ASCII tokens",
        "transparency is stated for handlers that do not mutate headers between WriteHeader and the commit point and call WriteHeader at most once (as ReverseProxy does)",
    ]
    ok = C.prove(ctx, MODULES, THEOREMS)
    binary = build(ctx)
    d = C.Differential(ctx, binary, timeout=900)
    n = 2500 if ctx.thorough() else 350
    episodes = [gen_pair(ctx.rng) for _ in range(n)]
    corpus = C.load_corpus(ID)
    bad = d.check(corpus + episodes, oracle=oracle_pair, label="sizelimit")
    # one plugin instance serving several exchanges in a row (over-limit, cut short, ordinary)
    sess = []
    for _ in range(150 if ctx.thorough() else 30):
        L = ctx.rng.choice([5, 64, 100, 1000])
        pos = ctx.rng.choice(["sl", "log+sl", "pr.1+sl+pr.2", "gz.5.10.text%2F+sl"])
        sess.append(rwgen.session_episode(ctx.rng, pos.replace("sl", "sl.1000.%d" % L), limit=L))
    d.check(sess, oracle=lambda e, o: rwgen.session_oracle(e, o) or [], label="sizelimit-session")
    ctx.cov["session_episodes"] = len(sess)
    # size_limit where cmd/helios puts it (buildHandler), incl. requests that offer a protocol upgrade
    from . import c17
    overlay = C.make_overlay(ctx, clock_pkgs=[], harness_pkgs=["cmd/helios"], hmap={"cmd/helios": "helios"})
    hel = C.go_test_build(ctx, "cmd/helios", overlay, name="helios")
    dfe = C.Differential(ctx, hel, timeout=600)
    fronts = [c17.front_episode(ctx.rng) for _ in range(200 if ctx.thorough() else 40)]
    dfe.check(fronts, oracle=c17.front_oracle, label="sizelimit-front")
    ctx.cov["front_end_episodes"] = len(fronts)
    nontriv = set()
    hit413 = trunc = 0
    if bad == 0:
        for ep, outs in zip(episodes, d.last[0][len(corpus):]):
            a = parse_out(outs[0])
            if a.get("status") == "413":
                hit413 += 1
                nontriv.add(hash(tuple(ep)))
            elif a.get("short") == "1":
                trunc += 1
                nontriv.add(hash(tuple(ep)))
    ctx.cov.update({
        "evaluations": 2 * len(episodes) + len(corpus),
        "distinct_nontrivial": len(nontriv),
        "rule": "pairs of real HTTP exchanges (with / without size_limit at 5 chain positions): limits 1..1000, request bodies limit-1/limit/limit+1/5x in Content-Length and chunked framing, response bodies around the limit split into 0..6 writes, 13 statuses incl. bodiless ones, explicit/implicit WriteHeader, flushes before/between/after writes, GET/POST/HEAD. non-trivial = the limit was hit (413 or truncated body)",
        "pairs": len(episodes), "traces_validated_against_impl": 2 * len(episodes),
        "answers_413": hit413, "truncated": trunc,
        "samples": [episodes[0]],
    })
    if not ok:
        C.violation(ctx, "proof", {"what": "a proof obligation of C14 no longer checks",
                                   "broken": [o for o in ctx.obligations if not o[1]]},
                    no_input=not any(not v["no_input"] for v in ctx.violations))
