"""C14 — size_limit plugin: bodies are bounded, everything within bounds is untouched."""
from .. import common as C
from .. import rwgen

ID = "C14"
MODULES = ["Helios.Props.CodeRW", "Helios.Props.C14"]
THEOREMS = ["Helios.Http.resp_bounded", "Helios.Http.resp_413_if_early", "Helios.Http.within_transparent",
            "Helios.Http.within_transparent_implicit",
            "Helios.Http.req_gate",
            # Tie C: the plugin's response writer (Write, checkLimit, ensureHeaderWritten, WriteHeader, Flush), translated
            # from the source on every run, is the model's Lim.step — state and the calls handed on, in order
            "Helios.CodeTie.write_refines", "Helios.CodeTie.writeHeader_refines", "Helios.CodeTie.ensure_refines",
            "Helios.CodeTie.flush_refines", "Helios.CodeTie.flush_no_flusher", "Helios.CodeTie.translation_clean_rw"]


def build(ctx):
    overlay = C.make_overlay(ctx, clock_pkgs=[], harness_pkgs=["internal/plugins"])
    return C.go_test_build(ctx, "internal/plugins", overlay)


def parse_out(o):
    d = {}
    for f in o.split():
        k, _, v = f.partition("=")
        d[k] = v
    return d


def gen_pair(rng):
    """the same exchange with and without size_limit (transparency), around the limits"""
    L = rng.choice([1, 2, 5, 10, 64, 100, 1000])
    total = rng.choice([0, max(0, L - 1), L, L + 1, 3 * L + 7, 0, L])
    method = rng.choice(["GET", "GET", "POST", "HEAD", "PUT", "GET+", "DELETE+"])
    reqL = rng.choice([1, 8, 100])
    withbody = method in ("POST", "PUT") or method.endswith("+")     # a declared body is a body whatever the method
    method = method.rstrip("+")
    reqlen = rng.choice([0, reqL - 1, reqL, reqL + 1, 5 * reqL]) if withbody else 0
    mode = rng.choice(["cl", "cl", "chunked"]) if withbody else "cl"
    ops = rwgen.response_ops(rng, total=total, with_cl=(rng.random() < 0.3))
    pos = rng.choice(["sl", "log+sl", "sl+log", "pr.1+sl+pr.2", "hdr+sl"])
    chain = pos.replace("sl", "sl.%d.%d" % (reqL, L))
    plain = pos.replace("+sl", "").replace("sl+", "").replace("sl", "") or "none"
    if rng.random() < 0.25:
        # the plugin listed twice with different limits (a strict edge limit, a laxer inner one, or the other way round):
        # each entry is its own instance with its own limits, so the stricter one decides
        lax = "sl.%d.%d" % (reqL * 40 + 7, L * 40 + 7)
        if rng.random() < 0.5:
            chain, plain = chain + "+hdr+" + lax, (plain + "+hdr" if plain != "none" else "hdr")
        else:
            chain, plain = lax + "+hdr+" + chain, ("hdr+" + plain if plain != "none" else "hdr")
    return ["# meta %d %d %d %d %s" % (reqL, L, total, reqlen, mode),
            rwgen.line(chain, method, "-", "-", reqlen, mode, ops), rwgen.line(plain, method, "-", "-", reqlen, mode, ops)]


def oracle_pair(ep, outs):
    if not ep or not ep[0].startswith("# meta") or len(outs) != 2:
        return []
    m = ep[0].split()
    reqL, L, total, reqlen, mode = int(m[2]), int(m[3]), int(m[4]), int(m[5]), m[6]
    lines = C.op_lines(ep)
    a, b = parse_out(outs[0]), parse_out(outs[1])
    fails = []
    if "status" not in a or "status" not in b:
        return ["exchange failed: %s | %s" % (outs[0], outs[1])]
    blen = int(a["body"].split(":")[0])
    method = lines[0].split()[2]
    over_req = mode == "cl" and reqlen > reqL
    if over_req:
        if a["status"] != "413" or "in" in a["trace"].split(","):
            fails.append("declared request body %d > limit %d: got %s, backend contacted=%s" % (reqlen, reqL, a["status"], "in" in a["trace"]))
        return fails
    got = a["xh"]
    if "X-Got=" in got:
        g = got.split("X-Got=")[1].split("&")[0].split("%21")[0]
        if g.isdigit() and int(g) > reqL:
            fails.append("backend received %s request body bytes, limit %d" % (g, reqL))
    if a["status"] != "413" and blen > L:
        fails.append("client received %d body bytes, limit %d" % (blen, L))
    within_resp = int(b["body"].split(":")[0]) <= L and b["short"] == "0"
    # what the handler tried to send, from the op text
    tried = sum(int(o.split(":")[1]) for o in lines[0].split()[7].split(";") if o.startswith("w:"))
    whs = [o for o in lines[0].split()[7].split(";") if o.startswith("wh:") and not o.startswith("wh:1")]
    if tried <= L and reqlen <= reqL and len(whs) <= 1:
        for k in ("status", "ce", "ct", "body", "short"):
            if a[k] != b[k]:
                fails.append("within limits but %s differs: with plugin %s, without %s" % (k, a[k], b[k]))
        xa = "&".join(x for x in a["xh"].split("&") if not x.startswith("X-V-Late"))
        xb = "&".join(x for x in b["xh"].split("&") if not x.startswith("X-V-Late"))
        if xa != xb:
            fails.append("within limits but headers differ: %s vs %s" % (a["xh"], b["xh"]))
    return fails


def wire_limit_episodes(rng):
    """the response limit (1000 bytes) on the wire: the plugin in the handler cmd/helios builds, behind the real
    reverse proxy and server, alone and with the other shipped plugins around it; bodies below, at and above the
    limit, written at once or streamed with flushes, declared or not"""
    from . import c01
    eps = []
    for feats in ("S", "lS", "Sl", "S"):
        ep = ["px new round_robin 00 - %s" % feats]
        for total, pieces, declared, status in ((500, 1, True, 200), (1000, 1, False, 200), (1001, 1, True, 200), (5000, 1, False, 200),
                                                (1200, 4, False, 200), (3000, 6, False, 404), (999, 3, False, 201), (50000, 2, True, 200)):
            ops = ["sh:Content-Type:text%2Fplain"]
            if declared:
                ops.append("sh:Content-Length:%d" % total)
            ops.append("wh:%d" % status)
            seed = rng.randint(0, 250)
            part = total // pieces
            for k in range(pieces):
                n = part if k < pieces - 1 else total - part * (pieces - 1)
                ops.append("w:%d:%d" % (n, seed))
                seed = (seed + n) % 251
                if pieces > 1:
                    ops.append("fl")
            for mode in ("direct", "via"):
                ep.append("px x %s GET /p - 0 cl %s" % (mode, ";".join(ops)))
        ep.append("px close")
        eps.append(ep)
    return eps


def wire_limit_oracle(ep, outs):
    """never more than the limit reaches the client, and nothing the backend did not send; within the limit the
    answer is the backend's"""
    lines = C.op_lines(ep)
    fails = []
    i = 1
    while i + 1 < len(lines):
        if not (lines[i].startswith("px x direct") and lines[i + 1].startswith("px x via")):
            i += 1
            continue
        fd = dict(t.split("=", 1) for t in outs[i].split("||")[0].split()[1:] if "=" in t)
        fv = dict(t.split("=", 1) for t in outs[i + 1].split("||")[0].split()[1:] if "=" in t)
        i += 2
        if "body" not in fd or "body" not in fv:
            continue
        dl, vl = int(fd["body"].split(":")[0]), int(fv["body"].split(":")[0])
        if vl > 1000:
            fails.append("the client received %d body bytes through a chain whose response limit is 1000 (%s)" % (vl, lines[i - 1]))
        elif dl <= 1000 and (fv["body"] != fd["body"] or fv.get("status") != fd.get("status") or fv.get("short") != fd.get("short")):
            fails.append("an answer within the response limit was changed on the way: backend status %s body len:hash %s, client status %s body %s short=%s (%s)" % (
                fd.get("status"), fd["body"], fv.get("status"), fv["body"], fv.get("short"), lines[i - 1]))
        elif dl > 1000 and fv.get("status") == fd.get("status") and fv.get("short") == "0":
            fails.append("a body of %d bytes, over the response limit of 1000, reached the client as a complete %s answer of %d bytes (%s)" % (dl, fv.get("status"), vl, lines[i - 1]))
    return fails


def check(ctx):
    ctx.assumptions += [
        "net/http server response semantics are modelled (Base) and validated against a real http.Server on loopback on every run",
        "bodies are pattern-generated; header names/values are ASCII tokens",
        "transparency is stated for handlers that do not mutate headers between WriteHeader and the commit point and call WriteHeader at most once (as ReverseProxy does)",
    ]
    ok = C.prove(ctx, MODULES, THEOREMS)
    binary = build(ctx)
    d = C.Differential(ctx, binary, timeout=900)
    n = 2500 if ctx.thorough() else 350
    episodes = [gen_pair(ctx.rng) for _ in range(n)]
    corpus = C.load_corpus(ID)
    bad = d.check(corpus + episodes, oracle=oracle_pair, label="sizelimit")
    # one plugin instance serving several exchanges in a row (over-limit, cut short, ordinary)
    sess = []
    for _ in range(150 if ctx.thorough() else 30):
        L = ctx.rng.choice([5, 64, 100, 1000])
        pos = ctx.rng.choice(["sl", "log+sl", "pr.1+sl+pr.2", "gz.5.10.text%2F+sl"])
        sess.append(rwgen.session_episode(ctx.rng, pos.replace("sl", "sl.1000.%d" % L), limit=L))
    d.check(sess, oracle=lambda e, o: rwgen.session_oracle(e, o) or [], label="sizelimit-session")
    ctx.cov["session_episodes"] = len(sess)
    # size_limit where cmd/helios puts it (buildHandler), incl. requests that offer a protocol upgrade
    from . import c17
    overlay = C.make_overlay(ctx, clock_pkgs=[], harness_pkgs=["cmd/helios"], hmap={"cmd/helios": "helios"})
    hel = C.go_test_build(ctx, "cmd/helios", overlay, name="helios")
    dfe = C.Differential(ctx, hel, timeout=600)
    fronts = [c17.front_episode(ctx.rng) for _ in range(200 if ctx.thorough() else 40)]
    dfe.check(fronts, oracle=c17.front_oracle, label="sizelimit-front")
    ctx.cov["front_end_episodes"] = len(fronts)
    # the response limit behind the real reverse proxy (judged by the oracle alone: the wire model has no plugins)
    wl = wire_limit_episodes(ctx.rng) if ctx.thorough() else wire_limit_episodes(ctx.rng)[:2]
    C.Differential(ctx, hel, timeout=600).check_oracle_only(wl, wire_limit_oracle, "sizelimit-wire")
    ctx.cov["wire_limit_episodes"] = len(wl)
    nontriv = set()
    hit413 = trunc = 0
    if bad == 0:
        for ep, outs in zip(episodes, d.last[0][len(corpus):]):
            a = parse_out(outs[0])
            if a.get("status") == "413":
                hit413 += 1
                nontriv.add(hash(tuple(ep)))
            elif a.get("short") == "1":
                trunc += 1
                nontriv.add(hash(tuple(ep)))
    ctx.cov.update({
        "evaluations": 2 * len(episodes) + len(corpus),
        "distinct_nontrivial": len(nontriv),
        "rule": "pairs of real HTTP exchanges (with / without size_limit at 5 chain positions): limits 1..1000, request bodies limit-1/limit/limit+1/5x in Content-Length and chunked framing, response bodies around the limit split into 0..6 writes, 13 statuses incl. bodiless ones, explicit/implicit WriteHeader, flushes before/between/after writes, GET/POST/HEAD. non-trivial = the limit was hit (413 or truncated body)",
        "pairs": len(episodes), "traces_validated_against_impl": 2 * len(episodes),
        "answers_413": hit413, "truncated": trunc,
        "samples": [episodes[0]],
    })
    if not ok:
        C.violation(ctx, "proof", {"what": "a proof obligation of C14 no longer checks",
                                   "broken": [o for o in ctx.obligations if not o[1]]},
                    no_input=not any(not v["no_input"] for v in ctx.violations))
