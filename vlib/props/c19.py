"""C19 — graceful shutdown completes, drains requests and stops probing."""
from .. import common as C
from . import c02

ID = "C19"
MODULES = ["Helios.Props.C19", "Helios.Props.C20", "Helios.Props.Facts"]
THEOREMS = ["Helios.Shut.inv_step", "Helios.Shut.stop_safe", "Helios.Shut.stop_no_deadlock",
            "Helios.Pool.shutdown_closes_all", "Helios.Pool.down_forever", "Helios.Facts.shutdown_protocol", "Helios.Facts.signals_stay_registered"]


def check(ctx):
    ctx.assumptions += [
        "the protocol model's steps are the critical actions of loop / probe / Stop; that the code performs them in that order and that only the loop goroutine calls healthCheckWg.Add is re-derived from the source on every run (fact shutdown_protocol)",
        "fair scheduling: a goroutine that can step eventually does (stop_no_deadlock shows one always can); Go's select eventually takes the ctx.Done case",
        "draining of in-flight client requests is http.Server.Shutdown (stdlib), called before Stop (fact gracefulSequence); signal delivery and process exit are outside the model and observed on the real binary (one and repeated stop signals with a request in flight)",
        "implementation runs use the wall clock: Stop placements are sampled, not enumerated",
    ]
    ok = C.prove(ctx, MODULES, THEOREMS)
    binary = c02.build(ctx)
    d = C.Differential(ctx, binary, timeout=1800)
    n = 150 if ctx.thorough() else 24
    eps = []
    for i in range(n):
        nb = ctx.rng.choice([1, 2, 8, 40])
        probe = ctx.rng.choice([0, 1, 5, 30])
        delay = ctx.rng.choice([0, 5, 50, 500, 3000, 20000, 1010000 if i % 12 == 0 else 100])
        eps.append(["stop %d %d %d %d %d" % (nb, probe, delay, ctx.rng.choice([1, 1, 2, 4]), i % 3)])

    def orc(ep, outs):
        o = outs[0] if outs else ""
        f = []
        if not o.startswith("stop returned within=true"):
            f.append("Stop did not complete in time or crashed: %s -> %s" % (ep[0], o))
        if "late=0" not in o:
            f.append("a health probe arrived after Stop had returned: %s" % o)
        if "pooledClosed=false" in o:
            f.append("a pooled connection was left open by shutdown")
        return f
    d.check(C.load_corpus(ID) + eps, oracle=orc, label="stop")
    # the pool while Shutdown overlaps Get / Put / Close / cleanup: nothing handed in stays open
    from . import c12
    for i in range(4 if ctx.thorough() else 2):
        env = {"VERIF_RACE_MS": str(1000 if ctx.thorough() else 400), "VERIF_RACE_SEED": str(ctx.seed * 13 + i)}
        rc, out = c12.run_workload(ctx, binary, "TestVerifPoolRace", env)
        cls = c12.classify(rc, out)
        if cls:
            C.violation(ctx, "pool-shutdown-" + cls[0], {"what": "pool operations overlapping Shutdown: " + cls[0],
                                                         "test": "TestVerifPoolRace", "env": env, "report": cls[1]})
            break
    if not any(v["kind"].startswith("pool-shutdown") for v in ctx.violations):
        env = {"VERIF_PUT_ROUNDS": str(600 if ctx.thorough() else 120)}
        rc, out = c12.run_workload(ctx, binary, "TestVerifPutShutdown", env)
        cls = c12.classify(rc, out)
        if cls:
            C.violation(ctx, "pool-shutdown-" + cls[0], {"what": "Put at the moment of Shutdown: " + cls[0],
                                                         "test": "TestVerifPutShutdown", "env": env, "report": cls[1]})
    if not any(v["kind"].startswith("pool-shutdown") for v in ctx.violations):
        env = {"VERIF_CLEANUP_ROUNDS": str(800 if ctx.thorough() else 150)}
        rc, out = c12.run_workload(ctx, binary, "TestVerifCleanupShutdown", env)
        cls = c12.classify(rc, out)
        if cls:
            C.violation(ctx, "pool-shutdown-" + cls[0], {"what": "the janitor pass overlapping Shutdown: " + cls[0],
                                                         "test": "TestVerifCleanupShutdown", "env": env, "report": cls[1]})
    if not any(v["kind"].startswith("pool-shutdown") for v in ctx.violations):
        rc, out = c12.run_workload(ctx, binary, "TestVerifShutdownWindow", {})
        cls = c12.classify(rc, out)
        if cls:
            C.violation(ctx, "pool-shutdown-" + cls[0], {"what": "connections handed back while Shutdown is closing an idle one: " + cls[0],
                                                         "test": "TestVerifShutdownWindow", "report": cls[1]})
        rc, out = c12.run_workload(ctx, binary, "TestVerifCleanupWindow", {})
        cls = c12.classify(rc, out)
        if cls:
            C.violation(ctx, "pool-shutdown-" + cls[0], {"what": "a connection put back while the janitor pass is closing a stale one must still be closed by Shutdown: " + cls[0],
                                                         "test": "TestVerifCleanupWindow", "report": cls[1]})
    # the process-level sequence (shutdownGracefully), with the drain finishing and with the drain
    # running into the shutdown timeout
    overlay = C.make_overlay(ctx, clock_pkgs=[], harness_pkgs=["cmd/helios"], hmap={"cmd/helios": "helios"})
    hel = C.go_test_build(ctx, "cmd/helios", overlay, name="helios")
    dg = C.Differential(ctx, hel, timeout=600, project=lambda line: line.split(" || ", 1)[0], confirm=2)

    def orc_gs(ep, outs):
        o = outs[0] if outs else ""
        return [] if o.startswith("gs returned probesAfter=0") else ["after the process-level shutdown (%s) the balancer is still probing: %s" % (ep[0], o)]
    dg.check([["gs 0"], ["gs 2500"]], oracle=orc_gs, label="graceful")
    # the real binary: stop signals (once, repeated, mixed) while a request is in flight
    from .. import procsig
    procsig.check(ctx)
    ctx.cov.update({
        "evaluations": len(eps),
        "distinct_nontrivial": len(set(e[0] for e in eps if e[0].split()[3] != "0")),
        "rule": "real balancers with active checks (1..40 backends, probes answered after 0..30 ms), Stop called 0 us .. 1.01 s after construction (before the first probe, mid fan-out, mid-probe, after a tick) by 1..4 goroutines at once plus a repeated Stop, with and without a WebSocket pool holding a connection; non-trivial = Stop placed after a non-zero delay",
        "scenarios": len(eps), "traces_validated_against_impl": len(eps),
        "samples": [eps[0], eps[-1]],
    })
    if not ok:
        C.violation(ctx, "proof", {"what": "a proof obligation of C19 no longer checks",
                                   "broken": [o for o in ctx.obligations if not o[1]]},
                    no_input=not any(not v["no_input"] for v in ctx.violations))
