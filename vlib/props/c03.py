"""C03 — fault containment: no backend/client fault can wedge or crash the proxy."""
import re
import subprocess
from concurrent.futures import ThreadPoolExecutor
from .. import common as C
from ..lbgen import STRATS

ID = "C03"
MODULES = ["Helios.Props.C03", "Helios.Props.C12", "Helios.Props.Facts"]
THEOREMS = ["Helios.Facts.lock_analysis_clean", "Helios.LB.recovers", "Helios.LB.recovers_by_time", "Helios.CB.breaker_gate_opens", "Helios.LB.cbGate_admits",
            "Helios.LB.rlGate_admits",
            "Helios.LB.conserved_run", "Helios.LB.gauges_zero_when_idle",
            "Helios.Locks.lockorder_sound", "Helios.Facts.lock_order_ranked", "Helios.Facts.no_callback_under_lock", "Helios.Facts.no_wait_under_lock",
            "Helios.Facts.timeouts_set"]
FAULTS = ["refuse", "hang", "reset", "short", "garbage", "s500", "i503", "slow", "stall", "cau", "cad", "upg"]
# client-visible outcome classes a fault may legitimately produce (regex), besides the answers
# of Helios' own gates (429 limiter / breaker budget, 503 breaker open / no healthy backend)
ALLOWED = {
    "ok": r"200", "refuse": r"502", "hang": r"502", "garbage": r"502", "s500": r"500", "i503": r"503", "upg": r"200",
    "reset": r"200-then-broken\(\d+\)", "short": r"200-then-broken\(\d+\)", "stall": r"200-then-broken\(\d+\)",
    "slow": r"200", "cau": r"client-aborted-upload", "cad": r"client-aborted-download|200", "cah": r"client-abandoned",
    # the same through a client that accepts gzip: the plugin holds status and body until the handler is done, so a
    # response cut mid-body is a connection closed before any answer
    "okz": r"200", "shortz": r"200-then-broken\(\d+\)|closed-before-response", "resetz": r"200-then-broken\(\d+\)|closed-before-response",
}
KINDS = ["sse", "ssel", "wait", "grpc", "range", "keep", "poll"]
GATES = r"429|503"
BOUND_MS = 2900   # server/handler timeouts are 2 s, backend dial/read 1 s: generous slack for a loaded box


def gen_episode(rng, length, strategy, toggles):
    ep = ["ft new %s %d %d %d %d" % ((strategy,) + toggles)]
    for _ in range(length):
        f = rng.choice(FAULTS)
        if f not in ("cau", "cah", "upg") and rng.random() < 0.3:
            f += "+" + rng.choice(KINDS)        # the same fault on a request that describes itself (SSE, long poll, gRPC, ...)
        ep.append("ft req " + f)
    ep.append("ft probe")
    return ep


def targeted(strategy):
    """sequences that need a particular order: the half-open trial itself is hit by a fault; a
    passively ejected backend must come back without active probes"""
    eps = []
    for trial_fault in ("short", "reset", "s500", "hang", "cad"):
        eps.append(["ft new %s 1 0 0 0" % strategy, "ft req s500", "ft req s500", "ft req s500", "ft wait 1150",
                    "ft req " + trial_fault, "ft probe"])
    eps.append(["ft new %s 0 0 2 0" % strategy, "ft req s500", "ft req s500", "ft req s500", "ft req ok", "ft probe"])
    eps.append(["ft new %s 1 0 2 0" % strategy, "ft req s500", "ft req s500", "ft req s500", "ft wait 1150", "ft req short",
                "ft wait 1150", "ft req s500", "ft probe"])
    # the breaker with max_requests left at its documented default: after a storm and the timeout,
    # clean requests one after the other close it again — none of them is refused
    eps.append(["ft new %s 2 0 0 0" % strategy, "ft req s500", "ft req s500", "ft req s500", "ft wait 1150", "# all-clean",
                "ft req ok", "ft req ok", "ft req ok", "ft req ok", "ft probe"])
    # slow-but-healthy active probes in flight while passive ejections happen (a probe answer
    # arriving inside the unhealthy window must leave the balancer usable)
    eps.append(["ft new %s 0 0 1 0" % strategy, "ft health 700", "ft wait 1200", "ft req s500", "ft req s500", "ft req s500",
                "ft wait 400", "ft req s500", "ft req s500", "ft req s500", "ft wait 900", "ft req s500", "ft req s500", "ft req s500",
                "ft health 0", "ft probe"])
    # a response cut mid-body while a buffering plugin holds it, then clean requests through the same plugin instance:
    # each gets its own answer and nothing of the dead one
    # (pooled buffers are per scheduler thread: the pattern is repeated so that a buffer handed back by a dead exchange is
    # drawn again by a later one whichever thread serves it)
    eps.append(["ft new %s 0 0 0 1" % strategy] + ["ft req shortz", "ft req okz", "ft req resetz", "ft req okz", "ft req okz"] * 8 + ["ft probe"])
    # the end-to-end handler timeout (1 s) firing before the backend read timeout (3 s) — the shipped defaults have the
    # two equal —: a silent backend is answered for by the handler deadline, and that answer is an error, not an empty 200
    eps.append(["ft new %s 0 0 3 0" % strategy, "ft req hang", "ft req ok", "ft req stall", "ft req ok", "ft probe"])
    eps.append(["ft new %s 0 0 3 1" % strategy, "ft req hang", "ft req ok", "ft probe"])
    return eps


def kinds_episode(strategy, plugins):
    """every kind of self-describing request (SSE, long poll, gRPC, range, keep-alive hints) against a backend that
    stalls after its header, hangs before it, or trickles: the timeouts hold for all of them alike"""
    return ["ft new %s 0 0 0 %d" % (strategy, plugins), "ft conc 7 stall+*,hang+*,slow+*", "ft probe"]


def long_episode(strategy):
    """timeouts of several seconds (closer to the documented defaults): a silent backend is given up on after 6 s;
    the requests after it are served at once"""
    return ["ft new %s 0 0 4 0" % strategy, "ft req ok", "ft req hang", "ft req ok", "ft req ok", "ft probe"]


def gen_conc(rng, strategy, toggles):
    ep = ["ft new %s %d %d %d %d" % ((strategy,) + toggles)]
    faults = [rng.choice([f for f in FAULTS if f != "hang"]) for _ in range(rng.randint(1, 3))]
    ep.append("ft conc %d %s" % (rng.choice([4, 8]), ",".join(faults)))
    ep.append("ft probe")
    # the same again: goroutines must not accumulate from one round to the next
    ep.append("ft conc %d %s" % (8, ",".join(faults)))
    ep.append("ft probe")
    return ep


def fields(s):
    return dict(t.split("=", 1) for t in s.split() if "=" in t)


def oracle(ep, outs):
    fails = []
    lines = C.op_lines(ep)
    goroutines = []
    clean_from = None
    k = 0
    for raw in ep:
        if raw.startswith("# all-clean"):
            clean_from = k
        elif raw and not raw.startswith("#"):
            k += 1
    for idx, (line, o) in enumerate(zip(lines, outs)):
        w = line.split()
        if w[1] in ("wait", "health"):
            continue
        if w[1] == "req":
            canon, _, detail = o.partition(" || ")
            d = fields(detail)
            if canon != "ended=1":
                lim = ("10 s", "8 s") if lines[0].split()[5] == "4" else ("5 s", "2 s")
                fails.append("a faulted request was still open after %s although every timeout is <= %s: %s -> %s" % (lim + (line, detail)))
                continue
            if int(d.get("ms", "0")) > (BOUND_MS + 5000 if lines[0].split()[5] == "4" else BOUND_MS):
                fails.append("a faulted request ended only after %s ms (timeouts <= 2 s): %s" % (d.get("ms"), line))
            cls = d.get("class", "")
            w[2] = w[2].split("+")[0]
            if not re.fullmatch("(%s)|(%s)" % (ALLOWED.get(w[2], "200"), GATES), cls):
                fails.append("unexpected client outcome %s for fault %s" % (cls, w[2]))
            if w[2] == "ok" and cls not in ("200", "429", "503"):
                fails.append("clean request answered %s" % cls)
            if w[2] == "ok" and clean_from is not None and idx >= clean_from and cls != "200":
                fails.append("after the faults stopped and the breaker timeout elapsed, sequential clean requests must close the breaker; request #%d got %s" % (idx - clean_from + 1, cls))
        elif w[1] == "conc":
            canon, _, detail = o.partition(" || ")
            n = int(w[2]) * len(w[3].split(","))
            if canon != "ended=%d" % n:
                fails.append("concurrent faulted requests did not all end: %s -> %s" % (line, o))
            d = fields(detail)
            if int(d.get("maxms", "0")) > BOUND_MS + 600:
                fails.append("a concurrent faulted request ended only after %s ms: %s" % (d.get("maxms"), line))
        elif w[1] == "probe":
            canon, _, detail = o.partition(" || ")
            c = fields(canon)
            if c.get("probe") != "200":
                fails.append("after the faults stopped and the unhealthy window / breaker timeout elapsed, a clean request got %s" % c.get("probe"))
            if c.get("gauge") != "0":
                fails.append("in-flight gauge is %s after quiescence" % c.get("gauge"))
            if c.get("acct") != "1":
                fails.append("request accounting inconsistent after the fault sequence: %s" % detail)
            d = fields(detail)
            goroutines.append((int(d.get("goroutines", "0")), int(d.get("base", "0"))))
    if goroutines:
        g, base = goroutines[-1]
        if g > base + 12:
            fails.append("goroutines grew from %d to %d over the fault sequence (leak)" % (base, g))
        if len(goroutines) >= 2 and goroutines[-1][0] > goroutines[0][0] + 6:
            fails.append("goroutines keep growing round after round: %s" % [x[0] for x in goroutines])
    return fails


def project(line):
    return line.split(" || ", 1)[0]


def build(ctx):
    overlay = C.make_overlay(ctx, clock_pkgs=[], harness_pkgs=["cmd/helios"], hmap={"cmd/helios": "helios"})
    return C.go_test_build(ctx, "cmd/helios", overlay, name="helios")


def check(ctx):
    ctx.assumptions += [
        "that a faulted request ends within the configured timeouts is the standard library's transport / server / context deadline machinery; Helios' part - every timeout set to a non-zero value on every construction path, the handler deadline applied - is the regenerated fact timeouts_set; the fault runs observe it on the wall clock",
        "recovery theorem: the state after the faults is arbitrary (the theorem quantifies over every balancer state); what is assumed is that time passes (windows end, the breaker timeout elapses, the bucket refills) and that requests in flight end - which the timeouts above give",
        "mutex deadlock freedom is C12's lockorder_sound with the regenerated lock-order and callback facts; goroutine leaks are observed, not proved",
        "wall-clock bounds carry slack for a loaded machine (2.9 s for 2 s timeouts); each episode waits 1.3 s for the 1 s unhealthy window / breaker timeout",
    ]
    ok = C.prove(ctx, MODULES, THEOREMS)
    binary = build(ctx)
    thorough = ctx.thorough()
    eps = []
    toggles_all = [(0, 0, 0, 0), (1, 1, 1, 1), (1, 0, 0, 0), (0, 0, 2, 0), (0, 1, 0, 1), (1, 0, 2, 1), (0, 0, 1, 0)]
    n_seq = 40 if thorough else 10
    for i in range(n_seq):
        eps.append(gen_episode(ctx.rng, ctx.rng.choice([1, 2, 2, 3]) if not thorough else ctx.rng.choice([2, 3, 3, 4]),
                               STRATS[i % 5], toggles_all[i % len(toggles_all)]))
    for i in range(12 if thorough else 3):
        eps.append(gen_conc(ctx.rng, STRATS[(i + 2) % 5], toggles_all[(i + 1) % len(toggles_all)]))
    for i, st in enumerate(STRATS if thorough else [STRATS[ctx.seed % 5]]):
        eps += targeted(st)
        eps.append(long_episode(st))
        eps.append(kinds_episode(st, i % 2))
    eps = C.load_corpus(ID) + eps
    # episodes are independent and mostly wait: run them in parallel slices, one process each
    k = 8
    slices = [eps[i::k] for i in range(k)]

    def run_slice(sl):
        if not sl:
            return 0
        d = C.Differential(ctx, binary, timeout=1500, project=project, confirm=2)
        d.n = 1000 * (slices.index(sl) + 1)
        return d.check(sl, oracle=oracle, label="faults")
    with ThreadPoolExecutor(max_workers=k) as ex:
        list(ex.map(run_slice, slices))
    nreq = sum(1 for e in eps for l in e if l.startswith("ft req")) + sum(
        int(l.split()[2]) * len(l.split()[3].split(",")) for e in eps for l in e if l.startswith("ft conc"))
    seqs = set(tuple(l.split()[2] for l in e if l.startswith("ft req")) + (e[0],) for e in eps)
    ctx.cov.update({
        "evaluations": nreq,
        "distinct_nontrivial": len(seqs),
        "rule": "fault sequences (length 1..4) over {refuse, hang-headers, reset-after-headers, short-body, garbage, 5xx, slow-body, stall-mid-body, client-abort-upload, client-abort-download} against the real cmd/helios front end on a listener with a raw-TCP backend, timeouts 1-2 s; breaker / limiter / health checks / plugins toggled in 6 combinations; 5 strategies; sequential and 4-8-way concurrent waves repeated twice (goroutine growth); each sequence is followed, 1.3 s later, by a clean probe request, the in-flight gauges and the request accounting. non-trivial = distinct (configuration, fault sequence)",
        "scenarios": len(eps), "traces_validated_against_impl": len(eps),
        "samples": [eps[0], eps[-1]],
    })
    if not ok:
        C.violation(ctx, "proof", {"what": "a proof obligation of C03 no longer checks",
                                   "broken": [o for o in ctx.obligations if not o[1]]},
                    no_input=not any(not v["no_input"] for v in ctx.violations))
