"""C01 — end-to-end proxy transparency (requests, responses, streaming)."""
import re
from .. import common as C
from urllib.parse import quote, unquote
from ..lbgen import STRATS


def enc(s):
    """token encoding for this protocol: no space, ':', ';', '&', '=' left in values"""
    if s == "-":
        return "-"
    return quote(s.encode("utf-8"), safe=",.") or "-"

ID = "C01"
MODULES = ["Helios.Props.C01", "Helios.Props.Facts"]
THEOREMS = ["Helios.Proxy.wire_ok", "Helios.Proxy.replay", "Helios.Proxy.replay_flushes", "Helios.Proxy.via_transparent",
            "Helios.Proxy.request_preserved", "Helios.Proxy.transLb_id", "Helios.Proxy.rec_transparent",
            "Helios.Facts.wrappers_capable", "Helios.Facts.wrappers_known", "Helios.Facts.proxy_passthrough",
            "Helios.Facts.execute_panic_is_failure_and_propagates"]

METHODS = ["GET", "GET", "GET", "POST", "POST", "PUT", "DELETE", "PATCH", "HEAD", "OPTIONS"]
TARGETS = ["/", "/p", "/a/b/c", "/a%2Fb/c%20d", "/p?x=1&y=%26z", "/p?", "/p?a=b=c&&d", "//double//slash", "/a/../b", "/a/./b",
           "/%E2%9C%93/%00x", "/p;param=1", "/index.html?q=a+b", "/" + "s" * 300, "/p?x=" + "q" * 500, "/a%2fb", "/caf%C3%A9",
           "/p?redirect=http://x/y", "/*", "/p/",
           # queries a form parser would reject or re-write: semicolons, a bare percent sign, a broken escape
           "/p?q=go;lang&page=2", "/p?discount=100%&x=1", "/p?a=%zz&b=2", "/p?trace_id=abc&x=%"]
REQ_HDRS = [[], [], [("Accept", "text/plain")], [("X-V-A", "1"), ("X-V-A", "2")], [("X-V-Empty", "")], [("X-V-Long", "v" * 900)],
            [("Accept-Encoding", "gzip")], [("Accept-Encoding", "br, gzip;q=0.5")], [("Accept-Encoding", "identity")],
            [("User-Agent", "verif/1.0")], [("Cookie", "a=1; b=2"), ("Cookie", "c=3")], [("Authorization", "Bearer zzz")],
            [("X-Forwarded-For", "203.0.113.7")], [("X-Forwarded-For", "203.0.113.7, 198.51.100.2")],
            [("X-Request-Id", "client-id-1")], [("X-Request-Id", " ")], [("X-Trace-Id", "t-77")], [("X-Request-Id", "r1"), ("X-Trace-Id", "t1")],
            [("Range", "bytes=0-9")], [("If-None-Match", '"x"')], [("Cache-Control", "no-cache"), ("Pragma", "no-cache")],
            [("X-V-Case", "MiXeD"), ("x-v-lower", "low")], [("Content-Type", "application/json")], [("Referer", "http://e/x?y")],
            [("Via", "1.1 other")], [("Forwarded", "for=1.2.3.4")], [("X-V-Utf", "café")],
            # a form-encoded body is a body like any other: nothing on the way may read it
            [("Content-Type", "application/x-www-form-urlencoded")], [("Content-Type", "application/x-www-form-urlencoded")],
            [("Content-Type", "multipart/form-data; boundary=xyz")]]
BODY_SIZES = [0, 0, 1, 100, 4095, 4096, 4097, 32767, 32768, 32769, 70000, 100000]
STATUSES = [200, 200, 200, 201, 202, 204, 206, 301, 302, 304, 307, 400, 401, 403, 404, 410, 418, 429, 500, 502, 503, 504]
CTS = ["text/plain", "text/html; charset=utf-8", "application/json", "application/octet-stream", "text/event-stream", "image/png"]
RESP_HDRS = [[], [("sh", "Cache-Control", "max-age=60")], [("sh", "Etag", '"v1"')], [("ah", "Set-Cookie", "a=1; Path=/"), ("ah", "Set-Cookie", "b=2")],
             [("sh", "Location", "/elsewhere?x=1")], [("sh", "X-V-R", "1")], [("ah", "X-V-M", "1"), ("ah", "X-V-M", "2")],
             [("sh", "Content-Encoding", "gzip")], [("sh", "Content-Encoding", "br")], [("sh", "Vary", "Accept-Encoding")],
             [("sh", "X-V-Empty", "")], [("sh", "Content-Language", "en"), ("sh", "Last-Modified", "Mon, 01 Jan 2024 00:00:00 GMT")],
             [("sh", "Www-Authenticate", 'Basic realm="x"')], [("sh", "Retry-After", "3")], [("sh", "Server", "scripted/1")],
             [("sh", "Content-Disposition", 'attachment; filename="a b.txt"')], [("sh", "X-V-Long", "r" * 700)]]


def partition(rng, total, maxparts=5):
    if total == 0:
        return []
    k = rng.randint(1, maxparts)
    cuts = sorted(rng.randint(0, total) for _ in range(k - 1))
    parts, prev = [], 0
    for c in cuts + [total]:
        if c - prev > 0:
            parts.append(c - prev)
        prev = c
    return parts


def gen_script(rng, method, stream=False):
    ops = []
    status = rng.choice(STATUSES)
    ct = rng.choice(CTS)
    if rng.random() < 0.85:
        ops.append("sh:Content-Type:%s" % enc(ct))
    for kind, k, v in rng.choice(RESP_HDRS):
        ops.append("%s:%s:%s" % (kind, k, enc(v) if v else "-"))
    total = rng.choice(BODY_SIZES)
    if stream:
        # flushed first part, pause, rest: with and without a declared length, event-stream or not
        first = rng.choice([1, 10, 500])
        rest = rng.choice([1, 10, 3000])
        if rng.random() < 0.4:
            ops.append("sh:Content-Length:%d" % (first + rest))
        if rng.random() < 0.5:
            ops.append("wh:200")
        ops += ["w:%d:%d" % (first, 5), "fl", "sl:160", "w:%d:%d" % (rest, 9)]
        return ops
    if rng.random() < 0.06:
        ops += ["sh:Link:%s" % enc("</s.css>; rel=preload"), "wh:103"]
        if rng.random() < 0.3:
            ops.append("wh:103")
    declared = rng.random() < 0.4
    if declared:
        cl = total if rng.random() < 0.93 else total + rng.choice([1, 7])
        ops.append("sh:Content-Length:%d" % cl)
    if rng.random() < 0.75 or status != 200:
        ops.append("wh:%d" % status)
    if rng.random() < 0.1:
        ops.append("fl")
    seed = rng.randint(0, 250)
    for p in partition(rng, total):
        ops.append("w:%d:%d" % (p, seed))
        seed = (seed + p) % 251
        if rng.random() < 0.15:
            ops.append("fl")
    return ops or ["wh:200"]


def short_body_episodes(rng):
    """a backend that dies in the middle of a body (it declared more than it sends, with and without an early flush),
    with each optional feature of the balancer switched on in turn: the client must see the body break off exactly
    as it does when talking to the backend directly — not a tidy end, not extra bytes"""
    eps = []
    for feats in ("c", "p", "cr", "crpal", "l", "-"):
        ep = ["px new round_robin %s - %s" % (rng.choice(["00", "11"]), feats)]
        for total, extra, status, flush in ((100, 7, 200, False), (5000, 1, 200, True), (40000, 30, 404, False), (0, 12, 503, False)):
            ops = ["sh:Content-Type:text%2Fplain", "sh:Content-Length:%d" % (total + extra), "wh:%d" % status]
            if total:
                ops.append("w:%d:%d" % (total, rng.randint(0, 250)))
            if flush:
                ops.append("fl")
            for mode in ("direct", "via"):
                ep.append("px x %s GET /p - 0 cl %s" % (mode, ";".join(ops)))
        ep.append("px close")
        eps.append(ep)
    return eps


def big_header_episodes(rng):
    """answers whose header block is far larger than the usual few hundred bytes (a dozen long cookies, a long
    security policy, one 40 KB value, 150 KB in all) and requests with the same: every byte is the backend's / the
    client's to send, nothing in between may cap or drop it (the reference is the same exchange sent directly)"""
    eps = []
    for feats in ("-", "crpal", "ls"):
        ep = ["px new round_robin %s - %s" % (rng.choice(["00", "11"]), feats)]
        for kind in ("cookies", "policy", "one40k", "many", "reqbig"):
            ops, h = [], []
            if kind == "cookies":
                ops = ["ah:Set-Cookie:%s" % enc("c%d=%s" % (i, "v" * 700)) for i in range(12)] + ["sh:Content-Security-Policy:%s" % enc("default-src " + "a" * 690)]
            elif kind == "policy":
                ops = ["sh:Content-Security-Policy:%s" % enc("default-src 'self' " + " ".join("https://h%d.example.org" % i for i in range(400)))]
            elif kind == "one40k":
                ops = ["sh:X-Blob:%s" % ("b" * 40000)]
            elif kind == "many":
                ops = ["sh:X-H%03d:%s" % (i, "z" * 480) for i in range(300)]
            else:
                h = [("Cookie", "; ".join("k%d=%s" % (i, "q" * 300) for i in range(40))), ("X-Big", "r" * 20000)]
            ops += ["wh:200", "w:64:7"]
            for mode in ("direct", "via"):
                ep.append("px x %s GET /p %s 0 cl %s" % (mode, hdr_tok(h), ";".join(ops)))
        ep.append("px close")
        eps.append(ep)
    return eps


def abort_episodes(rng):
    """a backend whose connection is reset in the middle of an answer that declared no length (chunked, bytes already
    flushed), or right after its header: the client must see the answer break off, as it does when talking to the
    backend directly — never a tidy end after fewer bytes"""
    eps = []
    for feats in ("-", "c", "crpal", "ls", "g"):
        ep = ["px new round_robin %s - %s" % (rng.choice(["00", "11"]), feats)]
        for ops in (["wh:200", "w:1024:1", "fl", "w:1024:2", "fl", "w:1024:3", "fl", "ab"],
                    ["sh:Content-Type:text%2Fevent-stream", "wh:200", "w:64:5", "fl", "sl:30", "ab"],
                    ["wh:200", "w:70000:9", "ab"],
                    ["wh:404", "w:10:1", "fl", "ab"]):
            for mode in ("direct", "via"):
                ep.append("px x %s GET /p - 0 cl %s" % (mode, ";".join(ops)))
        ep.append("px close")
        eps.append(ep)
    return eps


def abort_oracle(ep, outs):
    fails = []
    lines = C.op_lines(ep)
    i = 1
    while i + 1 < len(lines):
        ld, lv = lines[i], lines[i + 1]
        if not (ld.startswith("px x direct") and lv.startswith("px x via")):
            i += 1
            continue
        od, ov = outs[i], outs[i + 1]
        i += 2
        if "||" not in od or "||" not in ov or not lv.endswith(";ab"):
            continue
        d, v = fields(od.split("||", 1)[1]), fields(ov.split("||", 1)[1])
        if d.get("rderr") != "short":
            continue                    # (the direct exchange did not break: nothing to compare with)
        nd, nv = int(d["body"].split(":")[0]), int(v["body"].split(":")[0])
        if v.get("rderr") != "short" and v.get("status") == d.get("status"):
            fails.append("the backend's connection was reset mid-answer (the direct client saw %d bytes, then a broken stream); through Helios the client "
                         "got a complete %s answer of %d bytes [%s]" % (nd, v.get("status"), nv, lv))
        if nv > nd:
            fails.append("client received %d bytes of an answer of which the backend sent %d [%s]" % (nv, nd, lv))
    return fails


def multi_value_episodes(rng):
    """request headers that arrive on several lines — also the identifier headers, with the features that read them
    switched on: every line reaches the backend as sent"""
    eps = []
    for ids in ("11", "10", "01", "00"):
        ep = ["px new round_robin %s - %s" % (ids, rng.choice(["-", "l", "ls"]))]
        for h in ([("X-Request-Id", "first-1"), ("X-Request-Id", "second-2")],
                  [("X-Trace-Id", "t-a"), ("X-Trace-Id", "t-b"), ("X-Trace-Id", "t-c")],
                  [("X-Request-Id", "r-1"), ("X-Trace-Id", "t-1"), ("X-Request-Id", "r-2")],
                  [("Accept", "text/html"), ("Accept", "application/json"), ("Cookie", "a=1"), ("Cookie", "b=2")],
                  [("X-Custom", "1"), ("X-Custom", ""), ("X-Custom", "3")]):
            for mode in ("direct", "via"):
                ep.append("px x %s GET /p %s 0 cl wh:200;w:7:3" % (mode, hdr_tok(h)))
        ep.append("px close")
        eps.append(ep)
    return eps


def form_episodes(rng):
    """uploads whose body a form parser could consume, and queries it would re-write, with the identifier features
    on (they look at the request) and no identifier supplied"""
    eps = []
    for ids in ("11", "01", "10"):
        ep = ["px new round_robin %s - %s" % (ids, rng.choice(["-", "l", "cr"]))]
        for method, target, ct, reqlen, framing in (
                ("POST", "/submit", "application/x-www-form-urlencoded", 300, "cl"),
                ("PUT", "/submit?x=1", "application/x-www-form-urlencoded", 5000, "chunked"),
                ("PATCH", "/submit", "application/x-www-form-urlencoded; charset=utf-8", 40, "cl"),
                ("POST", "/p?q=go;lang&page=2", "application/json", 20, "cl"),
                ("GET", "/p?discount=100%&x=1", None, 0, "cl"),
                ("POST", "/submit?trace_id=zz", "multipart/form-data; boundary=xyz", 800, "cl")):
            h = [("Content-Type", ct)] if ct else []
            for mode in ("direct", "via"):
                ep.append("px x %s %s %s %s %d %s wh:200;w:5:1" % (mode, method, target, hdr_tok(h), reqlen, framing))
        ep.append("px close")
        eps.append(ep)
    return eps


def hdr_tok(h):
    if not h:
        return "-"
    return "&".join("%s=%s" % (enc(k), enc(v) if v != "" else "-") for k, v in h)


def gen_episode(rng, n, strategy=None, stream_share=0.08):
    ids = rng.choice(["11", "11", "10", "01", "00"])
    base = rng.choice(["-", "-", "-", "/base", "/api/v1", "/base/"])
    # features that must not change what travels (thresholds no episode reaches)
    feats = "".join(f for f in "crpal" if rng.random() < 0.45) or "-"
    ep = ["px new %s %s %s %s" % (strategy or rng.choice(STRATS), ids, base, feats)]
    for _ in range(n):
        method = rng.choice(METHODS)
        target = rng.choice(TARGETS)
        if base.endswith("/") and target.startswith("//"):
            target = "/p"
        h = list(rng.choice(REQ_HDRS))
        if rng.random() < 0.3:
            h += rng.choice(REQ_HDRS)
        # one identifier per feature: several X-Request-Id lines are outside C16's quantifier
        seen_ids, h2 = set(), []
        for k, val in h:
            if k in ("X-Request-Id", "X-Trace-Id"):
                if k in seen_ids:
                    continue
                seen_ids.add(k)
            h2.append((k, val))
        h = h2
        reqlen = rng.choice(BODY_SIZES) if method in ("POST", "PUT", "PATCH") else (rng.choice([0, 0, 0, 10]))
        framing = "chunked" if (reqlen > 0 and rng.random() < 0.4) else "cl"
        script = ";".join(gen_script(rng, method, stream=rng.random() < stream_share))
        for mode in ("direct", "via"):
            ep.append("px x %s %s %s %s %d %s %s" % (mode, method, target, hdr_tok(h), reqlen, framing, script))
    if rng.random() < 0.35:
        # exchanges in flight together: each client must read exactly the body written for it
        ep.append("px conc %d %d" % (rng.choice([4, 8, 12]), rng.choice([70000, 300000, 1 << 20])))
    ep.append("px close")
    return ep


GEN = re.compile(r"^(req|trace)_[0-9a-f]{24}$")


def fields(line):
    out = {}
    for tok in line.split(" "):
        if "=" in tok:
            k, v = tok.split("=", 1)
            out[k] = v
    return out


def hdr_list(tok):
    if tok in ("-", ""):
        return []
    return sorted(tok.split("&"))


def oracle(ep, outs):
    """Transparency: each exchange through Helios against the same exchange made directly."""
    fails = []
    lines = C.op_lines(ep)
    ids = lines[0].split()[3]
    names = {"X-Request-Id": ids[0] == "1", "X-Trace-Id": ids[1] == "1"}
    for l, o in zip(lines, outs):
        if l.startswith("px conc") and o != "conc ok %s" % l.split()[2]:
            fails.append("concurrent exchanges interfere: %s (%s)" % (o, l))
    i = 1
    while i + 1 < len(lines):
        ld, lv = lines[i], lines[i + 1]
        if not (ld.startswith("px x direct") and lv.startswith("px x via")):
            i += 1
            continue
        od, ov = outs[i], outs[i + 1]
        i += 2
        if "||" not in od or "||" not in ov:
            if od != ov:
                fails.append("exchange failed differently: direct=%s via=%s (%s)" % (od[:80], ov[:80], lv))
            continue
        d, v = fields(od.split("||", 1)[1]), fields(ov.split("||", 1)[1])
        w = lv.split()
        sent = {}
        if w[5] != "-":
            for kv in w[5].split("&"):
                k, val = kv.split("=", 1)
                sent.setdefault(k.lower(), []).append(val)
        where = " [%s]" % lv
        # --- request as seen by the backend
        bd, bv = d["breq"].split("|"), v["breq"].split("|")
        if d["breq"] == "none" or v["breq"] == "none":
            if d["breq"] != v["breq"]:
                fails.append("request reached the backend in one exchange only" + where)
            continue
        for idx, what in ((0, "method"), (1, "request-target"), (2, "Host"), (4, "Content-Length"), (5, "Transfer-Encoding"), (6, "request body")):
            if bd[idx] != bv[idx]:
                fails.append("backend saw a different %s: direct=%s via=%s%s" % (what, bd[idx][:120], bv[idx][:120], where))
        hd, hv = hdr_list(bd[3]), hdr_list(bv[3])
        extra = [h for h in hv if h not in hd]
        missing = [h for h in hd if h not in hv]
        for h in extra:
            k, val = h.split("=", 1)
            if k == "X-Forwarded-For":
                continue        # documented forwarding header (value checked below)
            if k in names and names[k]:
                continue        # documented ID header (consistency checked in the canonical part)
            fails.append("backend received a header the client did not send: %s%s" % (h[:100], where))
        for h in missing:
            k, val = h.split("=", 1)
            if k == "X-Forwarded-For":
                continue
            if k in names and names[k]:
                continue
            fails.append("backend did not receive the client's header %s%s" % (h[:100], where))
        # an identifier the client supplied (non-blank) is the client's header: every line of it arrives as sent
        for k, on in names.items():
            mine = [h for h in hd if h.split("=", 1)[0] == k]
            theirs = [h for h in hv if h.split("=", 1)[0] == k]
            first = mine[0].split("=", 1)[1] if mine else "-"
            if on and mine and first != "-" and unquote(first).strip(" \t") != "" and mine != theirs:
                fails.append("the client's %s lines %s reached the backend as %s%s" % (k, mine, theirs, where))
        # --- response as seen by the client
        if d["status"] != v["status"]:
            fails.append("status differs: backend sent %s, client got %s%s" % (d["status"], v["status"], where))
        rd, rv = hdr_list(d["hdr"]), hdr_list(v["hdr"])
        for h in [h for h in rv if h not in rd]:
            k = h.split("=", 1)[0]
            if k in names and names[k]:
                continue
            fails.append("client received a header the backend did not send: %s%s" % (h[:100], where))
        for h in [h for h in rd if h not in rv]:
            fails.append("client did not receive the backend's header %s%s" % (h[:100], where))
        for k, on in names.items():
            if on and not any(h.startswith(k + "=") for h in rv):
                fails.append("response lacks the %s header although the feature is enabled%s" % (k, where))
        if d["framing"] != v["framing"]:
            tag = "[known:empty-unlengthed-as-cl0] " if (d["framing"] == "chunked" and v["framing"] == "cl:0" and d["body"].startswith("0:")) else ""
            fails.append(tag + "response re-framed: backend %s, client %s%s" % (d["framing"], v["framing"], where))
        if d["body"] != v["body"] or d["rderr"] != v["rderr"]:
            fails.append("response body differs: backend %s/%s, client %s/%s%s" % (d["body"], d["rderr"], v["body"], v["rderr"], where))
        if v["extra"] != "0" and d["extra"] == "0":
            fails.append("bytes after the end of the response%s" % where)
        idd = [x[:3] for x in d["interim"].split(",")[1:]]
        idv = [x[:3] for x in v["interim"].split(",")[1:]]
        if idd != idv:
            fails.append("interim responses differ: backend %s, client %s%s" % (idd, idv, where))
        # --- streaming: bytes flushed before a pause must not wait for the end of the response
        m = re.search(r"fl;sl:(\d+)", w[8])
        if m and w[3] != "HEAD":
            pause = int(m.group(1))
            td, tv = int(d["tF"]), int(v["tF"])
            if 0 <= td < pause // 2 and (tv < 0 or tv > td + pause // 2):
                fails.append("flushed bytes were held back: first body byte after %d ms directly, %d ms through Helios (backend paused %d ms after flushing)%s" % (td, tv, pause, where))
    return fails


def project(line):
    return line.split(" || ", 1)[0]


def build(ctx):
    overlay = C.make_overlay(ctx, clock_pkgs=[], harness_pkgs=["cmd/helios"], hmap={"cmd/helios": "helios"})
    return C.go_test_build(ctx, "cmd/helios", overlay, name="helios")


def check(ctx):
    ctx.assumptions += [
        "httputil.ReverseProxy's contract (copy end-to-end headers, status, body; immediate flush for streamed responses; 1xx handling) is a parameter of the model (rpOps) validated by every exchange of the wire differential; TCP, TLS and HTTP/2 are outside the model",
        "the backend's own net/http server is modelled by the same Base writer model as Helios' (validated by the direct exchanges)",
        "timing clause: a pause of 160 ms at the backend; 'not delayed' = first body byte within 80 ms of the direct exchange's",
    ]
    ok = C.prove(ctx, MODULES, THEOREMS)
    binary = build(ctx)
    d = C.Differential(ctx, binary, timeout=1500, project=project)
    n_eps = 60 if ctx.thorough() else 10
    per = 40 if ctx.thorough() else 22
    eps = []
    for i in range(n_eps):
        eps.append(gen_episode(ctx.rng, per, strategy=STRATS[i % 5]))
    eps += short_body_episodes(ctx.rng) if ctx.thorough() else short_body_episodes(ctx.rng)[:4]
    eps += form_episodes(ctx.rng) if ctx.thorough() else form_episodes(ctx.rng)[:2]
    eps += big_header_episodes(ctx.rng) if ctx.thorough() else big_header_episodes(ctx.rng)[:2]
    eps += multi_value_episodes(ctx.rng) if ctx.thorough() else multi_value_episodes(ctx.rng)[:2]
    d.check(C.load_corpus(ID) + eps, oracle=oracle, label="wire")
    ab = abort_episodes(ctx.rng) if ctx.thorough() else abort_episodes(ctx.rng)[:3]
    C.Differential(ctx, binary, timeout=600, confirm=2).check_oracle_only(ab, abort_oracle, "wire-abort")
    ctx.cov["backend_reset_mid_answer_episodes"] = len(ab)
    # response headers the backend sends under the names of the identifier features are response headers like any other
    from . import c16
    C.Differential(ctx, binary, timeout=600).check_oracle_only(c16.own_id_episodes(ctx.rng), c16.own_id_oracle, "wire-own-id")
    nx = sum(len(e) - 2 for e in eps) // 2
    scripts = set(l.split()[8] for e in eps for l in e if l.startswith("px x via"))
    ctx.cov.update({
        "evaluations": nx,
        "distinct_nontrivial": len(scripts),
        "rule": "each exchange is made twice over raw TCP: directly to the scripted backend and through the real cmd/helios front end (buildHandler + createHTTPServer on a listener): 10 methods, 20 request-targets (escapes, empty query, dot segments, long), 27 request header sets (multi-valued, empty, long, supplied IDs, Accept-Encoding variants), request bodies 0..100000 bytes in Content-Length and chunked framing, 22 statuses incl. 204/304/3xx/4xx/5xx and 103 interim, 17 response header sets (multi-valued Set-Cookie, Content-Encoding), response bodies 0..100000 bytes declared / undeclared / mis-declared, flush points, streamed responses with a 160 ms pause; backend base paths; all 5 strategies; ID middleware 00/10/01/11. non-trivial = distinct response scripts",
        "scenarios": nx, "traces_validated_against_impl": 2 * nx,
        "samples": [eps[0][1], eps[0][2]],
    })
    if not ok:
        C.violation(ctx, "proof", {"what": "a proof obligation of C01 no longer checks",
                                   "broken": [o for o in ctx.obligations if not o[1]]},
                    no_input=not any(not v["no_input"] for v in ctx.violations))
