"""C05 — distribution contracts of round_robin, weighted_round_robin, least_connections."""
import itertools
from fractions import Fraction

from .. import common as C
from .. import lbgen, lbshadow
from . import c02

ID = "C05"
MODULES = ["Helios.Props.CodeStrat", "Helios.Props.CodeSame", "Helios.Props.C05", "Helios.Props.C05W"]
THEOREMS = ["Helios.LB.rr_exact", "Helios.LB.lc_min", "Helios.LB.normWeight_pos",
            "Helios.WRR.wrr_exact", "Helios.WRR.wrr_period", "Helios.WRR.wrr_window", "Helios.LB.core_refines",
            "Helios.WRR.wrr_drift", "Helios.LB.core_refines_elig", "Helios.LB.reset_fresh",
            # Tie C: NextBackend of round_robin and least_connections as written are the model's rrPick / lcPick
            "Helios.CodeTie.rrNext_refines", "Helios.CodeTie.lcNext_refines", "Helios.CodeTie.translation_clean_strat",
            # Tie C: the candidate-set comparison of the weighted strategy, translated from the source on every run
            "Helios.CodeTie.sameBackends_refines", "Helios.CodeTie.translation_clean_same"]
SEC = lbgen.SEC


def history(g, rng, depth):
    """membership / health changes before the measured window"""
    for _ in range(depth):
        k = rng.random()
        g.step_time()
        if k < 0.3:
            g.request(outcome="200")
        elif k < 0.5:
            g.eject(dur=rng.choice([SEC, 2 * SEC]))
        elif k < 0.58 and g.names:
            # the candidate set changes but keeps its size: one backend out, one in, nothing in between
            # (a different name, or the same name again — a new backend object either way)
            victim = rng.choice(g.names)
            g.remove(victim)
            if rng.random() < 0.5:
                g.add(w=rng.choice([1, 2, 3, 6]), name=victim)
            else:
                g.add(w=rng.choice([1, 2, 3, 6]))
        elif k < 0.65 and len(g.names) > 1:
            g.remove(rng.choice(g.names))
        elif k < 0.8:
            g.add(w=rng.choice([0, 1, 2, 3, 6]))
        else:
            g.advance(2 * SEC + 1)


def gen_episode(rng, strat=None, weights=None, depth=None, long=False):
    strat = strat or rng.choice(["round_robin", "weighted_round_robin", "weighted_round_robin", "least_connections"])
    if weights is None:
        n = rng.choice([1, 2, 3, 4, 5, 8])
        weights = [rng.choice([0, 1, 1, 2, 3, 5, 6]) for _ in range(n)]
    g = lbgen.Gen(rng, strategy=strat, passive=False, nback=len(weights), weights=list(weights))
    history(g, rng, depth if depth is not None else rng.choice([0, 0, 2, 6]))
    g.advance(6 * SEC)            # every window elapsed: stable eligible set from here on
    if len(g.names) > 1 and rng.random() < 0.4:
        # part of the pool stays ejected for the whole measured run: the contract is over the others
        for name in rng.sample(g.names, rng.randint(1, len(g.names) - 1)):
            g.eject(name=name, dur=3600 * SEC)
    if strat == "least_connections":
        if rng.random() < 0.15:
            # deep queues: the minimum is taken whatever the absolute in-flight numbers are
            for _ in range(rng.choice([100, 101, 130]) * max(1, min(2, len(g.names)))):
                g.begin()
        for _ in range(rng.randint(5, 40)):
            k = rng.random()
            if k < 0.08:
                # an admin switches the strategy away and back while requests are in flight: the
                # in-flight numbers the minimum is taken over are the real ones
                g.ops.append("lb strategy %s" % rng.choice(["round_robin", "ip_hash", "least_connections"]))
                g.ops.append("lb strategy least_connections")
            elif k < 0.6 or not g.infl:
                g.begin()
            else:
                g.end(outcome="200")
    else:
        W = 60
        if len(g.names) > 1 and rng.random() < 0.35:
            # the candidate set changes but not its size, with no pick in between: one backend goes into a window at
            # the very moment another one's window runs out
            a, b = rng.sample(g.names, 2)
            g.eject(name=a, dur=SEC)
            for _ in range(rng.randint(3, 9)):
                g.request(outcome="200")
            g.advance(SEC + 1)
            g.eject(name=b, dur=3600 * SEC)
        for _ in range(min(W, 150) * (3 if long else 2)):
            g.request(outcome="200")
            if rng.random() < 0.02:
                g.eject(dur=SEC)          # a flap in the middle: the run restarts
                g.advance(SEC + 1)
            elif rng.random() < 0.02 and g.names:
                victim = rng.choice(g.names)          # same-size swap in the middle of the run
                g.remove(victim)
                g.add(w=rng.choice([1, 2, 3, 6]), name=victim if rng.random() < 0.5 else None)
    return g.finish()


def heavy_weight_episodes(rng):
    """weights far above the usual handful (a 0.1 % canary, percentages, powers of two): every documented weight is
    honoured exactly, whatever its size — one full period and a bit from a fresh pool"""
    eps = []
    for ws in ([1000, 1], [600, 300, 100], [257, 1], [256, 255, 1], [1024, 3], [1, 999]):
        g = lbgen.Gen(rng, strategy="weighted_round_robin", passive=False, nback=len(ws), weights=list(ws))
        g.advance(6 * SEC)
        for _ in range(sum(ws) + rng.randint(1, 40)):
            g.request(outcome="200")
        eps.append(g.finish())
    # a heavy backend replaced under its own name by a light one (blue/green with one name), no pick in between: the new
    # object starts like any new backend — what the survivors earned against the old one is not held against it
    for ws, hist in (([1, 99], 50), ([2, 1, 60], 40), ([1, 99], 10)):
        g = lbgen.Gen(rng, strategy="weighted_round_robin", passive=False, nback=len(ws), weights=list(ws))
        g.advance(6 * SEC)
        for _ in range(hist):
            g.request(outcome="200")
        heavy = g.names[-1]
        g.remove(heavy)
        g.add(w=1, name=heavy)
        for _ in range(60):
            g.request(outcome="200")
        eps.append(g.finish())
    return eps


def big_pool_episodes(rng):
    """pools of dozens of backends with a long stretch of neighbours ejected (a rack down): the others still get exactly
    one request each per turn of the rotation; least_connections still picks a minimum"""
    eps = []
    for strat, n, lo, hi in (("round_robin", 24, 1, 18), ("round_robin", 40, 5, 36), ("weighted_round_robin", 24, 0, 20), ("least_connections", 33, 2, 30)):
        g = lbgen.Gen(rng, strategy=strat, passive=False, nback=n, weights=[1] * n)
        g.advance(6 * SEC)
        for name in g.names[lo:hi + 1]:
            g.eject(name=name, dur=3600 * SEC)
        for _ in range(4 * (n - (hi - lo + 1)) + 3):
            g.request(outcome="200")
        eps.append(g.finish())
    return eps


def exhaustive_weight_episodes(rng, full):
    eps = []
    rng_w = range(0, 7)
    for n in ([1, 2, 3, 4] if full else [1, 2, 3]):
        for ws in itertools.product(rng_w, repeat=n):
            if not full and rng.random() < 0.8:
                continue
            g = lbgen.Gen(rng, strategy="weighted_round_robin", passive=False, nback=n, weights=list(ws))
            off = rng.randint(0, 5)
            W = sum(max(1, w) for w in ws)
            for _ in range(off + 2 * W):
                g.request(outcome="200")
            eps.append(g.finish())
    return eps


def conc_episodes(rng, thorough):
    eps = []
    for n, workers, k in ((3, 2, 400), (5, 8, 300), (8, 12, 200), (2, 6, 500), (1, 4, 100)):
        if thorough:
            k *= 10
        ep = ["lb new round_robin 0 1 1 0 0 0 0 0 0 0 0 0"]
        for i in range(n):
            ep.append("lb add c%d 1 good" % i)
        # a few sequential picks first, so that the window starts at an arbitrary position
        for t in range(rng.randint(0, n)):
            ep.append("lb begin %d 0 - - 10.0.0.1:1" % (t + 1))
            ep.append("lb end %d 0 200" % (t + 1))
        ep.append("lb rrconc %d %d" % (workers, k))
        ep.append("lb rrconc %d %d" % (max(2, workers // 2), k))
        eps.append(ep)
    return eps


def seek_episodes(rng):
    """the rotation as it stands after billions of requests: the counter is advanced in place to just
    below 2^32 (and other positions a long-running process passes through), then picks go on"""
    eps = []
    for n in (3, 5, 6, 7, 2, 4):
        for pos in (2**32, 2**31, 2**33, 2**48 + 7, 2**63):
            ep = ["lb new round_robin 0 1 1 0 0 0 0 0 0 0 0 0"]
            for i in range(n):
                ep.append("lb add s%d 1 good" % i)
            t = 0
            for _ in range(rng.randint(0, n)):
                t += 1
                ep += ["lb begin %d 0 - - 10.0.0.1:1" % t, "lb end %d 0 200" % t]
            ep.append("lb rrseek %d" % (pos - t - n - rng.randint(1, n)))
            for _ in range(4 * n):
                t += 1
                ep += ["lb begin %d 0 - - 10.0.0.1:1" % t, "lb end %d 0 200" % t]
            eps.append(ep)
    rng.shuffle(eps)
    return eps


def oracle(ep, outs, known=None):
    conc = [(l, o) for l, o in zip(C.op_lines(ep), outs) if l.startswith("lb rrconc")]
    if conc:
        return ["concurrent round-robin pickers: %s -> %s" % (l, o) for l, o in conc if o != "exact"]
    ol = C.op_lines(ep)
    sh = lbshadow.Shadow(ol[0])
    fails = []
    run = []            # served names in the current stable run
    run_set = None
    run_strat = None

    def close_run():
        nonlocal run
        if run and run_strat in ("round_robin", "weighted_round_robin") and run_set:
            ws = {o.name: (o.weight if run_strat == "weighted_round_robin" else 1) for o in run_set_objs}
            W = sum(ws.values())
            Wtot = sum((o.weight if run_strat == "weighted_round_robin" else 1) for o in sh.pool) or W
            # every window of W consecutive picks is exact
            for s in range(0, len(run) - W + 1):
                win = run[s:s + W]
                for nme, w in ws.items():
                    if win.count(nme) != w:
                        fails.append("%s: window of %d picks at offset %d gives %s %d (weight %d of %d)" % (
                            run_strat, W, s, nme, win.count(nme), w, W))
                        return
            # bounded drift for every prefix
            bound = Fraction(2 * Wtot, W)
            for N in range(1, len(run) + 1):
                for nme, w in ws.items():
                    dev = abs(Fraction(run[:N].count(nme)) - Fraction(N * w, W))
                    if dev > bound:
                        fails.append("%s: after %d picks %s deviates by %s from its share (bound %s)" % (run_strat, N, nme, dev, bound))
                        return
        run = []

    run_set_objs = []
    for line, o in zip(ol[1:], outs[1:]):
        if o in ("hang", "bad-op") or o.startswith("resp aborted"):   # a panic in the balancer before any backend was contacted
            fails.append("%s -> %s" % (line, o))
            break
        w = line.split()
        before = None
        if w[1] == "begin":
            now = int(w[3])
            elig = [x for x in sh.pool if not sh.in_window(x, now)]
            key = (sh.strategy, tuple(sorted(x.id for x in elig)))
            if key != run_set:
                close_run()
                run_set, run_strat, run_set_objs = key, sh.strategy, elig
            if sh.strategy == "least_connections" and o.startswith("fwd "):
                name = o[4:]
                chosen = sh.by_name(name)
                if chosen is not None and elig:
                    mn = min(x.inflight for x in elig)
                    if chosen.inflight != mn:
                        fails.append("least_connections: %s chosen with %d in flight while minimum among eligible is %d (%s)" % (name, chosen.inflight, mn, line))
            if sh.strategy == "least_connections" and elig and o == "resp 503":
                fails.append("least_connections: nothing chosen (503) with in-flight counts %s among the eligible backends (%s)" % (
                    sorted(x.inflight for x in elig), line))
        if w[1] in ("add", "remove", "strategy", "rrseek"):
            close_run()          # judged against the pool the run was made over, before it changes
            run_set = None
        info = sh.apply(line, o)
        if w[1] == "begin":
            if info.get("served"):
                run.append(info["served"])
    close_run()
    return fails


def check(ctx):
    ctx.assumptions += [
        "virtual clock via overlay; scripted in-process backends",
        "each round-robin pick is one atomic increment, so a sequence of picks is an arbitrary interleaving of concurrent pickers (the concurrent counting claim is the sequential theorem); 2..12 real concurrent pickers released through a spin barrier search for a schedule that breaks the count (rrconc)",
        "weighted_round_robin: exactness per window and the drift bound are theorems about the all-eligible fresh state; the sharp constant of the history bound is evaluated by the oracle only",
    ]
    ok = C.prove(ctx, MODULES, THEOREMS)
    binary = c02.build(ctx)
    d = C.Differential(ctx, binary)
    nep = 800 if ctx.thorough() else 150
    episodes = C.load_corpus(ID) + exhaustive_weight_episodes(ctx.rng, ctx.thorough()) + \
        [gen_episode(ctx.rng, long=ctx.thorough()) for _ in range(nep)] + conc_episodes(ctx.rng, ctx.thorough()) + \
        seek_episodes(ctx.rng)[:30 if ctx.thorough() else 12] + heavy_weight_episodes(ctx.rng) + big_pool_episodes(ctx.rng)
    bad = d.check(episodes, oracle=oracle, label="dist")
    ctx.cov["heavy_weight_big_pool_and_same_name_replacement_episodes"] = 6 + 3 + 4
    nontriv = set()
    strat_count = {}
    if bad == 0:
        for ep in episodes:
            s = ep[0].split()[2]
            strat_count[s] = strat_count.get(s, 0) + 1
            if sum(1 for l in ep if " begin " in l) >= 8:
                nontriv.add(hash(tuple(ep)))
    ctx.cov.update({
        "evaluations": sum(len(C.op_lines(e)) for e in episodes),
        "distinct_nontrivial": len(nontriv),
        "rule": "episodes: weight vectors 0..6 for n<=%d (%s) from a fresh pool at a random offset for two periods; random pools up to 8 backends after histories of add/remove/eject/recover, then 2-3 periods of requests (flaps in the middle); least_connections with random in-flight vectors. non-trivial = at least 8 dispatches; distinct by op text" % (4 if ctx.thorough() else 3, "all" if ctx.thorough() else "sampled 20%"),
        "episodes": len(episodes), "traces_validated_against_impl": len(episodes),
        "episodes_by_strategy": strat_count,
        "samples": [episodes[-1][:12]],
    })
    if not ok:
        C.violation(ctx, "proof", {"what": "a proof obligation of C05 no longer checks",
                                   "broken": [o for o in ctx.obligations if not o[1]]},
                    no_input=not any(not v["no_input"] for v in ctx.violations))
