"""C06 — client affinity (ip_hash) and minimal remapping (ip_hash_consistent)."""
from .. import common as C
from .. import lbgen
from . import c02

ID = "C06"
MODULES = ["Helios.Props.C06", "Helios.Props.Facts", "Helios.Props.CodeHash", "Helios.Props.CodeAddr"]
THEOREMS = ["Helios.LB.jump_range'", "Helios.LB.jump_monotone'", "Helios.LB.jump_no_overflow",
            "Helios.LB.affinity", "Helios.LB.hash_stateless", "Helios.LB.key_ignores_port",
            "Helios.LB.choice_valid", "Helios.LB.append_minimal",
            "Helios.Facts.jump_mul_eq", "Helios.Facts.extraction_clean",
            "Helios.CodeTie.jumpHash_refines", "Helios.CodeTie.translation_clean_hash",
            # Tie C: NextBackend of both hash strategies, translated from the source on every run (strings as byte strings)
            "Helios.CodeTie.ipNext_refines", "Helios.CodeTie.ipcNext_refines", "Helios.CodeTie.ipNext_same_key",
            "Helios.CodeTie.ipcNext_same_key", "Helios.CodeTie.key_refines", "Helios.CodeTie.translation_clean_addr"]

KEYS = ["10.0.0.%d" % i for i in range(1, 40)] + ["2001:db8::%x" % i for i in range(1, 12)] + [
    "junk", "", " ", "a,b", ",", "10.0.0.1, 10.0.0.2", " x", "x" * 200, "::1", "[::1]", "1.2.3.4:5", "%", "+"]


def client_variants(rng, key, how):
    """Requests that the code attributes to the same client address `key`, with everything else varied."""
    if how == "xff":
        tail = rng.choice(["", ", 10.9.9.9", ",x", ", ,"]) if "," not in key else ""
        return dict(xff=key + tail, xri=rng.choice(lbgen.XRI), remote=rng.choice(lbgen.REMOTE))
    if how == "xri":
        return dict(xff="-", xri=key, remote=rng.choice(lbgen.REMOTE))
    return dict(xff="-", xri="-", remote="%s:%d" % (key, rng.randint(1, 65535)))


def gen_episode(rng, big=False):
    strat = rng.choice(["ip_hash", "ip_hash_consistent", "ip_hash_consistent"])
    n = rng.randint(1, 32 if big else 8)
    g = lbgen.Gen(rng, strategy=strat, passive=False, nback=n, weights=[1] * n, scramble=rng.random() < 0.6)
    groups = []
    for gi in range(rng.randint(3, 25 if big else 12)):
        key = rng.choice(KEYS)
        how = rng.choice(["xff", "xff", "xri", "remote"])
        if how != "xff" and ("," in key or key.strip() != key or key == ""):
            how = "xff"
        if how == "xff" and (key == "" or key.startswith(",")):
            key = "k%d" % gi
        if how == "remote" and (":" in key or "[" in key or "]" in key):
            how = "xri"
        groups.append((gi, key, how))
    phases = rng.randint(1, 3)
    for ph in range(phases):
        g.ops.append("# phase %d" % ph)
        order = [gr for gr in groups for _ in range(rng.randint(1, 3))]
        rng.shuffle(order)
        for gi, key, how in order:
            if rng.random() < 0.08:
                # an admin re-applies the strategy, or switches away and back, with the backend set
                # unchanged: every client keeps its backend
                if rng.random() < 0.5:
                    g.ops.append("lb strategy %s" % strat)
                else:
                    g.ops.append("lb strategy %s" % rng.choice(["round_robin", "least_connections", "ip_hash"]))
                    g.ops.append("lb strategy %s" % strat)
            g.ops.append("# grp %d %d" % (g.tid + 1, gi))
            g.request(outcome="200", **client_variants(rng, key, how))
        if ph + 1 < phases:
            g.add(w=1)        # append a backend: a new phase with a larger pool
    if len(g.names) >= 2 and rng.random() < 0.4:
        # one backend is ejected for a second: a phase with a smaller candidate set, then — once the window has run out,
        # and before anything has looked at that backend again — a phase with the full set: within each of the two
        # every client keeps its backend (phase numbers 100 / 102: the append rule of the oracle does not apply)
        victim = rng.choice(g.names)
        g.eject(name=victim, dur=lbgen.SEC)
        for phase_no, reps in ((100, (1, 2)), (102, (2, 3))):
            if phase_no == 102:
                g.advance(lbgen.SEC + 1)
            g.ops.append("# phase %d" % phase_no)
            order = [gr for gr in groups for _ in range(rng.randint(*reps))]
            rng.shuffle(order)
            for gi, key, how in order:
                g.ops.append("# grp %d %d" % (g.tid + 1, gi))
                g.request(outcome="200", **client_variants(rng, key, how))
    ops = g.finish()
    if rng.random() < 0.3:
        # clients served concurrently: each keeps its backend whatever the others do (last op)
        ops.append("lb affconc %d %d %d" % (g.t, rng.choice([4, 8, 16]), rng.choice([500, 3000])))
    return ops


def oracle(ep, outs):
    fails = []
    grp = {}
    phase = 0
    assign = {}       # (phase, group) -> backend
    pool = []
    oi = 0
    strat = ep[0].split()[2]
    newest = None
    for line in ep:
        if not line:
            continue
        if line.startswith("# grp"):
            _, _, tid, gi = line.split()
            grp[tid] = int(gi)
            continue
        if line.startswith("# phase"):
            phase = int(line.split()[2])
            continue
        if line.startswith("#"):
            continue
        o = outs[oi]
        oi += 1
        w = line.split()
        if w[1] == "affconc" and o != "stable":
            fails.append("affinity under concurrency: %s (%s)" % (o, line))
        if w[1] == "add" and o == "ok":
            pool.append(w[2])
            newest = w[2]
        if w[1] == "begin" and w[2] in grp:
            if not o.startswith("fwd "):
                fails.append("request %s not served: %s" % (w[2], o))
                continue
            b = o[4:]
            if b not in pool:
                fails.append("request %s served by %s which is not an eligible backend" % (w[2], b))
            k = (phase, grp[w[2]])
            if k in assign and assign[k] != b:
                fails.append("affinity: client group %d got %s and %s with an unchanged pool (%s)" % (grp[w[2]], assign[k], b, line))
            assign.setdefault(k, b)
            prev = assign.get((phase - 1, grp[w[2]]))
            if strat == "ip_hash_consistent" and prev is not None and b != prev and b != newest:
                fails.append("remap: client group %d moved from %s to %s although %s is the appended backend" % (grp[w[2]], prev, b, newest))
    return fails


def hash_episode(rng, nkeys):
    ep = ["hash fnv -"]
    for _ in range(nkeys):
        k = rng.choice([rng.getrandbits(32), rng.getrandbits(64), rng.getrandbits(8), 2**64 - 1 - rng.getrandbits(4), 2**33 * rng.getrandbits(20)])
        ep.append("hash jump %d %d" % (k, rng.choice([1, 2, 3, 5, 8, 16, 31, 32, 100, 1000, 2**31 - 1])))
    for k in KEYS + lbgen.XFF:
        ep.append("hash fnv %s" % lbgen.enc(k if k else "-"))
    return ep


def aff_oracle(ep, outs):
    o = outs[0] if outs else ""
    f = dict(t.split("=") for t in o.split()[1:] if "=" in t)
    bad = ["%s=%s" % (k, v) for k, v in f.items() if v != "1"]
    return ["one client identity is served by several backends (or not at all) through the front end: %s (%s)" % (" ".join(bad), ep[0])] if bad or not o.startswith("aff ") else []


def check(ctx):
    ctx.assumptions += [
        "hash/fnv New32a and net.SplitHostPort are modelled (validated against the stdlib on every run: `hash fnv`, address corpus)",
        "HTTP header lookup (r.Header.Get) yields the first value of the canonical header; values are taken as byte strings",
    ]
    ok = C.prove(ctx, MODULES, THEOREMS)
    binary = c02.build(ctx)
    d = C.Differential(ctx, binary)
    nep = 600 if ctx.thorough() else 120
    episodes = C.load_corpus(ID) + [gen_episode(ctx.rng, ctx.thorough()) for _ in range(nep)]
    episodes += [hash_episode(ctx.rng, 200000 if ctx.thorough() else 20000)]
    bad = d.check(episodes, oracle=lambda e, o: oracle(e, o) if e[0].startswith("lb new") else [], label="hash")
    # affinity through the handler cmd/helios builds (request-context middleware with and without identifiers,
    # plugin chain): one client address on many connections must keep its backend
    aff = [["aff %s %d %d %d %d" % (st, nb, ids, pl, 40 if not ctx.thorough() else 200)]
           for st in ("ip_hash", "ip_hash_consistent") for nb, ids, pl in ((3, 1, 0), (5, 0, 0), (4, 1, 1), (2, 0, 1))]

    from . import c03
    C.Differential(ctx, c03.build(ctx), timeout=300).check(aff, oracle=aff_oracle, label="hash-front")
    ctx.cov["front_end_affinity_episodes"] = len(aff)
    # the backends are added in the order the file lists them (jump hash buckets are positions in that order)
    from .. import cfgfid
    from . import c03
    cfgfid.check(ctx, C.Differential(ctx, c03.build(ctx), timeout=300), n=40 if ctx.thorough() else 10)
    moved = 0
    nontriv = set()
    if bad == 0:
        for ep in episodes:
            if sum(1 for l in ep if l.startswith("# phase")) > 1:
                nontriv.add(hash(tuple(ep)))
    ctx.cov.update({
        "evaluations": sum(len(C.op_lines(e)) for e in episodes),
        "distinct_nontrivial": len(nontriv),
        "rule": "episodes: pools of 1..%d backends, 3..%d client groups whose attributed address is fixed while other headers / source port vary, 1-3 phases separated by an append, a third of them ending with 4..16 clients picking concurrently (each must keep its backend); plus one episode of jumpHash(key,n) and FNV-1a evaluations compared value-for-value with the Go functions. non-trivial = episode with an append between phases" % (32 if ctx.thorough() else 8, 25 if ctx.thorough() else 12),
        "episodes": len(episodes), "traces_validated_against_impl": len(episodes),
        "jump_fnv_values_compared": len(episodes[-1]),
        "samples": [episodes[len(C.load_corpus(ID))][:14], episodes[-1][1:4]],
    })
    if not ok:
        C.violation(ctx, "proof", {"what": "a proof obligation of C06 no longer checks",
                                   "broken": [o for o in ctx.obligations if not o[1]]},
                    no_input=not any(not v["no_input"] for v in ctx.violations))
