"""C04 — health state machine: ejection threshold, unhealthy window, recovery (sequential histories)."""
from urllib.parse import unquote

from .. import common as C
from .. import lbgen, lbshadow
from . import c02

ID = "C04"
MODULES = ["Helios.Props.C04", "Helios.Props.C04M", "Helios.Props.CodeLB", "Helios.Props.CodeWire"]
THEOREMS = ["Helios.LB.passive_below_threshold", "Helios.LB.passive_at_threshold", "Helios.LB.finish_no_eject",
            "Helios.LB.probe_fail_ejects", "Helios.LB.probe_ok_never_ejects", "Helios.LB.no_traffic_in_window",
            "Helios.LB.recovers_after_window", "Helios.LB.lazy_expiry", "Helios.LB.eject_mirror",
            "Helios.LB.isHealthyAt_mirror", "Helios.LB.probeEnd_ok_keeps_window",
            "Helios.LB.mi_step", "Helios.LB.mirror_ok_run", "Helios.LB.eject_survives_expiry_check",
            # Tie C: the Go functions of the health state machine, translated, equal the model's steps
            "Helios.CodeTie.markUnhealthy_refines", "Helios.CodeTie.isBackendHealthy_refines",
            "Helios.CodeTie.processResponse_refines", "Helios.CodeTie.handleFailure_is_eject",
            "Helios.CodeTie.isHealthyAt_checkObj", "Helios.CodeTie.probeEnd_probeEndObj",
            "Helios.CodeTie.passive_refines", "Helios.CodeTie.passiveFail_passiveObj", "Helios.CodeTie.translation_clean_lb",
            # the thresholds, windows and intervals the state machine runs with are the configured ones (seconds as ns)
            "Helios.CodeTie.createHealthChecker_refines", "Helios.CodeTie.translation_clean_wire"]
SEC = lbgen.SEC


def gen_episode(rng, long=False):
    thr = rng.choice([1, 2, 3, 4])
    ej = rng.choice([1, 2])
    g = lbgen.Gen(rng, passive=rng.random() < 0.8, thr=thr, eject_s=ej, nback=rng.choice([1, 2, 3]))
    n = rng.randint(8, 60 if long else 28)
    for _ in range(n):
        k = rng.random()
        if k < 0.2:
            g.advance(rng.choice([0, 1, ej * SEC - 1, ej * SEC, ej * SEC + 1, 2 * ej * SEC]))
        if k < 0.35:
            g.request(outcome=rng.choice(["200", "404", "204"]))
        elif k < 0.7:
            g.request(outcome=rng.choice(["500", "503", "unreach", "502", "abort"]))
        elif k < 0.78:
            g.probe(ok=True)
        elif k < 0.86:
            g.probe(ok=False)
        elif k < 0.93 and g.names:
            # a probe in flight while requests fail / the backend is ejected / time passes
            name = rng.choice(g.names)
            g.probe_begin(name)
            for _ in range(rng.randint(0, 4)):
                kk = rng.random()
                if kk < 0.6:
                    g.request(outcome=rng.choice(["500", "503", "unreach", "abort", "200"]))
                elif kk < 0.8:
                    g.eject(name=name, dur=rng.choice([ej * SEC, 1, 10**6]))
                else:
                    g.advance(rng.choice([0, 1, ej * SEC, ej * SEC + 1]))
            g.probe_end(name, ok=rng.random() < 0.75)
        else:
            g.begin()
        if rng.random() < 0.5:
            g.observe()
    # recovery: let every window elapse, then offer traffic the strategy must spread
    g.finish()
    g.advance(2 * ej * SEC + 1)
    g.ops.append("# recovery")
    for _ in range(3 * max(1, len(g.names)) * 7):
        g.request(outcome="200", xff="-", xri="-", remote="10.0.%d.%d:1" % (rng.randint(0, 255), rng.randint(0, 255)))
    g.observe()
    if rng.random() < 0.25:
        # last op: the lazy expiry check racing a fresh ejection (real goroutines, spin gate)
        g.ops.append("lb ejectrace %d %d" % (g.t, 3000 if long else 400))
    return g.ops


def churn_episode(rng):
    """a long-lived balancer: a thousand short-lived backends come and go (autoscaling), then a
    permanent one fails — the listing and the metrics must still show it ejected"""
    ops = ["lb new %s 1 2 2 0 0 0 0 0 0 0 0 0" % rng.choice(["round_robin", "least_connections", "weighted_round_robin"]),
           "lb add keep 1 good"]
    for i in range(1005):
        ops.append("lb add tmp%d 1 good" % i)
        ops.append("lb remove tmp%d" % i)
    t = 10**9
    ops += ["lb eject keep %d %d" % (t, 5 * 10**9), "lb list", "lb metrics",
            "lb begin 1 %d - - 10.0.0.1:1" % (t + 1), "lb list", "lb metrics"]
    return ops


def failing_churn_episode(rng):
    """a long-lived balancer with passive checks: thousands of short-lived backends each fail once and go away (a bad
    deploy rolled back pod by pod); a backend added afterwards that fails `threshold` times in a row is ejected like the first"""
    ops = ["lb new round_robin 1 2 30 0 0 0 0 0 0 0 0 0", "lb add keep 1 good"]
    t, tid = 10**9, 0
    for i in range(4200):
        ops.append("lb add pod%d 1 good" % i)
        # two requests: one of them lands on the pod (round robin over keep + pod) and fails
        for _ in range(2):
            tid += 1
            ops += ["lb begin %d %d - - 10.0.0.1:1" % (tid, t), "lb end %d %d %s" % (tid, t + 1, "500" if _ else "500")]
            t += 10
        ops.append("lb remove pod%d" % i)
    ops += ["lb remove keep", "lb add victim 1 good", "lb add good 1 good"]
    for _ in range(8):
        tid += 1
        ops += ["lb begin %d %d - - 10.0.0.1:1" % (tid, t), "lb end %d %d 500" % (tid, t + 1)]
        t += 10
    ops += ["lb list"]          # (no metrics read-back here: the episode is beyond the documented 1000-name metrics cap)
    for _ in range(4):
        tid += 1
        ops += ["lb begin %d %d - - 10.0.0.1:1" % (tid, t), "lb end %d %d 200" % (tid, t + 1)]
        t += 10
    return ops


def long_window_episode(rng):
    """an ejection window of hours (unhealthy_timeout: 3600 / 86400 are legal): minutes and hours into it the
    listing and the metrics still report the backend as ejected, and no request is sent to it"""
    strat = rng.choice(["round_robin", "least_connections", "weighted_round_robin", "ip_hash"])
    ops = ["lb new %s 1 2 2 0 0 0 0 0 0 0 0 0" % strat, "lb add a 1 good", "lb add b 1 good"]
    t = 10**9
    dur = rng.choice([3600, 86400, 7200]) * 10**9
    ops += ["lb eject a %d %d" % (t, dur), "lb list", "lb metrics"]
    rid = 0
    for at in (5, 9 * 60, 11 * 60, 59 * 60, dur // 10**9 - 1):
        if at * 10**9 >= dur:
            continue
        rid += 1
        ops += ["lb begin %d %d - - 10.0.0.%d:1" % (rid, t + at * 10**9, rid), "lb end %d %d 200" % (rid, t + at * 10**9 + 1000), "lb list", "lb metrics"]
    rid += 1
    ops += ["lb begin %d %d - - 10.0.0.9:1" % (rid, t + dur + 10**9), "lb end %d %d 200" % (rid, t + dur + 10**9 + 1000), "lb list", "lb metrics"]
    return ops


def front_eject_episodes():
    """passive ejection as the real front end applies it (cmd/helios handler, sockets): three failed
    exchanges of any kind in a row — also ones the handler deadline ends before the backend read
    timeout would — and the backend is out: the next request is not sent to it"""
    eps = []
    for hc, faults in ((2, ("s500", "refuse", "hang", "garbage", "i503")), (3, ("hang", "s500"))):
        for f in faults:
            eps.append(["ft new round_robin 0 0 %d 0" % hc] + ["ft req " + f] * 3 + ["ft req ok", "ft close"])
    return eps


PROBE_TIMEOUT_EPISODE = ["ft new round_robin 0 0 1 0", "ft req ok", "ft health 1600", "ft wait 2400", "ft req ok",
                         "ft health 0", "ft wait 3500", "ft req ok", "ft close"]


def probe_timeout_oracle(ep, outs):
    """active probes that get no answer within health_checks.active.timeout (1 s; the backend answers /health after
    1.6 s) are failed probes: the only backend is ejected — the next request is refused without reaching it —, and it comes
    back once its probes are answered in time again"""
    lines = C.op_lines(ep)
    if lines != PROBE_TIMEOUT_EPISODE:
        return []
    reqs = []
    for l, o in zip(lines, outs):
        if l.startswith("ft req"):
            d = dict(t.split("=", 1) for t in o.split(" || ", 1)[-1].split() if "=" in t)
            reqs.append((d.get("class"), int(d.get("hits", "-1")), int(d.get("at", "0")) - int(d.get("ms", "0"))))
    if len(reqs) != 3 or reqs[0][0] != "200":
        return []
    # the probe sent at the 1 s tick times out at 2 s and ejects the backend until 3 s: the second request must fall
    # well inside that second (a loaded machine may deliver it late: then the episode says nothing)
    if not (2150 <= reqs[1][2] - reqs[0][2] <= 2850):
        return []
    fails = []
    if reqs[1][0] != "503" or reqs[1][1] != reqs[0][1]:
        fails.append("the backend's health probes get no answer within the probe timeout (1 s) and it is still offered traffic: the request was answered %s and %s it" % (
            reqs[1][0], "reached" if reqs[1][1] != reqs[0][1] else "did not reach"))
    if reqs[2][0] != "200":
        fails.append("3.5 s after its probes were answered in time again the backend is still not used: %s" % reqs[2][0])
    return fails


def front_eject_oracle(ep, outs):
    lines = C.op_lines(ep)
    hits = []
    for l, o in zip(lines, outs):
        if l.startswith("ft req"):
            d = dict(t.split("=", 1) for t in o.split(" || ", 1)[-1].split() if "=" in t)
            hits.append((l, d.get("class"), int(d.get("hits", "-1")), int(d.get("at", "0")), int(d.get("ms", "0"))))
    if len(hits) < 4 or len(set(h[0] for h in hits[:3])) != 1 or not hits[3][0].endswith(" ok"):
        return []
    window = 2000 if lines[0].split()[5] == "3" else 1000
    (l3, c3, h3, at3, _), (l4, c4, h4, at4, ms4) = hits[2], hits[3]
    if at4 - ms4 - at3 > window - 300:
        return []           # a loaded machine: the unhealthy window may have run out in between
    if h4 != h3 or c4 != "503":
        return ["after 3 failed exchanges in a row (%s, threshold 3) the only backend is still offered traffic: the next request was answered %s and %s it" % (
            hits[0][0].split()[2], c4, "reached" if h4 != h3 else "did not reach")]
    return []


def oracle(ep, outs):
    ol = [l for l in ep if l]
    sh = lbshadow.Shadow(C.op_lines(ep)[0])
    fails = []
    oi = 0
    recovery = False
    served_in_recovery = set()
    flags = {}
    for line in ol:
        if line.startswith("#"):
            recovery = recovery or line.startswith("# recovery")
            continue
        o = outs[oi]
        oi += 1
        if oi == 1:
            continue
        if o in ("hang", "bad-op") or o.startswith("resp aborted"):   # a panic in the balancer before any backend was contacted
            fails.append("%s -> %s" % (line, o))
            break
        w = line.split()
        if w[1] == "ejectrace":
            if o not in ("consistent", "n/a"):
                fails.append("%s (%s)" % (o, line))
            continue
        before = {x.name: (x.healthy, x.until) for x in sh.pool}
        info = sh.apply(line, o)
        if w[1] == "begin":
            if info.get("served_in_window"):
                fails.append("%s served inside its unhealthy window (%s)" % (info["served"], line))
            if info.get("status") == 503 and not sh.cb and not sh.rl:
                outside = [n for n in info["pool"] if n not in info["window"]]
                if outside:
                    fails.append("503 while %s is outside its unhealthy window: an ejection outlasts the configured %d s (%s)" % (
                        outside, sh.eject_ns // 10**9, line))
            if recovery:
                if info.get("served"):
                    served_in_recovery.add(info["served"])
                elif info.get("status") == 503 and sh.pool:
                    fails.append("503 after every unhealthy window has elapsed (%s)" % line)
        if w[1] in ("list", "metrics"):
            now = sh_now[0]
            if w[1] == "list":
                for ent in [e for e in o[5:].split(",") if e]:
                    f = ent.split(":")
                    x = sh.by_name(unquote(f[0]))
                    flags[unquote(f[0])] = f[1] == "true"
                    if x is not None and sh.in_window(x, now) and f[1] == "true":
                        fails.append("admin listing reports %s healthy inside its unhealthy window" % f[0])
                    if x is not None and x.healthy and f[1] != "true":
                        fails.append("admin listing reports %s unhealthy although it was never ejected / has recovered" % f[0])
            else:
                p = o.split()
                if len(p) > 5:
                    for ent in p[5].split(","):
                        f = ent.split(":")
                        x = sh.by_name(unquote(f[0]))
                        if x is not None and sh.in_window(x, now) and f[5] == "true":
                            fails.append("metrics report %s healthy inside its unhealthy window" % f[0])
        if w[1] in ("begin", "end", "eject", "probe", "probe-begin", "probe-end"):
            sh_now[0] = int(w[3])
    if recovery and not fails and sh.strategy in ("round_robin", "weighted_round_robin"):
        missing = [x.name for x in sh.pool if x.name not in served_in_recovery]
        if missing:
            fails.append("%s: backends %s never received traffic again after their window elapsed" % (sh.strategy, missing))
    return fails


sh_now = [0]


def check(ctx):
    ctx.assumptions += [
        "histories under the virtual clock; active probes are real checkBackendHealth calls against a scripted health endpoint, either synchronous or held in flight while requests fail, the backend is ejected and time passes (probe-begin / probe-end)",
        "the schedule of an expiry check racing a fresh ejection inside one critical section is not enumerated here (repaired by fix commit 60c1b50; lockset theorem + race detector in C12)",
    ]
    ok = C.prove(ctx, MODULES, THEOREMS)
    binary = c02.build(ctx)
    d = C.Differential(ctx, binary)
    nep = 1500 if ctx.thorough() else 300

    def orc(ep, outs):
        sh_now[0] = 0
        return oracle(ep, outs)
    episodes = C.load_corpus(ID) + [gen_episode(ctx.rng, ctx.thorough()) for _ in range(nep)] + [churn_episode(ctx.rng)] + [long_window_episode(ctx.rng) for _ in range(4)] + [failing_churn_episode(ctx.rng)]
    bad = d.check(episodes, oracle=orc, label="health")
    from . import c03
    dfe = C.Differential(ctx, c03.build(ctx), timeout=600, project=c03.project, confirm=2)
    fe = front_eject_episodes()
    dfe.check(fe, oracle=front_eject_oracle, label="health-front")
    ctx.cov["front_end_ejection_episodes"] = len(fe)
    dfe.check_oracle_only([PROBE_TIMEOUT_EPISODE], probe_timeout_oracle, "health-probe-timeout")
    ctx.cov["probe_timeout_episode"] = "active probes answered after 1.6 s with a probe timeout of 1 s: ejected, then back once probes are answered in time"
    ctx.cov["long_window_and_failing_churn_episodes"] = 5
    # the windows, thresholds and intervals the state machine runs with are the file's (LoadConfig hands them on as written)
    from .. import cfgfid
    cfgfid.check(ctx, C.Differential(ctx, c03.build(ctx), timeout=300), n=40 if ctx.thorough() else 10)
    ev = {}
    nontriv = set()
    if bad == 0:
        for ep, outs in zip(episodes, d.last[0]):
            sh = lbshadow.Shadow(C.op_lines(ep)[0])
            for line, o in zip(C.op_lines(ep)[1:], outs[1:]):
                sh.apply(line, o)
            kinds = set(e[0] for e in sh.events)
            for k in kinds:
                ev[k] = ev.get(k, 0) + 1
            if "passive-eject" in kinds and "recover" in kinds:
                nontriv.add(hash(tuple(ep)))
    ctx.cov.update({
        "evaluations": sum(len(C.op_lines(e)) for e in episodes),
        "distinct_nontrivial": len(nontriv),
        "rule": "histories over {good response, failed response (5xx/unreachable/abort), probe ok, probe fail, time < window, time > window} for thresholds 1..4, all five strategies, passive on/off, followed by a recovery phase after every window elapsed; listing and metrics read after most steps. non-trivial = a passive ejection followed by a recovery",
        "episodes": len(episodes), "traces_validated_against_impl": len(episodes), "episodes_with_event": ev,
        "samples": [episodes[-1][:16]],
    })
    if not ok:
        C.violation(ctx, "proof", {"what": "a proof obligation of C04 no longer checks",
                                   "broken": [o for o in ctx.obligations if not o[1]]},
                    no_input=not any(not v["no_input"] for v in ctx.violations))
