"""C18 — configuration loading: rejects exactly the invalid, accepts all documented forms."""
import os
import re
from urllib.parse import unquote

from .. import common as C
from . import c17

ID = "C18"
MODULES = ["Helios.Props.CodeCfg", "Helios.Props.CodeWire", "Helios.Props.CodeHdr", "Helios.Props.C18", "Helios.Props.C17", "Helios.Props.Facts"]
THEOREMS = ["Helios.Cfg.validate_iff_documented", "Helios.Cfg.validate_first", "Helios.Cfg.accepted_breaker_live",
            "Helios.Cfg.accepted_values_fit",
            # Tie C: Config.Validate and its eleven section validators, translated from the source on every run
            "Helios.CodeTie.Validate_refines", "Helios.CodeTie.Validate_iff_documented",
            "Helios.CodeTie.ruleOf_nonzero_on_code", "Helios.CodeTie.translation_clean_cfg",
            # ... and the set-up functions construct every component with the accepted numbers
            "Helios.CodeTie.setupCircuitBreaker_refines", "Helios.CodeTie.setupRateLimiter_refines", "Helios.CodeTie.setupWebSocketPool_refines",
            "Helios.CodeTie.createHealthChecker_refines", "Helios.CodeTie.cbEff_accepted", "Helios.CodeTie.rlEff_accepted", "Helios.CodeTie.wsEff_accepted",
            "Helios.CodeTie.translation_clean_wire",
            "Helios.Http.startup_fail_closed",
            "Helios.Facts.strategies_eq", "Helios.Facts.log_enums_eq",
            # Tie C: the header-name check start-up applies to the identifier features (repair 23ca3a9), translated on every run
            "Helios.CodeTie.validHeaderFieldName_refines", "Helios.CodeTie.translation_clean_hdr"]

# section variants: (yaml text, compact fields); index 0 is always a valid variant
SERVER = [("server:\n  port: 8080\n", "port=8080"), ("server:\n  port: 1\n", "port=1"), ("server:\n  port: 65535\n  tls:\n    enabled: true\n    certFile: c.pem\n    keyFile: k.pem\n", "port=65535;tls=1;cert=c.pem;key=k.pem"),
          ("server:\n  port: 0\n", "port=0"), ("server:\n  port: 65536\n", "port=65536"), ("server:\n  port: -1\n", "port=-1"),
          ("server:\n  port: 80\n  tls:\n    enabled: true\n    keyFile: k.pem\n", "port=80;tls=1;key=k.pem"),
          ("server:\n  port: 80\n  tls:\n    enabled: true\n    certFile: c.pem\n", "port=80;tls=1;cert=c.pem")]
TIMEOUTS = [("", ""), ("    read: 15\n    write: 15\n    idle: 60\n    handler: 30\n    shutdown: 0\n", "tr=15;tw=15;ti=60;th=30;ts=0"),
            ("    read: -1\n", "tr=-1"), ("    write: -5\n", "tw=-5"), ("    backend_dial: -1\n    backend_read: -2\n", "td=-1;tbr=-2"),
            ("    backend_idle: -1\n", "tbi=-1"), ("    shutdown: -1\n    handler: -1\n", "ts=-1;th=-1"), ("    idle: -3\n", "ti=-3"),
            # the largest number of seconds a time.Duration holds, and one more
            ("    read: 9223372036\n    backend_idle: 9223372036\n", "tr=9223372036;tbi=9223372036"),
            ("    handler: 9223372037\n", "th=9223372037"), ("    backend_read: 99999999999\n    write: 9223372037\n", "tbr=99999999999;tw=9223372037"),
            ("    shutdown: 9223372037\n    idle: -1\n", "ts=9223372037;ti=-1"),
            # seconds whose conversion to nanoseconds wraps past 2^64 back to a small positive duration
            ("    handler: 18446744074\n", "th=18446744074"), ("    backend_read: 36893488148\n", "tbr=36893488148")]
BACKENDS = [("backends:\n  - name: s1\n    address: http://localhost:8081\n    weight: 5\n  - name: s2\n    address: http://localhost:8082\n", "b=s1|http://localhost:8081|5,s2|http://localhost:8082|0"),
            ("backends:\n  - name: only\n    address: http://127.0.0.1:9\n    weight: 0\n", "b=only|http://127.0.0.1:9|0"),
            ("backends: []\n", "b="), ("", "b="),
            ("backends:\n  - address: http://localhost:8081\n", "b=|http://localhost:8081|0"),
            ("backends:\n  - name: s1\n", "b=s1||0"),
            ("backends:\n  - name: s1\n    address: http://x\n    weight: -1\n", "b=s1|http://x|-1"),
            ("backends:\n  - name: dup\n    address: http://x\n  - name: dup\n    address: http://y\n", "b=dup|http://x|0,dup|http://y|0")]
LB = [("load_balancer:\n  strategy: round_robin\n", "strat=round_robin"), ("", ""), ("load_balancer:\n  strategy: ip_hash_consistent\n  websocket_pool:\n    enabled: true\n    max_idle: 10\n    max_active: 100\n    idle_timeout_seconds: 300\n", "strat=ip_hash_consistent;ws=1;wsi=10;wsa=100;wst=300"),
      ("load_balancer:\n  strategy: weighted_round_robin\n  websocket_pool:\n    enabled: true\n", "strat=weighted_round_robin;ws=1"),
      ("load_balancer:\n  strategy: random\n", "strat=random"), ("load_balancer:\n  strategy: Round_Robin\n", "strat=Round_Robin"),
      ("load_balancer:\n  websocket_pool:\n    enabled: true\n    max_idle: -1\n", "ws=1;wsi=-1"),
      ("load_balancer:\n  websocket_pool:\n    enabled: true\n    max_idle: 5\n    max_active: 4\n", "ws=1;wsi=5;wsa=4"),
      ("load_balancer:\n  websocket_pool:\n    enabled: true\n    max_active: -2\n", "ws=1;wsa=-2"),
      ("load_balancer:\n  websocket_pool:\n    enabled: true\n    idle_timeout_seconds: -1\n", "ws=1;wst=-1"),
      ("load_balancer:\n  websocket_pool:\n    enabled: false\n    max_idle: -1\n", "wsi=-1"),
      ("load_balancer:\n  websocket_pool:\n    enabled: true\n    idle_timeout_seconds: 9223372037\n", "ws=1;wst=9223372037"),
      ("load_balancer:\n  websocket_pool:\n    enabled: false\n    idle_timeout_seconds: 9223372037\n", "wst=9223372037")]
HEALTH = [("", ""), ("health_checks:\n  active:\n    enabled: true\n    interval: 10\n    timeout: 5\n    path: /health\n  passive:\n    enabled: true\n    unhealthy_threshold: 3\n    unhealthy_timeout: 30\n", "act=1;ai=10;at=5;ap=/health;pas=1;pt=3;pto=30"),
          ("health_checks:\n  active:\n    enabled: true\n    interval: 0\n    timeout: 5\n    path: /h\n", "act=1;ai=0;at=5;ap=/h"),
          ("health_checks:\n  active:\n    enabled: true\n    interval: 5\n    timeout: 5\n    path: /h\n", "act=1;ai=5;at=5;ap=/h"),
          ("health_checks:\n  active:\n    enabled: true\n    interval: 5\n    timeout: 0\n    path: /h\n", "act=1;ai=5;at=0;ap=/h"),
          ("health_checks:\n  active:\n    enabled: true\n    interval: 5\n    timeout: 1\n", "act=1;ai=5;at=1"),
          ("health_checks:\n  passive:\n    enabled: true\n    unhealthy_threshold: 0\n    unhealthy_timeout: 30\n", "pas=1;pt=0;pto=30"),
          ("health_checks:\n  passive:\n    enabled: true\n    unhealthy_threshold: 2\n", "pas=1;pt=2"),
          # valid active section together with an invalid passive one (and the reverse): each
          # sub-section must be validated whatever the other one says
          ("health_checks:\n  active:\n    enabled: true\n    interval: 10\n    timeout: 5\n    path: /health\n  passive:\n    enabled: true\n    unhealthy_threshold: 0\n    unhealthy_timeout: 30\n", "act=1;ai=10;at=5;ap=/health;pas=1;pt=0;pto=30"),
          ("health_checks:\n  active:\n    enabled: true\n    interval: 10\n    timeout: 5\n    path: /health\n  passive:\n    enabled: true\n    unhealthy_threshold: 3\n    unhealthy_timeout: 0\n", "act=1;ai=10;at=5;ap=/health;pas=1;pt=3;pto=0"),
          ("health_checks:\n  active:\n    enabled: true\n    interval: 10\n    timeout: 5\n    path: /health\n  passive:\n    enabled: true\n    unhealthy_threshold: -1\n    unhealthy_timeout: 30\n", "act=1;ai=10;at=5;ap=/health;pas=1;pt=-1;pto=30"),
          ("health_checks:\n  active:\n    enabled: true\n    interval: 0\n    timeout: 5\n    path: /health\n  passive:\n    enabled: true\n    unhealthy_threshold: 3\n    unhealthy_timeout: 30\n", "act=1;ai=0;at=5;ap=/health;pas=1;pt=3;pto=30"),
          ("health_checks:\n  passive:\n    enabled: true\n    unhealthy_threshold: 2\n    unhealthy_timeout: 9223372037\n", "pas=1;pt=2;pto=9223372037"),
          ("health_checks:\n  passive:\n    enabled: true\n    unhealthy_threshold: 2\n    unhealthy_timeout: 9223372036\n", "pas=1;pt=2;pto=9223372036"),
          ("health_checks:\n  passive:\n    enabled: true\n    unhealthy_threshold: 2\n    unhealthy_timeout: 18446744074\n", "pas=1;pt=2;pto=18446744074"),
          ("health_checks:\n  active:\n    enabled: true\n    interval: 9223372038\n    timeout: 9223372037\n    path: /h\n", "act=1;ai=9223372038;at=9223372037;ap=/h"),
          ("health_checks:\n  active:\n    enabled: false\n    interval: 0\n  passive:\n    enabled: true\n    unhealthy_threshold: 0\n    unhealthy_timeout: 30\n", "act=0;ai=0;pas=1;pt=0;pto=30")]
RL = [("", ""), ("rate_limit:\n  enabled: true\n  max_tokens: 100\n  refill_rate_seconds: 1\n", "rl=1;rlm=100;rlr=1"),
      ("rate_limit:\n  enabled: true\n  max_tokens: 0\n  refill_rate_seconds: 1\n", "rl=1;rlm=0;rlr=1"),
      ("rate_limit:\n  enabled: true\n  max_tokens: 5\n", "rl=1;rlm=5"), ("rate_limit:\n  enabled: false\n  max_tokens: -5\n", "rlm=-5"),
      ("rate_limit:\n  enabled: true\n  max_tokens: 5\n  refill_rate_seconds: 9223372037\n", "rl=1;rlm=5;rlr=9223372037"),
      ("rate_limit:\n  enabled: true\n  max_tokens: 5\n  refill_rate_seconds: 18446744074\n", "rl=1;rlm=5;rlr=18446744074")]
CB = [("", ""), ("circuit_breaker:\n  enabled: true\n  max_requests: 5\n  interval_seconds: 60\n  timeout_seconds: 60\n  failure_threshold: 5\n  success_threshold: 2\n", "cb=1;cbm=5;cbi=60;cbt=60;cbf=5;cbs=2"),
      ("circuit_breaker:\n  enabled: true\n  interval_seconds: 60\n  timeout_seconds: 60\n  failure_threshold: 5\n  success_threshold: 2\n", "cb=1;cbi=60;cbt=60;cbf=5;cbs=2"),
      ("circuit_breaker:\n  enabled: true\n  failure_threshold: 50\n", "cb=1;cbf=50"),
      ("circuit_breaker:\n  enabled: true\n  max_requests: 1\n  interval_seconds: 60\n  timeout_seconds: 60\n  failure_threshold: 5\n  success_threshold: 2\n", "cb=1;cbm=1;cbi=60;cbt=60;cbf=5;cbs=2"),
      ("circuit_breaker:\n  enabled: true\n  max_requests: -1\n  interval_seconds: 60\n  timeout_seconds: 60\n  failure_threshold: 5\n  success_threshold: 2\n", "cb=1;cbm=-1;cbi=60;cbt=60;cbf=5;cbs=2"),
      ("circuit_breaker:\n  enabled: true\n  interval_seconds: 0\n  timeout_seconds: 60\n  failure_threshold: 5\n  success_threshold: 2\n", "cb=1;cbi=0;cbt=60;cbf=5;cbs=2"),
      ("circuit_breaker:\n  enabled: true\n  interval_seconds: 60\n  timeout_seconds: 0\n  failure_threshold: 5\n  success_threshold: 2\n", "cb=1;cbi=60;cbt=0;cbf=5;cbs=2"),
      ("circuit_breaker:\n  enabled: true\n  interval_seconds: 60\n  timeout_seconds: 60\n  failure_threshold: 0\n  success_threshold: 2\n", "cb=1;cbi=60;cbt=60;cbf=0;cbs=2"),
      # counts beyond uint32 / seconds beyond time.Duration: accepted they would wrap in the wiring
      ("circuit_breaker:\n  enabled: true\n  max_requests: 4294967297\n  interval_seconds: 60\n  timeout_seconds: 60\n  failure_threshold: 5\n  success_threshold: 5\n", "cb=1;cbm=4294967297;cbi=60;cbt=60;cbf=5;cbs=5"),
      ("circuit_breaker:\n  enabled: true\n  max_requests: 4294967295\n  interval_seconds: 9223372036\n  timeout_seconds: 60\n  failure_threshold: 4294967295\n  success_threshold: 2\n", "cb=1;cbm=4294967295;cbi=9223372036;cbt=60;cbf=4294967295;cbs=2"),
      ("circuit_breaker:\n  enabled: true\n  interval_seconds: 9223372037\n  timeout_seconds: 60\n  failure_threshold: 3\n  success_threshold: 1\n", "cb=1;cbi=9223372037;cbt=60;cbf=3;cbs=1"),
      ("circuit_breaker:\n  enabled: true\n  interval_seconds: 18446744074\n  timeout_seconds: 27670116111\n  failure_threshold: 3\n  success_threshold: 1\n", "cb=1;cbi=18446744074;cbt=27670116111;cbf=3;cbs=1"),
      ("circuit_breaker:\n  enabled: true\n  interval_seconds: 60\n  timeout_seconds: 9223372037\n  failure_threshold: 4294967296\n  success_threshold: 1\n", "cb=1;cbi=60;cbt=9223372037;cbf=4294967296;cbs=1"),
      ("circuit_breaker:\n  enabled: true\n  interval_seconds: 60\n  timeout_seconds: 60\n  failure_threshold: 3\n  success_threshold: 4294967296\n", "cb=1;cbi=60;cbt=60;cbf=3;cbs=4294967296"),
      ("circuit_breaker:\n  enabled: false\n  max_requests: 4294967297\n", "cbm=4294967297")]
METRICS = [("", ""), ("metrics:\n  enabled: true\n  port: 9090\n  path: /metrics\n", "met=1;mp=9090;mpa=/metrics"),
           ("metrics:\n  enabled: true\n  port: 9090\n", "met=1;mp=9090"), ("metrics:\n  enabled: true\n  port: 70000\n  path: /m\n", "met=1;mp=70000;mpa=/m"),
           ("metrics:\n  enabled: false\n  port: -1\n", "mp=-1"),
           # the path becomes a ServeMux pattern next to the metrics server's own /health
           ("metrics:\n  enabled: true\n  port: 9090\n  path: /health\n", "met=1;mp=9090;mpa=/health"),
           ("metrics:\n  enabled: true\n  port: 9090\n  path: metrics\n", "met=1;mp=9090;mpa=metrics"),
           ("metrics:\n  enabled: true\n  port: 9090\n  path: /healthz\n", "met=1;mp=9090;mpa=/healthz"),
           ("metrics:\n  enabled: false\n  path: /health\n", "mpa=/health")]
ADMIN = [("", ""), ("admin_api:\n  enabled: true\n  port: 9091\n  auth_token: change-me\n", "adm=1;admp=9091"),
         ("admin_api:\n  enabled: true\n  port: 0\n", "adm=1;admp=0"), ("admin_api:\n  enabled: true\n", "adm=1")]
LOGGING = [("", ""), ("logging:\n  level: info\n  format: text\n", "ll=info;lf=text"), ("logging:\n  level: debug\n  format: json\n", "ll=debug;lf=json"),
           ("logging:\n  format: console\n", "lf=console"), ("logging:\n  level: verbose\n", "ll=verbose"), ("logging:\n  format: xml\n", "lf=xml"),
           ("logging:\n  level: INFO\n", "ll=INFO"), ("logging:\n  level: trace\n", "ll=trace")]
SECTIONS = [BACKENDS, LB, HEALTH, RL, CB, METRICS, ADMIN, LOGGING]


def yaml_plugin(spec):
    """render one `name@k=T:v@…` plugin spec (see C17) as YAML"""
    f = spec.split("@")
    out = "    - name: %s\n" % f[0]
    if len(f) > 1:
        out += "      config:\n"
    for kv in f[1:]:
        k, tv = kv.split("=", 1)
        t, v = tv.split(":", 1)
        v = unquote(v)
        if t in ("i", "f"):
            out += "        %s: %s\n" % (k, v)
        elif t == "s":
            out += '        %s: "%s"\n' % (k, v)
        elif t == "l":
            items = [e for e in v.split("|") if e]
            out += "        %s: [%s]\n" % (k, ", ".join('"%s"' % e for e in items))
        elif t == "x":
            out += '        %s: ["text/", 7]\n' % k
        elif t == "m":
            out += "        %s:\n" % k
            for e in v.split("|"):
                a, b = e.split(":", 1)
                out += '          %s: "%s"\n' % (a, b)
        elif t == "b":
            out += "        %s:\n          X-A: 1\n" % k
        elif t == "B":
            out += "        %s: true\n" % k
    return out


def gen_case(ctx, i, rng):
    pick = lambda sec: sec[0] if rng.random() < 0.72 else rng.choice(sec)
    sv = pick(SERVER)
    tv = pick(TIMEOUTS)
    parts = [pick(s) for s in SECTIONS]
    server_yaml = sv[0]
    if tv[0]:
        server_yaml += "  timeouts:\n" + tv[0]
    yaml = server_yaml + "".join(p[0] for p in parts)
    compact = [sv[1], tv[1]] + [p[1] for p in parts]
    if rng.random() < 0.35:
        k = rng.randint(1, 3)
        specs = []
        for _ in range(k):
            if rng.random() < 0.8:
                n = rng.choice(list(c17.VALID))
                specs.append(n + rng.choice(c17.VALID[n]))
            else:
                n = rng.choice([x for x in c17.INVALID if x])
                specs.append(n + rng.choice(c17.INVALID[n]))
        yaml += "plugins:\n  enabled: true\n  chain:\n" + "".join(yaml_plugin(s) for s in specs)
        compact.append("pl=" + "+".join(specs))
    path = ctx.path("cfg_%d.yaml" % i)
    with open(path, "w") as f:
        f.write(yaml)
    return ["cfg %s %s" % (path, ";".join(c for c in compact if c))]


def documented_files(ctx):
    eps = []
    for fn in ("helios.yaml", "helios.docker.yaml"):
        eps.append(["cfgfile %s" % os.path.join(C.REPO, fn)])
    readme = open(os.path.join(C.REPO, "README.md"), encoding="utf-8").read()
    for i, m in enumerate(re.findall(r"```yaml\n(.*?)```", readme, re.S)):
        if "backends:" in m and "server:" in m:       # complete configurations only (fragments document one section)
            p = ctx.path("readme_%d.yaml" % i)
            open(p, "w").write(m)
            eps.append(["cfgfile %s" % p])
    return eps


MAXS = (2**63 - 1) // 10**9
STRATEGIES = {"round_robin", "least_connections", "weighted_round_robin", "ip_hash", "ip_hash_consistent"}


def undocumented(compact):
    """The documented constraints (README "Configuration", docs/, the comments of the sample files),
    written here a second time and independently of the Lean model: the first one the compact
    field assignment breaks, or None. Used to turn an accept/reject disagreement into a failing input."""
    f = {}
    for kv in compact.split(";"):
        if "=" in kv:
            k, v = kv.split("=", 1)
            f[k] = v
    g = lambda k: f.get(k, "")

    def i(k):
        try:
            return int(g(k))
        except ValueError:
            return 0
    on = lambda k: g(k) == "1"
    bes = [e.split("|") for e in g("b").split(",") if e.count("|") == 2]
    if not bes:
        return "at least one backend"
    for n, a, w in bes:
        if n == "":
            return "backend name"
        if a == "":
            return "backend address"
        if (int(w) if w.lstrip("-").isdigit() else 0) < 0:
            return "backend weight >= 0"
    if not 1 <= i("port") <= 65535:
        return "server port in 1..65535"
    if on("tls") and (g("cert") == "" or g("key") == ""):
        return "tls needs cert and key"
    T = ["tr", "tw", "ti", "th", "ts", "td", "tbr", "tbi"]
    if any(i(k) < 0 for k in T):
        return "timeouts >= 0"
    if g("strat") not in STRATEGIES | {""}:
        return "known strategy"
    if on("ws"):
        if i("wsi") < 0 or i("wsa") < 0 or i("wst") < 0 or (i("wsa") > 0 and i("wsi") > i("wsa")):
            return "websocket pool relations"
    if on("act") and not (i("ai") > 0 and 0 < i("at") < i("ai") and g("ap") != ""):
        return "active health check: interval > timeout > 0, path"
    if on("pas") and not (i("pt") > 0 and i("pto") > 0):
        return "passive health check positives"
    if on("rl") and not (i("rlm") > 0 and i("rlr") > 0):
        return "rate limit positives"
    if on("cb"):
        if not (i("cbf") > 0 and i("cbs") > 0 and i("cbt") > 0 and i("cbi") > 0 and i("cbm") >= 0):
            return "circuit breaker positives"
        if i("cbm") > 0 and i("cbs") > i("cbm"):
            return "breaker success threshold <= max requests"
    if on("met"):
        if not 1 <= i("mp") <= 65535 or not g("mpa").startswith("/") or g("mpa") == "/health":
            return "metrics port / path"
    if on("adm") and not 1 <= i("admp") <= 65535:
        return "admin port"
    if g("ll") not in {"", "debug", "info", "warn", "error", "fatal"} or g("lf") not in {"", "json", "console", "text"}:
        return "log level / format"
    secs = T + (["wst"] if on("ws") else []) + (["ai", "at"] if on("act") else []) + (["pto"] if on("pas") else []) \
        + (["rlr"] if on("rl") else []) + (["cbi", "cbt"] if on("cb") else [])
    if any(i(k) > MAXS for k in secs):
        return "seconds fit a time.Duration"
    if on("cb") and any(i(k) > 2**32 - 1 for k in ("cbm", "cbf", "cbs")):
        return "breaker counts fit uint32"
    return None


def oracle(ep, outs):
    o = outs[0] if outs else ""
    fails = []
    parts = ep[0].split(" ", 2)
    if parts[0] == "cfg" and len(parts) == 3 and (o.startswith("load=ok") or o.startswith("load=err")):
        why = undocumented(parts[2])
        if o.startswith("load=ok") and why is not None:
            fails.append("a configuration that breaks a documented constraint (%s) is accepted: %s" % (why, parts[2]))
        if o.startswith("load=err") and why is None:
            fails.append("a configuration meeting every documented constraint is rejected (%s): %s" % (o, parts[2]))
    if "PANIC" in o:
        fails.append("startup panicked: %s" % o)
    if ep[0].startswith("cfgfile") and o != "load=ok start=ok":
        fails.append("a configuration shipped with / documented by the repository is not accepted: %s -> %s" % (ep[0], o))
    if "load=err:?" in o:
        fails.append("configuration rejected with an error that names no documented constraint: %s" % o)
    return fails


def wireall_episode(rng):
    small = lambda lo: rng.choice([lo, 1, 2, 3, 5, 30, 300])
    big = lambda lo: rng.choice([lo, 1, 7, 3600, 86400, MAXS, MAXS + 1, 18446744074])
    pick = lambda lo: big(lo) if rng.random() < 0.15 else small(lo)
    at = pick(1)
    ai = at + rng.choice([1, 1, 5, 0]) if rng.random() < 0.9 else pick(1)
    vals = [ai, at, pick(1), pick(1), pick(1), pick(1), pick(0), pick(0), pick(0), pick(0), pick(0)]
    return ["lb wireall " + " ".join(str(v) for v in vals)]


def wireall_oracle(ep, outs):
    """independent of the model: an accepted configuration runs every feature with exactly the
    configured numbers (documented defaults where 0 means "default"); seconds become nanoseconds"""
    v = [int(x) for x in ep[0].split()[2:]]
    ai, at, pt, pto, rlm, rlr, wsi, wsa, wst, tbr, tbi = v
    o = outs[0] if outs else ""
    documented = ai >= 1 and at >= 1 and at < ai and pt >= 1 and pto >= 1 and rlm >= 1 and rlr >= 1 and min(wsi, wsa, wst, tbr, tbi) >= 0 \
        and not (wsa > 0 and wsi > wsa) and max(ai, at, pto, rlr, wst, tbr, tbi) <= MAXS
    if o == "rejected":
        return [] if not documented else ["a configuration meeting every documented constraint is rejected: %s" % ep[0]]
    if not o.startswith("eff "):
        return ["unexpected answer %r to %s" % (o, ep[0])]
    if not documented:
        return ["a configuration that breaks a documented constraint is accepted and run: %s" % ep[0]]
    e = dict(t.split("=") for t in o.split()[1:])
    S = 10**9
    want = {"ai": ai * S, "at": at * S, "pt": pt, "pto": pto * S, "rlm": rlm, "rlr": rlr * S, "wsi": wsi or 10, "wsa": wsa or 100,
            "wst": (wst or 300) * S, "tbr": (tbr or 30) * S, "tbi": (tbi or 90) * S}
    names = {"ai": "active interval", "at": "active timeout", "pt": "passive threshold", "pto": "passive unhealthy timeout", "rlm": "rate limit max_tokens",
             "rlr": "rate limit refill", "wsi": "pool max_idle", "wsa": "pool max_active", "wst": "pool idle timeout", "tbr": "backend read timeout", "tbi": "backend idle timeout"}
    return ["accepted configuration runs with %s = %s instead of %d (%s)" % (names[k], e.get(k), w, ep[0]) for k, w in want.items() if str(w) != e.get(k)]


# header names for the identifier features: everything RFC 7230 allows in a field name is legal; anything else cannot be
# carried in an HTTP message at all (net/http refuses to send it: every proxied request would answer 502)
HDR_LEGAL = ["X-Request-ID", "X.Req.Id", "a", "X_1", "t!#$%&'*+^`|~9", "x-b3.traceid", "  X-Padded  ", ""]
HDR_ILLEGAL = ["X Request ID", "X:Y", "Ünï-Id", "a\tb", "(x)", "a/b", "x@y", "X-${NAME}", "\"q\"", "x,y", "[id]", "a=b", "a\u00a0b"]


def serve_episodes(ctx, names_only=False):
    eps = []
    i = 0
    for name in HDR_LEGAL + HDR_ILLEGAL:
        for feat in ("request_id", "trace"):
            for on in (True, False):
                path = ctx.path("serve_%d.yaml" % i)
                i += 1
                yq = '"' + name.replace("\\", "\\\\").replace('"', '\\"') + '"' if "\\" not in name else '"' + name + '"'
                with open(path, "w", encoding="utf-8") as f:
                    f.write("server:\n  port: 8080\nbackends:\n  - name: b0\n    address: \"@BACKEND@\"\n"
                            "load_balancer:\n  strategy: round_robin\nlogging:\n  %s:\n    enabled: %s\n    header: %s\n"
                            % (feat, "true" if on else "false", yq))
                legal = name in HDR_LEGAL
                eps.append(["cfgserve %s %s:%s:%s" % (path, feat, "on" if on else "off", "legal" if legal else "illegal")])
    if names_only:
        return eps
    # the ancillary servers: every metrics path validation accepts must be served, next to the server's own /health
    for mp in ["/metrics", "/", "/m", "/stats/", "/metrics/x", "/healthz", "/health/"]:
        for admin in (False, True):
            path = ctx.path("serve_%d.yaml" % i)
            i += 1
            with open(path, "w", encoding="utf-8") as f:
                f.write("server:\n  port: 8080\nbackends:\n  - name: b0\n    address: \"@BACKEND@\"\n"
                        "load_balancer:\n  strategy: round_robin\nmetrics:\n  enabled: true\n  port: @MPORT@\n%s"
                        % ("  path: \"%s\"\n" % mp if mp else ""))
                if admin:
                    f.write("admin_api:\n  enabled: true\n  port: @APORT@\n  auth_token: \"t\"\n")
            eps.append(["cfgserve %s side:%s:legal" % (path, "admin" if admin else "plain")])
    return eps


def serve_oracle(ep, outs):
    """An accepted configuration either starts a working proxy or fails with a clear error."""
    o = outs[0] if outs else ""
    w = ep[0].split()
    if w[0] != "cfgserve" or len(w) != 3:
        return []
    feat, on, legal = w[2].split(":")
    if "PANIC" in o:
        return ["start-up panicked: %s" % o]
    if o.startswith("load=err"):
        return ["a configuration that meets every documented constraint is rejected: %s (%s)" % (o, w[2])]
    if o.startswith("load=ok start=err:"):
        msg = o[len("load=ok start=err:"):]
        if legal == "legal" or on == "off":
            return ["a configuration with a usable %s header does not start: %s" % (feat, o)]
        return [] if len(msg) > 10 and "header" in msg.lower() else ["start-up fails without a clear error: %r" % msg]
    if o.startswith("load=ok start=ok"):
        for part in o.split():
            k, _, v = part.partition("=")
            if k in ("metrics", "mhealth", "admin") and v not in ("200", "unreachable"):
                return ["accepted configuration starts, but its %s endpoint answers %s: %s" % (k, v, o)]
        if "serve=200" not in o:
            return ["accepted configuration (%s) starts a proxy that does not serve: %s" % (w[2], o)]
        if on == "on" and ("no-request-id" in o or "no-trace-id" in o):
            return ["identifier feature enabled (%s) but the response carries no identifier: %s" % (w[2], o)]
        return []
    return ["unexpected answer %r" % o]


def check(ctx):
    ctx.assumptions += [
        "gopkg.in/yaml.v3 decoding is trusted; the model validates the decoded structure (fields given to the model alongside the YAML text)",
        "Documented is written from README / docs / sample comments by hand",
        "startup covers LoadConfig, NewLoadBalancer, buildHandler and createHTTPServer in-process; binding listeners and TLS file checks are not exercised",
    ]
    ok = C.prove(ctx, MODULES, THEOREMS)
    overlay = C.make_overlay(ctx, clock_pkgs=[], harness_pkgs=["cmd/helios"], hmap={"cmd/helios": "helios"})
    binary = C.go_test_build(ctx, "cmd/helios", overlay, name="helios")
    d = C.Differential(ctx, binary, timeout=900)
    n = 6000 if ctx.thorough() else 700
    docs = documented_files(ctx)
    episodes = docs + [gen_case(ctx, i, ctx.rng) for i in range(n)]
    bad = d.check(episodes, oracle=oracle, label="config")
    # every number of the configuration, through validation and NewLoadBalancer, read back from the
    # objects the balancer runs with
    from . import c02
    dw = C.Differential(ctx, c02.build(ctx))
    wired = [wireall_episode(ctx.rng) for _ in range(1500 if ctx.thorough() else 200)]
    dw.check(wired, oracle=wireall_oracle, label="wiring")
    ctx.cov["configurations_read_back_from_the_running_balancer"] = len(wired)
    srv_eps = [["srvwire %d %d %d" % tuple(ctx.rng.choice([0, 1, 15, 60, 3600, MAXS, MAXS + 1, -1]) if ctx.rng.random() < 0.5 else ctx.rng.choice([0, 5, 15, 30])
                for _ in range(3))] for _ in range(60)]

    def srv_oracle(ep, outs):
        r, w, i = (int(x) for x in ep[0].split()[1:])
        o = outs[0] if outs else ""
        ok_cfg = min(r, w, i) >= 0 and max(r, w, i) <= MAXS
        if o == "rejected":
            return [] if not ok_cfg else ["documented server timeouts rejected: %s" % ep[0]]
        want = "eff r=%d w=%d i=%d" % ((r or 15) * 10**9, (w or 15) * 10**9, (i or 60) * 10**9)
        return [] if o == want else ["front server runs with %s, configured %s" % (o, want)]
    d.check(srv_eps, oracle=srv_oracle, label="server-wiring")
    # accepted and started means serving: one request through the started handler, per identifier-header spelling
    se = serve_episodes(ctx)
    d.check_oracle_only(se, serve_oracle, "serve")
    ctx.cov["load_start_and_serve_episodes"] = len(se)
    ctx.cov["load_start_and_serve_rule"] = ("cfgserve: the file goes through LoadConfig, NewLoadBalancer, buildHandler, createHTTPServer, setupMetricsServer and "
                                            "setupAdminAPIServer as in main(), then one GET through the started handler (and the metrics / admin endpoints): "
                                            "%d identifier-header spellings (legal tokens and names that cannot be sent) x feature x on/off, %d metrics paths x admin on/off" % (len(HDR_LEGAL) + len(HDR_ILLEGAL), 7))
    from . import c10
    d.check([["startup debug"], ["startup info"], ["startup -"], ["startup warn"], ["startup error"]], oracle=c10.startup_oracle, label="startup")
    # what LoadConfig returns is what the file says (values, order, entries, files of any length)
    from .. import cfgfid
    cfgfid.check(ctx, d)
    # plugin options are judged on their own YAML types, whatever was built before in the same process
    from . import c14
    C.Differential(ctx, c14.build(ctx), timeout=300).check(c17.twin_builds(), oracle=c17.oracle, label="plugin-options")
    # string values survive loading byte for byte (secrets and addresses with $, %, #, quotes, unicode)
    vals = []
    for i, (tok, addr, hdr, key) in enumerate([("Adm1n$2024", "http://localhost:8081", "X-Req", "$2y$10$abcdefgh"), ("$uperS3cret", "http://h:1/p?x=$y", "X-${NAME}", "k$1"),
                                               ("p%41ss#x", "http://[::1]:9/a%20b", "x-my-req", "pl ain"), ("tök'en\"", "http://u:p@host:8/", "X-Req-Id", "${HOME}")]):
        path = ctx.path("val_%d.yaml" % i)
        q = lambda s: "'" + s.replace("'", "''") + "'"
        open(path, "w", encoding="utf-8").write(
            "server:\n  port: 8080\nbackends:\n  - name: b0\n    address: %s\nadmin_api:\n  enabled: true\n  port: 9091\n  auth_token: %s\n"
            "logging:\n  request_id:\n    enabled: true\n    header: %s\nplugins:\n  enabled: true\n  chain:\n    - name: custom-auth\n      config:\n        apiKey: %s\n"
            % (q(addr), q(tok), q(hdr), q(key)))
        hx = lambda s: s.encode("utf-8").hex()
        vals.append(["cfgval %s tok=%s;addr=%s;hdr=%s;key=%s" % (path, hx(tok), hx(addr), hx(hdr), hx(key))])

    def val_oracle(ep, outs):
        want = " ".join(ep[0].split(" ", 2)[2].split(";"))
        o = outs[0] if outs else ""
        return [] if o == want else ["configuration values are not loaded as written: file has %s, loaded %s" % (want, o)]
    d.check(vals, oracle=val_oracle, label="values")
    verdicts = {}
    nontriv = set()
    if bad == 0:
        for ep, outs in zip(episodes, d.last[0]):
            verdicts[outs[0]] = verdicts.get(outs[0], 0) + 1
            if outs[0] != "load=ok start=ok":
                nontriv.add(outs[0] + ep[0].split(" ", 2)[-1])
    ctx.cov.update({
        "evaluations": len(episodes),
        "distinct_nontrivial": len(nontriv),
        "rule": "configurations assembled from per-section variants (server 8, timeouts 12, backends 8, load_balancer 13, health 16, rate_limit 6, breaker 15 (incl. values at and just beyond the time.Duration / uint32 ranges), metrics 5, admin 4, logging 8; each section valid with probability 0.72 so that first-error order matters) plus plugin chains with valid/invalid YAML-typed options; loaded by the real LoadConfig and started in-process; plus the shipped helios.yaml, helios.docker.yaml and every complete README configuration. non-trivial = rejected or failed to start; distinct by verdict and field assignment",
        "documented_files": [e[0].split()[1] for e in docs],
        "episodes": len(episodes), "traces_validated_against_impl": len(episodes), "verdicts": verdicts,
        "samples": [episodes[len(docs)][0].split(" ", 2)[-1]],
    })
    if not ok:
        C.violation(ctx, "proof", {"what": "a proof obligation of C18 no longer checks",
                                   "broken": [o for o in ctx.obligations if not o[1]]},
                    no_input=not any(not v["no_input"] for v in ctx.violations))
