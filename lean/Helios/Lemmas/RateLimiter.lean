import Helios.Model.RateLimiter
/-
Per-client theory of the token bucket: potential function, availability, projection.
Helper lemmas only; the property theorems are in Helios/Props/C09.lean.
-/
namespace Helios.RL

/-- per-client events: a request of this client, or a cleanup pass -/
inductive Ev where
  | req (t : Nat)
  | clean (t : Nat)
  deriving Repr, DecidableEq

def Ev.time : Ev → Nat
  | .req t => t
  | .clean t => t

def step1 (c : Cfg) (ob : Option Bucket) : Ev → Option Bucket × Option Bool
  | .req t => let r := allow1 c ob t; (r.1, some r.2)
  | .clean t => (cleanup1 c ob t, none)

def run1 (c : Cfg) (ob : Option Bucket) : List Ev → Option Bucket × List (Option Bool)
  | [] => (ob, [])
  | e :: es =>
      let r := step1 c ob e
      let rs := run1 c r.1 es
      (rs.1, r.2 :: rs.2)

/-- events are time-ordered and lie in `[lo, hi]` -/
def Timed (lo hi : Nat) : List Ev → Prop
  | [] => True
  | e :: es => lo ≤ e.time ∧ e.time ≤ hi ∧ Timed e.time hi es

def countAdm : List (Option Bool) → Nat
  | [] => 0
  | some true :: os => countAdm os + 1
  | _ :: os => countAdm os

/-- outputs of the requests only -/
def reqOuts : List (Option Bool) → List Bool
  | [] => []
  | some b :: os => b :: reqOuts os
  | none :: os => reqOuts os

def Inv (c : Cfg) (ob : Option Bucket) (now : Nat) : Prop :=
  match ob with
  | none => True
  | some b => b.tokens ≤ c.max ∧ b.last ≤ now

/-- potential: time-equivalent of the tokens the client can still draw -/
def phi (c : Cfg) (ob : Option Bucket) (now : Nat) : Nat :=
  match ob with
  | none => c.max * c.refill
  | some b => min (b.tokens * c.refill + (now - b.last)) (c.max * c.refill + c.refill - 1)

theorem phi_le (c : Cfg) (ob : Option Bucket) (now : Nat) (hR : 0 < c.refill) :
    phi c ob now ≤ c.max * c.refill + c.refill - 1 := by
  unfold phi
  cases ob with
  | none => simp only []; omega
  | some b => simp only []; exact Nat.min_le_right _ _

theorem inv_mono (c : Cfg) (ob : Option Bucket) (t t' : Nat) (h : Inv c ob t) (ht : t ≤ t') :
    Inv c ob t' := by
  cases ob with
  | none => trivial
  | some b => exact ⟨h.1, Nat.le_trans h.2 ht⟩

/-- what `refillTokens` guarantees: cap kept, clock not ahead, time-equivalent not increased,
    remainder below one period -/
theorem refill_props (c : Cfg) (hR : 0 < c.refill) (b : Bucket) (t : Nat)
    (htok : b.tokens ≤ c.max) (hlast : b.last ≤ t) :
    (refill c b t).tokens ≤ c.max ∧ (refill c b t).last ≤ t ∧
    (refill c b t).tokens * c.refill + (t - (refill c b t).last) ≤ b.tokens * c.refill + (t - b.last) ∧
    t - (refill c b t).last < c.refill := by
  have key : ∀ q, q * c.refill ≤ t - b.last →
      min (b.tokens + q) c.max * c.refill + (t - t) ≤ b.tokens * c.refill + (t - b.last) := by
    intro q hq
    have hmin1 : min (b.tokens + q) c.max * c.refill ≤ (b.tokens + q) * c.refill :=
      Nat.mul_le_mul_right _ (Nat.min_le_left _ _)
    rw [Nat.add_mul] at hmin1
    omega
  simp only [refill]
  by_cases h0 : 0 < (t - b.last) / c.refill
  · simp only [h0, if_true]
    exact ⟨Nat.min_le_right _ _, Nat.le_refl _, key _ (Nat.div_mul_le_self _ _), by omega⟩
  · simp only [h0, if_false]
    have hz : (t - b.last) / c.refill = 0 := Nat.eq_zero_of_not_pos h0
    have hlt : t - b.last < c.refill := Nat.lt_of_div_eq_zero hR hz
    exact ⟨htok, hlast, Nat.le_refl _, hlt⟩

/-- the spend step on an already refilled bucket -/
def spendCore (b' : Bucket) : Bucket × Bool :=
  if 0 < b'.tokens then ({ b' with tokens := b'.tokens - 1 }, true) else (b', false)

theorem spend_eq (c : Cfg) (b : Bucket) (t : Nat) : spend c b t = spendCore (refill c b t) := rfl

theorem spendCore_phi (c : Cfg) (b' : Bucket) (t x : Nat)
    (p1 : b'.tokens ≤ c.max) (p2 : b'.last ≤ t)
    (p3 : b'.tokens * c.refill + (t - b'.last) ≤ x) (p4 : t - b'.last < c.refill) :
    phi c (some (spendCore b').1) t + (if (spendCore b').2 then c.refill else 0)
      ≤ min x (c.max * c.refill + c.refill - 1)
    ∧ Inv c (some (spendCore b').1) t := by
  have hcap : b'.tokens * c.refill ≤ c.max * c.refill := Nat.mul_le_mul_right _ p1
  simp only [spendCore, phi, Inv]
  by_cases hm0 : 0 < b'.tokens
  · simp only [hm0, if_true]
    have hsub : (b'.tokens - 1) * c.refill + c.refill = b'.tokens * c.refill := by
      have : b'.tokens = (b'.tokens - 1) + 1 := by omega
      conv => rhs; rw [this, Nat.add_mul, Nat.one_mul]
    refine ⟨?_, by omega, p2⟩
    rw [Nat.min_def, Nat.min_def]
    split <;> split <;> omega
  · simp only [hm0, if_false]
    refine ⟨?_, p1, p2⟩
    simp only [Bool.false_eq_true, if_false, Nat.add_zero]
    rw [Nat.min_def, Nat.min_def]
    split <;> split <;> omega

/-- the locked section on a bucket: potential drops by `refill` per admission, grows at
    most by elapsed time; invariant kept -/
theorem spend_phi (c : Cfg) (hR : 0 < c.refill) (b : Bucket) (now t : Nat)
    (hinv : b.tokens ≤ c.max ∧ b.last ≤ now) (ht : now ≤ t) :
    phi c (some (spend c b t).1) t + (if (spend c b t).2 then c.refill else 0)
      ≤ phi c (some b) now + (t - now)
    ∧ Inv c (some (spend c b t).1) t := by
  obtain ⟨htok, hlast⟩ := hinv
  obtain ⟨p1, p2, p3, p4⟩ := refill_props c hR b t htok (by omega)
  rw [spend_eq]
  obtain ⟨h1, h2⟩ := spendCore_phi c (refill c b t) t _ p1 p2 p3 p4
  refine ⟨Nat.le_trans h1 ?_, h2⟩
  simp only [phi]
  rw [Nat.min_def, Nat.min_def]
  split <;> split <;> omega

/-- 1 for an admitted request, 0 otherwise -/
def admNat : Option Bool → Nat
  | some true => 1
  | _ => 0

theorem step1_phi (c : Cfg) (hR : 0 < c.refill) (ob : Option Bucket) (now : Nat) (e : Ev)
    (hinv : Inv c ob now) (ht : now ≤ e.time) :
    phi c (step1 c ob e).1 e.time + admNat (step1 c ob e).2 * c.refill ≤ phi c ob now + (e.time - now)
    ∧ Inv c (step1 c ob e).1 e.time := by
  cases e with
  | req t =>
    simp only [Ev.time] at ht
    have hstep : step1 c ob (.req t) = (some (spend c (bucketOf c ob t) t).1, some (spend c (bucketOf c ob t) t).2) := rfl
    rw [hstep]
    simp only [Ev.time]
    have hbk : (bucketOf c ob t).tokens ≤ c.max ∧ (bucketOf c ob t).last ≤ t
        ∧ phi c (some (bucketOf c ob t)) t ≤ phi c ob now + (t - now) := by
      cases ob with
      | none =>
        refine ⟨Nat.le_refl _, Nat.le_refl _, ?_⟩
        simp only [bucketOf, phi, fresh]
        have := Nat.min_le_left (c.max * c.refill + (t - t)) (c.max * c.refill + c.refill - 1)
        omega
      | some b =>
        refine ⟨hinv.1, Nat.le_trans hinv.2 ht, ?_⟩
        simp only [bucketOf, phi]
        have := hinv.2
        rw [Nat.min_def, Nat.min_def]
        split <;> split <;> omega
    obtain ⟨k1, k2, k3⟩ := hbk
    have h := spend_phi c hR (bucketOf c ob t) t t ⟨k1, k2⟩ (Nat.le_refl _)
    obtain ⟨h1, h2⟩ := h
    refine ⟨?_, h2⟩
    by_cases hs : (spend c (bucketOf c ob t) t).2 = true
    · simp only [hs, if_true, admNat] at h1 ⊢; omega
    · have hs' : (spend c (bucketOf c ob t) t).2 = false := by simpa using hs
      simp only [hs', admNat, Bool.false_eq_true, if_false] at h1 ⊢; omega
  | clean t =>
    simp only [step1, cleanup1, Ev.time, admNat] at *
    cases ob with
    | none => simp [phi, Inv]
    | some b =>
      obtain ⟨htok, hlast⟩ := hinv
      simp only []
      by_cases hd : shouldDelete c b t = true
      · simp only [hd, if_true, Inv, and_true]
        simp only [shouldDelete, Bool.and_eq_true, decide_eq_true_eq] at hd
        obtain ⟨_, hfull⟩ := hd
        -- the deleted bucket would have refilled to full: its potential is ≥ max·R
        simp only [phi]
        have hdm := Nat.div_mul_le_self (t - b.last) c.refill
        have h2 : c.max * c.refill ≤ (b.tokens + (t - b.last) / c.refill) * c.refill :=
          Nat.mul_le_mul_right _ hfull
        rw [Nat.add_mul] at h2
        rw [Nat.min_def]
        split <;> omega
      · simp only [hd]
        refine ⟨?_, htok, by omega⟩
        simp only [phi, Bool.false_eq_true, if_false]
        rw [Nat.min_def, Nat.min_def]
        split <;> split <;> omega

theorem countAdm_cons (o : Option Bool) (os : List (Option Bool)) :
    countAdm (o :: os) = admNat o + countAdm os := by
  cases o with
  | none => simp [countAdm, admNat]
  | some v => cases v <;> simp [countAdm, admNat, Nat.add_comm]

/-- telescoped potential argument over a time-ordered event list -/
theorem run1_phi (c : Cfg) (hR : 0 < c.refill) (evs : List Ev) :
    ∀ (ob : Option Bucket) (now hi : Nat), Inv c ob now → Timed now hi evs → now ≤ hi →
      countAdm (run1 c ob evs).2 * c.refill ≤ phi c ob now + (hi - now) := by
  induction evs with
  | nil => intro ob now hi _ _ _; simp [run1, countAdm]
  | cons e es ih =>
    intro ob now hi hinv htimed hle
    obtain ⟨h1, h2, h3⟩ := htimed
    obtain ⟨hphi, hinv'⟩ := step1_phi c hR ob now e hinv h1
    have hrec := ih (step1 c ob e).1 e.time hi hinv' h3 h2
    simp only [run1, countAdm_cons, Nat.add_mul]
    omega

/-- tokens the client could draw at time `t` (after refill); a missing bucket is full -/
def avail (c : Cfg) (ob : Option Bucket) (t : Nat) : Nat :=
  match ob with
  | none => c.max
  | some b => (refill c b t).tokens

theorem refill_tokens (c : Cfg) (b : Bucket) (t : Nat) (h : b.tokens ≤ c.max) :
    (refill c b t).tokens = min (b.tokens + (t - b.last) / c.refill) c.max := by
  simp only [refill]
  split
  · rfl
  · rename_i h0
    have : (t - b.last) / c.refill = 0 := Nat.eq_zero_of_not_pos h0
    rw [this, Nat.add_zero, Nat.min_eq_left h]

theorem avail_mono (c : Cfg) (ob : Option Bucket) (t t' : Nat) (hinv : Inv c ob t) (ht : t ≤ t') :
    avail c ob t ≤ avail c ob t' := by
  cases ob with
  | none => simp [avail]
  | some b =>
    simp only [avail]
    rw [refill_tokens c b t hinv.1, refill_tokens c b t' hinv.1]
    have : (t - b.last) / c.refill ≤ (t' - b.last) / c.refill :=
      Nat.div_le_div_right (by omega)
    generalize (t - b.last) / c.refill = q at *
    generalize (t' - b.last) / c.refill = q' at *
    rw [Nat.min_def, Nat.min_def]
    split <;> split <;> omega

theorem avail_le_max (c : Cfg) (ob : Option Bucket) (t : Nat) (hinv : Inv c ob t) :
    avail c ob t ≤ c.max := by
  cases ob with
  | none => simp [avail]
  | some b =>
    simp only [avail]
    rw [refill_tokens c b t hinv.1]
    exact Nat.min_le_right _ _

theorem tokens_le_avail (c : Cfg) (b : Bucket) (t : Nat) (h : b.tokens ≤ c.max) :
    b.tokens ≤ avail c (some b) t := by
  simp only [avail]
  rw [refill_tokens c b t h]
  generalize (t - b.last) / c.refill = q
  rw [Nat.min_def]
  split <;> omega

/-- if `n` tokens are available at `t`, the next `n` requests are all admitted, whatever
    cleanups run in between -/
theorem run1_avail (c : Cfg) (evs : List Ev) :
    ∀ (ob : Option Bucket) (t hi n : Nat), Inv c ob t → Timed t hi evs → n ≤ avail c ob t →
      ∀ b ∈ (reqOuts (run1 c ob evs).2).take n, b = true := by
  induction evs with
  | nil => intro ob t hi n _ _ _ b hb; simp [run1, reqOuts] at hb
  | cons e es ih =>
    intro ob t hi n hinv htimed hn b hb
    obtain ⟨h1, _, h3⟩ := htimed
    have hinv_e : Inv c ob e.time := inv_mono c ob t e.time hinv h1
    have hav : n ≤ avail c ob e.time := Nat.le_trans hn (avail_mono c ob t e.time hinv h1)
    cases e with
    | clean te =>
      simp only [run1, step1, reqOuts] at hb
      simp only [Ev.time] at *
      apply ih (cleanup1 c ob te) te hi n ?_ h3 ?_ b hb
      · cases ob with
        | none => trivial
        | some bk =>
          simp only [cleanup1]; split
          · trivial
          · exact hinv_e
      · cases ob with
        | none => simpa [cleanup1] using hav
        | some bk =>
          simp only [cleanup1]; split
          · simp only [avail]; exact Nat.le_trans hav (avail_le_max c _ te hinv_e)
          · exact hav
    | req te =>
      simp only [Ev.time] at *
      cases n with
      | zero => simp at hb
      | succ n =>
        simp only [run1, step1, allow1, reqOuts, List.take_succ_cons, List.mem_cons] at hb
        -- the bucket the locked section works on
        obtain ⟨bk, hbkdef⟩ : ∃ bk : Bucket, bk = bucketOf c ob te := ⟨_, rfl⟩
        have hbk : bk.tokens ≤ c.max ∧ bk.last ≤ te := by
          cases ob with
          | none => subst hbkdef; exact ⟨Nat.le_refl _, Nat.le_refl _⟩
          | some b0 => subst hbkdef; exact hinv_e
        have havbk : n + 1 ≤ (refill c bk te).tokens := by
          cases ob with
          | none =>
            simp only [avail] at hav
            subst hbkdef
            show n + 1 ≤ (refill c (fresh c te) te).tokens
            rw [refill_tokens c _ te (Nat.le_refl _)]
            simp only [fresh, Nat.sub_self, Nat.zero_div, Nat.add_zero, Nat.min_self]
            exact hav
          | some b0 => subst hbkdef; exact hav
        have hpos : 0 < (refill c bk te).tokens := by omega
        have hsp : spend c bk te = ({ refill c bk te with tokens := (refill c bk te).tokens - 1 }, true) := by
          simp only [spend, hpos, if_true]
        have hrt : (refill c bk te).tokens ≤ c.max := by
          rw [refill_tokens c bk te hbk.1]; exact Nat.min_le_right _ _
        have hrl : (refill c bk te).last ≤ te := by
          simp only [refill]; split
          · exact Nat.le_refl _
          · exact hbk.2
        rw [← hbkdef, hsp] at hb
        rcases hb with hb | hb
        · exact hb
        · apply ih _ te hi n ?_ h3 ?_ b hb
          · exact ⟨by simp only []; omega, hrl⟩
          · apply Nat.le_trans _ (tokens_le_avail c _ te (by simp only []; omega))
            simp only []; omega

/-- cleanups alone leave a bucket untouched or delete it -/
theorem run1_cleans (c : Cfg) (evs : List Ev) (hc : ∀ e ∈ evs, ∃ t, e = .clean t) :
    ∀ ob, (run1 c ob evs).1 = ob ∨ (run1 c ob evs).1 = none := by
  induction evs with
  | nil => intro ob; simp [run1]
  | cons e es ih =>
    intro ob
    obtain ⟨t, rfl⟩ := hc e (List.mem_cons_self ..)
    have hc' : ∀ e ∈ es, ∃ t, e = .clean t := fun e he => hc e (List.mem_cons_of_mem _ he)
    simp only [run1, step1]
    cases ob with
    | none =>
      simp only [cleanup1]
      rcases ih hc' none with h | h <;> simp [h]
    | some b =>
      simp only [cleanup1]
      split
      · rcases ih hc' none with h | h <;> simp [h]
      · exact ih hc' (some b)

theorem run1_append (c : Cfg) (xs ys : List Ev) : ∀ ob,
    run1 c ob (xs ++ ys) =
      ((run1 c (run1 c ob xs).1 ys).1, (run1 c ob xs).2 ++ (run1 c (run1 c ob xs).1 ys).2) := by
  induction xs with
  | nil => intro ob; simp [run1]
  | cons x xs ih => intro ob; simp [run1, ih]

theorem reqOuts_append (xs ys : List (Option Bool)) : reqOuts (xs ++ ys) = reqOuts xs ++ reqOuts ys := by
  induction xs with
  | nil => simp [reqOuts]
  | cons x xs ih =>
    cases x with
    | none => simp [reqOuts, ih]
    | some b => simp [reqOuts, ih]

theorem reqOuts_cleans (c : Cfg) (evs : List Ev) (hc : ∀ e ∈ evs, ∃ t, e = .clean t) :
    ∀ ob, reqOuts (run1 c ob evs).2 = [] := by
  induction evs with
  | nil => intro ob; simp [run1, reqOuts]
  | cons e es ih =>
    intro ob
    obtain ⟨t, rfl⟩ := hc e (List.mem_cons_self ..)
    have hc' : ∀ e ∈ es, ∃ t, e = .clean t := fun e he => hc e (List.mem_cons_of_mem _ he)
    simp only [run1, step1, reqOuts]
    exact ih hc' _

/-! ### projection of the multi-client system onto one client -/

def proj (k : String) : List Op → List Ev
  | [] => []
  | .allow k' t :: ops => if k' = k then .req t :: proj k ops else proj k ops
  | .cleanup t :: ops => .clean t :: proj k ops

/-- outputs of the ops that concern client `k` (its requests and every cleanup) -/
def outsFor (k : String) : List Op → List (Option Bool) → List (Option Bool)
  | .allow k' _ :: ops, o :: outs => if k' = k then o :: outsFor k ops outs else outsFor k ops outs
  | .cleanup _ :: ops, _ :: outs => none :: outsFor k ops outs
  | _, _ => []

theorem run_proj (c : Cfg) (k : String) (ops : List Op) : ∀ (m : Map),
    (run c m ops).1 k = (run1 c (m k) (proj k ops)).1 ∧
    outsFor k ops (run c m ops).2 = (run1 c (m k) (proj k ops)).2 := by
  induction ops with
  | nil => intro m; simp [run, run1, proj, outsFor]
  | cons op ops ih =>
    intro m
    cases op with
    | allow k' t =>
      by_cases hk : k' = k
      · subst hk
        have := ih ((m.set k' (allow1 c (m k') t).1))
        simp only [run, step, proj, if_true, run1, step1, outsFor, Map.set] at this ⊢
        exact ⟨this.1, by rw [this.2]⟩
      · have := ih ((m.set k' (allow1 c (m k') t).1))
        have hk2 : ¬ (k = k') := fun h => hk h.symm
        simp only [run, step, proj, hk, if_false, outsFor, Map.set, hk2] at this ⊢
        exact this
    | cleanup t =>
      have := ih (fun k => cleanup1 c (m k) t)
      simp only [run, step, proj, run1, step1, outsFor] at this ⊢
      exact ⟨this.1, by rw [this.2]⟩

/-- ops are time-ordered and lie in `[lo, hi]` -/
def TimedOps (lo hi : Nat) : List Op → Prop
  | [] => True
  | o :: os => lo ≤ o.time ∧ o.time ≤ hi ∧ TimedOps o.time hi os

theorem timed_proj (k : String) (ops : List Op) : ∀ lo hi, TimedOps lo hi ops → Timed lo hi (proj k ops) := by
  induction ops with
  | nil => intro lo hi _; trivial
  | cons o os ih =>
    intro lo hi h
    obtain ⟨h1, h2, h3⟩ := h
    have hrec := ih o.time hi h3
    have hweak : ∀ (evs : List Ev), Timed o.time hi evs → Timed lo hi evs := by
      intro evs he
      cases evs with
      | nil => trivial
      | cons e es => exact ⟨Nat.le_trans h1 he.1, he.2.1, he.2.2⟩
    cases o with
    | allow k' t =>
      simp only [proj]
      split
      · exact ⟨h1, h2, hrec⟩
      · exact hweak _ hrec
    | cleanup t => exact ⟨h1, h2, hrec⟩

def InvM (c : Cfg) (m : Map) (now : Nat) : Prop := ∀ k, Inv c (m k) now

theorem run1_inv (c : Cfg) (hR : 0 < c.refill) (evs : List Ev) :
    ∀ (ob : Option Bucket) (now hi : Nat), Inv c ob now → Timed now hi evs → now ≤ hi →
      Inv c (run1 c ob evs).1 hi := by
  induction evs with
  | nil => intro ob now hi h _ hle; exact inv_mono c ob now hi h hle
  | cons e es ih =>
    intro ob now hi hinv ht hle
    obtain ⟨h1, h2, h3⟩ := ht
    have hs := (step1_phi c hR ob now e hinv h1).2
    exact ih _ e.time hi hs h3 h2

theorem run_inv (c : Cfg) (hR : 0 < c.refill) (ops : List Op) (m : Map) (now hi : Nat)
    (hinv : InvM c m now) (ht : TimedOps now hi ops) (hle : now ≤ hi) :
    InvM c (run c m ops).1 hi := by
  intro k
  rw [(run_proj c k ops m).1]
  exact run1_inv c hR _ _ now hi (hinv k) (timed_proj k ops now hi ht) hle

theorem admitted_eq (k : String) (ops : List Op) : ∀ (outs : List (Option Bool)),
    admitted k ops outs = countAdm (outsFor k ops outs) := by
  induction ops with
  | nil => intro outs; cases outs <;> simp [admitted, outsFor, countAdm]
  | cons o os ih =>
    intro outs
    cases outs with
    | nil => cases o <;> simp [admitted, outsFor, countAdm]
    | cons out outs =>
      cases o with
      | allow k' t =>
        by_cases hk : k' = k
        · cases out with
          | none => simp [admitted, outsFor, countAdm, hk, ih]
          | some v => cases v <;> simp [admitted, outsFor, countAdm, hk, ih, Nat.add_comm]
        · cases out with
          | none => simp [admitted, outsFor, hk, ih]
          | some v => cases v <;> simp [admitted, outsFor, hk, ih]
      | cleanup t =>
        cases out with
        | none => simp [admitted, outsFor, countAdm, ih]
        | some v => cases v <;> simp [admitted, outsFor, countAdm, ih]

end Helios.RL
