import Helios.Model.Addr
/- Lemmas about byte search and `net.SplitHostPort` (host part). -/
namespace Helios.Bytes

theorem indexOf_none_iff (c : UInt8) (s : Bytes) : indexOf c s = none ↔ c ∉ s := by
  induction s with
  | nil => simp [indexOf]
  | cons b bs ih =>
    simp only [indexOf, List.mem_cons, not_or]
    by_cases h : b = c
    · simp [h]
    · have h' : ¬ c = b := fun e => h e.symm
      simp [h, h', ih]

theorem contains_false_iff (c : UInt8) (s : Bytes) : contains c s = false ↔ c ∉ s := by
  simp [contains, ← indexOf_none_iff]

theorem lastIndexOf_none_iff (c : UInt8) (s : Bytes) : lastIndexOf c s = none ↔ c ∉ s := by
  induction s with
  | nil => simp [lastIndexOf]
  | cons b bs ih =>
    simp only [lastIndexOf, List.mem_cons, not_or]
    by_cases hm : c ∈ bs
    · have : lastIndexOf c bs ≠ none := fun e => (ih.mp e) hm
      cases hl : lastIndexOf c bs with
      | none => exact absurd hl this
      | some i => simp [hm]
    · rw [ih.mpr hm]
      by_cases h : b = c
      · simp [h]
      · have h' : ¬ c = b := fun e => h e.symm
        simp [h, h', hm]

theorem lastIndexOf_append_cons (c : UInt8) (h p : Bytes) (hp : c ∉ p) :
    lastIndexOf c (h ++ c :: p) = some h.length := by
  induction h with
  | nil => simp [lastIndexOf, (lastIndexOf_none_iff c p).mpr hp]
  | cons b bs ih => simp [lastIndexOf, ih]

theorem indexOf_append_cons (c : UInt8) (h p : Bytes) (hh : c ∉ h) :
    indexOf c (h ++ c :: p) = some h.length := by
  induction h with
  | nil => simp [indexOf]
  | cons b bs ih =>
    simp only [List.mem_cons, not_or] at hh
    have : ¬ b = c := fun e => hh.1 e.symm
    simp [indexOf, this, ih hh.2]

end Helios.Bytes

namespace Helios.Addr
open Helios Helios.Bytes

/-- `host:port` with a bracket-free, colon-free host and a colon/bracket-free port splits
    into exactly `host` (the IPv4 / hostname form of RemoteAddr) -/
theorem splitHost_plain (h p : Bytes)
    (h1 : colon ∉ h) (h2 : lbrack ∉ h) (h3 : rbrack ∉ h)
    (p1 : colon ∉ p) (p2 : lbrack ∉ p) (p3 : rbrack ∉ p) :
    splitHost (h ++ colon :: p) = some h := by
  unfold splitHost
  rw [lastIndexOf_append_cons colon h p p1]
  have hc0 : ∀ c0 rest, h ++ colon :: p = c0 :: rest → c0 ≠ lbrack := by
    intro c0 rest e
    cases h with
    | nil => simp at e; rw [← e.1]; decide
    | cons b bs =>
      simp at e
      rw [← e.1]
      intro hb; exact h2 (by simp [hb])
  have hne : h ++ colon :: p ≠ [] := by simp
  cases hhp : h ++ colon :: p with
  | nil => exact absurd hhp hne
  | cons c0 rest =>
    have := hc0 c0 rest hhp
    simp only [this, if_false]
    rw [← hhp]
    have t1 : (h ++ colon :: p).take h.length = h := by simp
    rw [t1]
    have c1 : contains colon h = false := (contains_false_iff _ _).mpr h1
    have c2 : contains lbrack (h ++ colon :: p) = false := by
      apply (contains_false_iff _ _).mpr
      simp only [List.mem_append, List.mem_cons, not_or]
      exact ⟨h2, by decide, p2⟩
    have c3 : contains rbrack (h ++ colon :: p) = false := by
      apply (contains_false_iff _ _).mpr
      simp only [List.mem_append, List.mem_cons, not_or]
      exact ⟨h3, by decide, p3⟩
    simp [c1, c2, c3]

/-- `[host]:port` (the IPv6 form of RemoteAddr) splits into `host` -/
theorem splitHost_bracket (h p : Bytes)
    (h2 : lbrack ∉ h) (h3 : rbrack ∉ h)
    (p1 : colon ∉ p) (p2 : lbrack ∉ p) (p3 : rbrack ∉ p) :
    splitHost (lbrack :: (h ++ rbrack :: colon :: p)) = some h := by
  unfold splitHost
  have e1 : lbrack :: (h ++ rbrack :: colon :: p) = (lbrack :: h ++ [rbrack]) ++ colon :: p := by simp
  have l1 : lastIndexOf colon (lbrack :: (h ++ rbrack :: colon :: p)) = some (h.length + 2) := by
    rw [e1, lastIndexOf_append_cons colon _ p p1]; simp
  have hrb : rbrack ∉ lbrack :: h := by
    simp only [List.mem_cons, not_or]; exact ⟨by decide, h3⟩
  have e2 : lbrack :: (h ++ rbrack :: colon :: p) = (lbrack :: h) ++ rbrack :: (colon :: p) := by simp
  have l2 : indexOf rbrack (lbrack :: (h ++ rbrack :: colon :: p)) = some (h.length + 1) := by
    rw [e2, indexOf_append_cons rbrack _ _ hrb]; simp
  rw [l1]
  simp only [if_true, l2]
  have hlen : (lbrack :: (h ++ rbrack :: colon :: p)).length = h.length + 2 + p.length + 1 := by
    simp; omega
  have n1 : ¬ (h.length + 1 + 1 = (lbrack :: (h ++ rbrack :: colon :: p)).length) := by
    rw [hlen]; omega
  simp only [n1, if_false, if_true]
  have c2 : contains lbrack ((lbrack :: (h ++ rbrack :: colon :: p)).drop 1) = false := by
    apply (contains_false_iff _ _).mpr
    simp only [List.drop_succ_cons, List.drop_zero, List.mem_append, List.mem_cons, not_or]
    exact ⟨h2, by decide, by decide, p2⟩
  have c3 : contains rbrack ((lbrack :: (h ++ rbrack :: colon :: p)).drop (h.length + 1 + 1)) = false := by
    apply (contains_false_iff _ _).mpr
    have : (lbrack :: (h ++ rbrack :: colon :: p)).drop (h.length + 1 + 1) = colon :: p := by
      simp [List.drop_append]
    rw [this]
    simp only [List.mem_cons, not_or]
    exact ⟨by decide, p3⟩
  simp only [List.drop_succ_cons, List.drop_zero] at c2
  have c3' : contains rbrack (colon :: p) = false := by
    apply (contains_false_iff _ _).mpr
    simp only [List.mem_cons, not_or]
    exact ⟨by decide, p3⟩
  simp [c2, c3']

end Helios.Addr
