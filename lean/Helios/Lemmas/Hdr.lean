import Helios.Model.Proxy
import Helios.Props.C16
/-
Header-map lemmas for C01: maps as association lists with distinct keys.
-/
namespace Helios.Proxy
open Helios Helios.Http

/-- no key occurs twice -/
def Distinct : Hdr → Prop
  | [] => True
  | kv :: t => (∀ x ∈ t, x.1 ≠ kv.1) ∧ Distinct t

def NoKey (h : Hdr) (k : String) : Prop := ∀ x ∈ h, x.1 ≠ k

theorem distinct_cross : ∀ (a b : Hdr), Distinct (a ++ b) → ∀ x ∈ a, ∀ y ∈ b, y.1 ≠ x.1
  | [], _, _, x, hx, _, _ => by cases hx
  | kv :: t, b, hd, x, hx, y, hy => by
    simp only [List.cons_append, Distinct] at hd
    cases hx with
    | head => exact hd.1 y (List.mem_append_right _ hy)
    | tail _ hxt => exact distinct_cross t b hd.2 x hxt y hy

theorem distinct_left : ∀ (a b : Hdr), Distinct (a ++ b) → Distinct a
  | [], _, _ => trivial
  | kv :: t, b, hd => by
    simp only [List.cons_append, Distinct] at hd ⊢
    exact ⟨fun x hx => hd.1 x (List.mem_append_left _ hx), distinct_left t b hd.2⟩

theorem distinct_right : ∀ (a b : Hdr), Distinct (a ++ b) → Distinct b
  | [], _, hd => hd
  | _ :: t, b, hd => by
    simp only [List.cons_append, Distinct] at hd
    exact distinct_right t b hd.2

theorem distinct_filter (p : String × String → Bool) : ∀ (h : Hdr), Distinct h → Distinct (h.filter p)
  | [], _ => trivial
  | kv :: t, hd => by
    simp only [Distinct] at hd
    rw [List.filter_cons]
    split
    · simp only [Distinct]
      exact ⟨fun x hx => hd.1 x (List.mem_filter.mp hx).1, distinct_filter p t hd.2⟩
    · exact distinct_filter p t hd.2

theorem filter_ne_self (h : Hdr) (k : String) (hk : NoKey h k) : h.filter (fun x => decide (x.1 ≠ k)) = h := by
  apply List.filter_eq_self.mpr
  intro x hx
  simpa using hk x hx

theorem set_fresh (h : Hdr) (k v : String) (hk : NoKey h k) : h.set k v = h ++ [(k, v)] := by
  simp only [Hdr.set]; rw [filter_ne_self h k hk]

theorem del_nokey (h : Hdr) (k : String) (hk : NoKey h k) : h.del k = h := by
  simp only [Hdr.del]; exact filter_ne_self h k hk

/-- fold of `set` over a list of pairs -/
def setFold (acc : Hdr) (h : Hdr) : Hdr := h.foldl (fun m kv => m.set kv.1 kv.2) acc

theorem setFold_distinct : ∀ (h acc : Hdr), Distinct (acc ++ h) → setFold acc h = acc ++ h
  | [], acc, _ => by simp [setFold]
  | kv :: t, acc, hd => by
    have hk : NoKey acc kv.1 := fun x hx => by
      have := distinct_cross acc (kv :: t) hd x hx kv (List.mem_cons_self ..)
      exact fun e => this e.symm
    simp only [setFold, List.foldl_cons]
    rw [set_fresh acc kv.1 kv.2 hk]
    have hd' : Distinct ((acc ++ [(kv.1, kv.2)]) ++ t) := by
      rw [List.append_assoc]; exact hd
    have := setFold_distinct t (acc ++ [(kv.1, kv.2)]) hd'
    simp only [setFold] at this
    rw [this, List.append_assoc]; rfl

theorem get_append_left (a b : Hdr) (k : String) (hb : NoKey b k) : (a ++ b).get k = a.get k := by
  simp only [Hdr.get, List.find?_append]
  have : List.find? (fun x => decide (x.1 = k)) b = none := by
    apply List.find?_eq_none.mpr
    intro x hx
    simpa using hb x hx
  rw [this]; simp

theorem get_append_right (a b : Hdr) (k : String) (ha : NoKey a k) : (a ++ b).get k = b.get k := by
  simp only [Hdr.get, List.find?_append]
  have : List.find? (fun x => decide (x.1 = k)) a = none := by
    apply List.find?_eq_none.mpr
    intro x hx
    simpa using ha x hx
  rw [this]; simp

theorem get_nokey (h : Hdr) (k : String) (hk : NoKey h k) : h.get k = "" := by
  simp only [Hdr.get]
  have : List.find? (fun x => decide (x.1 = k)) h = none := by
    apply List.find?_eq_none.mpr
    intro x hx
    simpa using hk x hx
  rw [this]

theorem nokey_del_self (h : Hdr) (k : String) : NoKey (h.del k) k := by
  intro x hx
  simp only [Hdr.del, List.mem_filter] at hx
  simpa using hx.2

theorem nokey_del (h : Hdr) (k j : String) (hk : NoKey h k) : NoKey (h.del j) k := by
  intro x hx
  simp only [Hdr.del, List.mem_filter] at hx
  exact hk x hx.1

theorem nokey_append (a b : Hdr) (k : String) (ha : NoKey a k) (hb : NoKey b k) : NoKey (a ++ b) k := by
  intro x hx
  rcases List.mem_append.mp hx with h | h
  · exact ha x h
  · exact hb x h

/-- member of a distinct map: `get` returns its value -/
theorem get_of_mem : ∀ (h : Hdr), Distinct h → ∀ kv ∈ h, h.get kv.1 = kv.2
  | [], _, _, hkv => by cases hkv
  | x :: t, hd, kv, hkv => by
    simp only [Distinct] at hd
    cases hkv with
    | head => simp [Hdr.get]
    | tail _ ht =>
      have hne : x.1 ≠ kv.1 := fun e => hd.1 kv ht e.symm
      have := get_of_mem t hd.2 kv ht
      simp only [Hdr.get, List.find?_cons] at this ⊢
      simp only [hne, decide_false]
      exact this

end Helios.Proxy
