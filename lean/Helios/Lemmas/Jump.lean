import Helios.Model.Hash
/-
Lemmas about the integer-division jump consistent hash (moved from the design-phase
calibration proof).  Core Lean only.
-/
namespace Helios.Hash

theorem shift_lt (key : UInt64) : (key >>> 33).toNat < 2147483648 := by
  have h := key.toNat_lt
  simp only [UInt64.toNat_shiftRight]
  have : (33 : UInt64).toNat % 64 = 33 := by decide
  rw [this, Nat.shiftRight_eq_div_pow]
  omega

theorem quo_pos (key : UInt64) : 1 ≤ quo key := by
  unfold quo
  have h := shift_lt key
  have h2 : (Int.ofNat ((key >>> 33).toNat + 1)) ≤ 2147483648 := by
    simp only [Int.ofNat_eq_natCast]; omega
  have h3 : (0:Int) < Int.ofNat ((key >>> 33).toNat + 1) := by
    simp only [Int.ofNat_eq_natCast]; omega
  exact Int.le_ediv_of_mul_le h3 (by omega)

theorem step_grows (key : UInt64) (j : Int) (hj : 0 ≤ j) : j + 1 ≤ (j + 1) * quo key := by
  have h := quo_pos key
  have : (j + 1) * 1 ≤ (j + 1) * quo key := Int.mul_le_mul_of_nonneg_left h (by omega)
  omega


theorem loop_lt (fuel : Nat) : ∀ (key : UInt64) (b j n : Int), b < n → loop fuel key b j n < n := by
  induction fuel with
  | zero => intro key b j n h; simpa [loop] using h
  | succ f ih =>
    intro key b j n h
    unfold loop
    split
    · rename_i hj; exact ih _ _ _ _ hj
    · exact h

theorem loop_ge (fuel : Nat) : ∀ (key : UInt64) (b j n : Int), 0 ≤ j → b ≤ j → b ≤ loop fuel key b j n := by
  induction fuel with
  | zero => intro key b j n _ _; simp [loop]
  | succ f ih =>
    intro key b j n hj hb
    unfold loop
    split
    · have hg := step_grows (nextKey key) j hj
      have := ih (nextKey key) j ((j + 1) * quo (nextKey key)) n (by omega) (by omega)
      simp only []
      omega
    · omega

theorem jump_range (key : UInt64) (n : Nat) (hn : 1 ≤ n) :
    0 ≤ jumpHash key n ∧ jumpHash key n < n := by
  unfold jumpHash
  constructor
  · -- first iteration sets b := 0
    unfold loop
    have : (0:Int) < (n:Int) := by omega
    simp only [this, if_true]
    exact loop_ge n _ 0 _ n (by have := quo_pos (nextKey key); omega) (by have := quo_pos (nextKey key); omega)
  · exact loop_lt _ _ _ _ _ (by omega)

theorem loop_succ (f : Nat) (key : UInt64) (b j n : Int) :
    loop (f+1) key b j n =
      if j < n then loop f (nextKey key) j ((j + 1) * quo (nextKey key)) n else b := by
  rw [loop]

/-- lock-step comparison of the loop for `n` and `n+1` buckets -/
theorem loop_mono (fuel : Nat) : ∀ (key : UInt64) (b j : Int) (n : Int), 0 ≤ j → n + 1 ≤ j + fuel →
    loop (fuel+1) key b j (n+1) = loop fuel key b j n ∨ loop (fuel+1) key b j (n+1) = n := by
  induction fuel with
  | zero =>
    intro key b j n hj hf
    left
    have : ¬ (j < n + 1) := by omega
    rw [loop_succ]; simp [this, loop]
  | succ f ih =>
    intro key b j n hj hf
    have hg := step_grows (nextKey key) j hj
    by_cases h1 : j < n
    · have h2 : j < n + 1 := by omega
      rw [loop_succ (f+1) key b j (n+1), loop_succ f key b j n]
      simp only [h1, h2, if_true]
      exact ih (nextKey key) j ((j + 1) * quo (nextKey key)) n (by omega) (by omega)
    · by_cases h3 : j = n
      · right
        subst h3
        have h2 : j < j + 1 := by omega
        rw [loop_succ (f+1) key b j (j+1)]
        simp only [h2, if_true]
        rw [loop_succ]
        have : ¬ ((j + 1) * quo (nextKey key) < j + 1) := by omega
        simp [this]
      · left
        have h2 : ¬ (j < n + 1) := by omega
        rw [loop_succ (f+1) key b j (n+1), loop_succ f key b j n]
        simp [h1, h2]

theorem jump_monotone (key : UInt64) (n : Nat) :
    jumpHash key (n+1) = jumpHash key n ∨ jumpHash key (n+1) = n := by
  unfold jumpHash
  have := loop_mono (n+1) key (-1) 0 (n : Int) (by omega) (by omega)
  simpa using this


end Helios.Hash
