import Helios.Lemmas.Replay
/-
C01: whatever a handler does to a net/http ResponseWriter (any sequence of header edits,
WriteHeader calls incl. 1xx, writes, flushes), what the server puts on the wire is a
well-formed wire response (`WireOK`) — the hypothesis of `replay`.
-/
namespace Helios.Proxy
open Helios Helios.Http

structure Inv (b : Base) : Prop where
  dh : Distinct b.hdr
  ds : Distinct b.snap
  fin : ∀ s, b.status = some s → ¬ (s ≥ 100 ∧ s < 200)
  raw : ∀ p ∈ b.pieces, ∃ c : Chunk, p = .raw c ∧ c.1 ≠ 0
  hd : b.head = true → b.pieces = []
  nb : ∀ s, b.status = some s → bodyAllowed s = false → b.pieces = []
  pre : b.status = none → b.pieces = []
  decl : ∀ s, b.status = some s → b.declared = parseNat? (b.snap.get "Content-Length")
  le : sumLen b.pieces ≤ b.written
  bound : ∀ n, b.declared = some n → sumLen b.pieces ≤ n
  gz : b.gzOpaque = 0
  ic : ∀ c ∈ b.interim, c ≥ 100 ∧ c < 200
  il : b.interim.length = b.interimSnap.length

theorem distinct_snoc : ∀ (a : Hdr) (k v : String), Distinct a → NoKey a k → Distinct (a ++ [(k, v)])
  | [], _, _, _, _ => by simp [Distinct]
  | x :: t, k, v, hd, hk => by
    simp only [Distinct] at hd
    simp only [List.cons_append, Distinct]
    refine ⟨?_, distinct_snoc t k v hd.2 (fun y hy => hk y (List.mem_cons_of_mem _ hy))⟩
    intro y hy
    rcases List.mem_append.mp hy with h | h
    · exact hd.1 y h
    · simp only [List.mem_singleton] at h
      rw [h]; exact fun e => hk x (List.mem_cons_self ..) e.symm

theorem distinct_set (h : Hdr) (k v : String) (hd : Distinct h) : Distinct (h.set k v) := by
  simp only [Hdr.set]
  apply distinct_snoc _ _ _ (distinct_filter _ h hd)
  intro x hx
  simpa using (List.mem_filter.mp hx).2

theorem distinct_del (h : Hdr) (k : String) (hd : Distinct h) : Distinct (h.del k) := by
  simp only [Hdr.del]; exact distinct_filter _ h hd

theorem inv_init (head : Bool) : Inv { head := head } := by
  constructor <;> simp [Distinct, sumLen]

theorem inv_commit (b : Base) (c : Nat) (hc : ¬ (c ≥ 100 ∧ c < 200)) (h : Inv b) : Inv (b.commit c) := by
  cases hs : b.status with
  | some s => simp only [Base.commit, hs]; exact h
  | none =>
    have hp := h.pre hs
    simp only [Base.commit, hs]
    constructor
    · exact h.dh
    · exact h.dh
    · intro s e; simp only [Option.some.injEq] at e; rw [← e]; exact hc
    · simp [hp]
    · intro _; exact hp
    · intro _ _ _; exact hp
    · intro e; cases e
    · intro s _; rfl
    · simp [hp, sumLen]
    · intro n _; simp [hp, sumLen]
    · exact h.gz
    · exact h.ic
    · exact h.il

theorem commit_status (b : Base) (c : Nat) : ∃ s, (b.commit c).status = some s := by
  cases hs : b.status with
  | some s => exact ⟨s, by simp [Base.commit, hs]⟩
  | none => exact ⟨c, by simp [Base.commit, hs]⟩

theorem inv_flushes (b : Base) (f : List Nat) (h : Inv b) : Inv { b with flushes := f } :=
  ⟨h.dh, h.ds, h.fin, h.raw, h.hd, h.nb, h.pre, h.decl, h.le, h.bound, h.gz, h.ic, h.il⟩

theorem inv_written (b : Base) (w : Nat) (hw : b.written ≤ w) (h : Inv b) : Inv { b with written := w } :=
  ⟨h.dh, h.ds, h.fin, h.raw, h.hd, h.nb, h.pre, h.decl, Nat.le_trans h.le hw, h.bound, h.gz, h.ic, h.il⟩

theorem inv_interim (b : Base) (c : Nat) (hc : c ≥ 100 ∧ c < 200) (h : Inv b) :
    Inv { b with interim := b.interim ++ [c], interimSnap := b.interimSnap ++ [b.hdr] } :=
  ⟨h.dh, h.ds, h.fin, h.raw, h.hd, h.nb, h.pre, h.decl, h.le, h.bound, h.gz,
   (by
      intro x hx
      rcases List.mem_append.mp hx with hx | hx
      · exact h.ic x hx
      · simp only [List.mem_singleton] at hx; rw [hx]; exact hc),
   (by simp [h.il])⟩

/-- an accepted Write on a committed, body-carrying, non-HEAD response -/
theorem inv_push (b : Base) (c : Chunk) (s : Nat) (hs : b.status = some s) (hba : bodyAllowed s = true)
    (hh : b.head = false) (hz : c.1 ≠ 0) (hok : ∀ n, b.declared = some n → b.written + c.1 ≤ n) (h : Inv b) :
    Inv { b with written := b.written + c.1, pieces := b.pieces ++ [.raw c] } := by
  have hsum : sumLen (b.pieces ++ [.raw c]) = sumLen b.pieces + c.1 := by
    rw [sumLen_append, sumLen_single]
  refine ⟨h.dh, h.ds, h.fin, ?_, ?_, ?_, ?_, h.decl, ?_, ?_, h.gz, h.ic, h.il⟩
  · intro p hp
    rcases List.mem_append.mp hp with hp | hp
    · exact h.raw p hp
    · simp only [List.mem_singleton] at hp; exact ⟨c, hp, hz⟩
  · intro e; simp only [] at e; rw [hh] at e; cases e
  · intro s' e1 e2
    simp only [] at e1
    rw [hs] at e1; cases e1
    rw [hba] at e2; cases e2
  · intro e; simp only [] at e; rw [hs] at e; cases e
  · simp only []; rw [hsum]; have := h.le; omega
  · intro n hn
    simp only [] at hn ⊢
    rw [hsum]
    have := hok n hn; have := h.le; omega

theorem inv_step (b : Base) (o : Op) (ho : ∀ body, o ≠ .wgz body) (h : Inv b) : Inv (b.step o) := by
  cases o with
  | setH k v => exact ⟨distinct_set _ _ _ h.dh, h.ds, h.fin, h.raw, h.hd, h.nb, h.pre, h.decl, h.le, h.bound, h.gz, h.ic, h.il⟩
  | delH k => exact ⟨distinct_del _ _ h.dh, h.ds, h.fin, h.raw, h.hd, h.nb, h.pre, h.decl, h.le, h.bound, h.gz, h.ic, h.il⟩
  | wgz body => exact absurd rfl (ho body)
  | wh c =>
    simp only [Base.step]
    split
    · exact h
    · split
      · rename_i _ hc
        exact inv_interim b c hc h
      · rename_i _ hc
        exact inv_commit b c hc h
  | fl =>
    have hc := inv_commit b 200 (by omega) h
    simp only [Base.step]
    exact inv_flushes _ _ hc
  | w c =>
    have hc := inv_commit b 200 (by omega) h
    obtain ⟨s, hs⟩ := commit_status b 200
    simp only [Base.step]
    generalize b.commit 200 = b' at hc hs
    by_cases hz : c.1 = 0
    · rw [if_pos hz]; exact hc
    · rw [if_neg hz]
      cases hba : bodyAllowed s with
      | false => simp only [hs, Option.getD_some, hba, Bool.not_false, if_true]; exact hc
      | true =>
        simp only [hs, Option.getD_some, hba, Bool.not_true, Bool.false_eq_true, if_false]
        cases hh : b'.head with
        | true =>
          simp only [if_true]
          cases hd : b'.declared with
          | none => simp only []; exact cast (by simp [hs, hh, hd]) (inv_written b' (b'.written + c.1) (by omega) hc)
          | some d =>
            simp only []
            split <;> exact cast (by simp [hs, hh, hd]) (inv_written b' (b'.written + c.1) (by omega) hc)
        | false =>
          simp only [Bool.false_eq_true, if_false]
          cases hd : b'.declared with
          | none =>
            simp only []
            exact cast (by simp [hs, hh, hd]) (inv_push b' c s hs hba hh hz (by intro n hn; rw [hd] at hn; cases hn) hc)
          | some d =>
            simp only []
            split
            · exact cast (by simp [hs, hh, hd]) (inv_written b' (b'.written + c.1) (by omega) hc)
            · rename_i hle
              exact cast (by simp [hs, hh, hd]) (inv_push b' c s hs hba hh hz (by intro n hn; rw [hd] at hn; cases hn; omega) hc)

theorem inv_run : ∀ (ops : List Op) (b : Base), (∀ o ∈ ops, ∀ body, o ≠ .wgz body) → Inv b → Inv (Base.run b ops)
  | [], _, _, h => h
  | o :: rest, b, hno, h => by
    rw [run_cons]
    exact inv_run rest (b.step o) (fun x hx => hno x (List.mem_cons_of_mem _ hx))
      (inv_step b o (hno o (List.mem_cons_self ..)) h)

theorem parseNat_empty : parseNat? "" = none := by decide

/-- the client's view of a committed response, from its fields -/
def viewOf (f : Base) (st : Nat) : View :=
  { status := st,
    hdr := if st = 304 then (f.snap.del "Content-Type").del "Content-Length"
           else if st = 204 then f.snap.del "Content-Length" else f.snap,
    pieces := f.pieces,
    short := match f.declared with
      | some d => bodyAllowed st && !f.head && f.gzOpaque = 0 &&
                  decide ((f.pieces.foldl (fun a p => a + p.rawLen) 0) < d)
      | none => false }

theorem view_eq (b : Base) (st : Nat) (hst : (b.commit 200).status = some st) :
    b.view = viewOf (b.commit 200) st := by
  simp only [Base.view, Base.finish, viewOf, hst, Option.getD_some]
  rfl

theorem wire_of_fin (f : Base) (head : Bool) (st : Nat) (hf : Inv f) (hst : f.status = some st)
    (hhead : f.head = head) : WireOK (viewOf f st) head := by
  have hnb : bodyAllowed st = false → f.pieces = [] := hf.nb st hst
  by_cases h304 : st = 304
  · have hp : f.pieces = [] := hnb (by rw [h304]; decide)
    have nk1 : NoKey ((f.snap.del "Content-Type").del "Content-Length") "Content-Length" := nokey_del_self _ _
    have nk2 : NoKey ((f.snap.del "Content-Type").del "Content-Length") "Content-Type" := nokey_del _ _ _ (nokey_del_self _ _)
    simp only [viewOf, h304, if_true]
    constructor
    · exact distinct_del _ _ (distinct_del _ _ hf.ds)
    · simp
    · simp [hp]
    · intro _; exact hp
    · intro n _; simp [hp, sumLen]
    · simp only [get_nokey _ _ nk1, parseNat_empty]
      cases f.declared <;> simp [bodyAllowed]
    · intro _; exact ⟨nk2, nk1⟩
    · intro e; simp at e
  · by_cases h204 : st = 204
    · have hp : f.pieces = [] := hnb (by rw [h204]; decide)
      have nk1 : NoKey (f.snap.del "Content-Length") "Content-Length" := nokey_del_self _ _
      simp only [viewOf, h204, if_true, show ¬ (204 = 304) by omega, if_false]
      constructor
      · exact distinct_del _ _ hf.ds
      · simp
      · simp [hp]
      · intro _; exact hp
      · intro n _; simp [hp, sumLen]
      · simp only [get_nokey _ _ nk1, parseNat_empty]
        cases f.declared <;> simp [bodyAllowed]
      · intro e; simp at e
      · intro _; exact nk1
    · simp only [viewOf, h304, h204, if_false]
      have hd := hf.decl st hst
      constructor
      · exact hf.ds
      · exact hf.fin st hst
      · exact hf.raw
      · intro hor
        rcases hor with hh | hb
        · exact hf.hd (by rw [hhead]; exact hh)
        · exact hnb hb
      · intro n hn; exact hf.bound n (by rw [hd]; exact hn)
      · simp only []
        rw [← hd, hf.gz, hhead]
        cases f.declared <;> simp [sumLen] <;> rfl
      · intro e; exact absurd e h304
      · intro e; exact absurd e h204

/-- **What a net/http server sends is a well-formed wire response.** -/
theorem wire_of_inv (b : Base) (h : Inv b) : WireOK b.view b.head := by
  have hf := inv_commit b 200 (by omega) h
  obtain ⟨st, hst⟩ := commit_status b 200
  have hhead : (b.commit 200).head = b.head := by
    cases hs : b.status <;> simp [Base.commit, hs]
  rw [view_eq b st hst]
  exact wire_of_fin _ _ st hf hst hhead

theorem step_head (b : Base) (o : Op) : (b.step o).head = b.head := by
  have hc : ∀ c, (b.commit c).head = b.head := by
    intro c; cases hs : b.status <;> simp [Base.commit, hs]
  cases o with
  | setH k v => rfl
  | delH k => rfl
  | fl => simp only [Base.step]; exact hc 200
  | wh c =>
    simp only [Base.step]
    split
    · rfl
    · split
      · rfl
      · exact hc c
  | w c =>
    simp only [Base.step]
    split
    · exact hc 200
    · split
      · exact hc 200
      · split
        · split <;> exact hc 200
        · exact hc 200
  | wgz body =>
    simp only [Base.step]
    split <;> exact hc 200

theorem run_head : ∀ (ops : List Op) (b : Base), (Base.run b ops).head = b.head
  | [], _ => rfl
  | o :: t, b => by rw [run_cons, run_head t, step_head]

/-- every handler script without gzip members, on a fresh response -/
theorem wire_ok (head : Bool) (ops : List Op) (hno : ∀ o ∈ ops, ∀ body, o ≠ .wgz body) :
    WireOK (Base.run { head := head } ops).view head := by
  have hi := inv_run ops { head := head } hno (inv_init head)
  have hh : (Base.run { head := head } ops).head = head := run_head ops _
  have := wire_of_inv _ hi
  rw [hh] at this
  exact this

end Helios.Proxy
