import Helios.Model.LB
import Helios.Props.C06
/- Lemmas connecting the strategies' choice to `findHealthyBackend` (LB.findBackend). -/
namespace Helios.LB
open Helios

theorem eligibleIdx_nil (pool : List Backend) (now : Nat) (h : eligibleIdx pool now = []) :
    ∀ b ∈ pool, b.eligible now = false := by
  intro b hb
  obtain ⟨j, hj, hjb⟩ := List.getElem_of_mem hb
  have : j ∉ eligibleIdx pool now := by rw [h]; exact List.not_mem_nil
  simp only [eligibleIdx, List.mem_filter, List.mem_range, not_and] at this
  have := this hj
  rw [List.getElem?_eq_getElem hj, hjb] at this
  simpa using this

/-- guards under which a `none` from the strategy means "nobody eligible": no wrap-around of
the 64-bit rotation counter within one turn, gauges below MaxInt32 -/
def Guard (s : Strat) : Prop :=
  (s.kind = .rr → s.cur + s.pool.length < two64) ∧
  (s.kind = .lc → ∀ b ∈ s.pool, b.conns < maxInt32)

theorem next_sound (s : Strat) (now : Nat) (key : Bytes) (i : Nat)
    (h : (s.next now key).2 = some i) : ∃ b, s.pool[i]? = some b ∧ b.eligible now = true := by
  cases hk : s.kind <;> simp only [Strat.next, hk] at h
  · exact rrPick_sound s.pool now s.cur i h
  · obtain ⟨b, h1, h2, _⟩ := (lcPick_spec s.pool now).1 i h; exact ⟨b, h1, h2⟩
  · split at h
    · simp at h
    · exact (wrrPick_spec s.pool s.ids s.lastEl now).1 i h
  · exact (choice_valid s.pool now key).1 i h
  · exact (choice_valid s.pool now key).2.1 i h

theorem next_complete (s : Strat) (now : Nat) (key : Bytes) (hg : Guard s)
    (h : (s.next now key).2 = none) : ∀ b ∈ s.pool, b.eligible now = false := by
  cases hk : s.kind <;> simp only [Strat.next, hk] at h
  · exact rrPick_complete s.pool now s.cur (hg.1 hk) h
  · intro b hb
    obtain ⟨j, hj, hjb⟩ := List.getElem_of_mem hb
    by_cases he : b.eligible now = true
    · have := (lcPick_spec s.pool now).2 h j b (by rw [List.getElem?_eq_getElem hj, hjb]) he
      have := hg.2 hk b hb
      omega
    · simpa using he
  · split at h
    · rename_i h0
      have : s.pool = [] := List.length_eq_zero_iff.mp h0
      intro b hb; rw [this] at hb; cases hb
    · exact (wrrPick_spec s.pool s.ids s.lastEl now).2 h
  · by_cases hne : eligibleIdx s.pool now = []
    · exact eligibleIdx_nil s.pool now hne
    · have := ((choice_valid s.pool now key).2.2 hne).1
      rw [h] at this; simp at this
  · by_cases hne : eligibleIdx s.pool now = []
    · exact eligibleIdx_nil s.pool now hne
    · have := ((choice_valid s.pool now key).2.2 hne).2
      rw [h] at this; simp at this

/-- health fields of the backends are untouched by a strategy step, slot by slot -/
def sameHealth (a b : List Backend) : Prop :=
  a.length = b.length ∧ ∀ (i : Nat) (x y : Backend), a[i]? = some x → b[i]? = some y → x.healthy = y.healthy ∧ x.until_ = y.until_

theorem sameHealth_refl (a : List Backend) : sameHealth a a :=
  ⟨rfl, fun i x y hx hy => by rw [hx] at hy; cases hy; exact ⟨rfl, rfl⟩⟩

theorem sameHealth_trans (a b c : List Backend) (h1 : sameHealth a b) (h2 : sameHealth b c) : sameHealth a c := by
  refine ⟨h1.1.trans h2.1, ?_⟩
  intro i x z hx hz
  have hlt : i < b.length := by rw [← h1.1]; exact (List.getElem?_eq_some_iff.mp hx).1
  have hy := List.getElem?_eq_getElem hlt
  have e1 := h1.2 i x _ hx hy
  have e2 := h2.2 i _ z hy hz
  exact ⟨e1.1.trans e2.1, e1.2.trans e2.2⟩

theorem wrrReset_sameHealth (pool : List Backend) (ids lastEl : List Nat) (now : Nat) :
    sameHealth (wrrReset pool ids lastEl now) pool := by
  simp only [wrrReset]
  split
  · exact sameHealth_refl _
  · constructor
    · simp
    · intro i x y hx hy
      simp only [List.getElem?_map, hy, Option.map_some, Option.some.injEq] at hx
      subst hx; exact ⟨rfl, rfl⟩

theorem wrrPickCore_sameHealth (pool : List Backend) (now : Nat) : sameHealth (wrrPickCore pool now).1 pool := by
  have hb : sameHealth (wrrBump pool now) pool := by
    constructor
    · simp [wrrBump]
    · intro i x y hx hy
      simp only [wrrBump, List.getElem?_map, hy, Option.map_some, Option.some.injEq] at hx
      subst hx
      split <;> exact ⟨rfl, rfl⟩
  simp only [wrrPickCore]
  split
  · exact hb
  · rename_i r c _
    constructor
    · simp [hb.1]
    · intro i x y hx hy
      rw [List.getElem?_modify] at hx
      cases hbi : (wrrBump pool now)[i]? with
      | none => simp [hbi] at hx
      | some z =>
        have hz := hb.2 i z y hbi hy
        by_cases hri : r = i
        · simp [hbi, hri] at hx
          subst hx
          exact hz
        · simp [hbi, hri] at hx
          subst hx
          exact hz

theorem wrrPick_sameHealth (pool : List Backend) (ids lastEl : List Nat) (now : Nat) :
    sameHealth (wrrPick pool ids lastEl now).1 pool :=
  sameHealth_trans _ _ _ (wrrPickCore_sameHealth _ now) (wrrReset_sameHealth pool ids lastEl now)

theorem next_sameHealth (s : Strat) (now : Nat) (key : Bytes) : sameHealth (s.next now key).1.pool s.pool := by
  cases hk : s.kind <;> simp only [Strat.next, hk]
  · exact sameHealth_refl _
  · exact sameHealth_refl _
  · split
    · exact sameHealth_refl _
    · exact wrrPick_sameHealth s.pool s.ids s.lastEl now
  · exact sameHealth_refl _
  · exact sameHealth_refl _

theorem eligible_of_sameHealth (x y : Backend) (now : Nat) (h : x.healthy = y.healthy ∧ x.until_ = y.until_) :
    x.eligible now = y.eligible now := by
  simp [Backend.eligible, h.1, h.2]

theorem zipBack_getElem (pool : List Obj) (bs : List Backend) (i : Nat) (o : Obj) (b : Backend)
    (ho : pool[i]? = some o) (hb : bs[i]? = some b) : (zipBack pool bs)[i]? = some { o with b := b } := by
  simp [zipBack, List.getElem?_zipWith, ho, hb]

/-- `IsBackendHealthy` answers true for an eligible backend (flipping the flag if its window elapsed) -/
theorem isHealthyAt_eligible (y : Sys) (i now : Nat) (o : Obj) (ho : y.pool[i]? = some o)
    (he : o.b.eligible now = true) : (isHealthyAt y i now).2 = true := by
  simp only [isHealthyAt, ho]
  by_cases hh : o.b.healthy = true
  · simp [hh]
  · simp only [hh, Bool.false_eq_true, if_false]
    have hx : expired o.b now = true := by
      simp only [Backend.eligible, hh, Bool.false_or] at he
      simp only [expired]
      cases hu : o.b.until_ with
      | none => simp [hu] at he
      | some u => simpa [hu] using he
    simp [hx]

/-- one pick suffices: `findHealthyBackend` returns what the strategy's first pick returns -/
theorem findBackend_first (y : Sys) (now : Nat) (key : Bytes) (fuel : Nat) :
    (findBackend y now key (fuel + 1)).2 = (y.strat.next now key).2 := by
  simp only [findBackend]
  cases hr : (y.strat.next now key).2 with
  | none => simp
  | some i =>
    simp only []
    obtain ⟨b, hb, he⟩ := next_sound y.strat now key i hr
    have hsh := next_sameHealth y.strat now key
    -- the object in slot i after writing the strategy's pool back
    have hbi : (y.pool.map (·.b))[i]? = some b := hb
    rw [List.getElem?_map] at hbi
    cases ho : y.pool[i]? with
    | none => simp [ho] at hbi
    | some o =>
      simp only [ho, Option.map_some, Option.some.injEq] at hbi
      have hlen : i < (y.strat.next now key).1.pool.length := by
        rw [hsh.1]; simp only [Sys.strat, Sys.backends, List.length_map]
        exact (List.getElem?_eq_some_iff.mp ho).1
      have hb' := List.getElem?_eq_getElem hlen
      have hz := zipBack_getElem y.pool (y.strat.next now key).1.pool i o _ ho hb'
      have hel : ((y.strat.next now key).1.pool[i]).eligible now = true := by
        rw [eligible_of_sameHealth _ b now (hsh.2 i _ b hb' hb)]; exact he
      have := isHealthyAt_eligible
        { y with pool := zipBack y.pool (y.strat.next now key).1.pool, cur := (y.strat.next now key).1.cur,
                 lastEl := (y.strat.next now key).1.lastEl }
        i now _ hz hel
      simp [this]

end Helios.LB

namespace Helios.LB
open Helios

/-- a strategy step keeps every backend's name in its slot -/
theorem next_name (s : Strat) (now : Nat) (key : Bytes) (i : Nat) (x y : Backend)
    (hx : s.pool[i]? = some x) (hy : (s.next now key).1.pool[i]? = some y) : y.name = x.name := by
  cases hk : s.kind <;> simp only [Strat.next, hk] at hy
  · rw [hx] at hy; cases hy; rfl
  · rw [hx] at hy; cases hy; rfl
  · split at hy
    · rw [hx] at hy; cases hy; rfl
    · simp only [wrrPick, wrrPickCore] at hy
      have hreset : ∀ z, (wrrReset s.pool s.ids s.lastEl now)[i]? = some z → z.name = x.name := by
        intro z hz
        simp only [wrrReset] at hz
        split at hz
        · rw [hx] at hz; cases hz; rfl
        · simp only [List.getElem?_map, hx, Option.map_some, Option.some.injEq] at hz
          subst hz; rfl
      have hbump : ∀ z, (wrrBump (wrrReset s.pool s.ids s.lastEl now) now)[i]? = some z → z.name = x.name := by
        intro z hz
        simp only [wrrBump, List.getElem?_map] at hz
        cases hr : (wrrReset s.pool s.ids s.lastEl now)[i]? with
        | none => simp [hr] at hz
        | some w =>
          simp only [hr, Option.map_some, Option.some.injEq] at hz
          have := hreset w hr
          subst hz; split <;> exact this
      split at hy
      · exact hbump y hy
      · rename_i r c _
        rw [List.getElem?_modify] at hy
        cases hbi : (wrrBump (wrrReset s.pool s.ids s.lastEl now) now)[i]? with
        | none => simp [hbi] at hy
        | some z =>
          have := hbump z hbi
          by_cases hri : r = i <;> simp [hbi, hri] at hy <;> subst hy <;> exact this
  · rw [hx] at hy; cases hy; rfl
  · rw [hx] at hy; cases hy; rfl

/-- `IsBackendHealthy` keeps the object in the examined slot (name, identity) -/
theorem isHealthyAt_slot (y : Sys) (i now : Nat) (o : Obj) (ho : y.pool[i]? = some o) :
    ∃ o', (isHealthyAt y i now).1.pool[i]? = some o' ∧ o'.b.name = o.b.name ∧ o'.id = o.id := by
  have hlt : i < y.pool.length := (List.getElem?_eq_some_iff.mp ho).1
  simp only [isHealthyAt, ho]
  by_cases hh : o.b.healthy = true
  · simp only [hh, if_true]; exact ⟨o, ho, rfl, rfl⟩
  · simp only [hh, Bool.false_eq_true, if_false]
    by_cases hx : expired o.b now = true
    · simp only [hx, if_true]; exact ⟨_, List.getElem?_set_self hlt, rfl, rfl⟩
    · simp only [hx, Bool.false_eq_true, if_false]; exact ⟨o, ho, rfl, rfl⟩

end Helios.LB
