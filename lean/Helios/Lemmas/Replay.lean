import Helios.Lemmas.Hdr
/-
C01: replaying a response that one net/http server put on the wire into another net/http
server reproduces it (Base is idempotent under "copy headers, status, body").
-/
namespace Helios.Proxy
open Helios Helios.Http

/-- body bytes carried by plain pieces (the expression `Base.view` uses) -/
def sumLen (ps : List Piece) : Nat :=
  ps.foldl (fun a p => a + p.rawLen) 0

theorem sumLen_foldl (ps : List Piece) (n : Nat) :
    ps.foldl (fun a p => a + p.rawLen) n = n + sumLen ps := by
  induction ps generalizing n with
  | nil => simp [sumLen]
  | cons p t ih =>
    simp only [sumLen, List.foldl_cons]
    rw [ih, ih (0 + _)]
    omega

theorem sumLen_append (a b : List Piece) : sumLen (a ++ b) = sumLen a + sumLen b := by
  simp only [sumLen, List.foldl_append]
  rw [sumLen_foldl]; rfl

theorem sumLen_single (c : Chunk) : sumLen [.raw c] = c.1 := by simp [sumLen, Piece.rawLen]

/-- a response as one net/http server puts it on the wire -/
structure WireOK (v : View) (head : Bool) : Prop where
  distinct : Distinct v.hdr
  final : ¬ (v.status ≥ 100 ∧ v.status < 200)
  raw : ∀ p ∈ v.pieces, ∃ c : Chunk, p = .raw c ∧ c.1 ≠ 0
  nobody : head = true ∨ bodyAllowed v.status = false → v.pieces = []
  bound : ∀ n, parseNat? (v.hdr.get "Content-Length") = some n → sumLen v.pieces ≤ n
  short : v.short = (match parseNat? (v.hdr.get "Content-Length") with
            | some n => bodyAllowed v.status && !head && decide (sumLen v.pieces < n)
            | none => false)
  s304 : v.status = 304 → NoKey v.hdr "Content-Type" ∧ NoKey v.hdr "Content-Length"
  s204 : v.status = 204 → NoKey v.hdr "Content-Length"

theorem run_append (b : Base) (x y : List Op) : Base.run b (x ++ y) = Base.run (Base.run b x) y := by
  simp [Base.run, List.foldl_append]

theorem run_cons (b : Base) (o : Op) (y : List Op) : Base.run b (o :: y) = Base.run (b.step o) y := by
  simp [Base.run]

theorem run_setAll : ∀ (h : Hdr) (b : Base), Base.run b (setAll h) = { b with hdr := setFold b.hdr h }
  | [], b => by simp [setAll, Base.run, setFold]
  | kv :: t, b => by
    have := run_setAll t (b.step (.setH kv.1 kv.2))
    simp only [setAll, List.map_cons] at this ⊢
    rw [run_cons, this]
    simp [Base.step, setFold]

/-- copying the body into a committed response whose declared length admits it -/
theorem run_copy : ∀ (ps : List Piece) (t : Base) (st : Nat),
    t.status = some st → t.head = false → bodyAllowed st = true →
    (∀ p ∈ ps, ∃ c : Chunk, p = .raw c ∧ c.1 ≠ 0) →
    t.written = sumLen t.pieces →
    (∀ n, t.declared = some n → sumLen t.pieces + sumLen ps ≤ n) →
    let r := Base.run t (copyPieces ps)
    r.status = some st ∧ r.snap = t.snap ∧ r.declared = t.declared ∧ r.head = false ∧
    r.pieces = t.pieces ++ ps ∧ r.gzOpaque = t.gzOpaque ∧
    ((∀ n ∈ t.flushes, n ∈ r.flushes) ∧
     (∀ n, t.pieces.length < n → n ≤ t.pieces.length + ps.length → n ∈ r.flushes))
  | [], t, st, hs, hh, _, _, _, _ => by
    simp only [copyPieces, Base.run, List.foldl_nil, hs, hh, List.append_nil, List.length_nil, Nat.add_zero, true_and]
    exact ⟨fun n hn => hn, fun n h1 h2 => by omega⟩
  | p :: rest, t, st, hs, hh, hba, hraw, hw, hb => by
    obtain ⟨c, rfl, hc⟩ := hraw p (List.mem_cons_self ..)
    have hraw' : ∀ p ∈ rest, ∃ c : Chunk, p = .raw c ∧ c.1 ≠ 0 := fun q hq => hraw q (List.mem_cons_of_mem _ hq)
    -- the Write is accepted
    have hcommit : t.commit 200 = t := by simp [Base.commit, hs]
    have hstep : (t.step (.w c)) = { t with written := t.written + c.1, pieces := t.pieces ++ [.raw c] } := by
      simp only [Base.step, hcommit, hc, if_false, hs, Option.getD_some, hba, Bool.not_true, Bool.false_eq_true, hh]
      cases hd : t.declared with
      | none => simp
      | some n =>
        have := hb n hd
        have hle : ¬ (t.written + c.1 > n) := by
          rw [hw]
          have : sumLen (Piece.raw c :: rest) = c.1 + sumLen rest := by
            have := sumLen_append [Piece.raw c] rest
            simpa [sumLen_single] using this
          omega
        simp [hle]
    have hfl : ∀ (u : Base), u.status = some st → (u.step .fl) = { u with flushes := u.flushes ++ [u.pieces.length] } := by
      intro u hu; simp [Base.step, Base.commit, hu]
    simp only [copyPieces, run_cons, hstep]
    rw [hfl _ (by simpa using hs)]
    have ih := run_copy rest { t with written := t.written + c.1, pieces := t.pieces ++ [.raw c], flushes := t.flushes ++ [(t.pieces ++ [Piece.raw c]).length] } st
      (by simpa using hs) (by simpa using hh) hba hraw'
      (by simp only []; rw [sumLen_append, sumLen_single, hw])
      (by
        intro n hn
        have := hb n (by simpa using hn)
        have h1 : sumLen (Piece.raw c :: rest) = c.1 + sumLen rest := by
          have := sumLen_append [Piece.raw c] rest
          simpa [sumLen_single] using this
        simp only []; rw [sumLen_append, sumLen_single]; omega)
    simp only [] at ih ⊢
    obtain ⟨i1, i2, i3, i4, i5, i6, i7, i8⟩ := ih
    refine ⟨i1, i2, i3, i4, ?_, i6, ?_, ?_⟩
    · rw [i5]; simp
    · intro n hn
      exact i7 n (List.mem_append_left _ hn)
    · intro n h1 h2
      simp only [List.length_append, List.length_cons, List.length_nil, Nat.zero_add] at i7 i8 h2 ⊢
      by_cases hn : n = t.pieces.length + 1
      · apply i7; rw [hn]; simp
      · apply i8 <;> omega

/-- the view of a committed response, from its fields -/
theorem view_of_fields (r : Base) (v : View) (H : Hdr)
    (c1 : r.status = some v.status) (c2 : r.snap = H) (c3 : r.declared = parseNat? (v.hdr.get "Content-Length"))
    (c4 : r.head = false) (c5 : r.pieces = v.pieces) (c6 : r.gzOpaque = 0)
    (hsup : (if v.status = 304 then (H.del "Content-Type").del "Content-Length"
             else if v.status = 204 then H.del "Content-Length" else H) = H)
    (hshort : v.short = (match parseNat? (v.hdr.get "Content-Length") with
        | some n => bodyAllowed v.status && decide (sumLen v.pieces < n)
        | none => false)) :
    r.view = { v with hdr := H } := by
  simp only [Base.view, Base.finish, Base.commit, c1, c2, c3, c4, c5, c6, Option.getD_some]
  rw [hsup]
  have : v = { status := v.status, hdr := v.hdr, pieces := v.pieces, short := v.short } := by cases v; rfl
  rw [this]
  simp only [View.mk.injEq, true_and]
  rw [hshort]
  simp only [sumLen]
  cases hp : parseNat? (v.hdr.get "Content-Length") with
  | none => simp
  | some n =>
    simp
    rfl

/-- **Replay.** Starting from an uncommitted response with header map `acc`, copying the wire
response `v` (headers, then further headers `extra`, status, body) yields exactly `v` with the
three header groups side by side. -/
theorem replay (head : Bool) (s0 : Base) (v : View) (acc extra : Hdr)
    (h1 : s0.status = none) (h2 : s0.pieces = []) (h3 : s0.gzOpaque = 0) (h4 : s0.head = head)
    (h5 : s0.hdr = acc) (h6 : s0.written = 0)
    (hv : WireOK v head) (hd : Distinct (acc ++ v.hdr ++ extra))
    (ha : NoKey acc "Content-Length" ∧ NoKey acc "Content-Type")
    (he : NoKey extra "Content-Length" ∧ NoKey extra "Content-Type") :
    (Base.run s0 (setAll v.hdr ++ setAll extra ++ [.wh v.status] ++ copyPieces v.pieces)).view =
      { v with hdr := acc ++ v.hdr ++ extra } := by
  -- headers
  have hA : Base.run s0 (setAll v.hdr ++ setAll extra) = { s0 with hdr := acc ++ v.hdr ++ extra } := by
    rw [run_append, run_setAll, run_setAll]
    simp only [h5]
    rw [setFold_distinct v.hdr acc (distinct_left _ _ hd), setFold_distinct extra (acc ++ v.hdr) hd]
  -- status
  let H := acc ++ v.hdr ++ extra
  have hcl : H.get "Content-Length" = v.hdr.get "Content-Length" := by
    show (acc ++ v.hdr ++ extra).get _ = _
    rw [get_append_left _ _ _ he.1, get_append_right _ _ _ ha.1]
  have hB : Base.run s0 (setAll v.hdr ++ setAll extra ++ [.wh v.status]) =
      { s0 with hdr := H, status := some v.status, snap := H, declared := parseNat? (v.hdr.get "Content-Length") } := by
    rw [run_append, hA]
    simp only [Base.run, List.foldl_cons, List.foldl_nil, Base.step, h1, Option.isSome_none, Bool.false_eq_true, if_false]
    rw [if_neg hv.final]
    simp only [Base.commit, h1]
    rw [hcl]
  rw [run_append, hB]
  -- body
  by_cases hbody : head = true ∨ bodyAllowed v.status = false
  · have hp := hv.nobody hbody
    simp only [hp, copyPieces, Base.run, List.foldl_nil, Base.view, Base.finish, Base.commit, h2, h3]
    have hshort := hv.short
    rw [hp] at hshort
    -- header suppression is the identity on an already suppressed map
    have hsup : (if v.status = 304 then (H.del "Content-Type").del "Content-Length"
                 else if v.status = 204 then H.del "Content-Length" else H) = H := by
      by_cases h304 : v.status = 304
      · have := hv.s304 h304
        have n1 : NoKey H "Content-Type" := nokey_append _ _ _ (nokey_append _ _ _ ha.2 this.1) he.2
        have n2 : NoKey H "Content-Length" := nokey_append _ _ _ (nokey_append _ _ _ ha.1 this.2) he.1
        rw [if_pos h304, del_nokey _ _ n1, del_nokey _ _ n2]
      · rw [if_neg h304]
        by_cases h204 : v.status = 204
        · have := hv.s204 h204
          have n2 : NoKey H "Content-Length" := nokey_append _ _ _ (nokey_append _ _ _ ha.1 this) he.1
          rw [if_pos h204, del_nokey _ _ n2]
        · rw [if_neg h204]
    simp only [Option.getD_some]
    rw [hsup]
    have : v = { status := v.status, hdr := v.hdr, pieces := [], short := v.short } := by
      cases v; simp_all
    rw [this]
    simp only [View.mk.injEq, true_and]
    rw [hshort]
    simp only [h4, sumLen, List.foldl_nil]
    cases parseNat? (v.hdr.get "Content-Length") <;> simp [H] <;> rfl
  · have hh : head = false := by
      cases head with
      | false => rfl
      | true => exact absurd (Or.inl rfl) hbody
    have hba : bodyAllowed v.status = true := by
      cases hb : bodyAllowed v.status with
      | true => rfl
      | false => exact absurd (Or.inr hb) hbody
    have hc := run_copy v.pieces
      { s0 with hdr := H, status := some v.status, snap := H, declared := parseNat? (v.hdr.get "Content-Length") }
      v.status rfl (by simp [h4, hh]) hba hv.raw (by simp [h2, h6, sumLen])
      (by intro n hn; simp only [h2, sumLen, List.foldl_nil, Nat.zero_add]; exact hv.bound n hn)
    simp only [] at hc
    obtain ⟨c1, c2, c3, c4, c5, c6, _⟩ := hc
    have hne304 : v.status ≠ 304 := by
      intro e; rw [e] at hba; simp [bodyAllowed] at hba
    have hne204 : v.status ≠ 204 := by
      intro e; rw [e] at hba; simp [bodyAllowed] at hba
    apply view_of_fields _ v H c1 c2 c3 c4 (by rw [c5]; simp [h2]) (by rw [c6]; simpa using h3)
    · rw [if_neg hne304, if_neg hne204]
    · rw [hv.short]; simp [hba, hh, sumLen]

/-- state after headers and status have been copied -/
theorem replay_head (head : Bool) (s0 : Base) (v : View) (acc extra : Hdr)
    (h1 : s0.status = none) (h5 : s0.hdr = acc)
    (hv : WireOK v head) (hd : Distinct (acc ++ v.hdr ++ extra))
    (ha : NoKey acc "Content-Length") (he : NoKey extra "Content-Length") :
    Base.run s0 (setAll v.hdr ++ setAll extra ++ [.wh v.status]) =
      { s0 with hdr := acc ++ v.hdr ++ extra, status := some v.status, snap := acc ++ v.hdr ++ extra,
                declared := parseNat? (v.hdr.get "Content-Length") } := by
  have hA : Base.run s0 (setAll v.hdr ++ setAll extra) = { s0 with hdr := acc ++ v.hdr ++ extra } := by
    rw [run_append, run_setAll, run_setAll]
    simp only [h5]
    rw [setFold_distinct v.hdr acc (distinct_left _ _ hd), setFold_distinct extra (acc ++ v.hdr) hd]
  have hcl : (acc ++ v.hdr ++ extra).get "Content-Length" = v.hdr.get "Content-Length" := by
    rw [get_append_left _ _ _ he, get_append_right _ _ _ ha]
  rw [run_append, hA]
  simp only [Base.run, List.foldl_cons, List.foldl_nil, Base.step, h1, Option.isSome_none, Bool.false_eq_true, if_false]
  rw [if_neg hv.final]
  simp only [Base.commit, h1]
  rw [hcl]

/-- **Streaming.** In the replayed exchange every body piece is followed by a Flush: after the
n-th piece has been written, n pieces are on the wire. -/
theorem replay_flushes (head : Bool) (s0 : Base) (v : View) (acc extra : Hdr)
    (h1 : s0.status = none) (h2 : s0.pieces = []) (h4 : s0.head = head)
    (h5 : s0.hdr = acc) (h6 : s0.written = 0)
    (hv : WireOK v head) (hd : Distinct (acc ++ v.hdr ++ extra))
    (ha : NoKey acc "Content-Length") (he : NoKey extra "Content-Length") :
    ∀ n, 1 ≤ n → n ≤ v.pieces.length →
      n ∈ (Base.run s0 (setAll v.hdr ++ setAll extra ++ [.wh v.status] ++ copyPieces v.pieces)).flushes := by
  intro n hn1 hn2
  rw [run_append, replay_head head s0 v acc extra h1 h5 hv hd ha he]
  by_cases hbody : head = true ∨ bodyAllowed v.status = false
  · have hp := hv.nobody hbody
    rw [hp] at hn2; simp at hn2; omega
  · have hh : head = false := by
      cases head with
      | false => rfl
      | true => exact absurd (Or.inl rfl) hbody
    have hba : bodyAllowed v.status = true := by
      cases hb : bodyAllowed v.status with
      | true => rfl
      | false => exact absurd (Or.inr hb) hbody
    have hc := run_copy v.pieces
      { s0 with hdr := acc ++ v.hdr ++ extra, status := some v.status, snap := acc ++ v.hdr ++ extra,
                declared := parseNat? (v.hdr.get "Content-Length") }
      v.status rfl (by simp [h4, hh]) hba hv.raw (by simp [h2, h6, sumLen])
      (by intro n hn; simp only [h2, sumLen, List.foldl_nil, Nat.zero_add]; exact hv.bound n hn)
    simp only [] at hc
    obtain ⟨_, _, _, _, _, _, _, c8⟩ := hc
    apply c8 n
    · simp only [h2, List.length_nil]; omega
    · simp only [h2, List.length_nil]; omega

end Helios.Proxy
