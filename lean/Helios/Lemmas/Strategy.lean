import Helios.Model.Strategy
/- Helper lemmas about the eligible sub-list used by the hash strategies. -/
namespace Helios.LB

theorem eligibleIdx_mem (pool : List Backend) (now i : Nat) (h : i ∈ eligibleIdx pool now) :
    ∃ b, pool[i]? = some b ∧ b.eligible now = true := by
  simp only [eligibleIdx, List.mem_filter, List.mem_range] at h
  obtain ⟨_, h2⟩ := h
  cases hb : pool[i]? with
  | none => simp [hb] at h2
  | some b => simp [hb] at h2; exact ⟨b, rfl, h2⟩

theorem eligibleIdx_append (pool : List Backend) (b : Backend) (now : Nat) :
    eligibleIdx (pool ++ [b]) now =
      eligibleIdx pool now ++ (if b.eligible now then [pool.length] else []) := by
  simp only [eligibleIdx, List.length_append, List.length_singleton, List.range_succ,
    List.filter_append]
  congr 1
  · apply List.filter_congr
    intro i hi
    simp only [List.mem_range] at hi
    rw [List.getElem?_append_left hi]
  · simp [List.filter]
    cases b.eligible now <;> simp

end Helios.LB

namespace Helios.LB

/-- eligibility and "inside an unhealthy window" are complementary -/
theorem eligible_iff_not_inWindow (b : Backend) (now : Nat) :
    b.eligible now = !b.inWindow now := by
  simp only [Backend.eligible, Backend.inWindow]
  cases b.healthy <;> cases b.until_ <;> simp
  rename_i u
  by_cases h : u < now <;> simp [h] <;> omega

/-! ### round robin -/

theorem rrLoop_sound (pool : List Backend) (now : Nat) (fuel : Nat) : ∀ (cur : Nat) (i : Nat),
    (rrLoop pool now fuel cur).2 = some i → ∃ b, pool[i]? = some b ∧ b.eligible now = true := by
  induction fuel with
  | zero => intro cur i h; simp [rrLoop] at h
  | succ f ih =>
    intro cur i h
    simp only [rrLoop] at h
    split at h
    · rename_i b hb
      split at h
      · rename_i he
        simp at h; subst h
        exact ⟨b, hb, he⟩
      · exact ih _ i h
    · simp at h

/-- without counter wrap-around, a failed loop has tried `cur+1 … cur+fuel` -/
theorem rrLoop_none (pool : List Backend) (now : Nat) (fuel : Nat) : ∀ (cur : Nat),
    cur + fuel < two64 → 0 < pool.length → (rrLoop pool now fuel cur).2 = none →
    ∀ k, 1 ≤ k → k ≤ fuel → ∀ b, pool[(cur + k) % pool.length]? = some b → b.eligible now = false := by
  induction fuel with
  | zero => intro cur _ _ _ k h1 h2; omega
  | succ f ih =>
    intro cur hw hn h k h1 h2 b hb
    have hmod : (cur + 1) % two64 = cur + 1 := Nat.mod_eq_of_lt (by omega)
    simp only [rrLoop, hmod] at h
    have hidx : (cur + 1) % pool.length < pool.length := Nat.mod_lt _ hn
    rw [List.getElem?_eq_getElem hidx] at h
    simp only [] at h
    by_cases he : (pool[(cur + 1) % pool.length]).eligible now = true
    · simp [he] at h
    · simp only [he, Bool.false_eq_true, if_false] at h
      by_cases hk : k = 1
      · subst hk
        rw [List.getElem?_eq_getElem hidx] at hb
        simp at hb; subst hb
        simpa using he
      · have := ih (cur + 1) (by omega) hn h (k - 1) (by omega) (by omega) b
        rw [show cur + 1 + (k - 1) = cur + k by omega] at this
        exact this hb

/-- every index is one of `n` consecutive counter values modulo `n` -/
theorem residues_cover (cur n j : Nat) (hj : j < n) : ∃ k, 1 ≤ k ∧ k ≤ n ∧ (cur + k) % n = j := by
  have hdm := Nat.div_add_mod cur n
  have hc : cur % n < n := Nat.mod_lt _ (by omega)
  generalize hcq : cur / n = q at *
  generalize hcr : cur % n = c at *
  by_cases h1 : c < j
  · refine ⟨j - c, by omega, by omega, ?_⟩
    rw [show cur + (j - c) = n * q + j by omega, Nat.mul_add_mod, Nat.mod_eq_of_lt hj]
  · by_cases h2 : c = j
    · refine ⟨n, by omega, by omega, ?_⟩
      rw [show cur + n = n * (q + 1) + j by rw [Nat.mul_add]; omega, Nat.mul_add_mod, Nat.mod_eq_of_lt hj]
    · refine ⟨n - c + j, by omega, by omega, ?_⟩
      rw [show cur + (n - c + j) = n * (q + 1) + j by rw [Nat.mul_add]; omega, Nat.mul_add_mod,
        Nat.mod_eq_of_lt hj]

theorem rrPick_sound (pool : List Backend) (now cur i : Nat) (h : (rrPick pool now cur).2 = some i) :
    ∃ b, pool[i]? = some b ∧ b.eligible now = true := by
  simp only [rrPick] at h
  split at h
  · simp at h
  · exact rrLoop_sound pool now _ cur i h

theorem rrPick_complete (pool : List Backend) (now cur : Nat) (hw : cur + pool.length < two64)
    (h : (rrPick pool now cur).2 = none) : ∀ b ∈ pool, b.eligible now = false := by
  intro b hb
  simp only [rrPick] at h
  split at h
  · rename_i h0
    have : pool = [] := List.length_eq_zero_iff.mp h0
    subst this; cases hb
  · rename_i h0
    have hn : 0 < pool.length := by omega
    obtain ⟨j, hj, hjb⟩ := List.getElem_of_mem hb
    obtain ⟨k, k1, k2, k3⟩ := residues_cover cur pool.length j hj
    apply rrLoop_none pool now pool.length cur hw hn h k k1 k2 b
    rw [k3, List.getElem?_eq_getElem hj, hjb]

/-! ### least connections -/

theorem lcScan_spec (now : Nat) (pool : List Backend) (bs : List Backend) :
    ∀ (i : Nat) (mn : Int) (sel : Option Nat), pool.drop i = bs →
    (∀ r, sel = some r → ∃ b, pool[r]? = some b ∧ b.eligible now = true ∧ b.conns = mn) →
    (∀ (j : Nat) (b : Backend), j < i → pool[j]? = some b → b.eligible now = true → mn ≤ b.conns) →
    (sel = none → mn = maxInt32) →
    (∀ r, lcScan now bs i mn sel = some r →
        ∃ b, pool[r]? = some b ∧ b.eligible now = true ∧
          ∀ (j : Nat) (b' : Backend), pool[j]? = some b' → b'.eligible now = true → b.conns ≤ b'.conns) ∧
    (lcScan now bs i mn sel = none →
        ∀ (j : Nat) (b' : Backend), pool[j]? = some b' → b'.eligible now = true → maxInt32 ≤ b'.conns) := by
  induction bs with
  | nil =>
    intro i mn sel hd hsel hmin hnone
    have hlen : pool.length ≤ i := by
      have := congrArg List.length hd
      simp at this; omega
    simp only [lcScan]
    constructor
    · intro r hr
      obtain ⟨b, h1, h2, h3⟩ := hsel r hr
      refine ⟨b, h1, h2, ?_⟩
      intro j b' hj he
      have hjl : j < pool.length := (List.getElem?_eq_some_iff.mp hj).1
      rw [h3]; exact hmin j b' (by omega) hj he
    · intro hr j b' hj he
      have hjl : j < pool.length := (List.getElem?_eq_some_iff.mp hj).1
      rw [← hnone hr]; exact hmin j b' (by omega) hj he
  | cons b bs ih =>
    intro i mn sel hd hsel hmin hnone
    have hi : pool[i]? = some b := by
      have : (pool.drop i)[0]? = some b := by rw [hd]; rfl
      simpa using this
    have hd' : pool.drop (i + 1) = bs := by
      have := congrArg List.tail hd
      simpa [List.tail_drop] using this
    simp only [lcScan]
    by_cases hc : (b.eligible now && decide (b.conns < mn)) = true
    · simp only [hc, if_true]
      simp only [Bool.and_eq_true, decide_eq_true_eq] at hc
      apply ih (i + 1) b.conns (some i) hd'
      · intro r hr; simp at hr; subst hr; exact ⟨b, hi, hc.1, rfl⟩
      · intro j b' hj hb' he
        by_cases hji : j = i
        · subst hji; rw [hi] at hb'; simp at hb'; subst hb'; exact Int.le_refl _
        · have := hmin j b' (by omega) hb' he; omega
      · intro h; simp at h
    · simp only [hc, Bool.false_eq_true, if_false]
      apply ih (i + 1) mn sel hd' hsel
      · intro j b' hj hb' he
        by_cases hji : j = i
        · subst hji; rw [hi] at hb'; simp at hb'; subst hb'
          simp only [Bool.and_eq_true, decide_eq_true_eq, not_and] at hc
          have := hc he; omega
        · exact hmin j b' (by omega) hb' he
      · exact hnone

theorem lcPick_spec (pool : List Backend) (now : Nat) :
    (∀ r, lcPick pool now = some r →
        ∃ b, pool[r]? = some b ∧ b.eligible now = true ∧
          ∀ (j : Nat) (b' : Backend), pool[j]? = some b' → b'.eligible now = true → b.conns ≤ b'.conns) ∧
    (lcPick pool now = none →
        ∀ (j : Nat) (b' : Backend), pool[j]? = some b' → b'.eligible now = true → maxInt32 ≤ b'.conns) := by
  apply lcScan_spec now pool pool 0 maxInt32 none (by simp)
  · intro r h; simp at h
  · intro j b h; omega
  · intro _; rfl

/-! ### smooth weighted round robin: who is chosen -/

theorem wrrBump_eligible (pool : List Backend) (now : Nat) (i : Nat) :
    ((wrrBump pool now)[i]?).map (·.eligible now) = (pool[i]?).map (·.eligible now) := by
  simp only [wrrBump, List.getElem?_map]
  cases pool[i]? with
  | none => rfl
  | some b =>
    simp only [Option.map_some]
    by_cases h : b.eligible now = true
    · simp only [h, if_true]; simpa [Backend.eligible] using h
    · simp [h]

theorem wrrBest_spec (now : Nat) (pool : List Backend) (bs : List Backend) :
    ∀ (i : Nat) (best : Option (Nat × Int)), pool.drop i = bs →
    (∀ (r : Nat) (c : Int), best = some (r, c) → ∃ b, pool[r]? = some b ∧ b.eligible now = true) →
    (best = none → ∀ (j : Nat) (b : Backend), j < i → pool[j]? = some b → b.eligible now = false) →
    (∀ (r : Nat) (c : Int), wrrBest now bs i best = some (r, c) → ∃ b, pool[r]? = some b ∧ b.eligible now = true) ∧
    (wrrBest now bs i best = none → ∀ (j : Nat) (b : Backend), pool[j]? = some b → b.eligible now = false) := by
  induction bs with
  | nil =>
    intro i best hd hb hn
    have hlen : pool.length ≤ i := by
      have := congrArg List.length hd
      simp at this; omega
    simp only [wrrBest]
    refine ⟨hb, fun h j b hj => hn h j b ?_ hj⟩
    have := (List.getElem?_eq_some_iff.mp hj).1; omega
  | cons b bs ih =>
    intro i best hd hb hn
    have hi : pool[i]? = some b := by
      have : (pool.drop i)[0]? = some b := by rw [hd]; rfl
      simpa using this
    have hd' : pool.drop (i + 1) = bs := by
      have := congrArg List.tail hd
      simpa [List.tail_drop] using this
    simp only [wrrBest]
    by_cases he : b.eligible now = true
    · simp only [he, if_true]
      cases best with
      | none =>
        simp only []
        apply ih (i + 1) _ hd'
        · intro r c h; simp at h; obtain ⟨rfl, _⟩ := h; exact ⟨b, hi, he⟩
        · intro h; simp at h
      | some p =>
        obtain ⟨r0, c0⟩ := p
        simp only []
        split
        · apply ih (i + 1) _ hd'
          · intro r c h; simp at h; obtain ⟨rfl, _⟩ := h; exact ⟨b, hi, he⟩
          · intro h; simp at h
        · apply ih (i + 1) _ hd' hb
          · intro h; simp at h
    · simp only [he, Bool.false_eq_true, if_false]
      apply ih (i + 1) best hd' hb
      intro h j b' hj hb'
      by_cases hji : j = i
      · subst hji; rw [hi] at hb'; simp at hb'; subst hb'; simpa using he
      · exact hn h j b' (by omega) hb'

theorem wrrPickCore_spec (pool : List Backend) (now : Nat) :
    (∀ i, (wrrPickCore pool now).2 = some i → ∃ b, pool[i]? = some b ∧ b.eligible now = true) ∧
    ((wrrPickCore pool now).2 = none → ∀ b ∈ pool, b.eligible now = false) := by
  have hs := wrrBest_spec now (wrrBump pool now) (wrrBump pool now) 0 none (by simp)
    (by intro r c h; simp at h) (by intro _ j b h; omega)
  constructor
  · intro i h
    simp only [wrrPickCore] at h
    split at h
    · simp at h
    · rename_i r c hbest
      simp at h; subst h
      obtain ⟨b, hb1, hb2⟩ := hs.1 r c hbest
      have := wrrBump_eligible pool now r
      rw [hb1] at this
      cases hp : pool[r]? with
      | none => simp [hp] at this
      | some b0 => simp [hp, hb2] at this; exact ⟨b0, rfl, this⟩
  · intro h b hb
    simp only [wrrPickCore] at h
    split at h
    · rename_i hbest
      obtain ⟨j, hj, hjb⟩ := List.getElem_of_mem hb
      have hlen : j < (wrrBump pool now).length := by simpa [wrrBump] using hj
      have h2 := hs.2 hbest j ((wrrBump pool now)[j]) (List.getElem?_eq_getElem hlen)
      have := wrrBump_eligible pool now j
      rw [List.getElem?_eq_getElem hlen, List.getElem?_eq_getElem hj] at this
      simp only [Option.map_some, Option.some.injEq] at this
      rw [hjb] at this
      rw [← this]; exact h2
    · simp at h

/-- the reset only touches the running weights -/
theorem wrrReset_getElem (pool : List Backend) (ids lastEl : List Nat) (now i : Nat) :
    (wrrReset pool ids lastEl now)[i]? = (pool[i]?).map (fun b => { b with cw := ((wrrReset pool ids lastEl now)[i]?.map (·.cw)).getD 0 }) := by
  simp only [wrrReset]
  split
  · cases pool[i]? <;> simp
  · simp only [List.getElem?_map]; cases pool[i]? <;> simp

theorem wrrReset_eligible (pool : List Backend) (ids lastEl : List Nat) (now i : Nat) :
    ((wrrReset pool ids lastEl now)[i]?).map (·.eligible now) = (pool[i]?).map (·.eligible now) := by
  rw [wrrReset_getElem]
  cases pool[i]? <;> simp [Backend.eligible]

theorem wrrPick_spec (pool : List Backend) (ids lastEl : List Nat) (now : Nat) :
    (∀ i, (wrrPick pool ids lastEl now).2 = some i → ∃ b, pool[i]? = some b ∧ b.eligible now = true) ∧
    ((wrrPick pool ids lastEl now).2 = none → ∀ b ∈ pool, b.eligible now = false) := by
  have hs := wrrPickCore_spec (wrrReset pool ids lastEl now) now
  constructor
  · intro i h
    obtain ⟨b, hb1, hb2⟩ := hs.1 i h
    have := wrrReset_eligible pool ids lastEl now i
    rw [hb1] at this
    cases hp : pool[i]? with
    | none => simp [hp] at this
    | some b0 => simp [hp, hb2] at this; exact ⟨b0, rfl, this⟩
  · intro h b hb
    obtain ⟨j, hj, hjb⟩ := List.getElem_of_mem hb
    have hlen : j < (wrrReset pool ids lastEl now).length := by
      simp only [wrrReset]; split <;> simpa using hj
    have h2 := hs.2 h _ (List.getElem_mem hlen)
    have := wrrReset_eligible pool ids lastEl now j
    rw [List.getElem?_eq_getElem hlen, List.getElem?_eq_getElem hj] at this
    simp only [Option.map_some, Option.some.injEq] at this
    rw [hjb] at this
    rw [← this]; exact h2

end Helios.LB
