import Helios.Model.Strategy
/- Helper lemmas about the eligible sub-list used by the hash strategies. -/
namespace Helios.LB

theorem eligibleIdx_mem (pool : List Backend) (now i : Nat) (h : i ∈ eligibleIdx pool now) :
    ∃ b, pool[i]? = some b ∧ b.eligible now = true := by
  simp only [eligibleIdx, List.mem_filter, List.mem_range] at h
  obtain ⟨_, h2⟩ := h
  cases hb : pool[i]? with
  | none => simp [hb] at h2
  | some b => simp [hb] at h2; exact ⟨b, rfl, h2⟩

theorem eligibleIdx_append (pool : List Backend) (b : Backend) (now : Nat) :
    eligibleIdx (pool ++ [b]) now =
      eligibleIdx pool now ++ (if b.eligible now then [pool.length] else []) := by
  simp only [eligibleIdx, List.length_append, List.length_singleton, List.range_succ,
    List.filter_append]
  congr 1
  · apply List.filter_congr
    intro i hi
    simp only [List.mem_range] at hi
    rw [List.getElem?_append_left hi]
  · simp [List.filter]
    cases b.eligible now <;> simp

end Helios.LB
