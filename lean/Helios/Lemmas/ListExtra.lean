import Helios.Model.LB
/- Small list lemmas for swap-with-last removal. -/
namespace Helios.LB

theorem set_dropLast_perm_eraseIdx {α : Type} (l : List α) (i : Nat) (x : α) (hlt : i < l.length)
    (hl : l.getLast? = some x) : ((l.set i x).dropLast).Perm (l.eraseIdx i) := by
  obtain ⟨ys, rfl⟩ := List.getLast?_eq_some_iff.mp hl
  by_cases hi : i < ys.length
  · rw [List.set_append_left i x hi, List.dropLast_concat, List.eraseIdx_append_of_lt_length hi]
    rw [List.set_eq_take_append_cons_drop, if_pos hi, List.eraseIdx_eq_take_drop_succ]
    -- take i ++ x :: drop (i+1)  ~  (take i ++ drop (i+1)) ++ [x]
    refine List.perm_middle.trans ?_
    exact (List.perm_append_singleton x _).symm
  · have hi' : i = ys.length := by simp at hlt; omega
    subst hi'
    have hset : (ys ++ [x]).set ys.length x = ys ++ [x] := by
      rw [List.set_append]; simp
    rw [hset, List.dropLast_concat, List.eraseIdx_append_of_length_le (Nat.le_refl _)]
    simp

theorem eraseIdx_name_absent (l : List Obj) (i : Nat) (hlt : i < l.length)
    (hn : (l.map (·.b.name)).Nodup) (o : Obj) (ho : o ∈ l.eraseIdx i) (he : o.b.name = (l[i]).b.name) : False := by
  induction l generalizing i with
  | nil => simp at hlt
  | cons a as ih =>
    simp only [List.map_cons, List.nodup_cons] at hn
    cases i with
    | zero =>
      simp only [List.eraseIdx_cons_zero, List.getElem_cons_zero] at ho he
      exact hn.1 (List.mem_map.mpr ⟨o, ho, he⟩)
    | succ j =>
      simp only [List.eraseIdx_cons_succ, List.getElem_cons_succ, List.mem_cons] at ho he
      rcases ho with rfl | ho
      · have hlt' : j < as.length := by simp at hlt; omega
        exact hn.1 (List.mem_map.mpr ⟨as[j], List.getElem_mem hlt', he.symm⟩)
      · exact ih j (by simp at hlt; omega) hn.2 ho he

theorem mem_eraseIdx_of_ne (l : List Obj) (i : Nat) (hlt : i < l.length) (o : Obj) (ho : o ∈ l)
    (hne : o ≠ l[i]) : o ∈ l.eraseIdx i := by
  induction l generalizing i with
  | nil => simp at hlt
  | cons a as ih =>
    cases i with
    | zero =>
      simp only [List.eraseIdx_cons_zero, List.getElem_cons_zero] at hne ⊢
      rcases List.mem_cons.mp ho with h | h
      · exact absurd h hne
      · exact h
    | succ j =>
      simp only [List.eraseIdx_cons_succ, List.getElem_cons_succ] at hne ⊢
      rcases List.mem_cons.mp ho with h | h
      · exact h ▸ List.mem_cons_self ..
      · exact List.mem_cons_of_mem _ (ih j (by simp at hlt; omega) h hne)

end Helios.LB
