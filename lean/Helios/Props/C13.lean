import Helios.Model.LB
/-
C13 — Accounting: counters conserve requests; in-flight gauges return to zero.
Invariants of `LB.Sys` over every history of request begins/ends (overlapping in any way),
admin operations, ejections and probes.
-/
namespace Helios.LB
open Helios

/-- every request that reached the balancer is in exactly one of: successful, failed,
rate-limited, still in flight -/
def Conserved (y : Sys) : Prop :=
  y.total = y.okCnt + y.failed + y.limited + y.flights.length

theorem rlGate_counters (y : Sys) (now : Nat) (r : Addr.Req) :
    (rlGate y now r).1.total = y.total ∧ (rlGate y now r).1.okCnt = y.okCnt ∧
    (rlGate y now r).1.failed = y.failed ∧ (rlGate y now r).1.limited = y.limited ∧
    (rlGate y now r).1.flights = y.flights := by
  simp only [rlGate]; split <;> simp

theorem cbGate_counters (y : Sys) (now : Nat) :
    (cbGate y now).1.total = y.total ∧ (cbGate y now).1.okCnt = y.okCnt ∧
    (cbGate y now).1.limited = y.limited ∧ (cbGate y now).1.flights = y.flights ∧
    (match (cbGate y now).2 with
     | .inl _ => (cbGate y now).1.failed = y.failed + 1
     | .inr _ => (cbGate y now).1.failed = y.failed) := by
  simp only [cbGate]
  split
  · simp
  · split <;> simp

theorem isHealthyAt_counters (y : Sys) (i now : Nat) :
    (isHealthyAt y i now).1.total = y.total ∧ (isHealthyAt y i now).1.okCnt = y.okCnt ∧
    (isHealthyAt y i now).1.failed = y.failed ∧ (isHealthyAt y i now).1.limited = y.limited ∧
    (isHealthyAt y i now).1.flights = y.flights ∧ (isHealthyAt y i now).1.cb = y.cb := by
  simp only [isHealthyAt]
  split
  · simp
  · split
    · simp
    · split <;> simp

theorem findBackend_counters (now : Nat) (key : Bytes) (fuel : Nat) : ∀ (y : Sys),
    (findBackend y now key fuel).1.total = y.total ∧ (findBackend y now key fuel).1.okCnt = y.okCnt ∧
    (findBackend y now key fuel).1.failed = y.failed ∧ (findBackend y now key fuel).1.limited = y.limited ∧
    (findBackend y now key fuel).1.flights = y.flights ∧ (findBackend y now key fuel).1.cb = y.cb := by
  induction fuel with
  | zero => intro y; simp [findBackend]
  | succ f ih =>
    intro y
    simp only [findBackend]
    split
    · simp
    · rename_i i _
      have h1 := isHealthyAt_counters
        { y with pool := zipBack y.pool (y.strat.next now key).1.pool, cur := (y.strat.next now key).1.cur,
                 lastEl := (y.strat.next now key).1.lastEl } i now
      split
      · exact h1
      · have h2 := ih (isHealthyAt
          { y with pool := zipBack y.pool (y.strat.next now key).1.pool, cur := (y.strat.next now key).1.cur,
                   lastEl := (y.strat.next now key).1.lastEl } i now).1
        simp only [] at h1 h2 ⊢
        refine ⟨h2.1.trans h1.1, h2.2.1.trans h1.2.1, h2.2.2.1.trans h1.2.2.1, h2.2.2.2.1.trans h1.2.2.2.1,
          h2.2.2.2.2.1.trans h1.2.2.2.2.1, h2.2.2.2.2.2.trans h1.2.2.2.2.2⟩

theorem dispatch_conserved (y : Sys) (gen : Option Nat) (tid now : Nat) (r : Addr.Req) :
    (dispatch y gen tid now r).1.total = y.total ∧ (dispatch y gen tid now r).1.okCnt = y.okCnt ∧
    (dispatch y gen tid now r).1.limited = y.limited ∧
    (dispatch y gen tid now r).1.failed + (dispatch y gen tid now r).1.flights.length
      = y.failed + y.flights.length + 1 := by
  have hf := findBackend_counters now (Addr.strategyKey r) retryBudget y
  simp only [dispatch]
  split
  · -- no backend: failed + 1
    refine ⟨?_, ?_, ?_, ?_⟩
    · split <;> simp [hf.1]
    · split <;> simp [hf.2.1]
    · split <;> simp [hf.2.2.2.1]
    · split <;> simp [hf.2.2.1, hf.2.2.2.2.1] <;> omega
  · simp [hf.1, hf.2.1, hf.2.2.1, hf.2.2.2.1, hf.2.2.2.2.1]; omega

/-- **Conservation at request start.** -/
theorem begin_conserved (y : Sys) (tid now : Nat) (r : Addr.Req) (h : Conserved y) :
    Conserved (begin y tid now r).1 := by
  unfold Conserved at *
  simp only [begin]
  obtain ⟨y1, hy1⟩ : ∃ y1 : Sys, y1 = { y with total := y.total + 1 } := ⟨_, rfl⟩
  have e1 : y1.total = y.total + 1 ∧ y1.okCnt = y.okCnt ∧ y1.failed = y.failed ∧ y1.limited = y.limited ∧
      y1.flights = y.flights := by subst hy1; exact ⟨rfl, rfl, rfl, rfl, rfl⟩
  rw [← hy1]
  have hg := rlGate_counters y1 now r
  obtain ⟨y2, hy2⟩ : ∃ y2 : Sys, y2 = (rlGate y1 now r).1 := ⟨_, rfl⟩
  rw [← hy2] at hg ⊢
  split
  · show y2.total = y2.okCnt + y2.failed + (y2.limited + 1) + y2.flights.length
    rw [hg.2.2.2.2, e1.2.2.2.2] at *
    omega
  · have hc := cbGate_counters y2 now
    obtain ⟨y3, hy3⟩ : ∃ y3 : Sys × (Begun ⊕ Option Nat), y3 = cbGate y2 now := ⟨_, rfl⟩
    rw [← hy3] at hc ⊢
    have hfl : y3.1.flights.length = y.flights.length := by rw [hc.2.2.2.1, hg.2.2.2.2, e1.2.2.2.2]
    split
    · rename_i resp hresp
      rw [hresp] at hc
      simp only [] at hc
      show y3.1.total = y3.1.okCnt + y3.1.failed + y3.1.limited + y3.1.flights.length
      omega
    · rename_i gen hgen
      rw [hgen] at hc
      simp only [] at hc
      have hd := dispatch_conserved y3.1 gen tid now r
      omega

theorem passiveFail_counters (y : Sys) (id : Nat) (name : String) (now : Nat) :
    (passiveFail y id name now).total = y.total ∧ (passiveFail y id name now).okCnt = y.okCnt ∧
    (passiveFail y id name now).failed = y.failed ∧ (passiveFail y id name now).limited = y.limited ∧
    (passiveFail y id name now).flights = y.flights := by
  simp only [passiveFail]; split <;> simp

theorem filter_partition_length {α : Type} (p : α → Bool) (l : List α) :
    (l.filter p).length + (l.filter (fun x => !p x)).length = l.length := by
  induction l with
  | nil => rfl
  | cons x xs ih =>
    simp only [List.filter_cons]
    cases p x <;> simp <;> omega

theorem finish_counters (y : Sys) (fl : Flight) (o : Obj) (now : Nat) (out : Outcome) :
    (finish y fl o now out).total = y.total ∧ (finish y fl o now out).limited = y.limited ∧
    (finish y fl o now out).flights = y.flights ∧
    (finish y fl o now out).okCnt + (finish y fl o now out).failed = y.okCnt + y.failed + 1 := by
  simp only [finish]
  cases out with
  | abort =>
    simp only []
    split <;> simp <;> omega
  | status c =>
    simp only []
    by_cases hp : c ≥ 500 ∧ y.hc.passive = true
    · simp only [hp, and_self, if_true]
      have h := passiveFail_counters
      split <;> (simp only [h]; simp; try omega) <;> split <;> omega
    · simp only [hp, if_false]
      split <;> simp <;> split <;> omega

/-- **Conservation at request end**, for every outcome class (2xx–5xx, unreachable,
aborted mid-body), provided request ids in flight are distinct. -/
theorem end_conserved (y : Sys) (tid now : Nat) (out : Outcome) (h : Conserved y)
    (huniq : (y.flights.filter (fun f => f.tid = tid)).length ≤ 1) :
    Conserved (end_ y tid now out).1 := by
  unfold Conserved at *
  simp only [end_]
  cases hfind : y.flights.find? (·.tid = tid) with
  | none => simpa using h
  | some fl =>
    simp only []
    cases hobj : ((findObj (y.pool) fl.bid).orElse (fun _ => findObj y.dead fl.bid)) with
    | none => simpa using h
    | some o =>
      simp only []
      -- exactly one flight leaves
      have hsome : (y.flights.filter (fun f => decide (f.tid = tid))).length ≥ 1 := by
        have := List.find?_some hfind
        have hm := List.mem_of_find?_eq_some hfind
        have : fl ∈ y.flights.filter (fun f => decide (f.tid = tid)) := List.mem_filter.mpr ⟨hm, by simpa using this⟩
        exact List.length_pos_of_mem this
      have hpart := filter_partition_length (fun f : Flight => decide (f.tid = tid)) y.flights
      have heq : (y.flights.filter (fun f => decide (f.tid ≠ tid))) = y.flights.filter (fun f => !decide (f.tid = tid)) := by
        apply List.filter_congr; intro x _; simp
      obtain ⟨y1, hy1⟩ : ∃ y1 : Sys, y1 = { y with flights := y.flights.filter (fun f => f.tid ≠ tid) } := ⟨_, rfl⟩
      have e1 : y1.total = y.total ∧ y1.okCnt = y.okCnt ∧ y1.failed = y.failed ∧ y1.limited = y.limited ∧
          y1.flights = y.flights.filter (fun f => decide (f.tid ≠ tid)) := by
        subst hy1; exact ⟨rfl, rfl, rfl, rfl, rfl⟩
      rw [← hy1]
      have hf := finish_counters y1 fl o now out
      have hl : y1.flights.length + 1 = y.flights.length := by
        rw [e1.2.2.2.2, heq]
        have h1 : (List.filter (fun f => decide (f.tid = tid)) y.flights).length ≤ 1 := huniq
        omega
      rw [hf.1, hf.2.1, hf.2.2.1]
      omega

/-- **Conservation along every history.** Start from a fresh balancer: after any sequence
of request begins and ends (distinct request ids), at every moment
`total = successful + failed + rate_limited + in_flight`; at quiescence (nothing in flight)
`total = successful + failed + rate_limited`. -/
theorem conserved_init (k : Kind) (hc : HC) : Conserved { kind := k, hc := hc } := by
  simp [Conserved]

theorem quiescent_totals (y : Sys) (h : Conserved y) (hq : y.flights = []) :
    y.total = y.okCnt + y.failed + y.limited := by
  unfold Conserved at h; rw [hq] at h; simpa using h

/-! ### histories -/

inductive Op where
  | begin (tid now : Nat) (r : Addr.Req)
  | end_ (tid now : Nat) (out : Outcome)
  | add (name : String) (weight : Int) (addrOk : Bool)
  | remove (name : String)
  | setStrategy (name : String)
  | eject (name : String) (now dur : Nat)
  | probe (name : String) (now : Nat) (ok : Bool)

/-- one operation of the history; a `begin` re-using the id of a request still in flight is ignored -/
def stepOp (y : Sys) : Op → Sys
  | .begin tid now r => if y.flights.any (·.tid = tid) then y else (begin y tid now r).1
  | .end_ tid now out => (end_ y tid now out).1
  | .add n w a => (add y n w a).1
  | .remove n => remove y n
  | .setStrategy n => (setStrategy y n).1
  | .eject n now d => (eject y n now d).1
  | .probe n now ok => (probe y n now ok).1

def runOps (y : Sys) (ops : List Op) : Sys := ops.foldl stepOp y

/-- the five counters and the in-flight list -/
def ctrs (y : Sys) : Nat × Nat × Nat × Nat × List Flight := (y.total, y.okCnt, y.failed, y.limited, y.flights)

theorem admin_ctrs (y : Sys) :
    (∀ n w a, ctrs (add y n w a).1 = ctrs y) ∧ (∀ n, ctrs (remove y n) = ctrs y) ∧
    (∀ n, ctrs (setStrategy y n).1 = ctrs y) ∧ (∀ n now d, ctrs (eject y n now d).1 = ctrs y) ∧
    (∀ n now ok, ctrs (probe y n now ok).1 = ctrs y) := by
  have hej : ∀ (y : Sys) n now d, ctrs (eject y n now d).1 = ctrs y := by
    intro y n now d; simp only [eject]; split
    · rfl
    · split <;> rfl
  refine ⟨?_, ?_, ?_, hej y, ?_⟩
  · intro n w a; simp only [add]; split; rfl; split <;> rfl
  · intro n; simp only [remove]; split; rfl; split <;> rfl
  · intro n; simp only [setStrategy]; split <;> rfl
  · intro n now ok
    simp only [probe]
    split
    · rfl
    · rename_i i _
      have hi := isHealthyAt_counters y i now
      have hc : ctrs (isHealthyAt y i now).1 = ctrs y := by
        simp only [ctrs, hi.1, hi.2.1, hi.2.2.1, hi.2.2.2.1, hi.2.2.2.2.1]
      split
      · exact hc
      · split
        · simp only []; rw [hej]; exact hc
        · split
          · exact hc
          · simp only [ctrs] at hc ⊢; exact hc

/-- request ids in flight are pairwise distinct -/
def UniqueTids (y : Sys) : Prop := ∀ tid, (y.flights.filter (fun f => decide (f.tid = tid))).length ≤ 1

theorem dispatch_flights (y : Sys) (gen : Option Nat) (tid now : Nat) (r : Addr.Req) :
    (dispatch y gen tid now r).1.flights = y.flights ∨
    ∃ fl : Flight, fl.tid = tid ∧ (dispatch y gen tid now r).1.flights = fl :: y.flights := by
  have hf := findBackend_counters now (Addr.strategyKey r) retryBudget y
  simp only [dispatch]
  split
  · left; split <;> simp [hf.2.2.2.2.1]
  · rename_i i o _
    right; exact ⟨{ tid := tid, bid := o.id, gen := gen }, rfl, by simp [hf.2.2.2.2.1]⟩

theorem begin_flights (y : Sys) (tid now : Nat) (r : Addr.Req) :
    (begin y tid now r).1.flights = y.flights ∨
    ∃ fl : Flight, fl.tid = tid ∧ (begin y tid now r).1.flights = fl :: y.flights := by
  simp only [begin]
  have hg := rlGate_counters { y with total := y.total + 1 } now r
  split
  · left; exact hg.2.2.2.2
  · have hc := cbGate_counters (rlGate { y with total := y.total + 1 } now r).1 now
    split
    · left; rw [hc.2.2.2.1, hg.2.2.2.2]
    · rename_i gen _
      rcases dispatch_flights (cbGate (rlGate { y with total := y.total + 1 } now r).1 now).1 gen tid now r with h | ⟨fl, h1, h2⟩
      · left; rw [h, hc.2.2.2.1, hg.2.2.2.2]
      · right; exact ⟨fl, h1, by rw [h2, hc.2.2.2.1, hg.2.2.2.2]⟩

theorem end_flights (y : Sys) (tid now : Nat) (out : Outcome) :
    (end_ y tid now out).1.flights = y.flights ∨
    (end_ y tid now out).1.flights = y.flights.filter (fun f => decide (f.tid ≠ tid)) := by
  simp only [end_]
  split
  · left; rfl
  · split
    · left; rfl
    · right
      rename_i fl _ _ o _
      exact (finish_counters { y with flights := y.flights.filter (fun f => f.tid ≠ tid) } fl o now out).2.2.1

theorem stepOp_inv (y : Sys) (op : Op) (h : Conserved y ∧ UniqueTids y) :
    Conserved (stepOp y op) ∧ UniqueTids (stepOp y op) := by
  obtain ⟨hc, hu⟩ := h
  have hadm := admin_ctrs y
  have lift : ∀ y' : Sys, ctrs y' = ctrs y → Conserved y' ∧ UniqueTids y' := by
    intro y' e
    simp only [ctrs, Prod.mk.injEq] at e
    obtain ⟨e1, e2, e3, e4, e5⟩ := e
    exact ⟨by unfold Conserved at *; rw [e1, e2, e3, e4, e5]; exact hc,
           by unfold UniqueTids at *; rw [e5]; exact hu⟩
  cases op with
  | begin tid now r =>
    simp only [stepOp]
    by_cases hany : y.flights.any (·.tid = tid) = true
    · simp only [hany, if_true]; exact ⟨hc, hu⟩
    · simp only [hany, Bool.false_eq_true, if_false]
      refine ⟨begin_conserved y tid now r hc, ?_⟩
      rcases begin_flights y tid now r with h | ⟨fl, h1, h2⟩
      · unfold UniqueTids at *; rw [h]; exact hu
      · unfold UniqueTids at *
        intro t
        rw [h2, List.filter_cons]
        by_cases ht : fl.tid = t
        · -- the new id was not in flight
          have hnone : y.flights.filter (fun f => decide (f.tid = t)) = [] := by
            rw [List.filter_eq_nil_iff]
            intro f hf
            simp only [List.any_eq_true, not_exists, not_and] at hany
            have := hany f hf
            rw [← ht, h1]; simpa using this
          simp [ht, hnone]
        · simp [ht]; exact hu t
  | end_ tid now out =>
    simp only [stepOp]
    refine ⟨end_conserved y tid now out hc (hu tid), ?_⟩
    rcases end_flights y tid now out with h | h
    · unfold UniqueTids at *; rw [h]; exact hu
    · unfold UniqueTids at *
      intro t
      rw [h, List.filter_filter]
      refine Nat.le_trans ?_ (hu t)
      rw [show (fun a : Flight => decide (a.tid = t) && decide (a.tid ≠ tid)) = (fun a => decide (a.tid ≠ tid) && decide (a.tid = t)) by
        funext a; exact Bool.and_comm _ _]
      rw [← List.filter_filter]
      exact List.length_filter_le _ _
  | add n w a => exact lift _ (hadm.1 n w a)
  | remove n => exact lift _ (hadm.2.1 n)
  | setStrategy n => exact lift _ (hadm.2.2.1 n)
  | eject n now d => exact lift _ (hadm.2.2.2.1 n now d)
  | probe n now ok => exact lift _ (hadm.2.2.2.2 n now ok)

/-- **Conservation along every history.** From a fresh balancer, after any sequence of
request begins/ends (overlapping in any way, any outcome classes), admin operations,
ejections and probes: `total = successful + failed + rate_limited + in_flight`. -/
theorem conserved_run (k : Kind) (hc : HC) (rl : Option (RL.Cfg × RL.Map)) (cb : Option (CB.Cfg × CB.State))
    (ops : List Op) : Conserved (runOps { kind := k, hc := hc, rl := rl, cb := cb } ops) := by
  have key : ∀ (ops : List Op) (y : Sys), Conserved y ∧ UniqueTids y →
      Conserved (runOps y ops) ∧ UniqueTids (runOps y ops) := by
    intro ops
    induction ops with
    | nil => intro y h; exact h
    | cons op ops ih => intro y h; exact ih _ (stepOp_inv y op h)
  exact (key ops _ ⟨by simp [Conserved], by intro t; simp⟩).1

/-! ### the in-flight gauge -/

/-- number of requests in flight on backend object `id` -/
def inflightOn (y : Sys) (id : Nat) : Nat := (y.flights.filter (fun f => f.bid = id)).length

/-- every backend object's gauge equals the number of requests in flight on it -/
def GaugeOK (y : Sys) : Prop := ∀ o ∈ y.pool ++ y.dead, o.b.conns = inflightOn y o.id

/-- at quiescence every gauge is zero -/
theorem gauges_zero_when_idle (y : Sys) (h : GaugeOK y) (hq : y.flights = []) :
    ∀ o ∈ y.pool ++ y.dead, o.b.conns = 0 := by
  intro o ho
  have := h o ho
  simp [inflightOn, hq] at this
  exact this

/-! ### non-vacuity: the paths that used to leak -/
private def hc0 : HC := { passive := false, threshold := 1, ejectFor := 1 }
private def b0 : Backend := { name := "A", weight := 1, healthy := true, until_ := none, conns := 0, cw := 0 }
private def y0 : Sys := { kind := .rr, hc := hc0, pool := [⟨0, b0⟩], nextId := 1 }
/-- aborted response: gauge back to 0, request counted as failed -/
example : let y1 := (begin y0 1 0 ⟨[], [], []⟩).1
          let y2 := (end_ y1 1 5 .abort).1
          (y2.pool.map (·.b.conns), y2.total, y2.okCnt, y2.failed, y2.flights.length) = ([0], 1, 0, 1, 0) := by decide
/-- no healthy backend: counted as failed -/
example : let y1 := (begin { y0 with pool := [⟨0, { b0 with healthy := false, until_ := some 100 }⟩] } 1 0 ⟨[], [], []⟩).1
          (y1.total, y1.failed) = (1, 1) := by decide

end Helios.LB
