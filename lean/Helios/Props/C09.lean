import Helios.Lemmas.RateLimiter
/-
C09 — Rate limiting: per-client token-bucket bound, isolation, refill.

Property theorems only (helper lemmas live in Helios/Lemmas/RateLimiter.lean).
All statements are about `RL.run`, the multi-client model of
internal/ratelimiter/ratelimiter.go, for every configuration with a positive refill
period, every number of clients, every time-ordered history of `Allow` calls and cleanup
passes, of any length.
-/
namespace Helios.RL

/-- **Window bound (sharp form).**  After *any* history `pre`, in any window of length `T`
(ops `win`, all within `[t, t+T]`) the number of admitted requests of any client `k`
satisfies `admitted · refill ≤ max · refill + refill − 1 + T`. -/
theorem window_bound_sharp (c : Cfg) (hR : 0 < c.refill) (k : String)
    (pre win : List Op) (t T : Nat)
    (hpre : TimedOps 0 t pre) (hwin : TimedOps t (t + T) win) :
    admitted k win (run c (run c Map.empty pre).1 win).2 * c.refill
      ≤ c.max * c.refill + c.refill - 1 + T := by
  have hinv0 : InvM c Map.empty 0 := fun _ => trivial
  have hinv : InvM c (run c Map.empty pre).1 t := run_inv c hR pre _ 0 t hinv0 hpre (Nat.zero_le _)
  rw [admitted_eq, (run_proj c k win _).2]
  have h := run1_phi c hR (proj k win) ((run c Map.empty pre).1 k) t (t + T) (hinv k)
    (timed_proj k win t (t + T) hwin) (by omega)
  have hp := phi_le c ((run c Map.empty pre).1 k) t hR
  omega

/-- **Window bound** as the property words it: at most `max_tokens + ⌊T/refill⌋ + 1`
admissions of one client in any interval of length `T`, for any arrival pattern. -/
theorem window_bound (c : Cfg) (hR : 0 < c.refill) (k : String)
    (pre win : List Op) (t T : Nat)
    (hpre : TimedOps 0 t pre) (hwin : TimedOps t (t + T) win) :
    admitted k win (run c (run c Map.empty pre).1 win).2 ≤ c.max + T / c.refill + 1 := by
  have h := window_bound_sharp c hR k pre win t T hpre hwin
  generalize admitted k win (run c (run c Map.empty pre).1 win).2 = a at *
  -- a·R ≤ max·R + R − 1 + T  and  T < (T/R + 1)·R
  have hT : T < (T / c.refill + 1) * c.refill := by
    have := Nat.lt_div_mul_add (a := T) hR
    rw [Nat.add_mul, Nat.one_mul]; omega
  have h3 : a * c.refill < (c.max + T / c.refill + 1 + 1) * c.refill := by
    have e : (c.max + T / c.refill + 1 + 1) * c.refill
        = c.max * c.refill + (T / c.refill + 1) * c.refill + c.refill := by
      simp only [Nat.add_mul, Nat.one_mul]; omega
    rw [e]; omega
  have := Nat.lt_of_mul_lt_mul_right h3
  omega

/-- **Burst bound.**  Requests arriving at one instant (`T = 0`): at most `max_tokens`
are admitted, after any history. -/
theorem burst_bound (c : Cfg) (hR : 0 < c.refill) (k : String)
    (pre win : List Op) (t : Nat)
    (hpre : TimedOps 0 t pre) (hwin : TimedOps t (t + 0) win) :
    admitted k win (run c (run c Map.empty pre).1 win).2 ≤ c.max := by
  have h := window_bound_sharp c hR k pre win t 0 hpre hwin
  generalize admitted k win (run c (run c Map.empty pre).1 win).2 = a at *
  have h3 : a * c.refill < (c.max + 1) * c.refill := by
    rw [Nat.add_mul, Nat.one_mul]; omega
  have := Nat.lt_of_mul_lt_mul_right h3
  omega

/-- **Isolation.**  What client `k` observes (the state of its bucket and the outcome of
each of its requests) is a function of its own requests and the cleanup ticks only:
deleting every other client's requests from the history changes nothing for `k`. -/
theorem isolation (c : Cfg) (k : String) (m : Map) (ops : List Op) :
    (run c m ops).1 k = (run1 c (m k) (proj k ops)).1 ∧
    outsFor k ops (run c m ops).2 = (run1 c (m k) (proj k ops)).2 :=
  run_proj c k ops m

/-- Isolation, frame form: one step of another client leaves `k`'s bucket untouched. -/
theorem isolation_frame (c : Cfg) (m : Map) (k k' : String) (now : Nat) (h : k' ≠ k) :
    (step c m (.allow k' now)).1 k = m k := by
  have h' : ¬ (k = k') := fun e => h e.symm
  simp [step, Map.set, h']

/-- **Fresh client.**  A client with no bucket (never seen, or cleaned up) gets its next
`max_tokens` requests admitted, whenever they arrive and whatever else happens. -/
theorem fresh_full (c : Cfg) (k : String) (m : Map) (ops : List Op) (t hi : Nat)
    (hk : m k = none) (ht : TimedOps t hi ops) :
    ∀ b ∈ (reqOuts (outsFor k ops (run c m ops).2)).take c.max, b = true := by
  rw [(run_proj c k ops m).2, hk]
  exact run1_avail c (proj k ops) none t hi c.max trivial (timed_proj k ops t hi ht) (Nat.le_refl _)

/-- **Idle refill.**  If, after any history ending at `t₁`, client `k` sends nothing for
`n` refill periods (only cleanup passes `idle` happen), then at least `min n max_tokens`
of its next requests are admitted. -/
theorem idle_refill (c : Cfg) (hR : 0 < c.refill) (k : String)
    (pre idle rest : List Op) (t1 n hi : Nat)
    (hpre : TimedOps 0 t1 pre)
    (hidle : ∀ o ∈ idle, ∃ t, o = .cleanup t)
    (hrest : TimedOps (t1 + n * c.refill) hi rest) :
    let m := (run c Map.empty pre).1
    ∀ b ∈ (reqOuts (outsFor k (idle ++ rest) (run c m (idle ++ rest)).2)).take (min n c.max),
      b = true := by
  intro m
  have hinv0 : InvM c Map.empty 0 := fun _ => trivial
  have hinv : Inv c (m k) t1 := run_inv c hR pre _ 0 t1 hinv0 hpre (Nat.zero_le _) k
  rw [(run_proj c k (idle ++ rest) m).2]
  have hproj : proj k (idle ++ rest) = proj k idle ++ proj k rest := by
    clear hidle
    induction idle with
    | nil => rfl
    | cons o os ih =>
      cases o with
      | allow k' t => simp only [List.cons_append, proj]; split <;> simp [ih]
      | cleanup t => simp [proj, ih]
  have hcl : ∀ e ∈ proj k idle, ∃ t, e = Ev.clean t := by
    clear hproj
    induction idle with
    | nil => intro e he; simp [proj] at he
    | cons o os ih =>
      obtain ⟨t, rfl⟩ := hidle o (List.mem_cons_self ..)
      intro e he
      simp only [proj, List.mem_cons] at he
      rcases he with rfl | he
      · exact ⟨t, rfl⟩
      · exact ih (fun o ho => hidle o (List.mem_cons_of_mem _ ho)) e he
  rw [hproj, run1_append, reqOuts_append, reqOuts_cleans c _ hcl, List.nil_append]
  -- after the idle period the bucket is the old one or gone; either way ≥ min n max available
  have hstate := run1_cleans c (proj k idle) hcl (m k)
  have hav : min n c.max ≤ avail c (run1 c (m k) (proj k idle)).1 (t1 + n * c.refill)
      ∧ Inv c (run1 c (m k) (proj k idle)).1 (t1 + n * c.refill) := by
    rcases hstate with h | h
    · rw [h]
      refine ⟨?_, inv_mono c _ t1 _ hinv (by omega)⟩
      cases hmk : m k with
      | none => simp [avail]; exact Nat.min_le_right _ _
      | some b =>
        rw [hmk] at hinv
        simp only [avail]
        rw [refill_tokens c b _ hinv.1]
        have hq : n ≤ (t1 + n * c.refill - b.last) / c.refill := by
          rw [Nat.le_div_iff_mul_le hR]
          have := hinv.2
          omega
        generalize (t1 + n * c.refill - b.last) / c.refill = q at *
        rw [Nat.min_def, Nat.min_def]
        split <;> split <;> omega
    · rw [h]; exact ⟨by simp [avail]; exact Nat.min_le_right _ _, trivial⟩
  exact run1_avail c (proj k rest) _ (t1 + n * c.refill) hi (min n c.max) hav.2
    (timed_proj k rest _ hi hrest) hav.1

/-! ### non-vacuity: concrete histories meeting the hypotheses, with the bound attained -/

private def cfgEx : Cfg := { max := 2, refill := 10, cutoff := 1000 }

/-- a 2-token bucket, period 10: three requests at t=0 (third rejected), one at t=10 -/
example : (run cfgEx Map.empty [.allow "a" 0, .allow "a" 0, .allow "a" 0, .allow "a" 10]).2
    = [some true, some true, some false, some true] := by decide

/-- window [0,10]: 3 admitted = max + ⌊10/10⌋ + 0 ≤ bound 4; hypotheses hold -/
example : TimedOps 0 0 [] ∧ TimedOps 0 (0 + 10) [.allow "a" 0, .allow "a" 0, .allow "a" 0, .allow "a" 10] := by
  simp [TimedOps, Op.time]

/-- the cleanup predicate is satisfiable and deletes: idle past the cutoff and refillable to full -/
example : shouldDelete cfgEx { tokens := 0, last := 0 } 1001 = true := by decide
example : shouldDelete cfgEx { tokens := 0, last := 0 } 1000 = false := by decide

end Helios.RL
