import Helios.Props.C04
import Helios.Props.C11
import Helios.Props.C13G
/-
C04 (mirror clause, along histories) — after EVERY history of request begins / ends (any overlap,
any outcome), adds, removes, strategy switches, ejections and probes, the metrics mirror never
reports "healthy" for a backend whose health flag is down: `mirror_ok_run`. (The admin listing
shows the flag itself.) Needs unique backend names — established by `add`, kept by everything
else (`nodup` below) — and unique object identities (`GInv`, C13G).
-/
namespace Helios.LB
open Helios

/-- what the mirror invariant looks at: name and health flag of every pooled backend, in order -/
def nh (l : List Obj) : List (String × Bool) := l.map (fun o => (o.b.name, o.b.healthy))
def bmh (y : Sys) (n : String) : Option Bool := (y.bm n).map (·.healthy)

structure MI (y : Sys) : Prop where
  mirror : ∀ p ∈ nh y.pool, p.2 = false → bmh y p.1 = some false
  nodup  : ((nh y.pool).map (·.1)).Nodup

theorem mi_mirrorOK (y : Sys) (h : MI y) : MirrorOK y := by
  intro o ho hf
  exact h.mirror (o.b.name, o.b.healthy) (List.mem_map.mpr ⟨o, ho, rfl⟩) hf

theorem names_eq (y : Sys) : names y = (nh y.pool).map (·.1) := by
  simp [names, nh, List.map_map, Function.comp]

theorem mi_of (y : Sys) (h1 : MirrorOK y) (h2 : NodupNames y) : MI y := by
  refine ⟨?_, by rw [← names_eq]; exact h2⟩
  intro p hp hf
  obtain ⟨o, ho, rfl⟩ := List.mem_map.mp hp
  exact h1 o ho hf

/-- same names and flags; every mirror entry unchanged or turned to "unhealthy" -/
theorem mi_mono (y y' : Sys) (hp : nh y'.pool = nh y.pool)
    (hb : ∀ n, bmh y' n = bmh y n ∨ bmh y' n = some false) (h : MI y) : MI y' := by
  refine ⟨?_, by rw [hp]; exact h.nodup⟩
  intro p hpm hf
  rw [hp] at hpm
  rcases hb p.1 with e | e
  · rw [e]; exact h.mirror p hpm hf
  · exact e

theorem bmh_bmUpd (bm : String → Option BM) (name : String) (f : BM → BM) (hf : ∀ m, (f m).healthy = m.healthy)
    (n : String) :
    ((bmUpd bm name f) n).map (·.healthy) = (bm n).map (·.healthy) ∨ ((bmUpd bm name f) n).map (·.healthy) = some false := by
  simp only [bmUpd]
  split
  · rename_i e
    subst e
    cases hbn : bm n with
    | none => right; simp [hf]
    | some m => left; simp [hf]
  · left; rfl

theorem nh_set (l : List Obj) (i : Nat) (o o' : Obj) (ho : l[i]? = some o)
    (hk : (o'.b.name, o'.b.healthy) = (o.b.name, o.b.healthy)) : nh (l.set i o') = nh l := by
  induction l generalizing i with
  | nil => simp
  | cons x xs ih =>
    cases i with
    | zero => simp only [List.getElem?_cons_zero, Option.some.injEq] at ho; subst ho; simp [nh, hk]
    | succ i =>
      simp only [List.getElem?_cons_succ] at ho
      have := ih i ho
      simp only [nh] at this ⊢
      simp only [List.set_cons_succ, List.map_cons, this]

/-! ### the strategies touch neither names nor flags -/

theorem map_modify_proj {α : Type} (f : Backend → α) (hf : ∀ b c, f { b with cw := c } = f b)
    (l : List Backend) (i : Nat) (g : Backend → Int) :
    (l.modify i (fun b => { b with cw := g b })).map f = l.map f := by
  induction l generalizing i with
  | nil => simp
  | cons x xs ih =>
    cases i with
    | zero => simp [hf]
    | succ i => simp only [List.modify_succ_cons, List.map_cons]; rw [ih]

theorem next_proj {α : Type} (f : Backend → α) (hf : ∀ b c, f { b with cw := c } = f b)
    (s : Strat) (now : Nat) (key : Bytes) : (s.next now key).1.pool.map f = s.pool.map f := by
  cases hk : s.kind <;> simp only [Strat.next, hk]
  · split
    · rfl
    · have hreset : (wrrReset s.pool s.ids s.lastEl now).map f = s.pool.map f := by
        simp only [wrrReset]
        split
        · rfl
        · simp only [List.map_map]
          apply List.map_congr_left
          intro b _; exact hf b 0
      have hbump : ∀ p : List Backend, (wrrBump p now).map f = p.map f := by
        intro p
        simp only [wrrBump, List.map_map]
        apply List.map_congr_left
        intro b _
        simp only [Function.comp]
        split
        · exact hf b _
        · rfl
      simp only [wrrPick, wrrPickCore]
      split
      · simp only []; rw [hbump, hreset]
      · simp only []; rw [map_modify_proj f hf, hbump, hreset]

theorem zipBack_nh : ∀ (pool : List Obj) (bs : List Backend),
    bs.map (fun b => (b.name, b.healthy)) = (pool.map (·.b)).map (fun b => (b.name, b.healthy)) →
    nh (zipBack pool bs) = nh pool
  | [], [], _ => rfl
  | [], _ :: _, h => by simp at h
  | _ :: _, [], h => by simp at h
  | o :: os, b :: bs, h => by
    simp only [List.map_cons, List.cons.injEq, Prod.mk.injEq] at h
    have ih := zipBack_nh os bs h.2
    simp only [nh, zipBack] at ih ⊢
    simp only [List.zipWith_cons_cons, List.map_cons, h.1.1, h.1.2, ih]

/-! ### begin -/

theorem nh_names (l : List Obj) : (nh l).map (·.1) = l.map (·.b.name) := by
  simp [nh, List.map_map, Function.comp]

theorem names_set (l : List Obj) (i : Nat) (o o' : Obj) (ho : l[i]? = some o) (hn : o'.b.name = o.b.name) :
    (l.set i o').map (·.b.name) = l.map (·.b.name) := by
  induction l generalizing i with
  | nil => simp
  | cons x xs ih =>
    cases i with
    | zero => simp only [List.getElem?_cons_zero, Option.some.injEq] at ho; subst ho; simp [hn]
    | succ i =>
      simp only [List.getElem?_cons_succ] at ho
      simp only [List.set_cons_succ, List.map_cons]
      rw [ih i ho]

theorem isHealthyAt_names (y : Sys) (i now : Nat) :
    (isHealthyAt y i now).1.pool.map (·.b.name) = y.pool.map (·.b.name) := by
  simp only [isHealthyAt]
  split
  · rfl
  · rename_i o ho
    split
    · rfl
    · split
      · exact names_set y.pool i o _ ho rfl
      · rfl

theorem mi_isHealthyAt (y : Sys) (i now : Nat) (h : MI y) : MI (isHealthyAt y i now).1 := by
  have hm := isHealthyAt_mirror y i now (mi_mirrorOK y h) (by unfold NodupNames; rw [names_eq]; exact h.nodup)
  apply mi_of _ hm
  unfold NodupNames names
  rw [isHealthyAt_names, ← nh_names]
  exact h.nodup

theorem mi_findBackend (now : Nat) (k : Bytes) : ∀ (fuel : Nat) (y : Sys), MI y → MI (findBackend y now k fuel).1
  | 0, _, h => h
  | fuel + 1, y, h => by
    have hz : nh (zipBack y.pool (y.strat.next now k).1.pool) = nh y.pool := by
      apply zipBack_nh
      have := next_proj (fun b => (b.name, b.healthy)) (fun _ _ => rfl) y.strat now k
      simpa [Sys.strat, Sys.backends] using this
    have h1 : MI { y with pool := zipBack y.pool (y.strat.next now k).1.pool, cur := (y.strat.next now k).1.cur,
                          lastEl := (y.strat.next now k).1.lastEl } :=
      mi_mono y _ hz (fun n => Or.inl rfl) h
    simp only [findBackend]
    split
    · exact h1
    · rename_i i _
      have h2 := mi_isHealthyAt _ i now h1
      split
      · exact h2
      · exact mi_findBackend now k fuel _ h2

theorem mi_dispatch (y : Sys) (gen : Option Nat) (tid now : Nat) (r : Addr.Req) (h : MI y) :
    MI (dispatch y gen tid now r).1 := by
  have hf := mi_findBackend now (Addr.strategyKey r) retryBudget y h
  simp only [dispatch]
  generalize findBackend y now (Addr.strategyKey r) retryBudget = f at hf
  cases hsel : f.2.bind (fun i => (f.1.pool[i]?).map (fun o => (i, o))) with
  | none =>
    simp only []
    refine mi_mono f.1 _ ?_ ?_ hf
    · split <;> rfl
    · intro n; left; split <;> rfl
  | some p =>
    obtain ⟨i, o⟩ := p
    simp only []
    have hio : f.1.pool[i]? = some o := by
      cases hf2 : f.2 with
      | none => rw [hf2] at hsel; simp at hsel
      | some j =>
        rw [hf2] at hsel
        simp only [Option.bind_some, Option.map_eq_some_iff] at hsel
        obtain ⟨o', ho', e⟩ := hsel
        simp only [Prod.mk.injEq] at e
        rw [← e.1, ← e.2]; exact ho'
    refine mi_mono f.1 _ ?_ ?_ hf
    · exact nh_set _ _ o _ hio rfl
    · intro n
      exact bmh_bmUpd f.1.bm o.b.name (fun m => { m with conns := o.b.conns + 1 }) (fun m => rfl) n

theorem mi_begin (y : Sys) (tid now : Nat) (r : Addr.Req) (h : MI y) : MI (begin y tid now r).1 := by
  have h0 : MI { y with total := y.total + 1 } := mi_mono y _ rfl (fun n => Or.inl rfl) h
  have hr := rlGate_shape { y with total := y.total + 1 } now r
  have hrb : (rlGate { y with total := y.total + 1 } now r).1.bm = y.bm := by
    simp only [rlGate]; split <;> rfl
  have h1 : MI (rlGate { y with total := y.total + 1 } now r).1 :=
    mi_mono _ _ (by rw [hr.1]) (fun n => Or.inl (by simp only [bmh, hrb])) h0
  simp only [begin]
  split
  · exact mi_mono (rlGate { y with total := y.total + 1 } now r).1 _ rfl (fun n => Or.inl rfl) h1
  · have hc := cbGate_shape (rlGate { y with total := y.total + 1 } now r).1 now
    have hcb : (cbGate (rlGate { y with total := y.total + 1 } now r).1 now).1.bm =
        (rlGate { y with total := y.total + 1 } now r).1.bm := by
      simp only [cbGate]
      split
      · rfl
      · split <;> rfl
    have h2 : MI (cbGate (rlGate { y with total := y.total + 1 } now r).1 now).1 :=
      mi_mono _ _ (by rw [hc.1]) (fun n => Or.inl (by simp only [bmh, hcb])) h1
    split
    · exact h2
    · exact mi_dispatch _ _ _ _ _ h2

/-! ### end -/

/-- the invariant as a predicate of the two fields it depends on -/
def MIpb (pool : List Obj) (bm : String → Option BM) : Prop :=
  (∀ p ∈ nh pool, p.2 = false → (bm p.1).map (·.healthy) = some false) ∧ ((nh pool).map (·.1)).Nodup

theorem mi_iff (y : Sys) : MI y ↔ MIpb y.pool y.bm :=
  ⟨fun h => ⟨h.mirror, h.nodup⟩, fun h => ⟨h.1, h.2⟩⟩

theorem nh_updObj (l : List Obj) (id : Nat) (g : Obj → Obj) (hg : ∀ o, ((g o).b.name, (g o).b.healthy) = (o.b.name, o.b.healthy)) :
    nh (updObj l id g) = nh l := by
  simp only [nh, updObj, List.map_map]
  apply List.map_congr_left
  intro o _
  simp only [Function.comp]
  split
  · exact hg o
  · rfl

theorem keep2 (pool : List Obj) (bm : String → Option BM) (bid : Nat) (name : String) (f1 f2 : BM → BM)
    (h1 : ∀ m, (f1 m).healthy = m.healthy) (h2 : ∀ m, (f2 m).healthy = m.healthy) (h : MIpb pool bm) :
    MIpb (updObj pool bid (fun o => { o with b := { o.b with conns := o.b.conns - 1 } }))
      (bmUpd (bmUpd bm name f1) name f2) := by
  have hnh := nh_updObj pool bid (fun o => { o with b := { o.b with conns := o.b.conns - 1 } }) (fun _ => rfl)
  refine ⟨?_, by rw [hnh]; exact h.2⟩
  intro p hp hf
  rw [hnh] at hp
  have h0 := h.1 p hp hf
  rcases bmh_bmUpd (bmUpd bm name f1) name f2 h2 p.1 with e | e
  · rw [e]
    rcases bmh_bmUpd bm name f1 h1 p.1 with e' | e'
    · rw [e']; exact h0
    · exact e'
  · exact e

theorem eject1 (pool : List Obj) (bm : String → Option BM) (bid now d : Nat) (name : String)
    (hname : ∀ x ∈ pool, x.id = bid → x.b.name = name) (h : MIpb pool bm) :
    MIpb (updObj pool bid (fun o => ejectObj o now d)) (bmUpd bm name (fun m => { m with healthy := false })) := by
  constructor
  · intro p hp hf
    by_cases hpn : p.1 = name
    · rw [hpn]; simp [bmUpd]
    · -- another name: its object was not touched, its mirror entry neither
      have hbm : (bmUpd bm name (fun m => { m with healthy := false }) p.1) = bm p.1 := by simp [bmUpd, hpn]
      rw [hbm]
      simp only [nh, updObj, List.map_map, List.mem_map, Function.comp] at hp
      obtain ⟨x, hx, rfl⟩ := hp
      by_cases hid : x.id = bid
      · exfalso
        apply hpn
        simp only [hid, if_true, ejectObj]
        exact hname x hx hid
      · simp only [hid, if_false] at hf ⊢
        exact h.1 (x.b.name, x.b.healthy) (List.mem_map.mpr ⟨x, hx, rfl⟩) hf
  · have : (nh (updObj pool bid (fun o => ejectObj o now d))).map (·.1) = (nh pool).map (·.1) := by
      simp only [nh, updObj, List.map_map]
      apply List.map_congr_left
      intro o _
      simp only [Function.comp]
      split <;> simp [ejectObj]
    rw [this]; exact h.2

/-- distinct identities: two pooled objects with the same identity are the same object -/
theorem same_of_id (y : Sys) (hg : GInv y) (a b : Obj) (ha : a ∈ y.pool) (hb : b ∈ y.pool) (e : a.id = b.id) : a = b := by
  have hp : (y.pool.map key).Pairwise (fun p q => p.1 ≠ q.1) := by
    have := hg.uniq
    simp only [keys, List.map_append] at this
    exact (List.pairwise_append.mp this).1
  rw [List.pairwise_map] at hp
  -- in a list with pairwise distinct identities, membership with equal identity forces equality
  have key' : ∀ (l : List Obj), l.Pairwise (fun p q => (key p).1 ≠ (key q).1) → ∀ a b, a ∈ l → b ∈ l → a.id = b.id → a = b := by
    intro l
    induction l with
    | nil => intro _ a b ha; cases ha
    | cons x xs ih =>
      intro hpw a b ha hb e
      rw [List.pairwise_cons] at hpw
      cases ha with
      | head =>
        cases hb with
        | head => rfl
        | tail _ hb' => exact absurd e (hpw.1 b hb')
      | tail _ ha' =>
        cases hb with
        | head => exact absurd e.symm (hpw.1 a ha')
        | tail _ hb' => exact ih hpw.2 a b ha' hb' e
  exact key' y.pool hp a b ha hb e

/-! `finish` in three stages -/

/-- gauge, counters and per-backend totals -/
def finA (y : Sys) (fl : Flight) (o : Obj) (out : Outcome) : Sys :=
  let name := o.b.name
  let conns' := o.b.conns - 1
  let dec := fun (o : Obj) => { o with b := { o.b with conns := o.b.conns - 1 } }
  let y := { y with pool := updObj y.pool fl.bid dec, dead := updObj y.dead fl.bid dec,
                    bm := bmUpd y.bm name (fun m => { m with conns := conns' }) }
  let success := match out with | .status c => decide (c < 500) | .abort => false
  let y := { y with okCnt := y.okCnt + (if success then 1 else 0), failed := y.failed + (if success then 0 else 1) }
  { y with bm := bmUpd y.bm name (fun m =>
              { m with total := m.total + 1, ok := m.ok + (if success then 1 else 0),
                       failed := m.failed + (if success then 0 else 1) }) }

/-- passive health accounting -/
def finB (y : Sys) (fl : Flight) (name : String) (now : Nat) (out : Outcome) : Sys :=
  match out with
  | .status c => if c ≥ 500 ∧ y.hc.passive then passiveFail y fl.bid name now else y
  | .abort => y

/-- the breaker hears about the outcome -/
def finC (y : Sys) (fl : Flight) (success : Bool) (now : Nat) : Sys :=
  match y.cb, fl.gen with
  | some (c, s), some g => { y with cb := some (c, CB.end_ c s g success now) }
  | _, _ => y

theorem finish_stages (y : Sys) (fl : Flight) (o : Obj) (now : Nat) (out : Outcome) :
    finish y fl o now out =
      finC (finB (finA y fl o out) fl o.b.name now out) fl
        (match out with | .status c => decide (c < 500) | .abort => false) now := rfl

theorem mi_finA (y : Sys) (fl : Flight) (o : Obj) (out : Outcome) (h : MI y) : MI (finA y fl o out) := by
  rw [mi_iff] at h ⊢
  exact keep2 y.pool y.bm fl.bid o.b.name (fun m => { m with conns := o.b.conns - 1 })
    (fun m => { m with total := m.total + 1,
                       ok := m.ok + (if (match out with | .status c => decide (c < 500) | .abort => false) then 1 else 0),
                       failed := m.failed + (if (match out with | .status c => decide (c < 500) | .abort => false) then 0 else 1) })
    (fun _ => rfl) (fun _ => rfl) h

theorem mi_finB (y : Sys) (fl : Flight) (name : String) (now : Nat) (out : Outcome)
    (hname : ∀ x ∈ y.pool, x.id = fl.bid → x.b.name = name) (h : MI y) : MI (finB y fl name now out) := by
  simp only [finB]
  split
  · split
    · simp only [passiveFail]
      split
      · rw [mi_iff] at h ⊢
        exact eject1 y.pool y.bm fl.bid now y.hc.ejectFor name hname h
      · exact mi_mono y _ rfl (fun n => Or.inl rfl) h
    · exact h
  · exact h

theorem mi_finC (y : Sys) (fl : Flight) (success : Bool) (now : Nat) (h : MI y) : MI (finC y fl success now) := by
  simp only [finC]
  split
  · exact mi_mono y _ rfl (fun n => Or.inl rfl) h
  · exact h

theorem mi_finish (y : Sys) (fl : Flight) (o : Obj) (now : Nat) (out : Outcome)
    (hname : ∀ x ∈ y.pool, x.id = fl.bid → x.b.name = o.b.name) (h : MI y) : MI (finish y fl o now out) := by
  rw [finish_stages]
  apply mi_finC
  apply mi_finB
  · -- the decremented objects keep identity and name
    intro x hx hid
    have hx' : x ∈ updObj y.pool fl.bid (fun o => { o with b := { o.b with conns := o.b.conns - 1 } }) := hx
    simp only [updObj, List.mem_map] at hx'
    obtain ⟨x0, hx0, rfl⟩ := hx'
    by_cases e : x0.id = fl.bid
    · simp only [e, if_true]; exact hname x0 hx0 e
    · simp only [e, if_false] at hid
  · exact mi_finA y fl o out h

theorem mi_end (y : Sys) (tid now : Nat) (out : Outcome) (hg : GInv y) (h : MI y) : MI (end_ y tid now out).1 := by
  simp only [end_]
  cases hfl : y.flights.find? (·.tid = tid) with
  | none => exact h
  | some fl =>
    simp only []
    cases ho : (findObj y.pool fl.bid).orElse (fun _ => findObj y.dead fl.bid) with
    | none => exact h
    | some o =>
      simp only []
      apply mi_finish
      · -- the object found is the one pooled object with that identity, if there is one
        intro x hx hid
        simp only [findObj] at ho
        cases hfp : y.pool.find? (fun o => decide (o.id = fl.bid)) with
        | none =>
          have := List.find?_eq_none.mp hfp x hx
          simp [hid] at this
        | some o' =>
          rw [hfp] at ho
          simp only [Option.orElse_some, Option.some.injEq] at ho
          subst ho
          have hm : o' ∈ y.pool := List.mem_of_find?_eq_some hfp
          have hio : o'.id = fl.bid := by simpa using List.find?_some hfp
          rw [same_of_id y hg x o' hx hm (by rw [hid, hio])]
      · exact mi_mono y _ rfl (fun n => Or.inl rfl) h

/-! ### admin and health operations -/

theorem mi_add (y : Sys) (name : String) (w : Int) (ok : Bool) (h : MI y) : MI (add y name w ok).1 := by
  have hnd := add_nodup y name w ok (by unfold NodupNames; rw [names_eq]; exact h.nodup)
  apply mi_of _ _ hnd
  intro o ho hf
  cases ok with
  | false => simp only [add, Bool.not_false, if_true] at ho ⊢; exact mi_mirrorOK y h o ho hf
  | true =>
    by_cases hdup : y.pool.any (·.b.name = name) = true
    · simp only [add, Bool.not_true, Bool.false_eq_true, if_false, hdup, if_true] at ho ⊢
      exact mi_mirrorOK y h o ho hf
    · simp only [add, Bool.not_true, Bool.false_eq_true, if_false, hdup] at ho ⊢
      simp only [List.mem_append, List.mem_singleton] at ho
      rcases ho with ho | rfl
      · -- an existing backend: its name differs from the new one, its mirror entry is untouched
        have hne : o.b.name ≠ name := by
          intro e
          apply hdup
          simp only [List.any_eq_true, decide_eq_true_eq]
          exact ⟨o, ho, e⟩
        have := mi_mirrorOK y h o ho hf
        simpa [bmUpd, hne] using this
      · simp at hf

theorem mi_remove (y : Sys) (name : String) (h : MI y) : MI (remove y name) := by
  have hsub := (remove_pool y name).1
  have hbm : (remove y name).bm = y.bm := by
    simp only [remove]; split; rfl; split <;> rfl
  apply mi_of
  · intro o ho hf
    have := mi_mirrorOK y h o (hsub o ho) hf
    rw [hbm]; exact this
  · unfold NodupNames names
    cases hi : y.pool.findIdx? (·.b.name = name) with
    | none =>
      have : (remove y name).pool = y.pool := by simp only [remove, hi]
      rw [this, ← nh_names]; exact h.nodup
    | some i =>
      have hlt : i < y.pool.length := (List.findIdx?_eq_some_iff_getElem.mp hi).1
      have hperm := (remove_pool y name).2 i _ hi (List.getElem?_eq_getElem hlt)
      have hp2 := hperm.map (·.b.name)
      rw [hp2.nodup_iff]
      have hsubl : ((y.pool.eraseIdx i).map (·.b.name)).Sublist (y.pool.map (·.b.name)) :=
        (List.eraseIdx_sublist y.pool i).map _
      have hnd : (y.pool.map (·.b.name)).Nodup := by rw [← nh_names]; exact h.nodup
      exact hnd.sublist hsubl

theorem mi_setStrategy (y : Sys) (name : String) (h : MI y) : MI (setStrategy y name).1 := by
  simp only [setStrategy]
  split
  · exact h
  · refine mi_mono y _ ?_ (fun n => Or.inl rfl) h
    simp [nh, List.map_map, Function.comp]

theorem mi_eject (y : Sys) (name : String) (now d : Nat) (h : MI y) : MI (eject y name now d).1 := by
  have hm := eject_mirror y name now d (mi_mirrorOK y h)
  apply mi_of _ hm
  unfold NodupNames names
  have : (eject y name now d).1.pool.map (·.b.name) = y.pool.map (·.b.name) := by
    simp only [eject]
    split
    · rfl
    · rename_i i _
      split
      · rfl
      · rename_i o ho
        exact names_set y.pool i o _ ho rfl
  rw [this, ← nh_names]; exact h.nodup

/-- a backend is marked healthy and its mirror entry follows in the same step -/
theorem mi_set_healthy (y : Sys) (i : Nat) (o : Obj) (name : String) (ho : y.pool[i]? = some o)
    (hn : o.b.name = name) (h : MI y) :
    MI { y with pool := y.pool.set i { o with b := { o.b with healthy := true } },
                bm := bmUpd y.bm name (fun m => { m with healthy := true }) } := by
  have hlt : i < y.pool.length := (List.getElem?_eq_some_iff.mp ho).1
  have hnames : (y.pool.set i { o with b := { o.b with healthy := true } }).map (·.b.name) = y.pool.map (·.b.name) :=
    names_set y.pool i o _ ho rfl
  have hnd : (y.pool.map (·.b.name)).Nodup := by rw [← nh_names]; exact h.nodup
  apply mi_of
  · intro x hx hfalse
    simp only [] at hx ⊢
    obtain ⟨j, hj, hjx⟩ := List.getElem_of_mem hx
    rw [List.getElem_set] at hjx
    by_cases hij : i = j
    · simp only [hij, if_true] at hjx; subst hjx; simp at hfalse
    · simp only [hij, if_false] at hjx
      have hj' : j < y.pool.length := by simpa using hj
      have hm : x ∈ y.pool := hjx ▸ List.getElem_mem hj'
      have hne : x.b.name ≠ name := by
        intro e
        have h1 : (y.pool.map (·.b.name))[j]? = some x.b.name := by
          simp [List.getElem?_eq_getElem hj', hjx]
        have h2 : (y.pool.map (·.b.name))[i]? = some o.b.name := by simp [ho]
        rw [e, ← hn] at h1
        have hjl : j < (y.pool.map (·.b.name)).length := by simpa using hj'
        have := (List.getElem?_inj hjl hnd).mp (h1.trans h2.symm)
        exact hij this.symm
      have := mi_mirrorOK y h x hm hfalse
      simpa [bmUpd, hne] using this
  · unfold NodupNames names
    rw [hnames]; exact hnd

theorem mi_probe (y : Sys) (name : String) (now : Nat) (ok : Bool) (h : MI y) : MI (probe y name now ok).1 := by
  simp only [probe]
  cases hi : y.pool.findIdx? (·.b.name = name) with
  | none => exact h
  | some i =>
    simp only []
    have h1 := mi_isHealthyAt y i now h
    split
    · exact h1
    · split
      · exact mi_eject _ _ _ _ h1
      · split
        · exact h1
        · rename_i o ho
          -- the probed slot still carries the probed name
          have hnm : (isHealthyAt y i now).1.pool.map (·.b.name) = y.pool.map (·.b.name) := isHealthyAt_names y i now
          have hlt : i < y.pool.length := (List.findIdx?_eq_some_iff_getElem.mp hi).1
          have hname0 : (y.pool[i]).b.name = name := by
            have := (List.findIdx?_eq_some_iff_getElem.mp hi).2.1
            simpa using this
          have hon : o.b.name = name := by
            have h1' : ((isHealthyAt y i now).1.pool.map (·.b.name))[i]? = some o.b.name := by simp [ho]
            rw [hnm] at h1'
            simp [List.getElem?_eq_getElem hlt] at h1'
            rw [← h1', hname0]
          exact mi_set_healthy _ i o name ho hon h1

/-! ### every history -/

theorem mi_step (y : Sys) (op : Op) (hg : GInv y) (h : MI y) : MI (stepOp y op) := by
  cases op with
  | begin tid now r =>
    simp only [stepOp]
    split
    · exact h
    · exact mi_begin y tid now r h
  | end_ tid now out => exact mi_end y tid now out hg h
  | add n w a => exact mi_add y n w a h
  | remove n => exact mi_remove y n h
  | setStrategy n => exact mi_setStrategy y n h
  | eject n now d => exact mi_eject y n now d h
  | probe n now ok => exact mi_probe y n now ok h

theorem mi_run (ops : List Op) : ∀ (y : Sys), GInv y → MI y → MI (runOps y ops) ∧ GInv (runOps y ops) := by
  induction ops with
  | nil => intro y hg h; exact ⟨h, hg⟩
  | cons op rest ih => intro y hg h; exact ih _ (ginv_step y op hg) (mi_step y op hg h)

/-- **The mirror along every history.** From a fresh balancer, after any sequence of request
begins / ends (any overlap, any outcome, aborts included), adds, removes, strategy switches,
ejections and probes: the metrics never report "healthy" for a pooled backend whose health flag
is down (the admin listing shows the flag itself), and backend names stay unique. -/
theorem mirror_ok_run (k : Kind) (hc : HC) (rl : Option (RL.Cfg × RL.Map)) (cb : Option (CB.Cfg × CB.State))
    (ops : List Op) :
    MirrorOK (runOps { kind := k, hc := hc, rl := rl, cb := cb } ops) ∧
    NodupNames (runOps { kind := k, hc := hc, rl := rl, cb := cb } ops) := by
  have h0 : MI { kind := k, hc := hc, rl := rl, cb := cb } := ⟨by simp [nh], by simp [nh]⟩
  have h := (mi_run ops _ (ginv_init k hc rl cb) h0).1
  exact ⟨mi_mirrorOK _ h, by unfold NodupNames; rw [names_eq]; exact h.nodup⟩

end Helios.LB
