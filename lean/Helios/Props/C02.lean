import Helios.Lemmas.Dispatch
/-
C02 — Failover: only healthy backends are used; 503 only when none is healthy.
Statements are about `LB.begin` (ServeHTTP up to the backend call), for every strategy,
pool, health/rotation/gauge/current-weight state, limiter and breaker configuration.
-/
namespace Helios.LB
open Helios

theorem rlGate_pool (y : Sys) (now : Nat) (r : Addr.Req) :
    (rlGate y now r).1.pool = y.pool ∧ (rlGate y now r).1.kind = y.kind ∧ (rlGate y now r).1.cur = y.cur ∧
    (rlGate y now r).1.lastEl = y.lastEl := by
  simp only [rlGate]; split <;> simp

theorem cbGate_pool (y : Sys) (now : Nat) :
    (cbGate y now).1.pool = y.pool ∧ (cbGate y now).1.kind = y.kind ∧ (cbGate y now).1.cur = y.cur ∧
    (cbGate y now).1.lastEl = y.lastEl := by
  simp only [cbGate]
  split
  · simp
  · split <;> simp

/-- what `dispatch` does with the strategy's first pick -/
theorem dispatch_result (y : Sys) (gen : Option Nat) (tid now : Nat) (r : Addr.Req) :
    (∀ name, (dispatch y gen tid now r).2 = .fwd name →
        ∃ o ∈ y.pool, o.b.name = name ∧ o.b.eligible now = true) ∧
    ((dispatch y gen tid now r).2 = .noBackend → (y.strat.next now (Addr.strategyKey r)).2 = none) ∧
    (dispatch y gen tid now r).2 ≠ .limited ∧ (dispatch y gen tid now r).2 ≠ .cbOpen ∧
    (dispatch y gen tid now r).2 ≠ .cbTooMany := by
  have hfirst := findBackend_first y now (Addr.strategyKey r) 2
  simp only [dispatch, retryBudget]
  cases hf : (findBackend y now (Addr.strategyKey r) (2 + 1)).2 with
  | none =>
    rw [hf] at hfirst
    simp [hfirst.symm]
  | some i =>
    rw [hf] at hfirst
    simp only [Option.bind_some]
    -- the slot chosen holds an object whose name / health fields are those of y.pool[i]
    obtain ⟨b, hb, he⟩ := next_sound y.strat now (Addr.strategyKey r) i hfirst.symm
    have hbi : (y.pool.map (·.b))[i]? = some b := hb
    rw [List.getElem?_map] at hbi
    cases ho : y.pool[i]? with
    | none => simp [ho] at hbi
    | some o =>
      simp only [ho, Option.map_some, Option.some.injEq] at hbi
      -- names are preserved by findBackend: prove by unfolding its first iteration
      have hname : ∃ o', (findBackend y now (Addr.strategyKey r) (2 + 1)).1.pool[i]? = some o' ∧ o'.b.name = o.b.name := by
        simp only [findBackend]
        have hr : (y.strat.next now (Addr.strategyKey r)).2 = some i := hfirst.symm
        simp only [hr]
        have hsh := next_sameHealth y.strat now (Addr.strategyKey r)
        have hlen : i < (y.strat.next now (Addr.strategyKey r)).1.pool.length := by
          rw [hsh.1]; simp only [Sys.strat, Sys.backends, List.length_map]
          exact (List.getElem?_eq_some_iff.mp ho).1
        have hb' := List.getElem?_eq_getElem hlen
        have hz := zipBack_getElem y.pool (y.strat.next now (Addr.strategyKey r)).1.pool i o _ ho hb'
        have hnm := next_name y.strat now (Addr.strategyKey r) i b _ hb hb'
        have hel : ((y.strat.next now (Addr.strategyKey r)).1.pool[i]).eligible now = true := by
          rw [eligible_of_sameHealth _ b now (hsh.2 i _ b hb' hb)]; exact he
        have hh := isHealthyAt_eligible
          { y with pool := zipBack y.pool (y.strat.next now (Addr.strategyKey r)).1.pool,
                   cur := (y.strat.next now (Addr.strategyKey r)).1.cur,
                   lastEl := (y.strat.next now (Addr.strategyKey r)).1.lastEl } i now _ hz hel
        simp only [hh, if_true]
        obtain ⟨o2, ho2, hn2, _⟩ := isHealthyAt_slot
          { y with pool := zipBack y.pool (y.strat.next now (Addr.strategyKey r)).1.pool,
                   cur := (y.strat.next now (Addr.strategyKey r)).1.cur,
                   lastEl := (y.strat.next now (Addr.strategyKey r)).1.lastEl } i now _ hz
        refine ⟨o2, ho2, ?_⟩
        rw [hn2]; simp only []
        rw [hnm, ← hbi]
      obtain ⟨o', hfo, hno⟩ := hname
      simp only [hfo, Option.map_some]
      refine ⟨?_, by simp, by simp, by simp, by simp⟩
      intro name hn
      simp at hn
      refine ⟨o, List.mem_of_getElem? ho, ?_, by rw [hbi]; exact he⟩
      rw [← hn]; exact hno.symm

/-- **Dispatch soundness.** A request is forwarded only to a configured backend that is
not inside an unhealthy window at the moment of dispatch. -/
theorem dispatch_sound (y : Sys) (tid now : Nat) (r : Addr.Req) (name : String)
    (h : (begin y tid now r).2 = .fwd name) :
    ∃ o ∈ y.pool, o.b.name = name ∧ o.b.inWindow now = false := by
  simp only [begin] at h
  split at h
  · simp at h
  · split at h
    · rename_i resp hresp
      -- a breaker rejection is never `.fwd`
      simp only [cbGate] at hresp h
      split at hresp
      · simp at hresp
      · split at hresp <;> simp at hresp <;> (subst hresp; simp_all)
    · rename_i gen _
      obtain ⟨o, ho, hn, he⟩ := (dispatch_result _ gen tid now r).1 name h
      rw [(cbGate_pool _ now).1, (rlGate_pool _ now r).1] at ho
      refine ⟨o, ho, hn, ?_⟩
      rw [eligible_iff_not_inWindow] at he
      simpa using he

/-- **Dispatch completeness.** "No healthy backend" (503) is answered only if every
configured backend is inside an unhealthy window at that moment — under every strategy
(guards: the 64-bit rotation counter does not wrap within one turn; gauges are below
MaxInt32). -/
theorem dispatch_complete (y : Sys) (tid now : Nat) (r : Addr.Req) (hg : Guard y.strat)
    (h : (begin y tid now r).2 = .noBackend) :
    ∀ o ∈ y.pool, o.b.inWindow now = true := by
  simp only [begin] at h
  split at h
  · simp at h
  · split at h
    · rename_i resp hresp
      simp only [cbGate] at hresp h
      split at hresp
      · simp at hresp
      · split at hresp <;> simp at hresp <;> (subst hresp; simp_all)
    · rename_i gen _
      have hnone := (dispatch_result _ gen tid now r).2.1 h
      have hp := (cbGate_pool (rlGate { y with total := y.total + 1 } now r).1 now)
      have hq := (rlGate_pool { y with total := y.total + 1 } now r)
      have hstrat : (cbGate (rlGate { y with total := y.total + 1 } now r).1 now).1.strat = y.strat := by
        simp only [Sys.strat, Sys.backends, hp.1, hp.2.1, hp.2.2.1, hp.2.2.2, hq.1, hq.2.1, hq.2.2.1, hq.2.2.2]
      rw [hstrat] at hnone
      have hall := next_complete y.strat now (Addr.strategyKey r) hg hnone
      intro o ho
      have := hall o.b (List.mem_map.mpr ⟨o, ho, rfl⟩)
      rw [eligible_iff_not_inWindow] at this
      simpa using this

/-- An ejected backend never makes requests fail while another backend is healthy. -/
theorem no_503_while_healthy (y : Sys) (tid now : Nat) (r : Addr.Req) (hg : Guard y.strat)
    (o : Obj) (ho : o ∈ y.pool) (hh : o.b.inWindow now = false) :
    (begin y tid now r).2 ≠ .noBackend := by
  intro h
  have := dispatch_complete y tid now r hg h o ho
  rw [hh] at this; cases this

/-! ### non-vacuity: the witnesses of the repaired defects now dispatch correctly -/

private def mk (n : String) (h : Bool) (u : Option Nat) (c : Int) : Backend :=
  { name := n, weight := 1, healthy := h, until_ := u, conns := c, cw := 0 }
private def hc0 : HC := { passive := false, threshold := 1, ejectFor := 1 }

/-- least_connections: idle ejected A, busy healthy B → B (was: 503) -/
example : (begin { kind := .lc, hc := hc0, pool := [⟨0, mk "A" false (some 100) 0⟩, ⟨1, mk "B" true none 1⟩] }
    1 50 { xff := [], xri := [], remote := [] }).2 = .fwd "B" := by decide
/-- round_robin: three adjacent ejected out of four → the healthy one (was: 503) -/
example : (begin { kind := .rr, hc := hc0, pool := [⟨0, mk "A" true none 0⟩, ⟨1, mk "B" false (some 100) 0⟩,
      ⟨2, mk "C" false (some 100) 0⟩, ⟨3, mk "D" false (some 100) 0⟩] }
    1 50 { xff := [], xri := [], remote := [] }).2 = .fwd "A" := by decide
/-- all ejected → 503; window elapsed → served again (weighted_round_robin, was: never) -/
example : (begin { kind := .wrr, hc := hc0, pool := [⟨0, mk "A" false (some 100) 0⟩] }
    1 100 { xff := [], xri := [], remote := [] }).2 = .noBackend := by decide
example : (begin { kind := .wrr, hc := hc0, pool := [⟨0, mk "A" false (some 100) 0⟩] }
    1 101 { xff := [], xri := [], remote := [] }).2 = .fwd "A" := by decide

end Helios.LB
