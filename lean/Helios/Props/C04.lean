import Helios.Props.C02
import Helios.Props.C11
/-
C04 — Health state machine: ejection threshold, unhealthy window, recovery.
-/
namespace Helios.LB
open Helios

/-! ### passive ejection -/

/-- **Passive ejection happens exactly at the threshold.** A failed (5xx / unreachable)
response of backend `name` adds one to its failure counter; below `unhealthy_threshold`
nothing else changes; on reaching it the backend object is ejected for `unhealthy_timeout`
and the counter restarts from zero. -/
theorem passive_below_threshold (y : Sys) (id : Nat) (name : String) (now : Nat)
    (h : (y.failCnt name : Int) + 1 < y.hc.threshold) :
    (passiveFail y id name now).pool = y.pool ∧ (passiveFail y id name now).dead = y.dead ∧
    (passiveFail y id name now).failCnt name = y.failCnt name + 1 ∧
    (passiveFail y id name now).bm = y.bm := by
  have : ¬ (y.hc.threshold ≤ (y.failCnt name : Int) + 1) := by omega
  simp [passiveFail, this]

theorem passive_at_threshold (y : Sys) (id : Nat) (name : String) (now : Nat)
    (h : y.hc.threshold ≤ (y.failCnt name : Int) + 1) :
    (passiveFail y id name now).failCnt name = 0 ∧
    (∀ o ∈ (passiveFail y id name now).pool, o.id = id →
        ∀ t, t ≤ now + y.hc.ejectFor → o.b.inWindow t = true) ∧
    ((passiveFail y id name now).bm name).map (·.healthy) = some false := by
  have hh : (((y.failCnt name + 1 : Nat) : Int) ≥ y.hc.threshold) := by
    simp only [Int.natCast_add, Int.cast_ofNat_Int]; exact h
  simp only [passiveFail, hh, if_true]
  refine ⟨by simp, ?_, by simp [bmUpd]⟩
  intro o ho hid t ht
  simp only [updObj, List.mem_map] at ho
  obtain ⟨o0, _, rfl⟩ := ho
  by_cases h0 : o0.id = id
  · simp [h0, ejectObj, Backend.inWindow, ht]
  · simp only [h0, if_false] at hid

/-- only failed responses with passive checks enabled touch health: any other completed
exchange (2xx–4xx, aborted, passive checks off) leaves every backend's health state and
the failure counters alone -/
theorem finish_no_eject (y : Sys) (fl : Flight) (o : Obj) (now : Nat) (out : Outcome)
    (h : ¬ (∃ c, out = .status c ∧ c ≥ 500 ∧ y.hc.passive = true)) :
    (finish y fl o now out).pool.map (fun o => (o.id, o.b.healthy, o.b.until_)) =
      y.pool.map (fun o => (o.id, o.b.healthy, o.b.until_)) ∧
    (finish y fl o now out).failCnt = y.failCnt := by
  have hmap : (updObj y.pool fl.bid (fun o => { o with b := { o.b with conns := o.b.conns - 1 } })).map
      (fun o => (o.id, o.b.healthy, o.b.until_)) = y.pool.map (fun o => (o.id, o.b.healthy, o.b.until_)) := by
    simp only [updObj, List.map_map]
    apply List.map_congr_left
    intro a _; simp only [Function.comp]; split <;> rfl
  simp only [finish]
  cases out with
  | abort => simp only []; split <;> exact ⟨hmap, rfl⟩
  | status c =>
    simp only []
    have : ¬ (c ≥ 500 ∧ y.hc.passive = true) := fun hc => h ⟨c, rfl, hc.1, hc.2⟩
    simp only [this, if_false]
    split <;> exact ⟨hmap, rfl⟩

/-! ### active probes -/

/-- a failed probe of a backend that was being probed (not ejected) ejects it for the window -/
theorem probe_fail_ejects (y : Sys) (name : String) (now : Nat) (i : Nat) (o : Obj)
    (hi : y.pool.findIdx? (·.b.name = name) = some i) (ho : y.pool[i]? = some o)
    (hh : o.b.healthy = true) :
    ∃ o', (probe y name now false).1.pool[i]? = some o' ∧ o'.b.name = o.b.name ∧
      ∀ t, t ≤ now + y.hc.ejectFor → o'.b.inWindow t = true := by
  have hlt : i < y.pool.length := (List.getElem?_eq_some_iff.mp ho).1
  have hiH : isHealthyAt y i now = (y, true) := by simp [isHealthyAt, ho, hh]
  simp only [probe, hi, hiH, Bool.not_true, Bool.false_eq_true, if_false, eject, ho]
  refine ⟨ejectObj o now y.hc.ejectFor, List.getElem?_set_self hlt, rfl, ?_⟩
  intro t ht; simp [ejectObj, Backend.inWindow]; exact ht

/-- a successful probe never ejects: no backend's flag goes from healthy to unhealthy -/
theorem probe_ok_never_ejects (y : Sys) (name : String) (now : Nat) :
    ∀ (j : Nat) (o' : Obj), (probe y name now true).1.pool[j]? = some o' → o'.b.healthy = false →
      ∃ o, y.pool[j]? = some o ∧ o.b.healthy = false ∧ o.b.until_ = o'.b.until_ := by
  intro j o' hj hf
  simp only [probe] at hj
  split at hj
  · exact ⟨o', hj, hf, rfl⟩
  · rename_i i _
    -- isHealthyAt only ever sets flags to true
    have hI : ∀ (j : Nat) (o' : Obj), (isHealthyAt y i now).1.pool[j]? = some o' → o'.b.healthy = false →
        ∃ o, y.pool[j]? = some o ∧ o.b.healthy = false ∧ o.b.until_ = o'.b.until_ := by
      intro j o' hj hf
      simp only [isHealthyAt] at hj
      split at hj
      · exact ⟨o', hj, hf, rfl⟩
      · split at hj
        · exact ⟨o', hj, hf, rfl⟩
        · split at hj
          · rw [List.getElem?_set] at hj
            split at hj
            · split at hj
              · simp at hj; subst hj; simp at hf
              · simp at hj
            · exact ⟨o', hj, hf, rfl⟩
          · exact ⟨o', hj, hf, rfl⟩
    split at hj
    · exact hI j o' hj hf
    · simp only [Bool.not_true, Bool.false_eq_true, if_false] at hj
      split at hj
      · exact hI j o' hj hf
      · rw [List.getElem?_set] at hj
        split at hj
        · split at hj
          · simp at hj; subst hj; simp at hf
          · simp at hj
        · exact hI j o' hj hf

/-! ### the window: no traffic inside, eligible again after -/

/-- inside its window a backend receives no client traffic (restating `dispatch_sound`) -/
theorem no_traffic_in_window (y : Sys) (tid now : Nat) (r : Addr.Req) (name : String)
    (h : (begin y tid now r).2 = .fwd name) :
    ∃ o ∈ y.pool, o.b.name = name ∧ o.b.inWindow now = false :=
  dispatch_sound y tid now r name h

/-- once the window has elapsed the backend is a candidate of every strategy again, without
any active probe: it is eligible, and a request is then never answered "no healthy backend" -/
theorem recovers_after_window (y : Sys) (o : Obj) (ho : o ∈ y.pool) (u now : Nat)
    (hu : o.b.until_ = some u) (hnow : u < now) (hg : Guard y.strat) (tid : Nat) (r : Addr.Req) :
    o.b.eligible now = true ∧ (begin y tid now r).2 ≠ .noBackend := by
  have he : o.b.eligible now = true := by simp [Backend.eligible, hu, hnow]
  refine ⟨he, no_503_while_healthy y tid now r hg o ho ?_⟩
  rw [eligible_iff_not_inWindow] at he
  simpa using he

/-- and when the strategy reaches it, the dispatch path flips its flag back (lazy expiry)
and publishes "healthy" to the metrics mirror -/
theorem lazy_expiry (y : Sys) (i now : Nat) (o : Obj) (ho : y.pool[i]? = some o)
    (hh : o.b.healthy = false) (hx : expired o.b now = true) :
    (isHealthyAt y i now).2 = true ∧
    ((isHealthyAt y i now).1.pool[i]?).map (·.b.healthy) = some true ∧
    (((isHealthyAt y i now).1.bm o.b.name).map (·.healthy)) = some true := by
  have hlt : i < y.pool.length := (List.getElem?_eq_some_iff.mp ho).1
  simp only [isHealthyAt, ho, hh, Bool.false_eq_true, if_false, hx, if_true]
  refine ⟨trivial, ?_, ?_⟩
  · rw [List.getElem?_set_self hlt]; rfl
  · simp [bmUpd]

/-- **A fresh ejection is not lost to a concurrent expiry check.** `IsBackendHealthy` (lazy
expiry) and `MarkBackendUnhealthy` of the same backend are two critical sections; in whichever
order they run, the backend ends ejected with its new window running: the check that runs second
sees the new deadline and does not flip the flag back. -/
theorem eject_survives_expiry_check (y : Sys) (i now d : Nat) (o : Obj) (ho : y.pool[i]? = some o) :
    (∀ o', (isHealthyAt y i now).1.pool[i]? = some o' →
        (ejectObj o' now d).b.healthy = false ∧ (ejectObj o' now d).b.inWindow now = true) ∧
    (isHealthyAt { y with pool := y.pool.set i (ejectObj o now d) } i now).2 = false ∧
    (isHealthyAt { y with pool := y.pool.set i (ejectObj o now d) } i now).1.pool[i]? = some (ejectObj o now d) := by
  have hlt : i < y.pool.length := (List.getElem?_eq_some_iff.mp ho).1
  refine ⟨?_, ?_, ?_⟩
  · intro o' _
    simp [ejectObj, Backend.inWindow]
  · have hn : ¬ (now + d < now) := by omega
    simp [isHealthyAt, List.getElem?_set_self hlt, ejectObj, expired, hn]
  · have hn : ¬ (now + d < now) := by omega
    simp [isHealthyAt, List.getElem?_set_self hlt, ejectObj, expired, hn]

/-! ### the metrics / admin mirror -/

/-- the admin listing and the metrics mirror never show "healthy" for an ejected backend -/
def MirrorOK (y : Sys) : Prop :=
  ∀ o ∈ y.pool, o.b.healthy = false → ((y.bm o.b.name).map (·.healthy)) = some false

/-- ejection (explicit or by a failed probe) publishes "unhealthy" in the same step -/
theorem eject_mirror (y : Sys) (name : String) (now dur : Nat) (h : MirrorOK y) :
    MirrorOK (eject y name now dur).1 := by
  unfold MirrorOK at *
  simp only [eject]
  split
  · exact h
  · rename_i i hi
    split
    · exact h
    · rename_i o1 ho1
      have hlt : i < y.pool.length := (List.getElem?_eq_some_iff.mp ho1).1
      have hn1 : o1.b.name = name := by
        have := (List.findIdx?_eq_some_iff_getElem.mp hi).2.1
        have e : y.pool[i] = o1 := by
          have := List.getElem?_eq_getElem hlt; rw [ho1] at this; exact (Option.some.inj this).symm
        simpa [e] using this
      intro o ho hfalse
      simp only [] at ho ⊢
      rcases List.mem_or_eq_of_mem_set ho with hm | he
      · by_cases hnm : o.b.name = name
        · simp [bmUpd, hnm]
        · have := h o hm hfalse
          simpa [bmUpd, hnm] using this
      · subst he
        simp [bmUpd, ejectObj, hn1]

/-- lazy expiry and successful probes publish "healthy" only for the backend they flip
(names are unique, so no other backend shares the mirror entry) -/
theorem isHealthyAt_mirror (y : Sys) (i now : Nat) (h : MirrorOK y) (hn : NodupNames y) :
    MirrorOK (isHealthyAt y i now).1 := by
  unfold MirrorOK at *
  simp only [isHealthyAt]
  split
  · exact h
  · rename_i o1 ho1
    have hlt : i < y.pool.length := (List.getElem?_eq_some_iff.mp ho1).1
    split
    · exact h
    · split
      · intro o ho hfalse
        simp only [] at ho ⊢
        obtain ⟨j, hj, hjo⟩ := List.getElem_of_mem ho
        rw [List.getElem_set] at hjo
        by_cases hij : i = j
        · simp only [hij, if_true] at hjo; subst hjo; simp at hfalse
        · simp only [hij, if_false] at hjo
          have hj' : j < y.pool.length := by simpa using hj
          have hm : o ∈ y.pool := hjo ▸ List.getElem_mem hj'
          have hne : o.b.name ≠ o1.b.name := by
            intro e
            unfold NodupNames names at hn
            have h1 : (y.pool.map (·.b.name))[j]? = some o.b.name := by
              simp [List.getElem?_eq_getElem hj', hjo]
            have h2 : (y.pool.map (·.b.name))[i]? = some o1.b.name := by simp [ho1]
            rw [e] at h1
            have hjl : j < (y.pool.map (·.b.name)).length := by simpa using hj'
            have := (List.getElem?_inj hjl hn).mp (h1.trans h2.symm)
            exact hij this.symm
          have := h o hm hfalse
          simpa [bmUpd, hne] using this
      · exact h

/-- **A late probe answer never cuts a window short.** Whatever happened while an active probe
was in flight (the state `y` is arbitrary): when its 200 arrives, every backend that is inside
an unhealthy window with a set end stays inside it. -/
theorem probeEnd_ok_keeps_window (y : Sys) (name : String) (now : Nat) (j : Nat) (o : Obj)
    (ho : y.pool[j]? = some o) (hu : o.b.until_ ≠ none) (hw : o.b.inWindow now = true) :
    ∃ o', (probeEnd y name now true).1.pool[j]? = some o' ∧ o'.b.inWindow now = true := by
  simp only [probeEnd]
  cases hi : y.pool.findIdx? (·.b.name = name) with
  | none => exact ⟨o, ho, hw⟩
  | some i =>
    simp only [Bool.not_true, Bool.false_eq_true, if_false]
    cases hoi : y.pool[i]? with
    | none => exact ⟨o, ho, hw⟩
    | some oi =>
      simp only []
      by_cases hg : stillEjected oi.b now = true
      · rw [if_pos hg]; exact ⟨o, ho, hw⟩
      · rw [if_neg hg]
        by_cases hji : j = i
        · -- the probed backend itself: it is in its window, so the guard held — contradiction
          subst hji
          rw [ho] at hoi; cases hoi
          exfalso
          apply hg
          simp only [Backend.inWindow, Bool.and_eq_true, Bool.not_eq_true'] at hw
          cases hun : o.b.until_ with
          | none => exact absurd hun hu
          | some u => rw [hun] at hw; simp [stillEjected, hun, hw.1, hw.2]
        · refine ⟨o, ?_, hw⟩
          show (y.pool.set i _)[j]? = some o
          rw [List.getElem?_set_ne (fun e => hji e.symm)]
          exact ho

end Helios.LB
