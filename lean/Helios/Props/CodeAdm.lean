import Helios.Generated.Code
import Helios.Model.Admin
/-
Tie C for the admin API's address filter (C10): `IPFilter.IsAllowed`, translated from the source on every run.
The parsed forms of the peer address and of the list entries are what the standard library made of the texts
(`net.ParseIP`, `net.ParseCIDR`: handed in; `(*net.IPNet).Contains` is represented by the model's `Net.contains`,
validated against the Go function by the address corpus of the differential tie). What Helios itself wrote — an
unparsable peer is refused before anything else, the deny list is consulted first, an empty allow list admits
everybody else, a non-empty one only its members — is covered for EVERY pair of lists and every peer.
-/
namespace Helios.CodeTie
open Helios Helios.Generated

theorem deny_loop (f : Code.IPFilter) (ip : Admin.IP) (l : List Admin.Net) (j : Int) :
    Code.IsAllowed_range1 f (some ip) l j = if l.any (·.contains ip) then some (f, false) else none := by
  induction l generalizing j with
  | nil => simp [Code.IsAllowed_range1]
  | cons n l ih =>
    unfold Code.IsAllowed_range1
    simp only [Code.netContains, List.any_cons, ih]
    by_cases h : n.contains ip = true <;> simp [h]

theorem allow_loop (f : Code.IPFilter) (ip : Admin.IP) (l : List Admin.Net) (j : Int) :
    Code.IsAllowed_range2 f (some ip) l j = if l.any (·.contains ip) then some (f, true) else none := by
  induction l generalizing j with
  | nil => simp [Code.IsAllowed_range2]
  | cons n l ih =>
    unfold Code.IsAllowed_range2
    simp only [Code.netContains, List.any_cons, ih]
    by_cases h : n.contains ip = true <;> simp [h]

/-- **`IPFilter.IsAllowed`, as written, is the model's `isAllowed`** — for every allow list, deny list and peer
(`none` = the peer address did not parse); the filter object is left as it was, and the text of the address plays
no part beyond its parse -/
theorem IsAllowed_refines (f : Code.IPFilter) (text : Bytes) (peer : Option Admin.IP) :
    Code.IsAllowed f text peer = (f, Admin.isAllowed f.allowList f.denyList peer) := by
  unfold Code.IsAllowed Admin.isAllowed
  cases peer with
  | none => simp
  | some ip =>
    simp only [Option.isNone_some, Bool.false_eq_true, if_false, deny_loop, allow_loop]
    cases hd : f.denyList.any (·.contains ip) with
    | true => simp
    | false =>
      cases ha : f.allowList with
      | nil => simp
      | cons a as =>
        simp only [if_false, Bool.false_eq_true, List.length_cons, List.isEmpty_cons]
        have : ¬ ((Int.ofNat (as.length + 1) == (0 : Int)) = true) := by simp; omega
        simp only [this, if_false]
        cases ((a :: as).any (·.contains ip)) <;> simp

/-- deny wins on the code itself: a peer inside a deny entry is refused whatever the allow list says -/
theorem IsAllowed_deny_wins (f : Code.IPFilter) (text : Bytes) (ip : Admin.IP) (n : Admin.Net)
    (hn : n ∈ f.denyList) (hc : n.contains ip = true) : (Code.IsAllowed f text (some ip)).2 = false := by
  rw [IsAllowed_refines]
  simp only [Admin.isAllowed]
  have : f.denyList.any (·.contains ip) = true := List.any_eq_true.mpr ⟨n, hn, hc⟩
  simp [this]

/-- an unparsable peer address is refused by the code, whatever the lists -/
theorem IsAllowed_unparsable (f : Code.IPFilter) (text : Bytes) : (Code.IsAllowed f text none).2 = false := by
  rw [IsAllowed_refines]; rfl

example : (Code.IsAllowed ⟨[⟨.v4 167772160, 8⟩], [⟨.v4 167772165, 32⟩]⟩ [] (some (.v4 167772165))).2 = false := by decide
example : (Code.IsAllowed ⟨[⟨.v4 167772160, 8⟩], [⟨.v4 167772165, 32⟩]⟩ [] (some (.v4 167772166))).2 = true := by decide
example : (Code.IsAllowed ⟨[], [⟨.v4 167772165, 32⟩]⟩ [] (some (.v6 1))).2 = true := by decide

/-- every function of this group was translated; nothing in it fell outside the fragment -/
theorem translation_clean_adm :
    ["IsAllowed"].all (fun f => Code.translated.contains f) = true ∧
    (Code.translationProblems.filter (fun p => ["IsAllowed"].contains p.1)) = [] := by
  decide

end Helios.CodeTie
