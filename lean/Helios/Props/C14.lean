import Helios.Model.Http
/-
C14 — size_limit plugin: bodies are bounded, everything within bounds is untouched.
-/
namespace Helios.Http

/-- body bytes an operation carries, as the plugin counts them -/
def opLen (gzLen : Body → Nat) : Op → Nat
  | .w c => c.1
  | .wgz b => gzLen b
  | _ => 0

def opsLen (gzLen : Body → Nat) (ops : List Op) : Nat := ops.foldl (fun a o => a + opLen gzLen o) 0

theorem opsLen_cons (gzLen : Body → Nat) (o : Op) (ops : List Op) :
    opsLen gzLen (o :: ops) = opLen gzLen o + opsLen gzLen ops := by
  simp only [opsLen, List.foldl_cons, Nat.zero_add]
  have : ∀ (l : List Op) (a : Nat), l.foldl (fun a o => a + opLen gzLen o) a = a + l.foldl (fun a o => a + opLen gzLen o) 0 := by
    intro l
    induction l with
    | nil => intro a; simp
    | cons x xs ih => intro a; simp only [List.foldl_cons, Nat.zero_add]; rw [ih (a + opLen gzLen x), ih (opLen gzLen x)]; omega
  rw [this]

theorem opsLen_append (gzLen : Body → Nat) (a b : List Op) :
    opsLen gzLen (a ++ b) = opsLen gzLen a + opsLen gzLen b := by
  induction a with
  | nil => simp [opsLen]
  | cons x xs ih => simp only [List.cons_append, opsLen_cons, ih]; omega

theorem ensure_len (gzLen : Body → Nat) (l : Lim) : opsLen gzLen l.ensure.1 = 0 ∧ l.ensure.2.written = l.written ∧
    l.ensure.2.limit = l.limit := by
  simp only [Lim.ensure]; split <;> simp [opsLen, opLen]

/-- one step never lets the forwarded byte count exceed the limit -/
theorem step_bounded (gzLen : Body → Nat) (l : Lim) (op : Op) (h : l.written ≤ l.limit) :
    opsLen gzLen (l.step gzLen op).1 + l.written = (l.step gzLen op).2.written ∧
    (l.step gzLen op).2.written ≤ (l.step gzLen op).2.limit ∧ (l.step gzLen op).2.limit = l.limit := by
  have he := ensure_len gzLen l
  cases op with
  | setH k v => simp [Lim.step, opsLen, opLen, h]
  | delH k => simp [Lim.step, opsLen, opLen, h]
  | wh c =>
    simp only [Lim.step]
    split
    · simp [opsLen, h]
    · split <;> simp [opsLen, opLen, h]
  | fl =>
    simp only [Lim.step, opsLen_append, he.1, he.2.1, he.2.2]
    simp [opsLen, opLen, h]
  | w c =>
    simp only [Lim.step]
    split
    · simp [opsLen, h]
    · split
      · split <;> simp [opsLen, opLen, h]
      · rename_i hle
        simp only [opsLen_append, he.1, he.2.1, he.2.2]
        simp [opsLen, opLen] at hle ⊢; omega
  | wgz b =>
    simp only [Lim.step]
    split
    · simp [opsLen, h]
    · split
      · split <;> simp [opsLen, opLen, h]
      · rename_i hle
        simp only [opsLen_append, he.1, he.2.1, he.2.2]
        simp [opsLen, opLen] at hle ⊢; omega

/-- **Response bound.** Whatever the handler does — any statuses, any partition of any body
into writes, any flushes — the plugin passes at most `max_response_body` bytes of body
down to the client connection. -/
theorem resp_bounded (gzLen : Body → Nat) (ops : List Op) : ∀ (l : Lim), l.written ≤ l.limit →
    opsLen gzLen (transLim gzLen l ops).1 + l.written ≤ l.limit := by
  induction ops with
  | nil => intro l h; simpa [transLim, opsLen] using h
  | cons op ops ih =>
    intro l h
    obtain ⟨h1, h2, h3⟩ := step_bounded gzLen l op h
    have := ih (l.step gzLen op).2 h2
    simp only [transLim, opsLen_append]
    omega

/-- **413 when the excess is detected before anything was sent.** The first write that would
cross the limit, arriving while no header has gone out, is answered with status 413 and
nothing of it is forwarded; afterwards every write is dropped. -/
theorem resp_413_if_early (gzLen : Body → Nat) (l : Lim) (c : Chunk)
    (hw : l.wroteHeader = false) (hr : l.limitReached = false) (hover : l.written + c.1 > l.limit) :
    (l.step gzLen (.w c)).1 = [.wh 413] ∧ (l.step gzLen (.w c)).2.limitReached = true ∧
    ∀ c', ((l.step gzLen (.w c)).2.step gzLen (.w c')).1 = [] := by
  simp [Lim.step, hw, hr, hover, opLen]


theorem trans_headers (gzLen : Body → Nat) (hs : List Op) (hh : headerOnly hs) (rest : List Op) : ∀ (l : Lim),
    transLim gzLen l (hs ++ rest) = (hs ++ (transLim gzLen l rest).1, (transLim gzLen l rest).2) := by
  induction hs with
  | nil => intro l; simp
  | cons h hs ih =>
    intro l
    have hh' : headerOnly hs := fun o ho => hh o (List.mem_cons_of_mem _ ho)
    have hop := hh h (List.mem_cons_self ..)
    cases h with
    | setH k v => simp only [List.cons_append, transLim, Lim.step, ih hh' l]; simp
    | delH k => simp only [List.cons_append, transLim, Lim.step, ih hh' l]; simp
    | wh c => simp [Op.isHeaderOp] at hop
    | w c => simp [Op.isHeaderOp] at hop
    | wgz b => simp [Op.isHeaderOp] at hop
    | fl => simp [Op.isHeaderOp] at hop

/-- once the header is out and while the limit is not reached, writes and flushes pass unchanged -/
theorem trans_body_committed (gzLen : Body → Nat) (body : List Op) (hb : bodyOnly body) : ∀ (l : Lim),
    l.wroteHeader = true → l.limitReached = false → l.written + opsLen gzLen body ≤ l.limit →
    (transLim gzLen l body).1 = body ∧ (transLim gzLen l body).2.wroteHeader = true ∧
    (transLim gzLen l body).2.statusCode = l.statusCode := by
  induction body with
  | nil => intro l h1 _ _; simp [transLim, h1]
  | cons o os ih =>
    intro l h1 h2 h3
    have hb' : bodyOnly os := fun x hx => hb x (List.mem_cons_of_mem _ hx)
    rw [opsLen_cons] at h3
    rcases hb o (List.mem_cons_self ..) with ⟨c, rfl⟩ | rfl
    · have hnot : ¬ (l.written + c.1 > l.limit) := by simp [opLen] at h3; omega
      have hs : l.step gzLen (.w c) = ([.w c], { l with written := l.written + c.1 }) := by
        simp [Lim.step, h2, hnot, Lim.ensure, h1, opLen]
      simp only [transLim, hs]
      have := ih hb' { l with written := l.written + c.1 } h1 h2 (by simp [opLen] at h3 ⊢; omega)
      simp [this.1, this.2.1, this.2.2]
    · have hs : l.step gzLen .fl = ([.fl], l) := by simp [Lim.step, Lim.ensure, h1]
      simp only [transLim, hs]
      have := ih hb' l h1 h2 (by simp [opLen] at h3; omega)
      simp [this.1, this.2.1, this.2.2]

/-- **Within the limit, explicit status.** A response `headers; WriteHeader(c); writes/flushes`
(the shape httputil.ReverseProxy produces) whose body fits the limit goes through the plugin
as exactly the same sequence of operations — for every status `c ≥ 200` including bodiless
ones, every partition of the body into writes and every placement of flushes. -/
theorem within_transparent (gzLen : Body → Nat) (limit : Nat) (hs body : List Op) (c : Nat)
    (hh : headerOnly hs) (hb : bodyOnly body) (hc : 200 ≤ c) (hfit : opsLen gzLen body ≤ limit) :
    let t := transLim gzLen { limit := limit } (hs ++ [.wh c] ++ body)
    t.1 ++ t.2.finish.1 = hs ++ [.wh c] ++ body := by
  intro t
  have hc0 : c ≠ 0 := by omega
  have hni : ¬ (c ≥ 100 ∧ c < 200) := by omega
  have e : t = (hs ++ (transLim gzLen { limit := limit } ([.wh c] ++ body)).1,
      (transLim gzLen { limit := limit } ([.wh c] ++ body)).2) := by
    show transLim gzLen { limit := limit } (hs ++ [.wh c] ++ body) = _
    rw [List.append_assoc]; exact trans_headers gzLen hs hh _ _
  rw [e]
  simp only [List.singleton_append, transLim, Lim.step, Bool.false_eq_true, if_false, hni, List.nil_append]
  cases body with
  | nil =>
    simp [transLim, Lim.finish, hc0, Lim.ensure]
  | cons o os =>
    have hb' : bodyOnly os := fun x hx => hb x (List.mem_cons_of_mem _ hx)
    rw [opsLen_cons] at hfit
    rcases hb o (List.mem_cons_self ..) with ⟨ch, rfl⟩ | rfl
    · have hle : ch.1 ≤ limit := by simp [opLen] at hfit; omega
      have hnot : ¬ (limit < ch.1) := by omega
      have hs1 : ({ limit := limit, statusCode := c } : Lim).step gzLen (.w ch) =
          ([.wh c, .w ch], { limit := limit, statusCode := c, wroteHeader := true, written := ch.1 }) := by
        simp [Lim.step, hnot, Lim.ensure, hc0, opLen]
      simp only [transLim, hs1]
      have := trans_body_committed gzLen os hb' { limit := limit, statusCode := c, wroteHeader := true, written := ch.1 }
        rfl rfl (by simp [opLen] at hfit ⊢; omega)
      simp [this.1, Lim.finish, Lim.ensure, this.2.1]
    · have hs1 : ({ limit := limit, statusCode := c } : Lim).step gzLen .fl =
          ([.wh c, .fl], { limit := limit, statusCode := c, wroteHeader := true }) := by
        simp [Lim.step, Lim.ensure, hc0]
      simp only [transLim, hs1]
      have := trans_body_committed gzLen os hb' { limit := limit, statusCode := c, wroteHeader := true }
        rfl rfl (by simp [opLen] at hfit ⊢; omega)
      simp [this.1, Lim.finish, Lim.ensure, this.2.1]

/-- an explicit `WriteHeader(200)` right before the first write or flush changes nothing for
the client (it is what net/http does implicitly) -/
theorem base_explicit_200 (b : Base) (o : Op) (ho : (∃ c, o = .w c) ∨ o = .fl) :
    (b.step (.wh 200)).step o = b.step o := by
  rcases ho with ⟨c, rfl⟩ | rfl
  · cases hs : b.status with
    | some s => simp [Base.step, hs]
    | none => simp [Base.step, hs, Base.commit]
  · cases hs : b.status with
    | some s => simp [Base.step, hs]
    | none => simp [Base.step, hs, Base.commit]

/-- **Within the limit, implicit status.** A response `headers; writes/flushes` without
WriteHeader is forwarded with an explicit 200 before its first body operation, which the
client cannot distinguish; an entirely empty response is forwarded untouched. -/
theorem within_transparent_implicit (gzLen : Body → Nat) (limit : Nat) (hs body : List Op) (b : Base)
    (hh : headerOnly hs) (hb : bodyOnly body) (hfit : opsLen gzLen body ≤ limit) :
    let t := transLim gzLen { limit := limit } (hs ++ body)
    (b.run (t.1 ++ t.2.finish.1)).view = (b.run (hs ++ body)).view := by
  intro t
  have e : t = (hs ++ (transLim gzLen { limit := limit } body).1, (transLim gzLen { limit := limit } body).2) :=
    trans_headers gzLen hs hh _ _
  rw [e]
  cases body with
  | nil => simp [transLim, Lim.finish]
  | cons o os =>
    have hb' : bodyOnly os := fun x hx => hb x (List.mem_cons_of_mem _ hx)
    have ho := hb o (List.mem_cons_self ..)
    rw [opsLen_cons] at hfit
    have hout : (transLim gzLen { limit := limit } (o :: os)).1 = [.wh 200, o] ++ os ∧
        (transLim gzLen { limit := limit } (o :: os)).2.finish.1 = [] := by
      rcases ho with ⟨ch, rfl⟩ | rfl
      · have hle : ch.1 ≤ limit := by simp [opLen] at hfit; omega
        have hnot : ¬ (limit < ch.1) := by omega
        have hs1 : ({ limit := limit } : Lim).step gzLen (.w ch) =
            ([.wh 200, .w ch], { limit := limit, statusCode := 200, wroteHeader := true, written := ch.1 }) := by
          simp [Lim.step, hnot, Lim.ensure, opLen]
        simp only [transLim, hs1]
        have := trans_body_committed gzLen os hb' { limit := limit, statusCode := 200, wroteHeader := true, written := ch.1 }
          rfl rfl (by simp [opLen] at hfit ⊢; omega)
        simp [this.1, Lim.finish, Lim.ensure, this.2.1]
      · have hs1 : ({ limit := limit } : Lim).step gzLen .fl =
            ([.wh 200, .fl], { limit := limit, statusCode := 200, wroteHeader := true }) := by
          simp [Lim.step, Lim.ensure]
        simp only [transLim, hs1]
        have := trans_body_committed gzLen os hb' { limit := limit, statusCode := 200, wroteHeader := true }
          rfl rfl (by simp [opLen] at hfit ⊢; omega)
        simp [this.1, Lim.finish, Lim.ensure, this.2.1]
    rw [hout.1, hout.2]
    simp only [List.append_nil, Base.run, List.foldl_append, List.foldl_cons, List.foldl_nil]
    rw [base_explicit_200 _ o ho]

/-- **Request gate.** A request that declares more than `max_request_body` bytes is answered
413 before any inner plugin or the backend runs; a body of exactly the limit passes the gate;
and whatever passes can be read by the backend for at most `max_request_body` bytes. -/
theorem req_gate (gzLen : Body → Nat) (mr mp : Nat) (ps : List Plugin) (req : Request) (h : Hdr)
    (inner : Request → List Op) :
    (∀ d, req.declared = some d → d > mr →
        serve gzLen (.sizeLimit mr mp :: ps) req h inner = (httpError 413 litTooLarge, [])) ∧
    (∀ d, req.declared = some d → d ≤ mr →
        (serve gzLen (.sizeLimit mr mp :: ps) req h inner).2 =
          (serve gzLen ps { req with bodyCap := some (match req.bodyCap with | some c => min c mr | none => mr) } h inner).2) ∧
    (match req.bodyCap with | some c => min c mr | none => mr) ≤ mr := by
  refine ⟨?_, ?_, ?_⟩
  · intro d hd hgt; simp [serve, tooLarge, hd, hgt]
  · intro d hd hle
    have : ¬ (d > mr) := by omega
    simp only [serve, tooLarge, hd, this, decide_false, Bool.false_eq_true, if_false]
    rfl
  · cases req.bodyCap <;> simp <;> omega

/-! ### non-vacuity: the statuses that used to be lost -/
private def gl : Body → Nat := fun _ => 0
example : (transLim gl { limit := 10 } [.setH "Content-Type" "a/b", .wh 204]).1 ++
    (transLim gl { limit := 10 } [.setH "Content-Type" "a/b", .wh 204]).2.finish.1 = [.setH "Content-Type" "a/b", .wh 204] := by decide
example : ((Base.run { head := false } ((transLim gl { limit := 10 } [.wh 201, .fl, .w (2, 0)]).1)).view).status = 201 := by decide
example : ((Base.run { head := false } ((transLim gl { limit := 3 } [.wh 200, .w (4, 0)]).1)).view).status = 413 := by decide

end Helios.Http
