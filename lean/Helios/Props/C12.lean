import Helios.Model.LockPolicy
import Helios.Generated.Locks
/-
C12 — concurrency safety of shared state.

Part 1: lockset and lock-order soundness over the dynamic model, for any number of goroutines,
        any programs and every interleaving.
Part 2: the policy (which lock guards which field, the rank of every lock class) and the
        theorems that every row re-derived from the current source satisfies it.
-/
namespace Helios.Locks

/-! ## Part 1 — soundness of the discipline -/

@[simp] theorem State.set_same (s : State) (t : Tid) (th : Thread) : (s.set t th) t = th := by
  simp [State.set]

theorem State.set_other (s : State) (t u : Tid) (th : Thread) (h : u ≠ t) : (s.set t th) u = s u := by
  simp [State.set, h]

/-- mutual exclusion of `sync.RWMutex`: two holders of one lock are the same goroutine or both readers -/
def Excl (s : State) : Prop :=
  ∀ t u l m m', (l, m) ∈ (s t).held → (l, m') ∈ (s u).held → t = u ∨ (m = .R ∧ m' = .R)

theorem excl_step {s s' : State} (h : Excl s) (st : Step s s') : Excl s' := by
  cases st with
  | acq t l m rest htodo hen =>
    intro a b l0 m0 m0' ha hb
    by_cases hat : a = t <;> by_cases hbt : b = t
    · left; rw [hat, hbt]
    · right
      rw [hat, State.set_same] at ha
      rw [State.set_other _ _ _ _ hbt] at hb
      simp only [List.mem_cons, Prod.mk.injEq] at ha
      rcases ha with ⟨rfl, rfl⟩ | ha
      · exact hen b m0' hb
      · rcases h t b l0 m0 m0' ha hb with e | e
        · exact absurd e.symm hbt
        · exact e
    · right
      rw [hbt, State.set_same] at hb
      rw [State.set_other _ _ _ _ hat] at ha
      simp only [List.mem_cons, Prod.mk.injEq] at hb
      rcases hb with ⟨rfl, rfl⟩ | hb
      · have := hen a m0 ha
        exact ⟨this.2, this.1⟩
      · rcases h a t l0 m0 m0' ha hb with e | e
        · exact absurd e hat
        · exact e
    · rw [State.set_other _ _ _ _ hat] at ha
      rw [State.set_other _ _ _ _ hbt] at hb
      exact h a b l0 m0 m0' ha hb
  | rel t l m rest htodo =>
    intro a b l0 m0 m0' ha hb
    have ha' : (l0, m0) ∈ (s a).held := by
      by_cases hat : a = t
      · rw [hat, State.set_same] at ha; rw [hat]; exact List.mem_of_mem_erase ha
      · rw [State.set_other _ _ _ _ hat] at ha; exact ha
    have hb' : (l0, m0') ∈ (s b).held := by
      by_cases hbt : b = t
      · rw [hbt, State.set_same] at hb; rw [hbt]; exact List.mem_of_mem_erase hb
      · rw [State.set_other _ _ _ _ hbt] at hb; exact hb
    exact h a b l0 m0 m0' ha' hb'
  | rd t x rest htodo =>
    intro a b l0 m0 m0' ha hb
    have ha' : (l0, m0) ∈ (s a).held := by
      by_cases hat : a = t
      · rw [hat, State.set_same] at ha; rw [hat]; exact ha
      · rw [State.set_other _ _ _ _ hat] at ha; exact ha
    have hb' : (l0, m0') ∈ (s b).held := by
      by_cases hbt : b = t
      · rw [hbt, State.set_same] at hb; rw [hbt]; exact hb
      · rw [State.set_other _ _ _ _ hbt] at hb; exact hb
    exact h a b l0 m0 m0' ha' hb'
  | wr t x rest htodo =>
    intro a b l0 m0 m0' ha hb
    have ha' : (l0, m0) ∈ (s a).held := by
      by_cases hat : a = t
      · rw [hat, State.set_same] at ha; rw [hat]; exact ha
      · rw [State.set_other _ _ _ _ hat] at ha; exact ha
    have hb' : (l0, m0') ∈ (s b).held := by
      by_cases hbt : b = t
      · rw [hbt, State.set_same] at hb; rw [hbt]; exact hb
      · rw [State.set_other _ _ _ _ hbt] at hb; exact hb
    exact h a b l0 m0 m0' ha' hb'

/-- every goroutine's remaining program keeps the discipline, given what it holds now -/
def AllWell (g : Loc → Lock) (s : State) : Prop := ∀ t, WellLocked g (s t).held (s t).todo

theorem well_step {g : Loc → Lock} {s s' : State} (h : AllWell g s) (st : Step s s') : AllWell g s' := by
  cases st with
  | acq t l m rest htodo hen =>
    intro a
    by_cases hat : a = t
    · rw [hat, State.set_same]
      have := h t; rw [htodo] at this; exact this
    · rw [State.set_other _ _ _ _ hat]; exact h a
  | rel t l m rest htodo =>
    intro a
    by_cases hat : a = t
    · rw [hat, State.set_same]
      have := h t; rw [htodo] at this; exact this.2
    · rw [State.set_other _ _ _ _ hat]; exact h a
  | rd t x rest htodo =>
    intro a
    by_cases hat : a = t
    · rw [hat, State.set_same]
      have := h t; rw [htodo] at this; exact this.2
    · rw [State.set_other _ _ _ _ hat]; exact h a
  | wr t x rest htodo =>
    intro a
    by_cases hat : a = t
    · rw [hat, State.set_same]
      have := h t; rw [htodo] at this; exact this.2
    · rw [State.set_other _ _ _ _ hat]; exact h a

theorem inv_reach {g : Loc → Lock} {s0 s : State} (r : Reach s0 s) (he : Excl s0) (hw : AllWell g s0) :
    Excl s ∧ AllWell g s := by
  induction r with
  | refl => exact ⟨he, hw⟩
  | step _ st ih => exact ⟨excl_step ih.1 st, well_step ih.2 st⟩

/-- **Lockset soundness.** Goroutines that start holding nothing and whose programs access every
location under its guard (write mode for writes) never reach a state with a data race — for any
number of goroutines, any programs, any interleaving. -/
theorem lockset_sound (g : Loc → Lock) (s0 s : State)
    (h0 : ∀ t, (s0 t).held = []) (hw : ∀ t, WellLocked g [] (s0 t).todo)
    (r : Reach s0 s) : ¬ Race s := by
  have he : Excl s0 := by
    intro t u l m m' ht _; rw [h0 t] at ht; cases ht
  have hw0 : AllWell g s0 := by intro t; rw [h0 t]; exact hw t
  obtain ⟨hex, hwell⟩ := inv_reach r he hw0
  rintro ⟨t, u, x, rt, ru, hne, ht, hu⟩
  have h1 := hwell t; rw [ht] at h1
  have hW : (g x, Mode.W) ∈ (s t).held := h1.1
  have hM : ∃ m', (g x, m') ∈ (s u).held := by
    rcases hu with hu | hu
    · have h2 := hwell u; rw [hu] at h2; exact ⟨Mode.W, h2.1⟩
    · have h2 := hwell u; rw [hu] at h2; exact h2.1
  obtain ⟨m', hm'⟩ := hM
  rcases hex t u (g x) Mode.W m' hW hm' with e | e
  · exact hne e
  · cases e.1

/-! ### lock order -/

def AllRanked (rank : Lock → Nat) (s : State) : Prop := ∀ t, Ranked rank (s t).held (s t).todo

theorem ranked_step {rank : Lock → Nat} {s s' : State} (h : AllRanked rank s) (st : Step s s') :
    AllRanked rank s' := by
  cases st with
  | acq t l m rest htodo hen =>
    intro a
    by_cases hat : a = t
    · rw [hat, State.set_same]
      have := h t; rw [htodo] at this; exact this.2
    · rw [State.set_other _ _ _ _ hat]; exact h a
  | rel t l m rest htodo =>
    intro a
    by_cases hat : a = t
    · rw [hat, State.set_same]
      have := h t; rw [htodo] at this; exact this
    · rw [State.set_other _ _ _ _ hat]; exact h a
  | rd t x rest htodo =>
    intro a
    by_cases hat : a = t
    · rw [hat, State.set_same]
      have := h t; rw [htodo] at this; exact this
    · rw [State.set_other _ _ _ _ hat]; exact h a
  | wr t x rest htodo =>
    intro a
    by_cases hat : a = t
    · rw [hat, State.set_same]
      have := h t; rw [htodo] at this; exact this
    · rw [State.set_other _ _ _ _ hat]; exact h a

theorem ranked_reach {rank : Lock → Nat} {s0 s : State} (r : Reach s0 s) (h : AllRanked rank s0) :
    AllRanked rank s := by
  induction r with
  | refl => exact h
  | step _ st ih => exact ranked_step ih st

/-- in a state where nobody can move, a goroutine waiting for a lock leads to a goroutine
waiting for a lock of strictly higher rank — impossible when ranks are bounded -/
theorem no_blocked_chain (rank : Lock → Nat) (B : Nat) (hB : ∀ l, rank l ≤ B) (s : State)
    (hr : AllRanked rank s) (hstuck : ∀ s', ¬ Step s s') :
    ∀ n t l m rest, (s t).todo = .acq l m :: rest → B - rank l < n → False := by
  intro n
  induction n with
  | zero => intro t l m rest _ h; exact Nat.not_lt_zero _ h
  | succ n ih =>
    intro t l m rest htodo hlt
    -- the acquisition is not enabled: somebody holds `l` incompatibly
    have hne : ¬ Enabled s l m := fun hen => hstuck _ (Step.acq s t l m rest htodo hen)
    have : ∃ u m', (l, m') ∈ (s u).held := by
      apply Classical.byContradiction
      intro hno
      apply hne
      intro u m' hmem
      exact absurd ⟨u, m', hmem⟩ hno
    obtain ⟨u, m', hmem⟩ := this
    have hru := hr u
    cases htu : (s u).todo with
    | nil =>
      rw [htu] at hru
      have : (s u).held = [] := hru
      rw [this] at hmem; cases hmem
    | cons ev rest' =>
      cases ev with
      | acq l' m'' =>
        rw [htu] at hru
        have hlt' : rank l < rank l' := hru.1 (l, m') hmem
        have := hB l'
        exact ih u l' m'' rest' htu (by omega)
      | rel l' m'' => exact hstuck _ (Step.rel s u l' m'' rest' htu)
      | rd x => exact hstuck _ (Step.rd s u x rest' htu)
      | wr x => exact hstuck _ (Step.wr s u x rest' htu)

/-- **Lock-order soundness.** Goroutines that start holding nothing, acquire locks only in
strictly increasing rank and release what they take never reach a state in which work is left
and nobody can move — no deadlock on the mutexes, for any number of goroutines and any
interleaving. -/
theorem lockorder_sound (rank : Lock → Nat) (B : Nat) (hB : ∀ l, rank l ≤ B) (s0 s : State)
    (h0 : ∀ t, (s0 t).held = []) (hr : ∀ t, Ranked rank [] (s0 t).todo)
    (r : Reach s0 s) : ¬ Stuck s := by
  have hr0 : AllRanked rank s0 := by intro t; rw [h0 t]; exact hr t
  have hrs := ranked_reach r hr0
  rintro ⟨⟨t, hne⟩, hstuck⟩
  cases htodo : (s t).todo with
  | nil => exact hne htodo
  | cons ev rest =>
    cases ev with
    | acq l m => exact no_blocked_chain rank B hB s hrs hstuck (B - rank l + 1) t l m rest htodo (by omega)
    | rel l m => exact hstuck _ (Step.rel s t l m rest htodo)
    | rd x => exact hstuck _ (Step.rd s t x rest htodo)
    | wr x => exact hstuck _ (Step.wr s t x rest htodo)

/-! non-vacuity: a two-goroutine system meeting the hypotheses, and the racy variant that does not -/

private def prog : List Ev := [.acq 0 .W, .wr 7, .rel 0 .W]
example : WellLocked (fun _ => 0) [] prog := by simp [prog, WellLocked]
example : Ranked (fun l => l) [] [.acq 0 .R, .acq 1 .W, .rel 1 .W, .rel 0 .R] := by
  simp [Ranked]
example : ¬ WellLocked (fun _ => 0) [] [.acq 0 .R, .wr 7, .rel 0 .R] := by simp [WellLocked]
example : ¬ Ranked (fun l => l) [] [.acq 1 .W, .acq 0 .W, .rel 0 .W, .rel 1 .W] := by simp [Ranked]

end Helios.Locks

namespace Helios.Facts
open Helios.Locks Helios.Generated.Locks

/-- the analysis handled every statement and expression form it met -/
theorem lock_analysis_clean : problems = [] := by decide

/-- **Every shared access is protected.** Each access the current source makes to a field of a
Helios struct is to an unshared object, atomic where the field is atomic, a read of a field
never written after publication, or made while certainly holding the field's guard — in write
mode for a write. These are the hypotheses `lockset_sound` needs, row by row. -/
theorem accesses_guarded : accessChunks.all (fun c => c.all (Access.ok (policy initFuncs))) = true := by
  decide +kernel

/-- the functions the policy lets write package-level registries are called only by `init`
functions and never escape as values: those writes happen before `main` starts -/
theorem init_writers_called_from_init :
    globalWriterCallers.all (fun r => !initWriters.contains r.1 ||
      (!r.2.2 && r.2.1.all (fun c => initFuncs.contains c))) = true := by decide +kernel

/-- every mutex in the source has a rank -/
theorem lock_classes_ranked : lockClasses.all (fun c => (rankOf c).isSome) = true := by decide +kernel

/-- **Locks are taken in rank order.** Every (held, acquired) pair the source can produce,
through direct, interface and cross-package calls, goes from a lower to a strictly higher rank;
in particular no lock class is ever nested in itself. Hypothesis of `lockorder_sound`. -/
theorem lock_order_ranked : orderEdges.all edgeOk = true := by decide +kernel

/-- no call through a function value (callback, hook) is made while a lock may be held -/
theorem no_callback_under_lock : dynamicCallsUnderLock = [] := by decide

/-- nothing waits for another goroutine — a channel receive or send outside a `select`, a `WaitGroup` or `Cond`
wait, a sleep — while a lock may be held (taken in the function itself or, through any chain of calls, by a
caller): the goroutine waited for can then never be one that needs that lock -/
theorem no_wait_under_lock : blockingUnderLock = [] := by decide

/-- no method hands a slice or map held in a field to its caller as it is (or re-sliced) while the lock that guards
it is held: what a caller walks after the lock is gone is a copy, so a listing sees a backend set that existed -/
theorem no_shared_guarded_returns : sharedGuardedReturns = [] := by decide

/-- the only function that releases a lock taken by its caller is the breaker's notifier -/
theorem caller_releases_known :
    callerLockReleases.all (fun c =>
      ["internal/circuitbreaker.CircuitBreaker.unlockAndNotify:CircuitBreaker.mutex"].contains c) = true := by
  decide

/-- function literals analysed as running synchronously are arguments of these callees only -/
theorem sync_literals_known :
    syncLiteralCallees.all (fun c => ["lb.circuitBreaker.Execute", "rl.buckets.Range"].contains c) = true := by
  decide

end Helios.Facts
