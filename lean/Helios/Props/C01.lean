import Helios.Lemmas.Wire
/-
C01 — end-to-end transparency with no transforming plugin configured.

For every backend handler script (any sequence of header edits, 1xx and final WriteHeader
calls, writes and flushes), every method class (HEAD or not) and every ID configuration, the
client of Helios receives what the backend's own server put on the wire: same status, same
body pieces, same framing error if the backend mis-declared its length, every header with the
backend's value — plus exactly the configured request/trace ID headers — and every body piece
is flushed to the client as soon as it is written.
-/
namespace Helios.Proxy
open Helios Helios.Http

/-! ### the writers between ReverseProxy and net/http -/

/-- the balancer's status-capturing writer forwards every operation unchanged -/
theorem transLb_id : ∀ (ops : List Op) (l : LbW), (transLb l ops).1 = ops
  | [], _ => rfl
  | op :: rest, l => by
    simp only [transLb]
    have : (l.step op).1 = [op] := by cases op <;> rfl
    rw [this, transLb_id rest]; rfl

/-- operations that do not send a final response header -/
def NonFinal : Op → Prop
  | .setH _ _ => True
  | .delH _ => True
  | .wh c => c ≥ 100 ∧ c < 200
  | _ => False

theorem transId_done : ∀ (ops : List Op) (want live : Hdr), transId want true live ops = ops
  | [], _, _ => by simp [transId]
  | op :: rest, want, live => by
    simp only [transId, Bool.not_true, Bool.and_false, Bool.false_eq_true, if_false]
    rw [transId_done rest]

theorem transId_prefix : ∀ (pre rest : List Op) (want live : Hdr), (∀ o ∈ pre, NonFinal o) →
    transId want false live (pre ++ rest) = pre ++ transId want false (pre.foldl applyHdr live) rest
  | [], _, _, _, _ => rfl
  | op :: t, rest, want, live, h => by
    have ho := h op (List.mem_cons_self ..)
    have ih := transId_prefix t rest want (applyHdr live op) (fun o hx => h o (List.mem_cons_of_mem _ hx))
    cases op with
    | setH k v => simp only [List.cons_append, transId, Bool.false_and, Bool.false_eq_true, if_false, List.foldl_cons]; rw [ih]
    | delH k => simp only [List.cons_append, transId, Bool.false_and, Bool.false_eq_true, if_false, List.foldl_cons]; rw [ih]
    | wh c =>
      simp only [NonFinal] at ho
      have hc : decide (c < 100 ∨ c ≥ 200) = false := by simp; omega
      simp only [List.cons_append, transId, hc, Bool.false_and, Bool.false_eq_true, if_false, List.foldl_cons]; rw [ih]
    | w c => exact ho.elim
    | wgz b => exact ho.elim
    | fl => exact ho.elim

/-- at the final WriteHeader the missing identifiers are put back, then everything passes -/
theorem transId_final (want live : Hdr) (st : Nat) (hst : ¬ (st ≥ 100 ∧ st < 200)) (rest : List Op) :
    transId want false live (.wh st :: rest) = ensureOps want live ++ [.wh st] ++ rest := by
  have hc : decide (st < 100 ∨ st ≥ 200) = true := by simp; omega
  simp only [transId, hc, Bool.not_false, Bool.and_self, if_true]
  rw [transId_done]

/-! ### header maps under ReverseProxy's interim handling -/

theorem foldl_setAll : ∀ (h live : Hdr), (setAll h).foldl applyHdr live = setFold live h
  | [], _ => rfl
  | kv :: t, live => by
    simp only [setAll, List.map_cons, List.foldl_cons, applyHdr, setFold]
    exact foldl_setAll t _

def delFold (m l : Hdr) : Hdr := l.foldl (fun m kv => m.del kv.1) m

theorem foldl_delAll : ∀ (l m : Hdr), (delAll l).foldl applyHdr m = delFold m l
  | [], _ => rfl
  | kv :: t, m => by
    simp only [delAll, List.map_cons, List.foldl_cons, applyHdr, delFold]
    exact foldl_delAll t _

theorem delFold_all : ∀ (l m : Hdr), (∀ x ∈ m, ∃ y ∈ l, y.1 = x.1) → delFold m l = []
  | [], m, h => by
    simp only [delFold, List.foldl_nil]
    apply List.eq_nil_iff_forall_not_mem.mpr
    intro x hx
    obtain ⟨y, hy, _⟩ := h x hx
    cases hy
  | kv :: t, m, h => by
    simp only [delFold, List.foldl_cons]
    apply delFold_all t
    intro x hx
    simp only [Hdr.del, List.mem_filter] at hx
    obtain ⟨y, hy, e⟩ := h x hx.1
    cases hy with
    | head =>
      have hne : x.1 ≠ kv.1 := by simpa using hx.2
      exact absurd e.symm hne
    | tail _ hy' => exact ⟨y, hy', e⟩

theorem mem_setFold : ∀ (h live : Hdr) (x : String × String), x ∈ setFold live h →
    (∃ y ∈ live, y.1 = x.1) ∨ (∃ y ∈ h, y.1 = x.1)
  | [], live, x, hx => Or.inl ⟨x, hx, rfl⟩
  | kv :: t, live, x, hx => by
    simp only [setFold, List.foldl_cons] at hx
    rcases mem_setFold t _ x hx with ⟨y, hy, e⟩ | ⟨y, hy, e⟩
    · simp only [Hdr.set, List.mem_append, List.mem_filter, List.mem_singleton] at hy
      rcases hy with hy | hy
      · exact Or.inl ⟨y, hy.1, e⟩
      · exact Or.inr ⟨kv, List.mem_cons_self .., by rw [← e, hy]⟩
    · exact Or.inr ⟨y, List.mem_cons_of_mem _ hy, e⟩

/-- one interim round leaves the header map empty -/
theorem round_empties (live h : Hdr) : delFold (setFold live h) (live ++ h) = [] := by
  apply delFold_all
  intro x hx
  rcases mem_setFold h live x hx with ⟨y, hy, e⟩ | ⟨y, hy, e⟩
  · exact ⟨y, List.mem_append_left _ hy, e⟩
  · exact ⟨y, List.mem_append_right _ hy, e⟩

theorem interim_live : ∀ (ints : List (Nat × Hdr)) (live : Hdr),
    (rpInterim live ints).foldl applyHdr live = if ints = [] then live else []
  | [], _ => rfl
  | (c, h) :: rest, live => by
    simp only [rpInterim, List.foldl_append, List.foldl_cons, List.foldl_nil, applyHdr,
      foldl_setAll, foldl_delAll, round_empties]
    have := interim_live rest []
    rw [this]
    simp

theorem interim_nonfinal : ∀ (ints : List (Nat × Hdr)) (live : Hdr),
    (∀ p ∈ ints, p.1 ≥ 100 ∧ p.1 < 200) → ∀ o ∈ rpInterim live ints, NonFinal o
  | [], _, _, o, ho => by cases ho
  | (c, h) :: rest, live, hc, o, ho => by
    simp only [rpInterim, List.mem_append, List.mem_singleton, setAll, delAll, List.mem_map] at ho
    rcases ho with ((⟨kv, _, rfl⟩ | rfl) | ⟨kv, _, rfl⟩) | ho
    · trivial
    · exact hc (c, h) (List.mem_cons_self ..)
    · trivial
    · exact interim_nonfinal rest [] (fun p hp => hc p (List.mem_cons_of_mem _ hp)) o ho

theorem run_nonfinal : ∀ (ops : List Op) (b : Base), b.status = none → (∀ o ∈ ops, NonFinal o) →
    (Base.run b ops).status = none ∧ (Base.run b ops).pieces = b.pieces ∧
    (Base.run b ops).gzOpaque = b.gzOpaque ∧ (Base.run b ops).head = b.head ∧
    (Base.run b ops).written = b.written ∧ (Base.run b ops).hdr = ops.foldl applyHdr b.hdr
  | [], b, hs, _ => ⟨hs, rfl, rfl, rfl, rfl, rfl⟩
  | op :: t, b, hs, h => by
    have ho := h op (List.mem_cons_self ..)
    have key : (b.step op).status = none ∧ (b.step op).pieces = b.pieces ∧ (b.step op).gzOpaque = b.gzOpaque ∧
        (b.step op).head = b.head ∧ (b.step op).written = b.written ∧ (b.step op).hdr = applyHdr b.hdr op := by
      cases op with
      | setH k v => exact ⟨hs, rfl, rfl, rfl, rfl, rfl⟩
      | delH k => exact ⟨hs, rfl, rfl, rfl, rfl, rfl⟩
      | wh c =>
        simp only [NonFinal] at ho
        simp only [Base.step, hs, Option.isSome_none, Bool.false_eq_true, if_false, if_pos ho, applyHdr]
        exact ⟨trivial, trivial, trivial, trivial, trivial, trivial⟩
      | w c => exact ho.elim
      | wgz b => exact ho.elim
      | fl => exact ho.elim
    obtain ⟨k1, k2, k3, k4, k5, k6⟩ := key
    have ih := run_nonfinal t (b.step op) k1 (fun o hx => h o (List.mem_cons_of_mem _ hx))
    rw [run_cons]
    obtain ⟨i1, i2, i3, i4, i5, i6⟩ := ih
    exact ⟨i1, by rw [i2, k2], by rw [i3, k3], by rw [i4, k4], by rw [i5, k5], by rw [i6, k6]; rfl⟩

theorem distinct_append : ∀ (a b : Hdr), Distinct a → Distinct b → (∀ x ∈ a, NoKey b x.1) → Distinct (a ++ b)
  | [], _, _, hb, _ => hb
  | kv :: t, b, ha, hb, hx => by
    simp only [Distinct] at ha
    simp only [List.cons_append, Distinct]
    refine ⟨?_, distinct_append t b ha.2 hb (fun x h => hx x (List.mem_cons_of_mem _ h))⟩
    intro y hy
    rcases List.mem_append.mp hy with h | h
    · exact ha.1 y h
    · exact hx kv (List.mem_cons_self ..) y h

/-! ### the theorems -/

/-- header names Helios puts on a response must not collide with the framing headers or with
headers the backend itself sets (documented: the backend does not produce the ID headers) -/
structure IdsOK (want backend : Hdr) : Prop where
  distinct : Distinct want
  notCL : NoKey want "Content-Length"
  notCT : NoKey want "Content-Type"
  fresh : ∀ kv ∈ want, NoKey backend kv.1

theorem nokey_nil (k : String) : NoKey [] k := by intro x hx; cases hx

theorem rpFinal_eq (b : Base) :
    rpFinal b = setAll b.view.hdr ++ (.wh b.view.status :: copyPieces b.view.pieces) := by
  simp [rpFinal]

/-- shape of the operations that reach Helios' server -/
theorem via_ops_shape (cfg : IdCfg) (ids : Ids) (b : Base)
    (hic : ∀ p ∈ b.interim.zip b.interimSnap, p.1 ≥ 100 ∧ p.1 < 200) (hfin : ¬ (b.view.status ≥ 100 ∧ b.view.status < 200)) :
    viaOps cfg ids b = (setAll (idHdrs cfg ids) ++ rpInterim (idHdrs cfg ids) (b.interim.zip b.interimSnap)) ++
      (setAll b.view.hdr ++ setAll ((idHdrs cfg ids).filter (fun kv => kv.2 != "" &&
          (setFold (if b.interim.zip b.interimSnap = [] then idHdrs cfg ids else []) b.view.hdr).get kv.1 == "")) ++
        [.wh b.view.status] ++ copyPieces b.view.pieces) := by
  have hnf : ∀ o ∈ setAll b.view.hdr, NonFinal o := by
    intro o ho
    simp only [setAll, List.mem_map] at ho
    obtain ⟨kv, _, rfl⟩ := ho
    trivial
  simp only [viaOps, transLb_id, rpOps]
  rw [rpFinal_eq, transId_prefix _ _ _ _ (interim_nonfinal _ _ hic), interim_live,
    transId_prefix _ _ _ _ hnf, foldl_setAll, transId_final _ _ _ hfin]
  simp [ensureOps, setAll, List.append_assoc]

/-- **Transparency (responses).** Through Helios the client receives the backend's response:
status, body pieces and framing error exactly as the backend's server sent them, every header
not named like an ID header with the backend's value, and every enabled ID header with the
identifier in force for the request — with or without 1xx interim responses before it — and
every body piece is flushed to the client as soon as it has been written. -/
theorem via_transparent (cfg : IdCfg) (ids : Ids) (head : Bool) (ops : List Op)
    (hno : ∀ o ∈ ops, ∀ body, o ≠ .wgz body)
    (hok : IdsOK (idHdrs cfg ids) (Base.run { head := head } ops).view.hdr) :
    let b := Base.run { head := head } ops
    let c := via cfg ids b
    c.view.status = b.view.status ∧ c.view.pieces = b.view.pieces ∧ c.view.short = b.view.short ∧
    (∀ k, NoKey (idHdrs cfg ids) k → c.view.hdr.get k = b.view.hdr.get k) ∧
    (∀ kv ∈ idHdrs cfg ids, kv.2 ≠ "" → c.view.hdr.get kv.1 = kv.2) ∧
    (∀ n, 1 ≤ n → n ≤ b.view.pieces.length → n ∈ c.flushes) := by
  intro b c
  have hinv : Inv b := inv_run ops _ hno (inv_init head)
  have hbh : b.head = head := run_head ops _
  have hw : WireOK b.view head := wire_ok head ops hno
  have hic : ∀ p ∈ b.interim.zip b.interimSnap, p.1 ≥ 100 ∧ p.1 < 200 := by
    intro p hp
    exact hinv.ic p.1 (List.of_mem_zip hp).1
  have shape := via_ops_shape cfg ids b hic hw.final
  -- state of Helios' server when the final response starts
  have hpre : ∀ s0, s0 = Base.run { head := b.head } (setAll (idHdrs cfg ids) ++ rpInterim (idHdrs cfg ids) (b.interim.zip b.interimSnap)) →
      s0.status = none ∧ s0.pieces = [] ∧ s0.gzOpaque = 0 ∧ s0.head = head ∧ s0.written = 0 ∧
      s0.hdr = (if b.interim.zip b.interimSnap = [] then idHdrs cfg ids else []) := by
    intro s0 hs0
    have := run_nonfinal (rpInterim (idHdrs cfg ids) (b.interim.zip b.interimSnap))
      (Base.run { head := b.head } (setAll (idHdrs cfg ids))) (by rw [run_setAll])
      (interim_nonfinal _ _ hic)
    rw [← run_append, ← hs0] at this
    obtain ⟨p1, p2, p3, p4, p5, p6⟩ := this
    rw [run_setAll] at p2 p3 p4 p5 p6
    have hwant0 : setFold [] (idHdrs cfg ids) = idHdrs cfg ids := by
      have := setFold_distinct (idHdrs cfg ids) [] (by simpa using hok.distinct)
      simpa using this
    simp only [] at p2 p3 p4 p5 p6
    rw [hwant0, interim_live] at p6
    exact ⟨p1, p2, p3, by rw [p4, hbh], p5, p6⟩
  have hc : c = Base.run (Base.run { head := b.head } (setAll (idHdrs cfg ids) ++ rpInterim (idHdrs cfg ids) (b.interim.zip b.interimSnap)))
      (setAll b.view.hdr ++ setAll ((idHdrs cfg ids).filter (fun kv => kv.2 != "" &&
          (setFold (if b.interim.zip b.interimSnap = [] then idHdrs cfg ids else []) b.view.hdr).get kv.1 == "")) ++
        [.wh b.view.status] ++ copyPieces b.view.pieces) := by
    show via cfg ids b = _
    simp only [via]
    rw [shape, run_append]
  generalize hs0 : Base.run { head := b.head } (setAll (idHdrs cfg ids) ++ rpInterim (idHdrs cfg ids) (b.interim.zip b.interimSnap)) = s0 at hc
  obtain ⟨p1, p2, p3, p4, p5, p6⟩ := hpre s0 hs0.symm
  generalize hwant : idHdrs cfg ids = want at *
  generalize hints : b.interim.zip b.interimSnap = ints at *
  by_cases hi : ints = []
  · -- identifiers are still in the map: nothing is put back
    have hlive : setFold want b.view.hdr = want ++ b.view.hdr :=
      setFold_distinct _ _ (distinct_append _ _ hok.distinct hw.distinct hok.fresh)
    have hextra : want.filter (fun kv => kv.2 != "" && (want ++ b.view.hdr).get kv.1 == "") = [] := by
      apply List.filter_eq_nil_iff.mpr
      intro kv hkv
      have : (want ++ b.view.hdr).get kv.1 = kv.2 := by
        rw [get_append_left _ _ _ (hok.fresh kv hkv)]
        exact get_of_mem want hok.distinct kv hkv
      rw [this]
      cases hv : (kv.2 != "") <;> simp_all
    simp only [hi, if_true] at hc p6
    rw [hlive, hextra] at hc
    have hd : Distinct (want ++ b.view.hdr ++ []) := by
      simpa using distinct_append _ _ hok.distinct hw.distinct hok.fresh
    have hr := replay head s0 b.view want [] p1 p2 p3 p4 p6 p5 hw hd
      ⟨hok.notCL, hok.notCT⟩ ⟨nokey_nil _, nokey_nil _⟩
    have hf := replay_flushes head s0 b.view want [] p1 p2 p4 p6 p5 hw hd hok.notCL (nokey_nil _)
    rw [← hc] at hr hf
    rw [hr]
    refine ⟨rfl, rfl, rfl, ?_, ?_, hf⟩
    · intro k hk
      show Hdr.get (want ++ b.view.hdr ++ []) k = _
      rw [List.append_nil, get_append_right _ _ _ hk]
    · intro kv hkv _
      show Hdr.get (want ++ b.view.hdr ++ []) kv.1 = _
      rw [List.append_nil, get_append_left _ _ _ (hok.fresh kv hkv)]
      exact get_of_mem want hok.distinct kv hkv
  · -- the interim round wiped the map: the identifiers are put back at the final header
    have hlive : setFold [] b.view.hdr = b.view.hdr := by
      have := setFold_distinct b.view.hdr [] (by simpa using hw.distinct)
      simpa using this
    have hextra : want.filter (fun kv => kv.2 != "" && b.view.hdr.get kv.1 == "") = want.filter (fun kv => kv.2 != "") := by
      apply List.filter_congr
      intro kv hkv
      rw [get_nokey _ _ (hok.fresh kv hkv)]
      simp
    simp only [hi, if_false] at hc p6
    rw [hlive, hextra] at hc
    generalize hextra' : want.filter (fun kv => kv.2 != "") = extra at hc
    have hsub : ∀ x ∈ extra, x ∈ want := fun x hx => by rw [← hextra'] at hx; exact (List.mem_filter.mp hx).1
    have hde : Distinct extra := by rw [← hextra']; exact distinct_filter _ want hok.distinct
    have hd : Distinct ([] ++ b.view.hdr ++ extra) := by
      simp only [List.nil_append]
      apply distinct_append _ _ hw.distinct hde
      intro x hx y hy e
      exact hok.fresh y (hsub y hy) x hx e.symm
    have hr := replay head s0 b.view [] extra p1 p2 p3 p4 p6 p5 hw hd
      ⟨nokey_nil _, nokey_nil _⟩
      ⟨fun x hx => hok.notCL x (hsub x hx), fun x hx => hok.notCT x (hsub x hx)⟩
    have hf := replay_flushes head s0 b.view [] extra p1 p2 p4 p6 p5 hw hd (nokey_nil _)
      (fun x hx => hok.notCL x (hsub x hx))
    rw [← hc] at hr hf
    rw [hr]
    refine ⟨rfl, rfl, rfl, ?_, ?_, hf⟩
    · intro k hk
      show Hdr.get ([] ++ b.view.hdr ++ extra) k = _
      rw [List.nil_append, get_append_left _ _ _ (fun x hx => hk x (hsub x hx))]
    · intro kv hkv hne
      show Hdr.get ([] ++ b.view.hdr ++ extra) kv.1 = _
      rw [List.nil_append, get_append_right _ _ _ (hok.fresh kv hkv)]
      apply get_of_mem extra hde kv
      rw [← hextra']
      exact List.mem_filter.mpr ⟨hkv, by simpa using hne⟩

/-! ### the logging plugin's status recorder (a non-transforming plugin) -/

theorem commit_commit (b : Base) (c d : Nat) : (b.commit c).commit d = b.commit c := by
  cases hs : b.status <;> simp [Base.commit, hs]

theorem wh200_then (b : Base) (op : Op) (hop : (∃ c, op = .w c) ∨ (∃ body, op = .wgz body)) :
    (b.step (.wh 200)).step op = b.step op := by
  have hwh : b.step (.wh 200) = b.commit 200 := by
    simp only [Base.step]
    cases hs : b.status with
    | none => simp
    | some s => simp [Base.commit, hs]
  rw [hwh]
  rcases hop with ⟨c, rfl⟩ | ⟨body, rfl⟩ <;> simp only [Base.step, commit_commit]

/-- **The logging plugin is transparent.** Its status recorder forwards every operation; the
explicit 200 it writes before a first body write is what net/http would have done implicitly:
the server ends in exactly the same state, for every operation sequence. -/
theorem rec_transparent : ∀ (ops : List Op) (r : Rec) (b : Base), Base.run b (transRec r ops) = Base.run b ops
  | [], _, _ => by simp [transRec]
  | op :: rest, r, b => by
    simp only [transRec]
    rw [run_append, run_cons]
    have ih := fun r' b' => rec_transparent rest r' b'
    cases op with
    | setH k v => simp only [Rec.step, Base.run, List.foldl_cons, List.foldl_nil]; exact ih _ _
    | delH k => simp only [Rec.step, Base.run, List.foldl_cons, List.foldl_nil]; exact ih _ _
    | fl => simp only [Rec.step, Base.run, List.foldl_cons, List.foldl_nil]; exact ih _ _
    | wh c => simp only [Rec.step, Base.run, List.foldl_cons, List.foldl_nil]; exact ih _ _
    | w c =>
      simp only [Rec.step]
      split
      · simp only [Base.run, List.foldl_cons, List.foldl_nil]; exact ih _ _
      · simp only [Base.run, List.foldl_cons, List.foldl_nil]
        rw [wh200_then b (.w c) (Or.inl ⟨c, rfl⟩)]; exact ih _ _
    | wgz body =>
      simp only [Rec.step]
      split
      · simp only [Base.run, List.foldl_cons, List.foldl_nil]; exact ih _ _
      · simp only [Base.run, List.foldl_cons, List.foldl_nil]
        rw [wh200_then b (.wgz body) (Or.inr ⟨body, rfl⟩)]; exact ih _ _

/-! ### request side -/

theorem get_set_self (h : Hdr) (k v : String) : (h.set k v).get k = v := by
  have hn : NoKey (h.filter (fun x => decide (x.1 ≠ k))) k := by
    intro x hx
    simpa using (List.mem_filter.mp hx).2
  simp only [Hdr.set]
  rw [get_append_right _ _ _ hn]
  simp [Hdr.get]

/-- **Transparency (requests).** The middleware forwards every request header unchanged except
the configured ID headers; a supplied non-blank identifier is forwarded as it is, a missing or
blank one is replaced by the generated identifier, a disabled feature touches nothing. (Method,
target and body are not arguments of the middleware at all.) -/
theorem request_preserved (cfg : IdCfg) (gen : Ids) (h : Hdr) :
    (∀ k, k ≠ cfg.reqName → k ≠ cfg.traceName → (fwdHdr cfg gen h).get k = h.get k) ∧
    (cfg.reqName ≠ cfg.traceName →
      (fwdHdr cfg gen h).get cfg.reqName =
        (if cfg.reqOn && blank (h.get cfg.reqName) then gen.req else h.get cfg.reqName) ∧
      (fwdHdr cfg gen h).get cfg.traceName =
        (if cfg.traceOn && blank (h.get cfg.traceName) then gen.trace else h.get cfg.traceName)) := by
  constructor
  · intro k h1 h2
    simp only [fwdHdr]
    split <;> split <;> simp only [get_set_other _ _ _ _ (Ne.symm h1), get_set_other _ _ _ _ (Ne.symm h2)]
  · intro hne
    simp only [fwdHdr]
    constructor
    · by_cases c1 : (cfg.reqOn && blank (h.get cfg.reqName)) = true
      · simp only [c1, if_true]
        split
        · rw [get_set_other _ _ _ _ (Ne.symm hne), get_set_self]
        · rw [get_set_self]
      · simp only [c1, Bool.false_eq_true, if_false]
        split
        · rw [get_set_other _ _ _ _ (Ne.symm hne)]
        · rfl
    · by_cases c1 : (cfg.reqOn && blank (h.get cfg.reqName)) = true
      · simp only [c1, if_true]
        rw [get_set_other _ _ _ _ hne]
        split
        · rw [get_set_self]
        · rw [get_set_other _ _ _ _ hne]
      · simp only [c1, Bool.false_eq_true, if_false]
        split
        · rw [get_set_self]
        · rfl

/-! ### non-vacuity -/

private def cfg2 : IdCfg := { reqOn := true, traceOn := true }
private def ids2 : Ids := { req := "abc", trace := "trace_00" }
/-- a backend that sends 103 Early Hints, then 200 with a 5-byte body in two flushed pieces -/
private def script : List Op :=
  [.setH "Link" "</s.css>", .wh 103, .setH "Content-Type" "text/plain", .wh 200, .w (2, 1), .fl, .w (3, 3)]

example : IdsOK (idHdrs cfg2 ids2) (Base.run { head := false } script).view.hdr := by
  refine ⟨?_, ?_, ?_, ?_⟩
  · simp [idHdrs, cfg2, ids2, Distinct]
  · intro x hx; simp [idHdrs, cfg2, ids2] at hx; rcases hx with rfl | rfl <;> decide
  · intro x hx; simp [idHdrs, cfg2, ids2] at hx; rcases hx with rfl | rfl <;> decide
  · intro kv hkv
    have hv : (Base.run { head := false } script).view.hdr = [("Link", "</s.css>"), ("Content-Type", "text/plain")] := by
      decide
    rw [hv]
    simp [idHdrs, cfg2, ids2] at hkv
    rcases hkv with rfl | rfl <;> (intro x hx; simp at hx; rcases hx with rfl | rfl <;> decide)

/-- the same exchange evaluated: the final response carries the identifiers although the 103
round wiped the header map, and both pieces are flushed -/
example : ((via cfg2 ids2 (Base.run { head := false } script)).view.hdr.get "X-Request-Id",
           (via cfg2 ids2 (Base.run { head := false } script)).view.status,
           (via cfg2 ids2 (Base.run { head := false } script)).interim,
           (via cfg2 ids2 (Base.run { head := false } script)).flushes) = ("abc", 200, [103], [1, 2]) := by
  decide

end Helios.Proxy
