import Helios.Model.Config
import Helios.Props.C08
/-
C18 — Configuration loading: rejects exactly the invalid, accepts all documented forms.
-/
namespace Helios.Cfg

theorem backendRules_none' (bs : List Backend) :
    (∀ r ∈ backendRules bs, r.1 = false) ↔ ∀ b ∈ bs, b.name ≠ "" ∧ b.address ≠ "" ∧ 0 ≤ b.weight := by
  induction bs with
  | nil => simp [backendRules]
  | cons b bs ih =>
    simp only [backendRules, List.mem_append, List.mem_cons, List.mem_nil_iff, or_false]
    constructor
    · intro h
      intro x hx
      rcases hx with rfl | hx
      · have h1 := h (x.name == "", 2) (Or.inl (Or.inl rfl))
        have h2 := h (x.address == "", 3) (Or.inl (Or.inr (Or.inl rfl)))
        have h3 := h (decide (x.weight < 0), 4) (Or.inl (Or.inr (Or.inr rfl)))
        simp only [beq_eq_false_iff_ne, ne_eq, decide_eq_false_iff_not] at h1 h2 h3
        exact ⟨h1, h2, by omega⟩
      · exact (ih.mp (fun r hr => h r (Or.inr hr))) x hx
    · intro h r hr
      rcases hr with (rfl | rfl | rfl) | hr
      · simpa using (h b (Or.inl rfl)).1
      · simpa using (h b (Or.inl rfl)).2.1
      · have := (h b (Or.inl rfl)).2.2; simp only [decide_eq_false_iff_not]; omega
      · exact (ih.mpr (fun x hx => h x (Or.inr hx))) r hr

/-- no rule of the list is violated -/
def af (l : List (Bool × Nat)) : Prop := ∀ r ∈ l, r.1 = false

theorem backendRules_none (bs : List Backend) :
    af (backendRules bs) ↔ ∀ b ∈ bs, b.name ≠ "" ∧ b.address ≠ "" ∧ 0 ≤ b.weight := backendRules_none' bs

theorem af_nil : af [] := by intro r hr; cases hr
theorem af_cons (x : Bool) (n : Nat) (l : List (Bool × Nat)) : af ((x, n) :: l) ↔ x = false ∧ af l := by
  simp [af]
theorem af_append (a b : List (Bool × Nat)) : af (a ++ b) ↔ af a ∧ af b := by
  simp only [af, List.mem_append]
  constructor
  · intro h; exact ⟨fun r hr => h r (Or.inl hr), fun r hr => h r (Or.inr hr)⟩
  · rintro ⟨h1, h2⟩ r (hr | hr); exact h1 r hr; exact h2 r hr

theorem sServer (c : Config) : af (rServer c) ↔ DServer c := by
  simp only [rServer, af_cons, af_nil, and_true, DServer, portBad, Bool.or_eq_false_iff, decide_eq_false_iff_not,
    Bool.and_eq_false_iff, beq_eq_false_iff_ne, ne_eq]
  by_cases h1 : c.tlsCert = "" <;> by_cases h2 : c.tlsKey = "" <;> cases c.tlsOn <;> simp [h1, h2] <;> omega

theorem sTimeouts (c : Config) : af (rTimeouts c) ↔ DTimeouts c := by
  simp only [rTimeouts, af_cons, af_nil, and_true, DTimeouts, decide_eq_false_iff_not]
  omega

theorem sLB (c : Config) : af (rLB c) ↔ DLB c := by
  simp only [rLB, af_cons, af_nil, and_true, DLB, Bool.and_eq_false_iff, decide_eq_false_iff_not,
    bne_eq_false_iff_eq, Bool.not_eq_false', List.contains_eq_mem, decide_eq_true_eq]
  cases c.wsOn <;> simp <;> omega

theorem sHealth (c : Config) : af (rHealth c) ↔ DHealth c := by
  simp only [rHealth, af_cons, af_nil, and_true, DHealth, Bool.and_eq_false_iff, decide_eq_false_iff_not,
    beq_eq_false_iff_ne, ne_eq]
  by_cases hp : c.actPath = "" <;> cases c.actOn <;> cases c.pasOn <;> simp [hp] <;> omega

theorem sRL (c : Config) : af (rRL c) ↔ DRL c := by
  simp only [rRL, af_cons, af_nil, and_true, DRL, Bool.and_eq_false_iff, decide_eq_false_iff_not]
  cases c.rlOn <;> simp <;> omega

theorem sCB (c : Config) : af (rCB c) ↔ DCB c := by
  simp only [rCB, af_cons, af_nil, and_true, DCB, Bool.and_eq_false_iff, decide_eq_false_iff_not]
  cases c.cbOn <;> simp <;> omega

theorem sMetrics (c : Config) : af (rMetrics c) ↔ DMetrics c := by
  simp only [rMetrics, af_cons, af_nil, and_true, DMetrics, portBad, Bool.and_eq_false_iff, Bool.or_eq_false_iff,
    decide_eq_false_iff_not, beq_eq_false_iff_ne, ne_eq, Bool.not_eq_false']
  by_cases hp : c.metPath = "" <;> by_cases hh : c.metPath = "/health" <;> cases hs : startsSlash c.metPath <;>
    cases c.metOn <;> simp [hp, hh] <;> omega

theorem sAdmin (c : Config) : af (rAdmin c) ↔ DAdmin c := by
  simp only [rAdmin, af_cons, af_nil, and_true, DAdmin, portBad, Bool.and_eq_false_iff, Bool.or_eq_false_iff,
    decide_eq_false_iff_not]
  cases c.admOn <;> simp <;> omega

theorem sLog (c : Config) : af (rLog c) ↔ DLog c := by
  simp only [rLog, af_cons, af_nil, and_true, DLog, Bool.and_eq_false_iff, bne_eq_false_iff_eq,
    Bool.not_eq_false', List.contains_eq_mem, decide_eq_true_eq]

theorem sRanges (c : Config) : af (rRanges c) ↔ DRanges c := by
  simp only [rRanges, af_cons, af_nil, and_true, DRanges, tooLong, Bool.and_eq_false_iff, decide_eq_false_iff_not]
  cases c.wsOn <;> cases c.actOn <;> cases c.pasOn <;> cases c.rlOn <;> cases c.cbOn <;> simp <;> omega

/-- **Rejects exactly the invalid.** Loading succeeds iff every documented constraint holds —
for any combination of sections. -/
theorem validate_iff_documented (c : Config) : validate c = none ↔ Documented c := by
  have hv : validate c = none ↔ af (rules c) := by
    simp only [validate, Option.map_eq_none_iff, List.find?_eq_none, af]
    constructor
    · intro h r hr; have := h r hr; simpa using this
    · intro h r hr; simp [h r hr]
  rw [hv]
  simp only [rules, af_append, af_cons, af_nil, and_true, sServer, sTimeouts, sLB, sHealth, sRL, sCB, sMetrics,
    sAdmin, sLog, sRanges, Documented, DBackends]
  have hb : af (backendRules c.backends) ↔ ∀ b ∈ c.backends, b.name ≠ "" ∧ b.address ≠ "" ∧ 0 ≤ b.weight :=
    backendRules_none c.backends
  rw [hb]
  simp only [List.isEmpty_eq_false_iff, ne_eq, and_assoc]

/-- the validator reports the *first* violated rule, in the documented section order -/
theorem validate_first (c : Config) (n : Nat) (h : validate c = some n) :
    ∃ pre post, rules c = pre ++ (true, n) :: post ∧ af pre := by
  simp only [validate, Option.map_eq_some_iff] at h
  obtain ⟨r, hr, rfl⟩ := h
  obtain ⟨h1, pre, post, h2, h3⟩ := List.find?_eq_some_iff_append.mp hr
  refine ⟨pre, post, ?_, ?_⟩
  · rw [h2]; congr 2; cases r; simp_all
  · intro x hx; have := h3 x hx; simpa using this

/-- the breaker relation validation enforces is exactly what liveness (C08) needs -/
theorem accepted_breaker_live (c : Config) (h : validate c = none) (hon : c.cbOn = true) :
    1 ≤ c.cbSuccess ∧ (c.cbMax = 0 ∨ c.cbSuccess ≤ c.cbMax) := by
  have hd := ((validate_iff_documented c).mp h).2.2.2.2.2.2.1 hon
  omega

/-- **Accepted values survive their conversions.** For an accepted configuration every duration
the balancer builds (`time.Duration(seconds) * time.Second`, an `int64` of nanoseconds) and every
breaker count (`uint32(n)`) is the configured number itself: nothing wraps. -/
theorem accepted_values_fit (c : Config) (h : validate c = none) :
    (∀ v ∈ [c.tRead, c.tWrite, c.tIdle, c.tHandler, c.tShutdown, c.tDial, c.tBRead, c.tBIdle],
        0 ≤ v * 1000000000 ∧ v * 1000000000 < 9223372036854775808) ∧
    (c.pasOn = true → 0 < c.pasTimeout * 1000000000 ∧ c.pasTimeout * 1000000000 < 9223372036854775808) ∧
    (c.rlOn = true → 0 < c.rlRefill * 1000000000 ∧ c.rlRefill * 1000000000 < 9223372036854775808) ∧
    (c.cbOn = true →
        (0 < c.cbInterval * 1000000000 ∧ c.cbInterval * 1000000000 < 9223372036854775808) ∧
        (0 < c.cbTimeout * 1000000000 ∧ c.cbTimeout * 1000000000 < 9223372036854775808) ∧
        c.cbMax % 4294967296 = c.cbMax ∧ c.cbFailure % 4294967296 = c.cbFailure ∧
        c.cbSuccess % 4294967296 = c.cbSuccess) := by
  have hd := (validate_iff_documented c).mp h
  obtain ⟨_, _, ht, _, hh, hrl, hcb, _, _, _, hr⟩ := hd
  obtain ⟨hs, _, _, hp, hl, hc⟩ := hr
  unfold DTimeouts at ht
  unfold maxSeconds maxU32 at *
  refine ⟨?_, ?_, ?_, ?_⟩
  · intro v hv
    simp only [List.mem_cons, List.mem_nil_iff, or_false] at hv
    rcases hv with rfl | rfl | rfl | rfl | rfl | rfl | rfl | rfl <;> omega
  · intro hon; have := hp hon; have := (hh.2 hon); omega
  · intro hon; have := hl hon; have := hrl hon; omega
  · intro hon; have := hc hon; have := hcb hon
    refine ⟨by omega, by omega, ?_, ?_, ?_⟩ <;> (apply Int.emod_eq_of_lt <;> omega)

/-! ### the shipped sample configuration (helios.yaml) satisfies the documented constraints -/
private def shipped : Config :=
  { backends := [⟨"server1", "http://localhost:8081", 5⟩, ⟨"server2", "http://localhost:8082", 2⟩, ⟨"server3", "http://localhost:8083", 1⟩],
    port := 8080, tlsOn := false, tlsCert := "certs/cert.pem", tlsKey := "certs/key.pem",
    tRead := 15, tWrite := 15, tIdle := 60, tHandler := 30, tShutdown := 30, tDial := 10, tBRead := 30, tBIdle := 90,
    strategy := "round_robin", wsOn := true, wsMaxIdle := 10, wsMaxActive := 100, wsIdleTimeout := 300,
    actOn := true, actInterval := 10, actTimeout := 5, actPath := "/health", pasOn := true, pasThreshold := 3, pasTimeout := 30,
    rlOn := true, rlMax := 100, rlRefill := 1, cbOn := true, cbMax := 5, cbInterval := 60, cbTimeout := 60, cbFailure := 5, cbSuccess := 2,
    metOn := true, metPort := 9090, metPath := "/metrics", admOn := true, admPort := 9091, logLevel := "info", logFormat := "text" }
example : validate shipped = none := by decide
example : validate { shipped with logFormat := "xml" } = some 39 := by decide
example : validate { shipped with backends := [], port := 0 } = some 1 := by decide

end Helios.Cfg
