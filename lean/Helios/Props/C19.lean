import Helios.Model.Shutdown
/-
C19 — Graceful shutdown completes, stops probing, is idempotent (protocol level).
All statements hold for every number of backends, every number of concurrent `Stop`
callers, every number of ticks and every interleaving.
-/
namespace Helios.Shut

def rank : Stopper → Nat
  | .start => 0 | .cancelled => 1 | .loopJoined => 2 | .probesJoined => 3 | .poolShut => 4 | .returned => 5

def live (p : Probe) : Bool := p != .done

def notDone (s : State) : Nat := s.probes.countP live

structure Inv (s : State) : Prop where
  wgExact   : s.wg = notDone s
  cancelled : ∀ st ∈ s.stoppers, 1 ≤ rank st → s.cancelled = true
  loopGone  : ∀ st ∈ s.stoppers, 2 ≤ rank st → s.loop = .exited
  drained   : ∀ st ∈ s.stoppers, 3 ≤ rank st → s.wg = 0
  poolShut  : ∀ st ∈ s.stoppers, 4 ≤ rank st → s.poolOpen = false
  noLate    : s.lateSends = 0
  noMisuse  : s.addDuringWait = 0

theorem mem_set {α : Type} (l : List α) (i : Nat) (v x : α) (h : x ∈ l.set i v) : x ∈ l ∨ x = v :=
  List.mem_or_eq_of_mem_set h

theorem countP_set (l : List Probe) (i : Nat) (old new : Probe) (h : l[i]? = some old) :
    (l.set i new).countP live + (if live old then 1 else 0) = l.countP live + (if live new then 1 else 0) := by
  induction l generalizing i with
  | nil => simp at h
  | cons x xs ih =>
    cases i with
    | zero =>
      simp only [List.getElem?_cons_zero, Option.some.injEq] at h
      subst h
      simp only [List.set_cons_zero, List.countP_cons]
      omega
    | succ j =>
      simp only [List.getElem?_cons_succ] at h
      have := ih j h
      simp only [List.set_cons_succ, List.countP_cons]
      omega

theorem live_spawned : live .spawned = true := by decide
theorem live_cleared : live .cleared = true := by decide
theorem live_sent : live .sent = true := by decide
theorem live_done : live .done = false := by decide

theorem inv_init (n k : Nat) : Inv (init n k) := by
  refine ⟨by simp [init, notDone], ?_, ?_, ?_, ?_, rfl, rfl⟩ <;>
  · intro st hst hr
    simp only [init, List.mem_replicate] at hst
    rw [hst.2] at hr; simp [rank] at hr

theorem any_rank (l : List Stopper) (t : Stopper) (h : l.any (· == t) = true) : t ∈ l := by
  simp only [List.any_eq_true, beq_iff_eq] at h
  obtain ⟨x, hx, rfl⟩ := h; exact hx

/-- the invariant is preserved by every step of every goroutine -/
theorem inv_step (a b : State) (hs : Step a b) (hi : Inv a) : Inv b := by
  obtain ⟨i1, i2, i3, i4, i5, i6, i7⟩ := hi
  cases hs with
  | tick h => exact ⟨i1, i2, fun st hst hr => by have := i3 st hst hr; simp_all, i4, i5, i6, i7⟩
  | launch n h =>
    refine ⟨?_, i2, ?_, ?_, i5, i6, ?_⟩
    · simp only [notDone, List.countP_append, List.countP_cons, List.countP_nil, live] at i1 ⊢
      simp; omega
    · intro st hst hr; have := i3 st hst hr; simp_all
    · intro st hst hr; have := i3 st hst (by omega); simp_all
    · simp only []
      have : anyWaitingWg a = false := by
        cases hw : anyWaitingWg a with
        | false => rfl
        | true =>
          have hm := any_rank a.stoppers .loopJoined hw
          have := i3 .loopJoined hm (by simp [rank]); simp_all
      simp [this, i7]
  | fanoutDone h => exact ⟨i1, i2, fun st hst hr => by have := i3 st hst hr; simp_all, i4, i5, i6, i7⟩
  | seeDone h hc => exact ⟨i1, i2, fun st hst hr => by have := i3 st hst hr; simp_all, i4, i5, i6, i7⟩
  | drained h hw => exact ⟨i1, i2, fun _ _ _ => rfl, i4, i5, i6, i7⟩
  | probeCheck i h =>
    by_cases hc : a.cancelled = true
    · rw [if_pos hc]
      have hcnt := countP_set a.probes i .spawned .done h
      rw [live_spawned, live_done] at hcnt
      simp only [if_true, Bool.false_eq_true, if_false, Nat.add_zero] at hcnt
      refine ⟨?_, i2, i3, ?_, i5, i6, i7⟩
      · show a.wg - 1 = (a.probes.set i .done).countP live
        simp only [notDone] at i1; omega
      · intro st hst hr; have := i4 st hst hr; show a.wg - 1 = 0; omega
    · rw [if_neg hc]
      have hcnt := countP_set a.probes i .spawned .cleared h
      rw [live_spawned, live_cleared] at hcnt
      refine ⟨?_, i2, i3, i4, i5, i6, i7⟩
      show a.wg = (a.probes.set i .cleared).countP live
      simp only [notDone] at i1; omega
  | probeSend i h =>
    have hcnt := countP_set a.probes i .cleared .sent h
    rw [live_cleared, live_sent] at hcnt
    refine ⟨?_, i2, i3, i4, i5, ?_, i7⟩
    · show a.wg = (a.probes.set i .sent).countP live
      simp only [notDone] at i1; omega
    · -- if some Stop had returned, every probe would be done — but this one is not
      have : anyReturned a = false := by
        cases hr : anyReturned a with
        | false => rfl
        | true =>
          have hm := any_rank a.stoppers .returned hr
          have hz := i4 .returned hm (by simp [rank])
          have hpos : 0 < a.probes.countP live :=
            List.countP_pos_iff.mpr ⟨.cleared, List.mem_of_getElem? h, live_cleared⟩
          simp only [notDone] at i1; omega
      show a.lateSends + (if anyReturned a = true then 1 else 0) = 0
      simp [this, i6]
  | probeDone i h =>
    have hcnt := countP_set a.probes i .sent .done h
    rw [live_sent, live_done] at hcnt
    simp only [if_true, Bool.false_eq_true, if_false, Nat.add_zero] at hcnt
    refine ⟨?_, i2, i3, ?_, i5, i6, i7⟩
    · show a.wg - 1 = (a.probes.set i .done).countP live
      simp only [notDone] at i1; omega
    · intro st hst hr; have := i4 st hst hr; show a.wg - 1 = 0; omega
  | stopCancel j h =>
    refine ⟨i1, fun _ _ _ => rfl, ?_, ?_, ?_, i6, i7⟩
    · intro st hst hr
      rcases mem_set _ _ _ _ hst with h1 | rfl
      · exact i3 st h1 hr
      · simp [rank] at hr
    · intro st hst hr
      rcases mem_set _ _ _ _ hst with h1 | rfl
      · exact i4 st h1 hr
      · simp [rank] at hr
    · intro st hst hr
      rcases mem_set _ _ _ _ hst with h1 | rfl
      · exact i5 st h1 hr
      · simp [rank] at hr
  | stopJoinLoop j h hl =>
    refine ⟨i1, ?_, fun _ _ _ => hl, ?_, ?_, i6, i7⟩
    · intro st hst hr
      rcases mem_set _ _ _ _ hst with h1 | rfl
      · exact i2 st h1 hr
      · exact i2 .cancelled (List.mem_of_getElem? h) (by simp [rank])
    · intro st hst hr
      rcases mem_set _ _ _ _ hst with h1 | rfl
      · exact i4 st h1 hr
      · simp [rank] at hr
    · intro st hst hr
      rcases mem_set _ _ _ _ hst with h1 | rfl
      · exact i5 st h1 hr
      · simp [rank] at hr
  | stopJoinProbes j h hw =>
    have hm := List.mem_of_getElem? h
    refine ⟨i1, ?_, ?_, fun _ _ _ => hw, ?_, i6, i7⟩
    · intro st hst hr
      rcases mem_set _ _ _ _ hst with h1 | rfl
      · exact i2 st h1 hr
      · exact i2 .loopJoined hm (by simp [rank])
    · intro st hst hr
      rcases mem_set _ _ _ _ hst with h1 | rfl
      · exact i3 st h1 hr
      · exact i3 .loopJoined hm (by simp [rank])
    · intro st hst hr
      rcases mem_set _ _ _ _ hst with h1 | rfl
      · exact i5 st h1 hr
      · simp [rank] at hr
  | stopPool j h =>
    have hm := List.mem_of_getElem? h
    refine ⟨i1, ?_, ?_, ?_, fun _ _ _ => rfl, i6, i7⟩
    · intro st hst hr
      rcases mem_set _ _ _ _ hst with h1 | rfl
      · exact i2 st h1 hr
      · exact i2 .probesJoined hm (by simp [rank])
    · intro st hst hr
      rcases mem_set _ _ _ _ hst with h1 | rfl
      · exact i3 st h1 hr
      · exact i3 .probesJoined hm (by simp [rank])
    · intro st hst hr
      rcases mem_set _ _ _ _ hst with h1 | rfl
      · exact i4 st h1 hr
      · exact i4 .probesJoined hm (by simp [rank])
  | stopReturn j h =>
    have hm := List.mem_of_getElem? h
    refine ⟨i1, ?_, ?_, ?_, ?_, i6, i7⟩
    · intro st hst hr
      rcases mem_set _ _ _ _ hst with h1 | rfl
      · exact i2 st h1 hr
      · exact i2 .poolShut hm (by simp [rank])
    · intro st hst hr
      rcases mem_set _ _ _ _ hst with h1 | rfl
      · exact i3 st h1 hr
      · exact i3 .poolShut hm (by simp [rank])
    · intro st hst hr
      rcases mem_set _ _ _ _ hst with h1 | rfl
      · exact i4 st h1 hr
      · exact i4 .poolShut hm (by simp [rank])
    · intro st hst hr
      rcases mem_set _ _ _ _ hst with h1 | rfl
      · exact i5 st h1 hr
      · exact i5 .poolShut hm (by simp [rank])

theorem inv_reach (a b : State) (hr : Reach a b) (hi : Inv a) : Inv b := by
  induction hr with
  | refl => exact hi
  | step _ hs ih => exact inv_step _ _ hs ih

/-- **No probe after shutdown returns, no WaitGroup misuse.** In every state reachable by
any interleaving of the loop, any number of probes and any number of `Stop` callers: once
some `Stop` has returned, the loop has exited, every probe goroutine has finished, the
pool is shut, and no probe was ever sent after a `Stop` returned; and `wg.Add` never ran
while a `Stop` caller was inside `wg.Wait`. -/
theorem stop_safe (n k : Nat) (s : State) (hr : Reach (init n k) s) :
    s.lateSends = 0 ∧ s.addDuringWait = 0 ∧
    (anyReturned s = true → s.loop = .exited ∧ (∀ p ∈ s.probes, p = .done) ∧ s.poolOpen = false ∧ s.cancelled = true) := by
  have hi := inv_reach _ _ hr (inv_init n k)
  refine ⟨hi.noLate, hi.noMisuse, ?_⟩
  intro hret
  have hm := any_rank s.stoppers .returned hret
  have hz := hi.drained .returned hm (by simp [rank])
  refine ⟨hi.loopGone _ hm (by simp [rank]), ?_, hi.poolShut _ hm (by simp [rank]), hi.cancelled _ hm (by simp [rank])⟩
  intro p hp
  have h0 : s.probes.countP live = 0 := by have := hi.wgExact; simp only [notDone] at this; omega
  have := (List.countP_eq_zero.mp h0) p hp
  simpa [live] using this

/-- **Shutdown cannot get stuck.** In every reachable state in which some `Stop` caller has
not returned yet, some goroutine can take a step (no deadlock): the loop reacts to the
cancellation, probes finish, and each `Stop` caller's next wait is eventually satisfiable. -/
theorem stop_no_deadlock (n k : Nat) (s : State) (hr : Reach (init n k) s)
    (hpending : ∃ st ∈ s.stoppers, st ≠ .returned) : ∃ s', Step s s' := by
  have hi := inv_reach _ _ hr (inv_init n k)
  obtain ⟨st, hst, hne⟩ := hpending
  obtain ⟨j, hj, hjs⟩ := List.getElem_of_mem hst
  have hget : s.stoppers[j]? = some st := by rw [List.getElem?_eq_getElem hj, hjs]
  -- a live probe can always move
  by_cases hlive : ∃ p ∈ s.probes, p ≠ .done
  · obtain ⟨p, hp, hpd⟩ := hlive
    obtain ⟨i, hi', his⟩ := List.getElem_of_mem hp
    have hg : s.probes[i]? = some p := by rw [List.getElem?_eq_getElem hi', his]
    cases p with
    | spawned => exact ⟨_, Step.probeCheck s i hg⟩
    | cleared => exact ⟨_, Step.probeSend s i hg⟩
    | sent => exact ⟨_, Step.probeDone s i hg⟩
    | done => exact absurd rfl hpd
  · have hall : ∀ p ∈ s.probes, p = .done := by
      intro p hp; by_cases h : p = .done; exact h; exact absurd ⟨p, hp, h⟩ hlive
    have hwg : s.wg = 0 := by
      have := hi.wgExact
      simp only [notDone] at this
      rw [this, List.countP_eq_zero]
      intro p hp; simp [live, hall p hp]
    cases st with
    | start => exact ⟨_, Step.stopCancel s j hget⟩
    | cancelled =>
      have hc := hi.cancelled _ hst (by simp [rank])
      cases hl : s.loop with
      | idle => exact ⟨_, Step.seeDone s hl hc⟩
      | fanout m =>
        cases m with
        | zero => exact ⟨_, Step.fanoutDone s hl⟩
        | succ m' => exact ⟨_, Step.launch s m' hl⟩
      | draining => exact ⟨_, Step.drained s hl hwg⟩
      | exited => exact ⟨_, Step.stopJoinLoop s j hget hl⟩
    | loopJoined => exact ⟨_, Step.stopJoinProbes s j hget hwg⟩
    | probesJoined => exact ⟨_, Step.stopPool s j hget⟩
    | poolShut => exact ⟨_, Step.stopReturn s j hget⟩
    | returned => exact absurd rfl hne

/-! ### non-vacuity -/
example : Inv (init 3 2) := inv_init 3 2
example : ∃ s, Step (init 1 2) s := ⟨_, Step.stopCancel _ 1 rfl⟩
example : ∃ s, Step (init 1 2) s := ⟨_, Step.tick _ rfl⟩

end Helios.Shut
