import Helios.Model.Pool
/-
C20 — WebSocket connection-pool invariants (the tunnel clause rests on the Hijack
pass-through of every wrapper, see the writer-capability facts of C01).
-/
namespace Helios.Pool

def conns (l : List (Nat × Nat)) : List Nat := l.map (·.1)

/-- what `Get`'s scan guarantees about the idle list it works on -/
theorem takeFresh_spec (timeout now : Nat) (l : List (Nat × Nat)) :
    let r := takeFresh timeout now l
    (∀ c, r.2.1 = some c → ∃ used, (c, used) ∈ l ∧ now - used ≤ timeout) ∧
    (∀ x ∈ r.1, x ∈ l) ∧ r.1.length ≤ l.length ∧
    (∀ c ∈ r.2.2, ∃ used, (c, used) ∈ l ∧ now - used > timeout) ∧
    ((conns l).Nodup → (conns r.1).Nodup ∧ ∀ c, r.2.1 = some c → c ∉ conns r.1) := by
  induction l with
  | nil => simp [takeFresh, conns]
  | cons x xs ih =>
    obtain ⟨c0, u0⟩ := x
    simp only [takeFresh]
    by_cases hst : now - u0 > timeout
    · simp only [hst, if_true]
      obtain ⟨i1, i2, i3, i4, i5⟩ := ih
      refine ⟨?_, ?_, ?_, ?_, ?_⟩
      · intro c hc
        obtain ⟨u, hu, hf⟩ := i1 c hc
        exact ⟨u, List.mem_cons_of_mem _ hu, hf⟩
      · intro y hy; exact List.mem_cons_of_mem _ (i2 y hy)
      · simp; omega
      · intro c hc
        rcases List.mem_cons.mp hc with rfl | hc
        · exact ⟨u0, List.mem_cons_self .., hst⟩
        · obtain ⟨u, hu, hf⟩ := i4 c hc
          exact ⟨u, List.mem_cons_of_mem _ hu, hf⟩
      · intro hn
        simp only [conns, List.map_cons, List.nodup_cons] at hn
        exact i5 hn.2
    · simp only [hst, if_false]
      refine ⟨?_, ?_, ?_, ?_, ?_⟩
      · intro c hc
        simp at hc; subst hc
        exact ⟨u0, List.mem_cons_self .., by omega⟩
      · intro y hy; exact List.mem_cons_of_mem _ hy
      · simp
      · intro c hc; cases hc
      · intro hn
        simp only [conns, List.map_cons, List.nodup_cons] at hn
        refine ⟨hn.2, ?_⟩
        intro c hc
        simp at hc; subst hc
        exact hn.1

/-- **Freshness.** `Get` never hands out a connection that has been idle longer than
`idle_timeout`: the connection it returns was returned to the pool at most `timeout` ago. -/
theorem get_fresh (s : State) (b : String) (now c : Nat) (h : (get s b now).2 = some c) :
    ∃ p used, find s b = some p ∧ (c, used) ∈ p.idle ∧ now - used ≤ s.timeout := by
  simp only [get] at h
  cases hf : find s b with
  | none => simp [hf] at h
  | some p =>
    simp only [hf] at h
    obtain ⟨u, hu, hle⟩ := (takeFresh_spec s.timeout now p.idle).1 c h
    exact ⟨p, u, rfl, hu, hle⟩

theorem find_setPool (s : State) (b : String) (p : CP) : find (setPool s b p) b = some p := by
  simp only [find, setPool]
  rw [List.find?_append]
  have : List.find? (fun x => decide (x.1 = b)) (List.filter (fun x => decide (x.1 ≠ b)) s.pools) = none := by
    rw [List.find?_eq_none]
    intro x hx
    have := (List.mem_filter.mp hx).2
    simpa using this
  rw [this]; simp

/-- **Exclusive hand-out.** A connection returned by `Get` is no longer idle in that
backend's pool (idle entries being distinct connections): no second `Get` can return it
until its holder puts it back. -/
theorem get_exclusive (s : State) (b : String) (now c : Nat) (p : CP) (hf : find s b = some p)
    (hn : (conns p.idle).Nodup) (h : (get s b now).2 = some c) :
    ∃ p', find (get s b now).1 b = some p' ∧ c ∉ conns p'.idle ∧ (conns p'.idle).Nodup := by
  simp only [get, hf] at h ⊢
  have hs := (takeFresh_spec s.timeout now p.idle).2.2.2.2 hn
  refine ⟨afterGet p (takeFresh s.timeout now p.idle), ?_, hs.2 c h, hs.1⟩
  have := find_setPool s b (afterGet p (takeFresh s.timeout now p.idle))
  simpa [find, setPool] using this

/-- every pool holds at most `max_idle` idle connections -/
def Bounded (s : State) : Prop := ∀ bp ∈ s.pools, bp.2.idle.length ≤ s.maxIdle

theorem bounded_setPool (s : State) (b : String) (p : CP) (h : Bounded s) (hp : p.idle.length ≤ s.maxIdle) :
    Bounded (setPool s b p) := by
  intro bp hbp
  simp only [setPool, List.mem_append, List.mem_filter, List.mem_singleton] at hbp
  rcases hbp with ⟨h1, _⟩ | rfl
  · exact h bp h1
  · exact hp

theorem find_mem (s : State) (b : String) (p : CP) (h : find s b = some p) : (b, p) ∈ s.pools := by
  simp only [find, Option.map_eq_some_iff] at h
  obtain ⟨x, hx, rfl⟩ := h
  have := List.find?_some hx
  have hm := List.mem_of_find?_eq_some hx
  simp at this
  obtain ⟨n, q⟩ := x
  simp at this; subst this; exact hm

/-- **At most `max_idle` idle connections per backend**, after every operation. -/
theorem idle_bounded (s : State) (h : Bounded s) :
    (∀ b now, Bounded (get s b now).1) ∧ (∀ b c now, Bounded (put s b c now).1) ∧
    (∀ b c, Bounded (close s b c)) ∧ (∀ now, Bounded (cleanup s now)) ∧ Bounded (shutdown s) := by
  refine ⟨?_, ?_, ?_, ?_, ?_⟩
  · intro b now
    simp only [get]
    cases hf : find s b with
    | none => exact h
    | some p =>
      have hp : p.idle.length ≤ s.maxIdle := h (b, p) (find_mem s b p hf)
      have hl := (takeFresh_spec s.timeout now p.idle).2.2.1
      have hb := bounded_setPool s b (afterGet p (takeFresh s.timeout now p.idle)) h
          (by simp only [afterGet]; omega)
      intro bp hbp; exact hb bp hbp
  · intro b c now
    simp only [put]
    split
    · exact h
    · have hp0 : (decActive ((find s b).getD {})).idle.length ≤ s.maxIdle := by
        simp only [decActive]
        cases hf : find s b with
        | none => simp
        | some p => exact h (b, p) (find_mem s b p hf)
      split
      · have hb := bounded_setPool s b (decActive ((find s b).getD {})) h hp0
        intro bp hbp; exact hb bp hbp
      · rename_i hlt
        have hb := bounded_setPool s b (pushIdle (decActive ((find s b).getD {})) c now) h
            (by simp only [pushIdle, decActive, List.length_cons] at hlt ⊢; simp at hlt; omega)
        intro bp hbp; exact hb bp hbp
  · intro b c
    simp only [close]
    cases hf : find { s with closed := s.closed ++ [c] } b with
    | none => exact h
    | some p =>
      have hp : p.idle.length ≤ s.maxIdle := h (b, p) (find_mem _ b p hf)
      have hb := bounded_setPool { s with closed := s.closed ++ [c] } b (decActive p) h hp
      intro bp hbp; exact hb bp hbp
  · intro now bp hbp
    simp only [cleanup, List.mem_map] at hbp
    obtain ⟨x, hx, rfl⟩ := hbp
    have := h x hx
    exact Nat.le_trans (List.length_filter_le _ _) this
  · intro bp hbp; simp [shutdown] at hbp

/-- **Shutdown closes everything it holds** and retains nothing. -/
theorem shutdown_closes_all (s : State) :
    retained (shutdown s) = [] ∧ (∀ c ∈ retained s, c ∈ (shutdown s).closed) ∧ (shutdown s).down = true := by
  refine ⟨by simp [shutdown, retained], ?_, rfl⟩
  intro c hc
  simp only [shutdown, List.mem_append]
  exact Or.inr hc

/-- after shutdown the pool stays empty whatever is called: a late `Put` closes the
connection instead of keeping it -/
def Down (s : State) : Prop := s.down = true ∧ s.pools = []

theorem down_forever (s : State) (h : Down s) :
    (∀ b now, Down (get s b now).1 ∧ (get s b now).2 = none) ∧
    (∀ b c now, Down (put s b c now).1 ∧ (put s b c now).2 = false ∧ c ∈ (put s b c now).1.closed) ∧
    (∀ b c, Down (close s b c)) ∧ (∀ now, Down (cleanup s now)) ∧ Down (shutdown s) := by
  obtain ⟨h1, h2⟩ := h
  refine ⟨?_, ?_, ?_, ?_, ?_⟩
  · intro b now; simp [get, find, h2, Down, h1]
  · intro b c now; simp [put, h1, Down, h2]
  · intro b c; simp [close, find, h2, Down, h1]
  · intro now; simp [cleanup, h2, Down, h1]
  · simp [shutdown, Down]

/-! ### non-vacuity -/
private def s0 : State := { maxIdle := 2, timeout := 10 }
example : (get (put (put s0 "b" 1 0).1 "b" 2 5).1 "b" 12).2 = some 2 := by decide          -- LIFO, fresh
example : (get (put (put s0 "b" 1 0).1 "b" 2 1).1 "b" 12).2 = none := by decide            -- both stale: closed
example : (put (put (put s0 "b" 1 0).1 "b" 2 0).1 "b" 3 0).2 = false := by decide          -- max_idle
example : (put (shutdown (put s0 "b" 1 0).1) "b" 9 1).1.closed = [1, 9] := by decide       -- late Put is closed

end Helios.Pool
