import Helios.Model.Ids
import Helios.Model.Http
/-
C16 — Request-ID / trace-ID propagation is consistent end to end.
-/
namespace Helios.Ids
open Helios

/-- **Consistency.** With the feature enabled the response carries the header and its value
equals what is forwarded to the backend. -/
theorem id_consistent (supplied : Option Bytes) (pfx draw : Bytes) :
    (handle true supplied pfx draw).1 = (handle true supplied pfx draw).2 ∧
    (handle true supplied pfx draw).2.isSome := by
  simp [handle]

/-- **A supplied identifier is propagated unchanged** — to the backend and back to the client. -/
theorem supplied_unchanged (v pfx draw : Bytes) (h : blank v = false) :
    handle true (some v) pfx draw = (some v, some v) := by
  simp [handle, h]

/-- a missing or blank identifier is replaced by a freshly generated one -/
theorem blank_generated (supplied : Option Bytes) (pfx draw : Bytes) (h : blank (supplied.getD []) = true) :
    handle true supplied pfx draw = (some (gen pfx draw), some (gen pfx draw)) := by
  simp [handle, h]

/-- **Disabled means untouched**: nothing is generated, the request header (if any) is
forwarded as it came and no response header is set. -/
theorem disabled_untouched (supplied : Option Bytes) (pfx draw : Bytes) :
    handle false supplied pfx draw = (supplied, none) := by
  simp [handle]

theorem hexNib_inj (a b : Nat) (ha : a < 16) (hb : b < 16) (h : hexNib a = hexNib b) : a = b := by
  have : ∀ a < 16, ∀ b < 16, hexNib a = hexNib b → a = b := by decide
  exact this a ha b hb h

theorem hexBytes_inj : ∀ (x y : Bytes), hexBytes x = hexBytes y → x = y := by
  intro x
  induction x with
  | nil =>
    intro y h
    cases y with
    | nil => rfl
    | cons b bs => simp [hexBytes] at h
  | cons a as ih =>
    intro y h
    cases y with
    | nil => simp [hexBytes] at h
    | cons b bs =>
      simp only [hexBytes, List.flatMap_cons, List.cons_append, List.nil_append, List.cons.injEq] at h
      obtain ⟨h1, h2, h3⟩ := h
      have ha := a.toNat_lt
      have hb := b.toNat_lt
      have e1 : a.toNat / 16 = b.toNat / 16 := hexNib_inj _ _ (by omega) (by omega) h1
      have e2 : a.toNat % 16 = b.toNat % 16 :=
        hexNib_inj _ _ (Nat.mod_lt _ (by decide)) (Nat.mod_lt _ (by decide)) h2
      have : a = b := by
        apply UInt8.toNat_inj.mp
        omega
      subst this
      rw [ih bs h3]

/-- **Generated identifiers are as distinct as the random draws**: the identifier is an
injective function of the 12 random bytes, so distinct draws (the assumption on the CSPRNG)
give distinct identifiers — for any number of requests, concurrent or not. -/
theorem id_injective (pfx d1 d2 : Bytes) (h : gen pfx d1 = gen pfx d2) : d1 = d2 := by
  simp only [gen, List.append_assoc, List.append_cancel_left_eq] at h
  exact hexBytes_inj d1 d2 h

end Helios.Ids

namespace Helios.Http

theorem find_filter_other (m : Hdr) (k h : String) (hk : k ≠ h) :
    List.find? (fun y => decide (y.1 = h)) (List.filter (fun y => decide (y.1 ≠ k)) m) =
    List.find? (fun y => decide (y.1 = h)) m := by
  induction m with
  | nil => rfl
  | cons x xs ih =>
    by_cases hx : x.1 = k
    · have hxh : ¬ x.1 = h := by rw [hx]; exact hk
      rw [List.filter_cons]
      simp only [hx, ne_eq, not_true_eq_false, decide_false, Bool.false_eq_true, if_false]
      rw [List.find?_cons]
      have : decide (x.1 = h) = false := by simp [hxh]
      rw [this]
      exact ih
    · rw [List.filter_cons]
      simp only [hx, ne_eq, not_false_eq_true, decide_true, if_true]
      rw [List.find?_cons, List.find?_cons, ih]

theorem get_del_other (m : Hdr) (k h : String) (hk : k ≠ h) : (m.del k).get h = m.get h := by
  simp only [Hdr.del, Hdr.get]
  rw [find_filter_other m k h hk]

theorem get_set_other (m : Hdr) (k x h : String) (hk : k ≠ h) : (m.set k x).get h = m.get h := by
  have hd := get_del_other m k h hk
  simp only [Hdr.set, Hdr.get, Hdr.del] at hd ⊢
  rw [List.find?_append]
  cases hf : List.find? (fun y => decide (y.1 = h)) (List.filter (fun y => decide (y.1 ≠ k)) m) with
  | some y => rw [hf] at hd; simpa using hd
  | none => rw [hf] at hd; simp only [Option.none_or, List.find?_cons, hk, decide_false, List.find?_nil]; exact hd

/-- one writer operation that does not touch header `h` keeps its value, live or committed -/
theorem step_keeps (h v : String) (b : Base) (o : Op)
    (ho : (∀ v', o ≠ .setH h v') ∧ o ≠ .delH h)
    (hinv : (b.status = none ∧ b.hdr.get h = v) ∨ (b.status.isSome ∧ b.snap.get h = v)) :
    ((b.step o).status = none ∧ (b.step o).hdr.get h = v) ∨ ((b.step o).status.isSome ∧ (b.step o).snap.get h = v) := by
  have hcommit : ∀ (b : Base) (c : Nat),
      ((b.status = none ∧ b.hdr.get h = v) ∨ (b.status.isSome ∧ b.snap.get h = v)) →
      (b.commit c).status.isSome ∧ (b.commit c).snap.get h = v := by
    intro b c hinv
    rcases hinv with ⟨h1, h2⟩ | ⟨h1, h2⟩
    · simp [Base.commit, h1, h2]
    · cases hs : b.status with
      | none => simp [hs] at h1
      | some s => simp [Base.commit, hs, h2]
  cases o with
  | setH k x =>
    have hk : k ≠ h := fun e => (ho.1 x) (by rw [e])
    rcases hinv with ⟨h1, h2⟩ | ⟨h1, h2⟩
    · left; exact ⟨by simp [Base.step, h1], by simp only [Base.step]; rw [get_set_other _ _ _ _ hk]; exact h2⟩
    · right; exact ⟨by simpa [Base.step] using h1, by simpa [Base.step] using h2⟩
  | delH k =>
    have hk : k ≠ h := fun e => ho.2 (by rw [e])
    rcases hinv with ⟨h1, h2⟩ | ⟨h1, h2⟩
    · left; exact ⟨by simp [Base.step, h1], by simp only [Base.step]; rw [get_del_other _ _ _ hk]; exact h2⟩
    · right; exact ⟨by simpa [Base.step] using h1, by simpa [Base.step] using h2⟩
  | wh c =>
    simp only [Base.step]
    split
    · exact hinv
    · split
      · rcases hinv with ⟨h1, h2⟩ | ⟨h1, h2⟩
        · left; exact ⟨h1, h2⟩
        · right; exact ⟨h1, h2⟩
      · right; exact hcommit b c hinv
  | w c =>
    have hc := hcommit b 200 hinv
    right
    simp only [Base.step]
    repeat' split
    all_goals exact ⟨by simpa using hc.1, by simpa using hc.2⟩
  | wgz body =>
    have hc := hcommit b 200 hinv
    right
    simp only [Base.step]
    repeat' split
    all_goals exact ⟨by simpa using hc.1, by simpa using hc.2⟩
  | fl => right; simpa [Base.step] using hcommit b 200 hinv

/-- **Every response path.** The middleware sets the ID header on the response before the
chain runs; whatever the inner handlers do afterwards — proxy the backend's answer, or answer
429 / 503 / 413 / 401 themselves — the committed response carries it, as long as they do
not overwrite or delete that very header (none of Helios' own error paths does). -/
theorem id_on_every_path (h v : String) (ops : List Op) (b : Base) (hb : b.status = none)
    (hno : ∀ o ∈ ops, (∀ v', o ≠ .setH h v') ∧ o ≠ .delH h) :
    ((b.step (.setH h v)).run ops).view.hdr.get h = v ∨ h = "Content-Type" ∨ h = "Content-Length" := by
  -- invariant: the live map holds (h, v) until commit, the snapshot holds it after
  have key : ∀ (ops : List Op) (b : Base), (∀ o ∈ ops, (∀ v', o ≠ .setH h v') ∧ o ≠ .delH h) →
      ((b.status = none ∧ b.hdr.get h = v) ∨ (b.status.isSome ∧ b.snap.get h = v)) →
      (((b.run ops).finish.status.isSome ∧ (b.run ops).finish.snap.get h = v)) := by
    intro ops
    induction ops with
    | nil =>
      intro b _ hinv
      rcases hinv with ⟨h1, h2⟩ | ⟨h1, h2⟩
      · simp [Base.run, Base.finish, Base.commit, h1, h2]
      · cases hs : b.status with
        | none => simp [hs] at h1
        | some s => simp [Base.run, Base.finish, Base.commit, hs, h2]
    | cons o os ih =>
      intro b hno hinv
      have hno' : ∀ o ∈ os, (∀ v', o ≠ .setH h v') ∧ o ≠ .delH h := fun x hx => hno x (List.mem_cons_of_mem _ hx)
      have ho := hno o (List.mem_cons_self ..)
      simp only [Base.run, List.foldl_cons]
      apply ih (b.step o) hno'
      exact step_keeps h v b o ho hinv
  have hget : ((b.hdr.set h v)).get h = v := by
    simp only [Hdr.set, Hdr.get]
    rw [List.find?_append]
    have : List.find? (fun y => decide (y.1 = h)) (List.filter (fun y => decide (y.1 ≠ h)) b.hdr) = none := by
      rw [List.find?_eq_none]
      intro x hx
      have := (List.mem_filter.mp hx).2
      simpa using this
    rw [this]; simp
  have := key ops (b.step (.setH h v)) hno (Or.inl ⟨by simp [Base.step, hb], by simpa [Base.step] using hget⟩)
  by_cases h1 : h = "Content-Type"
  · exact Or.inr (Or.inl h1)
  · by_cases h2 : h = "Content-Length"
    · exact Or.inr (Or.inr h2)
    · left
      simp only [Base.view]
      have hk1 : ∀ (m : Hdr) (k : String), k ≠ h → (m.del k).get h = m.get h := fun m k hk => get_del_other m k h hk
      split
      · rw [hk1 _ _ (Ne.symm h2), hk1 _ _ (Ne.symm h1)]; exact this.2
      · split
        · rw [hk1 _ _ (Ne.symm h2)]; exact this.2
        · exact this.2

end Helios.Http
