import Helios.Generated.Code
import Helios.Model.Pool
/-
Tie C for C20 (pool half) — `WebSocketPool.Get`, `Put`, `Close` and `cleanupBackend`, translated
from the source on every run, do to the per-backend pool object what the model's `get`, `put`,
`close` and `cleanup` do to the entry of that backend: same idle list, same count of handed-out
connections, same connections closed in the same order, same answer.

The translation takes the pool object of the backend (`p.pools[backend]`) and whether it exists as
parameters and gives the object back; connections are numbers (0 = nil), `conn.Close()` is an entry
of `closedConns`. The Go slice `idle` is oldest-first and popped from the end; the model's list is
most-recent-first: `absIdle` reverses.
-/
namespace Helios.CodeTie
open Helios Helios.Generated

abbrev PC := Nat × Int × String

def abs1 (e : PC) : Nat × Nat := (e.1, e.2.1.toNat)
def absIdle (l : List PC) : List (Nat × Nat) := l.reverse.map abs1
def absCP (pool : Code.ConnPool) : Pool.CP := { idle := absIdle pool.idle, active := pool.active.toNat }

/-- `takeFresh` on the concrete entries, most recent first -/
def takeFreshGo (timeout now : Int) : List PC → List PC × Option Nat × List Nat
  | [] => ([], none, [])
  | e :: rest =>
    if now - e.2.1 > timeout then
      let r := takeFreshGo timeout now rest
      (r.1, r.2.1, e.1 :: r.2.2)
    else (rest, some e.1, [])

theorem takeFresh_abs (T now : Int) (hT : 0 ≤ T) (hn : 0 ≤ now) (l : List PC) (hl : ∀ e ∈ l, 0 ≤ e.2.1) :
    Pool.takeFresh T.toNat now.toNat (l.map abs1) =
      ((takeFreshGo T now l).1.map abs1, (takeFreshGo T now l).2.1, (takeFreshGo T now l).2.2) := by
  induction l with
  | nil => simp [Pool.takeFresh, takeFreshGo]
  | cons e rest ih =>
    have he := hl e (List.mem_cons_self ..)
    have ih' := ih (fun x hx => hl x (List.mem_cons_of_mem _ hx))
    have hc : (now.toNat - e.2.1.toNat > T.toNat) ↔ (now - e.2.1 > T) := by omega
    simp only [List.map, Pool.takeFresh, takeFreshGo, abs1]
    by_cases h : now - e.2.1 > T
    · have h' := hc.mpr h
      simp only [h, h', if_true]
      rw [ih']
    · have h' : ¬ (now.toNat - e.2.1.toNat > T.toNat) := fun x => h (hc.mp x)
      simp [h, h']

theorem takeFreshGo_none (T now : Int) (l : List PC) (h : (takeFreshGo T now l).2.1 = none) : (takeFreshGo T now l).1 = [] := by
  induction l with
  | nil => rfl
  | cons e rest ih =>
    unfold takeFreshGo at h ⊢
    by_cases c : now - e.2.1 > T
    · simp only [c, if_true] at h ⊢; exact ih h
    · simp [c] at h

theorem last_lemmas (l' : List PC) (x : PC) :
    Code.listGet (l'.reverse ++ [x]) (Int.toNat ((Int.ofNat (l'.reverse ++ [x]).length) - (1 : Int))) = x ∧
    List.take (Int.toNat ((Int.ofNat (l'.reverse ++ [x]).length) - (1 : Int))) (l'.reverse ++ [x]) = l'.reverse := by
  have e : Int.toNat ((Int.ofNat (l'.reverse ++ [x]).length) - (1 : Int)) = l'.reverse.length := by
    simp only [List.length_append, List.length_cons, List.length_nil, Int.ofNat_eq_natCast]; omega
  rw [e]
  constructor
  · simp [Code.listGet]
  · simp

/-- what the loop of `Get` leaves: the connections it closed, the entries it kept, its answer -/
def getOut (p : Code.WebSocketPool) (pool : Code.ConnPool) (r : List PC × Option Nat × List Nat) :
    Option (Sum (Code.WebSocketPool × Code.ConnPool × Nat) (Code.WebSocketPool × Code.ConnPool)) :=
  match r.2.1 with
  | none => some (.inr ({ p with closedConns := p.closedConns ++ r.2.2 }, { pool with idle := [] }))
  | some c => some (.inl ({ p with closedConns := p.closedConns ++ r.2.2 },
      { pool with idle := r.1.reverse, active := pool.active + 1 }, c))

/-- the loop of `Get` pops the most recent entries until a fresh one -/
theorem getLoop_sim (now : Int) (l : List PC) : ∀ (fuel : Nat) (p : Code.WebSocketPool) (pool : Code.ConnPool),
    pool.idle = l.reverse → l.length < fuel →
    Code.poolGet_loop1 now fuel (p, pool) = getOut p pool (takeFreshGo pool.idleTimeout now l) := by
  induction l with
  | nil =>
    intro fuel p pool hi hf
    obtain ⟨fuel, rfl⟩ : ∃ f, fuel = f + 1 := ⟨fuel - 1, by omega⟩
    have hi' : pool.idle = [] := by simpa using hi
    unfold Code.poolGet_loop1
    simp only [hi', List.length_nil, takeFreshGo, getOut, List.append_nil]
    cases p; cases pool; simp_all
  | cons x l' ih =>
    intro fuel p pool hi hf
    obtain ⟨fuel, rfl⟩ : ∃ f, fuel = f + 1 := ⟨fuel - 1, by omega⟩
    have hi' : pool.idle = l'.reverse ++ [x] := by simpa using hi
    obtain ⟨g1, g2⟩ := last_lemmas l' x
    have hpos : (Int.ofNat (l'.reverse ++ [x]).length) > 0 := by
      simp only [List.length_append, List.length_cons, List.length_nil, Int.ofNat_eq_natCast]; omega
    unfold Code.poolGet_loop1
    simp only [hi', hpos, decide_true, if_true, g1, g2, takeFreshGo]
    by_cases h : now - x.2.1 > pool.idleTimeout
    · have := ih fuel { p with closedConns := p.closedConns ++ [x.1] } { pool with idle := l'.reverse } rfl (by simp at hf; omega)
      simp only [h, decide_true, if_true]
      rw [this]
      unfold getOut
      cases (takeFreshGo pool.idleTimeout now l').2.1 <;> simp
    · simp only [h, decide_false, Bool.false_eq_true, if_false, getOut, List.append_nil]

/-- the entries of a pool object are sane: stamps are instants, the count is a count -/
def WFP (pool : Code.ConnPool) : Prop :=
  0 ≤ pool.idleTimeout ∧ 0 ≤ pool.active ∧ ∀ e ∈ pool.idle, 0 ≤ e.2.1

/-- **`Get` as written**, on the pool object of the backend: the model's `takeFresh` over the idle
list (most recent first) — stale entries closed in that order, the first fresh one handed out and
counted, `nil` (0) when none is left; with no pool object for the backend, `nil` and nothing changes. -/
theorem get_refines (p : Code.WebSocketPool) (pool : Code.ConnPool) (b : String) (now : Int) (fuel : Nat)
    (hw : WFP pool) (hn : 0 ≤ now) (hf : pool.idle.length < fuel) :
    Code.poolGet fuel p pool b false now = some (p, pool, 0) ∧
    ∃ p' pool' c, Code.poolGet fuel p pool b true now = some (p', pool', c) ∧
      (let r := Pool.takeFresh pool.idleTimeout.toNat now.toNat (absCP pool).idle
       absCP pool' = Pool.afterGet (absCP pool) r ∧ p'.closedConns = p.closedConns ++ r.2.2 ∧ c = r.2.1.getD 0 ∧
       pool'.idleTimeout = pool.idleTimeout ∧ pool'.closed = pool.closed ∧ p'.closed = p.closed ∧ p'.maxIdle = p.maxIdle) := by
  obtain ⟨h1, h2, h3⟩ := hw
  refine ⟨by simp [Code.poolGet], ?_⟩
  have hl := getLoop_sim now pool.idle.reverse fuel p pool (by simp) (by simpa using hf)
  have ha := takeFresh_abs pool.idleTimeout now h1 hn pool.idle.reverse (fun e he => h3 e (by simpa using he))
  have hidle : (absCP pool).idle = pool.idle.reverse.map abs1 := rfl
  unfold Code.poolGet
  simp only [Bool.not_true, Bool.false_eq_true, if_false, hl, getOut]
  rw [hidle, ha]
  cases hr : (takeFreshGo pool.idleTimeout now pool.idle.reverse).2.1 with
  | none =>
    have hnil := takeFreshGo_none _ _ _ hr
    refine ⟨_, _, _, rfl, ?_⟩
    simp [absCP, absIdle, Pool.afterGet, hnil, hr]
  | some c =>
    refine ⟨_, _, _, rfl, ?_⟩
    simp only [absCP, absIdle, Pool.afterGet, List.reverse_reverse, Option.isSome_some, if_true, Option.getD_some, and_true, true_and]
    congr 1; omega

/-- **`Put` as written** (a real connection, the pool not shut down): one fewer handed out (never
below zero); retained with the current instant as the most recent entry when fewer than `max_idle`
are held, otherwise closed and refused. A backend seen for the first time gets an empty pool object. -/
theorem put_refines (p : Code.WebSocketPool) (pool : Code.ConnPool) (b : String) (conn : Nat) (ex : Bool) (now : Int)
    (hw : WFP pool) (hn : 0 ≤ now) (hc : conn ≠ 0) (hd : p.closed = false) (hpc : pool.closed = false) (hm : 0 ≤ p.maxIdle) :
    let cp0 : Pool.CP := if ex then absCP pool else {}
    let cp1 : Pool.CP := { cp0 with active := cp0.active - 1 }
    let r := Code.poolPut p pool b conn ex now
    (if cp1.idle.length ≥ p.maxIdle.toNat
     then absCP r.2.1 = cp1 ∧ r.1.closedConns = p.closedConns ++ [conn] ∧ r.2.2 = false
     else absCP r.2.1 = Pool.pushIdle cp1 conn now.toNat ∧ r.1.closedConns = p.closedConns ∧ r.2.2 = true) ∧
    r.2.1.closed = false ∧ r.1.closed = false ∧ r.1.maxIdle = p.maxIdle := by
  obtain ⟨h1, h2, h3⟩ := hw
  have hc' : (conn == 0) = false := by simpa using hc
  cases ex with
  | false =>
    unfold Code.poolPut
    simp only [hc', hd, Bool.false_eq_true, if_false, Bool.not_false, if_true]
    have hdflt : (default : Code.ConnPool).active = 0 ∧ (default : Code.ConnPool).closed = false := ⟨rfl, rfl⟩
    simp only [hdflt.1, hdflt.2, show ¬ ((0 : Int) > 0) from by omega, decide_false, Bool.false_eq_true, if_false,
      List.length_nil, Int.ofNat_eq_natCast, Int.natCast_zero]
    by_cases hfull : (0 : Int) ≥ p.maxIdle
    · have : p.maxIdle.toNat = 0 := by omega
      simp [hfull, this, absCP, absIdle, hd]
    · have : ¬ (0 ≥ p.maxIdle.toNat) := by omega
      simp [hfull, this, absCP, absIdle, Pool.pushIdle, abs1, hd]
  | true =>
    unfold Code.poolPut
    simp only [hc', hd, Bool.false_eq_true, if_false, Bool.not_true, if_true, Int.ofNat_eq_natCast]
    have hlen : (absCP pool).idle.length = pool.idle.length := by simp [absCP, absIdle]
    by_cases ha : pool.active > 0
    · simp only [ha, decide_true, if_true, hpc, Bool.false_eq_true, if_false]
      by_cases hfull : (pool.idle.length : Int) ≥ p.maxIdle
      · have : pool.idle.length ≥ p.maxIdle.toNat := by omega
        simp only [hfull, decide_true, if_true, hlen, this]
        simp [absCP, absIdle, hd, hpc]
      · have : ¬ (pool.idle.length ≥ p.maxIdle.toNat) := by omega
        simp only [hfull, decide_false, Bool.false_eq_true, if_false, hlen, this]
        simp [absCP, absIdle, Pool.pushIdle, abs1, hd, hpc]
    · have ha0 : pool.active = 0 := by omega
      simp only [ha, decide_false, Bool.false_eq_true, if_false, hpc]
      by_cases hfull : (pool.idle.length : Int) ≥ p.maxIdle
      · have : pool.idle.length ≥ p.maxIdle.toNat := by omega
        simp only [hfull, decide_true, if_true, hlen, this]
        simp [absCP, absIdle, ha0, hd, hpc]
      · have : ¬ (pool.idle.length ≥ p.maxIdle.toNat) := by omega
        simp only [hfull, decide_false, Bool.false_eq_true, if_false, hlen, this]
        simp [absCP, absIdle, Pool.pushIdle, abs1, ha0, hd, hpc]

/-- `Put` after `Shutdown`, and `Put(nil)`: nothing is retained -/
theorem put_down (p : Code.WebSocketPool) (pool : Code.ConnPool) (b : String) (conn : Nat) (ex : Bool) (now : Int)
    (hc : conn ≠ 0) (hd : p.closed = true) :
    Code.poolPut p pool b conn ex now = ({ p with closedConns := p.closedConns ++ [conn] }, pool, false) := by
  have hc' : (conn == 0) = false := by simpa using hc
  unfold Code.poolPut; simp [hc', hd]

theorem put_nil (p : Code.WebSocketPool) (pool : Code.ConnPool) (b : String) (ex : Bool) (now : Int) :
    Code.poolPut p pool b 0 ex now = (p, pool, false) := by
  unfold Code.poolPut; simp

/-- **`Close` as written**: the connection is closed, and the count of the backend's pool object (if any) drops, never below zero -/
theorem close_refines (p : Code.WebSocketPool) (pool : Code.ConnPool) (b : String) (conn : Nat) (hc : conn ≠ 0) (hw : WFP pool) :
    (Code.poolClose p pool b conn false) = ({ p with closedConns := p.closedConns ++ [conn] }, pool) ∧
    (Code.poolClose p pool b conn true).1 = { p with closedConns := p.closedConns ++ [conn] } ∧
    absCP (Code.poolClose p pool b conn true).2 = Pool.decActive (absCP pool) ∧
    (Code.poolClose p pool b conn true).2.idle = pool.idle := by
  obtain ⟨h1, h2, h3⟩ := hw
  have hc' : (conn != 0) = true := by simpa using hc
  unfold Code.poolClose
  simp only [hc', if_true, Bool.not_false, Bool.not_true, Bool.false_eq_true, if_false]
  refine ⟨trivial, ?_, ?_, ?_⟩
  · split <;> rfl
  · by_cases ha : pool.active > 0
    · simp [ha, absCP, Pool.decActive]
    · have : pool.active = 0 := by omega
      simp [ha, absCP, Pool.decActive, this]
  · split <;> rfl

/-- the filter loop of `cleanupBackend`: stale entries closed oldest first, the others kept in order -/
theorem cleanupLoop_sim (now : Int) (l : List PC) : ∀ (i : Int) (p : Code.WebSocketPool) (pool : Code.ConnPool) (valid : List PC) (n : Int),
    Code.poolCleanupBackend_range1 now l i (p, pool, valid, n) =
      .inr ({ p with closedConns := p.closedConns ++ (l.filter (fun e => decide (now - e.2.1 > pool.idleTimeout))).map (·.1) }, pool,
            valid ++ l.filter (fun e => !decide (now - e.2.1 > pool.idleTimeout)),
            n + (l.filter (fun e => decide (now - e.2.1 > pool.idleTimeout))).length) := by
  induction l with
  | nil => intro i p pool valid n; cases p; simp [Code.poolCleanupBackend_range1]
  | cons e l ih =>
    intro i p pool valid n
    unfold Code.poolCleanupBackend_range1
    by_cases h : now - e.2.1 > pool.idleTimeout
    · simp only [h, decide_true, if_true, ih, List.filter_cons, Bool.not_true, Bool.false_eq_true, if_false]
      simp only [List.map_cons, List.length_cons, List.append_assoc, List.cons_append, List.nil_append]
      have e1 : ∀ (k : Nat), n + 1 + (k : Int) = n + ((k + 1 : Nat) : Int) := by intro k; push_cast; omega
      rw [e1]
    · simp only [h, decide_false, Bool.false_eq_true, if_false, ih, List.filter_cons, Bool.not_false, if_true]
      simp only [List.append_assoc, List.cons_append, List.nil_append]

/-- **`cleanupBackend` as written**: the pool object keeps exactly its fresh entries, in order; the
stale ones are closed (oldest first: the model's list reversed) -/
theorem cleanup_refines (p : Code.WebSocketPool) (pool : Code.ConnPool) (b : String) (now : Int) (hw : WFP pool) (hn : 0 ≤ now) :
    Code.poolCleanupBackend p pool b false now = (p, pool) ∧
    (let r := Code.poolCleanupBackend p pool b true now
     let stale := fun (cu : Nat × Nat) => decide (now.toNat - cu.2 > pool.idleTimeout.toNat)
     (absCP r.2).idle = (absCP pool).idle.filter (fun cu => !stale cu) ∧
     (absCP r.2).active = (absCP pool).active ∧
     r.1.closedConns = p.closedConns ++ (((absCP pool).idle.filter stale).map (·.1)).reverse) := by
  obtain ⟨h1, h2, h3⟩ := hw
  refine ⟨by simp [Code.poolCleanupBackend], ?_⟩
  have hst : ∀ e ∈ pool.idle, decide (now.toNat - (abs1 e).2 > pool.idleTimeout.toNat) = decide (now - e.2.1 > pool.idleTimeout) := by
    intro e he
    have := h3 e he
    simp only [abs1]
    by_cases c : now - e.2.1 > pool.idleTimeout
    · have : now.toNat - e.2.1.toNat > pool.idleTimeout.toNat := by omega
      simp [c, this]
    · have : ¬ (now.toNat - e.2.1.toNat > pool.idleTimeout.toNat) := by omega
      simp [c, this]
  unfold Code.poolCleanupBackend
  simp only [Bool.not_true, Bool.false_eq_true, if_false, cleanupLoop_sim, List.nil_append]
  have hif : ∀ (c : Prop) [Decidable c] (x : Code.WebSocketPool × Code.ConnPool), (if c then x else x) = x := by
    intro c _ x; split <;> rfl
  rw [hif]
  simp only [absCP, absIdle]
  refine ⟨?_, trivial, ?_⟩
  · rw [← List.filter_reverse, List.filter_map]
    congr 1
    apply List.filter_congr
    intro e he
    simp only [Function.comp]
    rw [hst e (by simpa using he)]
  · congr 1
    rw [List.filter_map, List.map_map, ← List.map_reverse, ← List.filter_reverse, List.reverse_reverse]
    have : List.filter ((fun cu => decide (now.toNat - cu.2 > pool.idleTimeout.toNat)) ∘ abs1) pool.idle =
        List.filter (fun e => decide (now - e.2.1 > pool.idleTimeout)) pool.idle := by
      apply List.filter_congr
      intro e he
      exact hst e he
    rw [this]
    apply List.map_congr_left
    intro e _
    rfl

/-- non-vacuity: a pool object with a stale and a fresh entry; `Get` closes the stale one (the most
recent!) and hands out the fresh one -/
def samplePool : Code.ConnPool := { backend := "b", idle := [(7, 90, "b"), (8, 10, "b")], active := 0, idleTimeout := 50, closed := false }
def sampleWS : Code.WebSocketPool := { pools := fun _ => true, maxIdle := 2, maxActive := 10, idleTimeout := 50, closed := false, closedConns := [] }
example : WFP samplePool := by simp [WFP, samplePool]
example : (Code.poolGet 5 sampleWS samplePool "b" true 100).map (fun r => (r.1.closedConns, r.2.1.idle, r.2.2)) =
    some ([8], [], 7) := by decide
example : (Code.poolPut sampleWS samplePool "b" 9 true 100).2.2 = false := by decide

theorem translation_clean_pool :
    (["poolGet", "poolPut", "poolClose", "poolCleanupBackend"].all Code.translated.contains) = true ∧
    (Code.translationProblems.filter (fun p => ["Get", "Put", "Close", "cleanupBackend"].contains p.1)).isEmpty = true := by
  decide +kernel

end Helios.CodeTie
