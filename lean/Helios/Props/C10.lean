import Helios.Model.Admin
/-
C10 — Admin API access control: bearer token and IP allow/deny fail closed.
-/
namespace Helios.Admin

/-- **Bearer token, exactly.** The credential check passes precisely for the header value
`"Bearer " ++ token` — no other spelling, case, spacing, prefix or suffix. -/
theorem bearer_exact (token authz : Text) :
    bearerOK token authz = true ↔ authz = bearerPrefix ++ token := by
  simp only [bearerOK, Bool.and_eq_true, beq_iff_eq, List.isPrefixOf_iff_prefix]
  constructor
  · rintro ⟨⟨t, ht⟩, h2⟩
    subst ht
    have : (bearerPrefix ++ t).drop 7 = t := by simp [bearerPrefix]
    rw [this] at h2; rw [h2]
  · intro h; subst h
    exact ⟨List.prefix_append _ _, by simp [bearerPrefix]⟩

/-- **401 unless exactly `Bearer <token>`.** With a token configured, every endpoint other
than `/v1/health` is served iff the first Authorization value is exactly `Bearer <token>`
(given the request passed the IP filter and names an endpoint). -/
theorem auth_exact (f : Filter) (token : Text) (r : Req) (rt : Route)
    (ht : token ≠ []) (hip : ipStage f r.peer = .pass)
    (hrt : routes.find? (·.path = r.path) = some rt) (hauth : rt.auth = true) :
    (decide f token r = .served ↔ r.authz = bearerPrefix ++ token) ∧
    (decide f token r ≠ .served → decide f token r = .unauthorized) := by
  have hne : (token != []) = true := by simpa using ht
  simp only [decide, hip, hrt, hauth, hne, Bool.true_and]
  rw [← bearer_exact]
  cases bearerOK token r.authz <;> simp

/-- **Only `/v1/health` is open.** -/
theorem health_only_open : ∀ rt ∈ routes, rt.auth = false → rt.path = "/v1/health" := by
  decide

/-- without a configured token nothing is 401 -/
theorem no_token_no_401 (f : Filter) (r : Req) : decide f [] r ≠ .unauthorized := by
  simp only [decide]
  split
  · simp
  · split <;> simp

/-- **IP policy.** With lists configured and well-formed, a request gets past the filter
iff its peer address parses, is in no deny entry, and the allow list is empty or contains it. -/
theorem ip_policy (allow deny : List Net) (peer : Option IP) :
    ipStage ⟨some allow, some deny, true⟩ peer = .pass ↔
      ∃ ip, peer = some ip ∧ (∀ n ∈ deny, n.contains ip = false) ∧
        (allow = [] ∨ ∃ n ∈ allow, n.contains ip = true) := by
  simp only [ipStage, Bool.not_true, Bool.false_eq_true, if_false, isAllowed]
  cases peer with
  | none => simp
  | some ip =>
    simp only [Option.some.injEq, exists_eq_left']
    by_cases hd : deny.any (·.contains ip) = true
    · simp only [hd, if_true]
      simp only [List.any_eq_true] at hd
      obtain ⟨n, hn, hc⟩ := hd
      constructor
      · intro h; cases h
      · rintro ⟨h1, _⟩; rw [h1 n hn] at hc; cases hc
    · simp only [hd, Bool.false_eq_true, if_false]
      have hd' : ∀ n ∈ deny, n.contains ip = false := by
        intro n hn
        simp only [List.any_eq_true, not_exists, not_and, Bool.not_eq_true] at hd
        exact hd n hn
      by_cases he : allow.isEmpty = true
      · have : allow = [] := List.isEmpty_iff.mp he
        subst this
        simp only [List.isEmpty_nil, if_true, true_iff]
        exact ⟨hd', Or.inl trivial⟩
      · have hne : allow ≠ [] := fun e => he (by simp [e])
        simp only [he, Bool.false_eq_true, if_false]
        constructor
        · intro h
          refine ⟨hd', Or.inr ?_⟩
          have : allow.any (·.contains ip) = true := by
            cases ha : allow.any (·.contains ip) <;> simp_all
          simpa [List.any_eq_true] using this
        · rintro ⟨_, h | ⟨n, hn, hc⟩⟩
          · exact absurd h hne
          · have : allow.any (·.contains ip) = true := List.any_eq_true.mpr ⟨n, hn, hc⟩
            simp [this]

/-- **Deny wins.** -/
theorem deny_wins (f : Filter) (token : Text) (r : Req) (allow deny : List Net) (ip : IP) (n : Net)
    (hf : f = ⟨some allow, some deny, true⟩) (hp : r.peer = some ip) (hn : n ∈ deny) (hc : n.contains ip = true) :
    decide f token r = .forbidden := by
  have : deny.any (·.contains ip) = true := List.any_eq_true.mpr ⟨n, hn, hc⟩
  simp [decide, ipStage, hf, isAllowed, hp, this]

/-- **Unparsable peer addresses are refused** whenever a filter is configured. -/
theorem unparsable_refused (f : Filter) (token : Text) (r : Req) (hc : f.configured = true) (hp : r.peer = none) :
    decide f token r = .forbidden := by
  have hs : ipStage f none = .refuse := by
    simp only [ipStage, hc, Bool.not_true, Bool.false_eq_true, if_false]
    split <;> simp [isAllowed]
  simp [decide, hp, hs]

/-- **A malformed list entry never yields an unfiltered API:** everything is refused. -/
theorem malformed_list_fails_closed (f : Filter) (token : Text) (r : Req) (hc : f.configured = true)
    (hbad : f.allow = none ∨ f.deny = none) : decide f token r = .forbidden := by
  have hs : ipStage f r.peer = .refuse := by
    simp only [ipStage, hc, Bool.not_true, Bool.false_eq_true, if_false]
    rcases hbad with h | h
    · simp [h]
    · rw [h]; cases f.allow <;> simp
  simp [decide, hs]

/-- **Header independence.** The verdict is a function of the path, the first Authorization
value and the parsed *peer* address: X-Forwarded-For / X-Real-IP are not inputs of `decide`
(the request type has no such field), so no client-supplied header can change an IP decision. -/
theorem header_independent (f : Filter) (token : Text) (r1 r2 : Req)
    (hp : r1.path = r2.path) (ha : r1.authz = r2.authz) (hq : r1.peer = r2.peer) :
    decide f token r1 = decide f token r2 := by
  simp [decide, hp, ha, hq]

/-- **A refused request changes nothing and reaches no handler**: 401 and 403 leave the
balancer state as it was (no handler step runs), whatever the method and body. -/
theorem unauth_no_effect (f : Filter) (token : Text) (st : AState) (r : Req) (method : String) (b : Body)
    (h : (request f token st r method b).1 ≠ .served) :
    (request f token st r method b).2.2 = st := by
  simp only [request] at h ⊢
  split <;> simp_all

/-! ### non-vacuity -/
private def tenSlash8 : Net := ⟨.v4 (10 * 2^24), 8⟩
example : tenSlash8.contains (.v4 (10 * 2^24 + 1 * 2^16 + 2 * 2^8 + 3)) = true := by decide
example : tenSlash8.contains (.v4 (203 * 2^24 + 113 * 2^8 + 9)) = false := by decide
example : decide ⟨some [tenSlash8], some [], true⟩ "t".toList
    ⟨"/v1/backends", "Bearer t".toList, some (.v4 (203 * 2^24 + 113 * 2^8 + 9))⟩ = .forbidden := by decide
example : decide ⟨some [tenSlash8], some [], true⟩ "t".toList
    ⟨"/v1/backends", "Bearer t".toList, some (.v4 (10 * 2^24 + 7))⟩ = .served := by decide
example : decide ⟨some [tenSlash8], some [], true⟩ "t".toList
    ⟨"/v1/backends", "bearer t".toList, some (.v4 (10 * 2^24 + 7))⟩ = .unauthorized := by decide

end Helios.Admin
