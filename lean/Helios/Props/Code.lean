import Helios.Generated.Code
import Helios.Model.Breaker
import Helios.Model.RateLimiter
import Helios.Model.Strategy
import Helios.Model.Hash
import Helios.Model.LB
import Helios.Props.C06
/-
Tie C — the translated code refines the hand-written models.

`Generated/Code.lean` is rewritten on every run by /verif/go/trans from the Go source as it is
now: `beforeRequest`, `afterRequest`, `setState` (circuit breaker), `refillTokens`, `Allow` (rate
limiter), `Backend.eligible`, `jumpHash`.  The theorems below state, for EVERY state and input
(not a sample), that each translated function computes exactly what the corresponding function of
the model computes, through an explicit abstraction map.  The property theorems (C03, C06–C09) are
about the models; these theorems carry them over to what the code says.

What the translator decides (trusted, see DESIGN §6): integer widths are unbounded in abstract
mode (exact for jumpHash), one `time.Now()` per call, lock operations skipped (one atomic step).
-/
namespace Helios.CodeTie
open Helios Helios.Generated

/-! ### circuit breaker -/

def stOf (i : Int) : CB.St := if i = 1 then .open_ else if i = 2 then .halfOpen else .closed

def cfgOf (g : Code.CircuitBreaker) : CB.Cfg :=
  { maxRequests := g.maxRequests, interval := g.interval.toNat, timeout := g.timeout.toNat,
    failureThreshold := g.failureThreshold, successThreshold := g.successThreshold }

/-- abstraction: the breaker fields the model keeps (`lastSuccessTime`, the queued notifications
and the name are not part of the admission logic) -/
def absCB (g : Code.CircuitBreaker) : CB.State :=
  { st := stOf g.state, failureCount := g.failureCount, successCount := g.successCount,
    requestCount := g.requestCount,
    lastFailure := if g.lastFailureTime = 0 then none else some g.lastFailureTime.toNat,
    nextAttempt := g.nextAttempt.toNat, generation := g.generation }

/-- states the constructors and the translated functions produce: a valid state constant,
non-negative durations and instants -/
def WF (g : Code.CircuitBreaker) : Prop :=
  (g.state = 0 ∨ g.state = 1 ∨ g.state = 2) ∧ 0 ≤ g.interval ∧ 0 ≤ g.timeout ∧
  0 ≤ g.lastFailureTime ∧ 0 ≤ g.nextAttempt

def admitOf (r : Nat × Option String) : Option CB.Admit :=
  match r.2 with
  | none => some (.admitted r.1)
  | some "ErrCircuitBreakerOpen" => some .rejectedOpen
  | some "ErrTooManyRequests" => some .tooMany
  | some _ => none

theorem setState_spec (g : Code.CircuitBreaker) (s : Int) :
    (Code.setState g s).state = s ∧
    (Code.setState g s).generation = (if g.state = s then g.generation else g.generation + 1) ∧
    (Code.setState g s).failureCount = g.failureCount ∧ (Code.setState g s).successCount = g.successCount ∧
    (Code.setState g s).requestCount = g.requestCount ∧ (Code.setState g s).lastFailureTime = g.lastFailureTime ∧
    (Code.setState g s).nextAttempt = g.nextAttempt ∧ (Code.setState g s).maxRequests = g.maxRequests ∧
    (Code.setState g s).interval = g.interval ∧ (Code.setState g s).timeout = g.timeout ∧
    (Code.setState g s).failureThreshold = g.failureThreshold ∧
    (Code.setState g s).successThreshold = g.successThreshold := by
  unfold Code.setState
  by_cases h : g.state = s
  · simp [h]
  · have : (g.state == s) = false := by simpa using h
    simp only [this, Bool.false_eq_true, if_false]
    split <;> simp [h]

theorem beforeRequest_refines (g : Code.CircuitBreaker) (now : Int) (hw : WF g) (hn : 0 < now) :
    absCB (Code.beforeRequest g now).1 = (CB.begin (cfgOf g) (absCB g) now.toNat).1 ∧
    admitOf (Code.beforeRequest g now).2 = some (CB.begin (cfgOf g) (absCB g) now.toNat).2 ∧
    WF (Code.beforeRequest g now).1 ∧ cfgOf (Code.beforeRequest g now).1 = cfgOf g := by
  obtain ⟨hst, hi, ht, hlf, hna⟩ := hw
  rcases hst with h | h | h
  · -- closed
    by_cases c1 : g.lastFailureTime = 0
    · simp [Code.beforeRequest, CB.begin, absCB, stOf, h, CB.needsReset, cfgOf, admitOf, c1, WF, hi, ht, hna]
    · by_cases c2 : g.lastFailureTime + g.interval < now
      · simp [Code.beforeRequest, CB.begin, absCB, stOf, h, CB.needsReset, cfgOf, admitOf, c1, c2, WF, hi, ht, hna, hlf]
        omega
      · simp [Code.beforeRequest, CB.begin, absCB, stOf, h, CB.needsReset, cfgOf, admitOf, c1, c2, WF, hi, ht, hna, hlf]
        omega
  · -- open
    by_cases c1 : g.nextAttempt < now
    · have c1' : g.nextAttempt.toNat < now.toNat := by omega
      by_cases c2 : g.maxRequests = 0
      · cases hcb : g.onStateChange <;>
          simp [Code.beforeRequest, Code.setState, CB.begin, absCB, stOf, h, cfgOf, admitOf, c1, c1', c2, WF, hi, ht, hna, hlf, hcb]
      · have c2' : 0 < g.maxRequests := by omega
        cases hcb : g.onStateChange <;>
          simp [Code.beforeRequest, Code.setState, CB.begin, absCB, stOf, h, cfgOf, admitOf, c1, c1', c2, c2', WF, hi, ht, hna, hlf, hcb]
    · have c1' : ¬ g.nextAttempt.toNat < now.toNat := by omega
      simp [Code.beforeRequest, Code.setState, CB.begin, absCB, stOf, h, cfgOf, admitOf, c1, c1', WF, hi, ht, hna, hlf]
  · -- half-open
    by_cases c2 : g.maxRequests ≤ g.requestCount
    · simp [Code.beforeRequest, Code.setState, CB.begin, absCB, stOf, h, cfgOf, admitOf, c2, WF, hi, ht, hna, hlf]
    · simp [Code.beforeRequest, Code.setState, CB.begin, absCB, stOf, h, cfgOf, admitOf, c2, WF, hi, ht, hna, hlf]

theorem afterRequest_refines (g : Code.CircuitBreaker) (gen : Nat) (ok : Bool) (now : Int) (hw : WF g) (hn : 0 < now) :
    absCB (Code.afterRequest g gen ok now) = CB.end_ (cfgOf g) (absCB g) gen ok now.toNat ∧
    WF (Code.afterRequest g gen ok now) ∧ cfgOf (Code.afterRequest g gen ok now) = cfgOf g := by
  obtain ⟨hst, hi, ht, hlf, hna⟩ := hw
  have hn0 : now ≠ 0 := by omega
  by_cases hg : gen = g.generation
  · subst hg
    cases ok
    · -- failure
      rcases hst with h | h | h
      · by_cases c : g.failureThreshold ≤ g.failureCount + 1
        · cases hcb : g.onStateChange <;>
            simp [Code.afterRequest, Code.setState, CB.end_, absCB, stOf, h, cfgOf, c, WF, hi, ht, hna, hlf, hcb, hn0] <;> omega
        · simp [Code.afterRequest, Code.setState, CB.end_, absCB, stOf, h, cfgOf, c, WF, hi, ht, hna, hlf, hn0] <;> omega
      · simp [Code.afterRequest, Code.setState, CB.end_, absCB, stOf, h, cfgOf, WF, hi, ht, hna, hlf, hn0] <;> omega
      · cases hcb : g.onStateChange <;>
          simp [Code.afterRequest, Code.setState, CB.end_, absCB, stOf, h, cfgOf, WF, hi, ht, hna, hlf, hcb, hn0] <;> omega
    · -- success
      rcases hst with h | h | h
      · simp [Code.afterRequest, Code.setState, CB.end_, absCB, stOf, h, cfgOf, WF, hi, ht, hna, hlf]
      · simp [Code.afterRequest, Code.setState, CB.end_, absCB, stOf, h, cfgOf, WF, hi, ht, hna, hlf]
      · by_cases c : g.successThreshold ≤ g.successCount + 1
        · cases hcb : g.onStateChange <;>
            simp [Code.afterRequest, Code.setState, CB.end_, absCB, stOf, h, cfgOf, c, WF, hi, ht, hna, hlf, hcb]
        · simp [Code.afterRequest, Code.setState, CB.end_, absCB, stOf, h, cfgOf, c, WF, hi, ht, hna, hlf]
  · have hg' : (gen != g.generation) = true := by simpa using hg
    simp [Code.afterRequest, CB.end_, absCB, hg, hg', WF, hi, ht, hna, hlf, hst]

/-! ### rate limiter -/

def rlCfg (rl : Code.TokenBucketRateLimiter) (cutoff : Nat) : RL.Cfg :=
  { max := rl.maxTokens.toNat, refill := rl.refillRate.toNat, cutoff := cutoff }

def absB (b : Code.Bucket) : RL.Bucket := { tokens := b.tokens.toNat, last := b.lastRefill.toNat }

/-- what the constructor and the translated functions keep: a positive refill period, a
non-negative capacity, token count and instant -/
def WFB (rl : Code.TokenBucketRateLimiter) (b : Code.Bucket) : Prop :=
  0 < rl.refillRate ∧ 0 ≤ rl.maxTokens ∧ 0 ≤ b.tokens ∧ 0 ≤ b.lastRefill

/-- Go's truncating division against the model's natural-number division: equal when the
elapsed time is non-negative, and not positive when the clock stepped back -/
theorem tdiv_bridge (a r : Int) (hr : 0 < r) :
    (Int.tdiv a r).toNat = a.toNat / r.toNat ∧ (0 < Int.tdiv a r ↔ 0 < a.toNat / r.toNat) := by
  by_cases ha : 0 ≤ a
  · rw [Int.tdiv_eq_ediv_of_nonneg ha]
    obtain ⟨n, rfl⟩ := Int.eq_ofNat_of_zero_le ha
    obtain ⟨m, rfl⟩ := Int.eq_ofNat_of_zero_le (Int.le_of_lt hr)
    simp only [Int.toNat_natCast]
    rw [← Int.natCast_ediv]
    exact ⟨Int.toNat_natCast _, Int.natCast_pos⟩
  · have h1 := Int.tdiv_nonneg (a := -a) (b := r) (by omega) (by omega)
    rw [Int.neg_tdiv] at h1
    have h2 : a.toNat = 0 := by omega
    simp only [h2, Nat.zero_div, Nat.lt_irrefl, iff_false]
    omega

theorem refillTokens_refines (rl : Code.TokenBucketRateLimiter) (b : Code.Bucket) (now : Int) (cutoff : Nat)
    (hw : WFB rl b) (hn : 0 ≤ now) :
    absB (Code.refillTokens rl b now).2 = RL.refill (rlCfg rl cutoff) (absB b) now.toNat ∧
    (Code.refillTokens rl b now).1 = rl ∧ WFB rl (Code.refillTokens rl b now).2 := by
  obtain ⟨hr, hm, ht, hl⟩ := hw
  have hb := tdiv_bridge (now - b.lastRefill) rl.refillRate hr
  have hsub : (now - b.lastRefill).toNat = now.toNat - b.lastRefill.toNat := by omega
  rw [hsub] at hb
  unfold Code.refillTokens RL.refill
  simp only [absB, rlCfg]
  by_cases c : 0 < Int.tdiv (now - b.lastRefill) rl.refillRate
  · have c' := hb.2.mp c
    by_cases c2 : rl.maxTokens < b.tokens + Int.tdiv (now - b.lastRefill) rl.refillRate
    · have e : min (b.tokens.toNat + (now.toNat - b.lastRefill.toNat) / rl.refillRate.toNat) rl.maxTokens.toNat
          = rl.maxTokens.toNat := by rw [← hb.1]; omega
      simp [c, c', c2, WFB, hr, hm, hn, e]
    · have e : min (b.tokens.toNat + (now.toNat - b.lastRefill.toNat) / rl.refillRate.toNat) rl.maxTokens.toNat
          = (b.tokens + Int.tdiv (now - b.lastRefill) rl.refillRate).toNat := by rw [← hb.1]; omega
      simp [c, c', c2, WFB, hr, hm, hn, e]
      omega
  · have c' : ¬ 0 < (now.toNat - b.lastRefill.toNat) / rl.refillRate.toNat := fun h => c (hb.2.mpr h)
    simp [c, c', WFB, hr, hm, ht, hl]

theorem allow_refines (rl : Code.TokenBucketRateLimiter) (b : Code.Bucket) (now : Int) (cutoff : Nat)
    (hw : WFB rl b) (hn : 0 ≤ now) :
    absB (Code.Allow rl b now).2.1 = (RL.spend (rlCfg rl cutoff) (absB b) now.toNat).1 ∧
    (Code.Allow rl b now).2.2 = (RL.spend (rlCfg rl cutoff) (absB b) now.toNat).2 ∧
    (Code.Allow rl b now).1 = rl ∧ WFB rl (Code.Allow rl b now).2.1 := by
  obtain ⟨h1, h2, h3⟩ := refillTokens_refines rl b now cutoff hw hn
  unfold Code.Allow RL.spend
  rw [← h1]
  generalize Code.refillTokens rl b now = r at *
  obtain ⟨rl', b'⟩ := r
  simp only at h2 h3 ⊢
  subst h2
  obtain ⟨hr, hm, ht, hl⟩ := h3
  by_cases c : 0 < b'.tokens
  · have c' : 0 < b'.tokens.toNat := by omega
    have e : (b'.tokens - 1).toNat = b'.tokens.toNat - 1 := by omega
    simp [c, absB, c', WFB, hr, hm, hl, e]
    omega
  · have c' : ¬ 0 < b'.tokens.toNat := by omega
    simp [c, absB, c', WFB, hr, hm, ht, hl]

/-! ### backend eligibility -/

def absBackend (b : Code.Backend) (cw : Int) : LB.Backend :=
  { name := b.Name, weight := b.Weight.toNat, healthy := b.IsHealthy,
    until_ := if b.UnhealthyUntil = 0 then none else some b.UnhealthyUntil.toNat,
    conns := b.ActiveConnections, cw := cw }

theorem eligible_refines (b : Code.Backend) (now : Int) (cw : Int) (hu : 0 ≤ b.UnhealthyUntil) (hn : 0 ≤ now) :
    (Code.eligible b now).2 = (absBackend b cw).eligible now.toNat ∧ (Code.eligible b now).1 = b := by
  unfold Code.eligible LB.Backend.eligible absBackend
  by_cases c : b.UnhealthyUntil = 0
  · simp [c]
  · have e : (b.UnhealthyUntil == 0) = false := by simpa using c
    have : (b.UnhealthyUntil.toNat < now.toNat) ↔ (b.UnhealthyUntil < now) := by omega
    simp [c, e, this]

/-! ### the health state machine (C04): ejection, lazy expiry, probe answers -/

/-- object-level reading of the model's `isHealthyAt`: the verdict and the flag afterwards -/
def checkObj (b : LB.Backend) (now : Nat) : LB.Backend × Bool :=
  if b.healthy then (b, true)
  else if LB.expired b now then ({ b with healthy := true }, true) else (b, false)

/-- the model's `isHealthyAt` on pool slot `i` is `checkObj` on the backend in that slot -/
theorem isHealthyAt_checkObj (y : LB.Sys) (i now : Nat) (o : LB.Obj) (ho : y.pool[i]? = some o) :
    (LB.isHealthyAt y i now).2 = (checkObj o.b now).2 ∧
    (LB.isHealthyAt y i now).1.pool[i]? = some { o with b := (checkObj o.b now).1 } := by
  have hlt : i < y.pool.length := (List.getElem?_eq_some_iff.mp ho).1
  unfold LB.isHealthyAt checkObj
  simp only [ho]
  by_cases h : o.b.healthy = true
  · simp [h, ho]
  · have h' : o.b.healthy = false := by simpa using h
    by_cases hx : LB.expired o.b now = true
    · simp [h', hx, List.getElem?_set_self hlt]
    · have hx' : LB.expired o.b now = false := by simpa using hx
      simp [h', hx', ho]

theorem markUnhealthy_refines (lb : Code.LoadBalancer) (b : Code.Backend) (dur now cw : Int) (id : Nat)
    (hn : 0 < now) (hd : 0 ≤ dur) :
    absBackend (Code.MarkBackendUnhealthy lb b dur now).2 cw =
      (LB.ejectObj ⟨id, absBackend b cw⟩ now.toNat dur.toNat).b ∧
    (Code.MarkBackendUnhealthy lb b dur now).1.fx =
      lb.fx ++ (if lb.metricsCollector then [(b.Name, false)] else []) ∧
    (Code.MarkBackendUnhealthy lb b dur now).1.healthChecks = lb.healthChecks ∧
    (Code.MarkBackendUnhealthy lb b dur now).1.metricsCollector = lb.metricsCollector := by
  have hne : now + dur ≠ 0 := by omega
  have ht : (now + dur).toNat = now.toNat + dur.toNat := by omega
  unfold Code.MarkBackendUnhealthy
  cases hm : lb.metricsCollector <;> simp [absBackend, LB.ejectObj, hne, ht, hm]

/-- `handleHealthCheckFailure` (a probe that failed in transport) ejects for the configured passive
timeout — the same window as a probe answered with a bad status -/
theorem handleFailure_is_eject (lb : Code.LoadBalancer) (b : Code.Backend) (err : Option String) (now : Int) :
    Code.handleHealthCheckFailure lb b err now = Code.MarkBackendUnhealthy lb b lb.healthChecks.passiveTimeout now := by
  unfold Code.handleHealthCheckFailure
  rfl

theorem isBackendHealthy_refines (lb : Code.LoadBalancer) (b : Code.Backend) (now cw : Int)
    (hn : 0 < now) (hu : 0 ≤ b.UnhealthyUntil) :
    (Code.IsBackendHealthy lb b now).2.2 = (checkObj (absBackend b cw) now.toNat).2 ∧
    absBackend (Code.IsBackendHealthy lb b now).2.1 cw = (checkObj (absBackend b cw) now.toNat).1 ∧
    (Code.IsBackendHealthy lb b now).1.fx =
      lb.fx ++ (if lb.metricsCollector && !b.IsHealthy && (checkObj (absBackend b cw) now.toNat).2
                then [(b.Name, true)] else []) := by
  unfold Code.IsBackendHealthy checkObj LB.expired
  cases hh : b.IsHealthy
  · by_cases hz : b.UnhealthyUntil = 0
    · have hgt : now > b.UnhealthyUntil := by omega
      cases hm : lb.metricsCollector <;> simp [absBackend, hh, hz, hgt, hm, hn]
    · by_cases hgt : now > b.UnhealthyUntil
      · have hlt : b.UnhealthyUntil.toNat < now.toNat := by omega
        cases hm : lb.metricsCollector <;> simp [absBackend, hh, hz, hgt, hm, hlt]
      · have hlt : ¬ b.UnhealthyUntil.toNat < now.toNat := by omega
        cases hm : lb.metricsCollector <;> simp [absBackend, hh, hz, hgt, hm, hlt]
  · simp [absBackend, hh]

/-- the probe-answer step of the model on one backend: a bad answer ejects for `ejectFor`; a good
one marks healthy unless the backend was ejected meanwhile and that window still runs -/
def probeEndObj (o : LB.Obj) (now ejectFor : Nat) (ok : Bool) : LB.Obj :=
  if !ok then LB.ejectObj o now ejectFor
  else if LB.stillEjected o.b now then o else { o with b := { o.b with healthy := true } }

/-- the model's `probeEnd` on the pool slot of the probed backend is `probeEndObj` -/
theorem probeEnd_probeEndObj (y : LB.Sys) (name : String) (now i : Nat) (ok : Bool) (o : LB.Obj)
    (hi : y.pool.findIdx? (·.b.name = name) = some i) (ho : y.pool[i]? = some o) :
    (LB.probeEnd y name now ok).1.pool[i]? = some (probeEndObj o now y.hc.ejectFor ok) := by
  have hlt : i < y.pool.length := (List.getElem?_eq_some_iff.mp ho).1
  unfold LB.probeEnd probeEndObj
  simp only [hi]
  cases ok
  · simp [LB.eject, hi, ho, List.getElem?_set_self hlt]
  · simp only [Bool.not_true, Bool.false_eq_true, if_false, ho]
    by_cases hs : LB.stillEjected o.b now = true
    · simp [hs, ho]
    · have hs' : LB.stillEjected o.b now = false := by simpa using hs
      simp [hs', List.getElem?_set_self hlt]

theorem processResponse_refines (lb : Code.LoadBalancer) (b : Code.Backend) (status now cw : Int) (id : Nat)
    (hn : 0 < now) (hu : 0 ≤ b.UnhealthyUntil) (hp : 0 ≤ lb.healthChecks.passiveTimeout) :
    absBackend (Code.processHealthCheckResponse lb b status now).2 cw =
      (probeEndObj ⟨id, absBackend b cw⟩ now.toNat lb.healthChecks.passiveTimeout.toNat (status == 200)).b := by
  unfold Code.processHealthCheckResponse probeEndObj
  by_cases hs : status = 200
  · subst hs
    unfold LB.stillEjected
    cases hh : b.IsHealthy
    · by_cases hz : b.UnhealthyUntil = 0
      · have hgt : now > b.UnhealthyUntil := by omega
        have hn0 : ¬ now ≤ 0 := by omega
        cases hm : lb.metricsCollector <;> simp [absBackend, hh, hz, hgt, hm, hn0]
      · by_cases hgt : now > b.UnhealthyUntil
        · have hle : ¬ now.toNat ≤ b.UnhealthyUntil.toNat := by omega
          cases hm : lb.metricsCollector <;> simp [absBackend, hh, hz, hgt, hm, hle]
        · have hle : now.toNat ≤ b.UnhealthyUntil.toNat := by omega
          cases hm : lb.metricsCollector <;> simp [absBackend, hh, hz, hgt, hm, hle]
    · cases hm : lb.metricsCollector <;> simp [absBackend, hh, hm]
  · have hs' : (status != 200) = true := by simpa using hs
    have hs'' : (status == 200) = false := by simpa using hs
    simp only [hs', hs'', if_true, Bool.not_false]
    exact (markUnhealthy_refines lb b lb.healthChecks.passiveTimeout now cw id hn hp).1

/-- object-level reading of the model's `passiveFail`: the new per-name failure counter and
whether the threshold was reached (then the backend is ejected and its counter cleared) -/
def passiveObj (cnt : String → Nat) (thr : Int) (name : String) : (String → Nat) × Bool :=
  let n := cnt name + 1
  if (n : Int) ≥ thr then (fun k => if k = name then 0 else cnt k, true)
  else (fun k => if k = name then n else cnt k, false)

theorem passiveFail_passiveObj (y : LB.Sys) (id : Nat) (name : String) (now : Nat) :
    (LB.passiveFail y id name now).failCnt = (passiveObj y.failCnt y.hc.threshold name).1 ∧
    (LB.passiveFail y id name now).pool =
      (if (passiveObj y.failCnt y.hc.threshold name).2
       then LB.updObj y.pool id (fun o => LB.ejectObj o now y.hc.ejectFor) else y.pool) := by
  unfold LB.passiveFail passiveObj
  by_cases h : y.hc.threshold ≤ (y.failCnt name : Int) + 1
  · simp [h]
  · simp [h]

/-- **`handlePassiveHealthCheck` is the model's passive accounting**: the per-name counter goes up
by one; when it reaches the configured threshold the backend is ejected for the configured
timeout and the counter is cleared — for every counter map, threshold and instant. -/
theorem passive_refines (lb : Code.LoadBalancer) (b : Code.Backend) (status now cw : Int) (id : Nat)
    (hn : 0 < now) (hp : 0 ≤ lb.healthChecks.passiveTimeout)
    (hc : ∀ k, 0 ≤ lb.healthChecks.unhealthyBackends k) :
    (∀ k, ((Code.handlePassiveHealthCheck lb b status now).1.healthChecks.unhealthyBackends k).toNat =
        (passiveObj (fun k => (lb.healthChecks.unhealthyBackends k).toNat) lb.healthChecks.passiveThreshold b.Name).1 k) ∧
    absBackend (Code.handlePassiveHealthCheck lb b status now).2 cw =
      (if (passiveObj (fun k => (lb.healthChecks.unhealthyBackends k).toNat) lb.healthChecks.passiveThreshold b.Name).2
       then (LB.ejectObj ⟨id, absBackend b cw⟩ now.toNat lb.healthChecks.passiveTimeout.toNat).b
       else absBackend b cw) := by
  have h0 := hc b.Name
  have hcast : (((lb.healthChecks.unhealthyBackends b.Name).toNat + 1 : Nat) : Int)
      = lb.healthChecks.unhealthyBackends b.Name + 1 := by omega
  have hne : now + lb.healthChecks.passiveTimeout ≠ 0 := by omega
  have ht : (now + lb.healthChecks.passiveTimeout).toNat = now.toNat + lb.healthChecks.passiveTimeout.toNat := by omega
  unfold Code.handlePassiveHealthCheck Code.MarkBackendUnhealthy passiveObj
  by_cases hr : lb.healthChecks.passiveThreshold ≤ lb.healthChecks.unhealthyBackends b.Name + 1
  · cases hmc : lb.metricsCollector <;>
      simp [Code.mapSet, hr, hcast, hmc, absBackend, LB.ejectObj, hne, ht] <;>
      (intro k; by_cases hk : k = b.Name <;> simp [hk])
  · simp [Code.mapSet, hr, hcast]
    intro k
    by_cases hk : k = b.Name
    · simp [hk]; omega
    · simp [hk]

/-! ### jump consistent hash (exact machine integers) -/

open Helios.Hash in
section
theorem bmod64 (x : Int) (h1 : -9223372036854775808 ≤ x) (h2 : x < 9223372036854775808) :
    x.bmod (2^64) = x := by
  apply Int.bmod_eq_of_le <;> omega

theorem toInt64_small (d : UInt64) (h : d.toNat < 9223372036854775808) : d.toInt64.toInt = d.toNat := by
  have : d.toInt64.toInt = d.toBitVec.toInt := rfl
  rw [this, BitVec.toInt_eq_toNat_of_lt (by simp; omega)]
  rfl

theorem step64 (key : UInt64) (j : Int64) (n : Int) (h0 : 0 ≤ j.toInt) (hj : j.toInt < n) (hn : n ≤ 2147483648) :
    ((j + (1 : Int64)) * ((2147483648 : Int64) / (UInt64.toInt64 ((nextKey key >>> (33 : UInt64)) + (1 : UInt64))))).toInt
      = (j.toInt + 1) * quo (nextKey key) := by
  have hov := LB.jump_no_overflow (nextKey key) j.toInt n h0 hj hn
  obtain ⟨q0, q1, d0, d1⟩ := hov
  have hs := shift_lt (nextKey key)
  have hd : ((nextKey key >>> (33 : UInt64)) + (1 : UInt64)).toNat = (nextKey key >>> 33).toNat + 1 := by
    rw [UInt64.toNat_add]
    have : (1 : UInt64).toNat = 1 := rfl
    rw [this]; omega
  have hdi := toInt64_small ((nextKey key >>> (33 : UInt64)) + (1 : UInt64)) (by rw [hd]; omega)
  rw [hd] at hdi
  have h31 : (2147483648 : Int64).toInt = 2147483648 := by decide
  have h1 : (1 : Int64).toInt = 1 := by decide
  have hqpos := quo_pos (nextKey key)
  have hq2 : quo (nextKey key) ≤ 2147483648 := by
    unfold quo; apply Int.ediv_le_self; decide
  have hq : ((2147483648 : Int64) / (UInt64.toInt64 ((nextKey key >>> (33 : UInt64)) + (1 : UInt64)))).toInt
      = quo (nextKey key) := by
    rw [Int64.toInt_div, h31, hdi, Int.tdiv_eq_ediv_of_nonneg (by decide)]
    have e : (2147483648 : Int) / ((((nextKey key >>> 33).toNat + 1 : Nat)) : Int) = quo (nextKey key) := rfl
    rw [e]
    exact bmod64 _ (by omega) (by omega)
  have hj1 : (j + (1 : Int64)).toInt = j.toInt + 1 := by
    rw [Int64.toInt_add, h1]
    exact bmod64 _ (by omega) (by omega)
  rw [Int64.toInt_mul, hq, hj1]
  exact bmod64 _ (by omega) (by omega)
theorem loop_sim (n : Int32) : ∀ (k fg fm : Nat) (key : UInt64) (b j : Int64),
    0 ≤ j.toInt → (n.toInt - j.toInt).toNat ≤ k → k < fg → k ≤ fm →
    ∃ key' b' j', Code.jumpHash_loop1 n fg (key, b, j) = some (key', b', j') ∧
      b'.toInt = Hash.loop fm key b.toInt j.toInt n.toInt := by
  have hn31 : n.toInt ≤ 2147483648 := by have := n.toInt_lt; omega
  intro k
  induction k with
  | zero =>
    intro fg fm key b j h0 hm hfg _
    have hge : ¬ j.toInt < n.toInt := by omega
    obtain ⟨fg', rfl⟩ : ∃ f, fg = f + 1 := ⟨fg - 1, by omega⟩
    refine ⟨key, b, j, ?_, ?_⟩
    · unfold Code.jumpHash_loop1
      have : ¬ j < Int32.toInt64 n := by rw [Int64.lt_iff_toInt_lt, Int32.toInt_toInt64]; exact hge
      simp [this]
    · cases fm with
      | zero => simp [Hash.loop]
      | succ f => rw [loop_succ]; simp [hge]
  | succ k ih =>
    intro fg fm key b j h0 hm hfg hfm
    by_cases hlt : j.toInt < n.toInt
    · obtain ⟨fg', rfl⟩ : ∃ f, fg = f + 1 := ⟨fg - 1, by omega⟩
      obtain ⟨fm', rfl⟩ : ∃ f, fm = f + 1 := ⟨fm - 1, by omega⟩
      have hs := step64 key j n.toInt h0 hlt hn31
      have hgrow := step_grows (nextKey key) j.toInt h0
      have hk : key * (2862933555777941757 : UInt64) + (1 : UInt64) = nextKey key := rfl
      have hc : j < Int32.toInt64 n := by rw [Int64.lt_iff_toInt_lt, Int32.toInt_toInt64]; exact hlt
      obtain ⟨key', b', j', h1, h2⟩ := ih fg' fm' (nextKey key) j
        ((j + (1 : Int64)) * ((2147483648 : Int64) / (UInt64.toInt64 ((nextKey key >>> (33 : UInt64)) + (1 : UInt64)))))
        (by rw [hs]; omega) (by rw [hs]; omega) (by omega) (by omega)
      refine ⟨key', b', j', ?_, ?_⟩
      · rw [Code.jumpHash_loop1]
        simp only [hc, decide_true, if_true, hk]
        exact h1
      · rw [loop_succ, if_pos hlt, h2, hs]
    · obtain ⟨fg', rfl⟩ : ∃ f, fg = f + 1 := ⟨fg - 1, by omega⟩
      refine ⟨key, b, j, ?_, ?_⟩
      · unfold Code.jumpHash_loop1
        have : ¬ j < Int32.toInt64 n := by rw [Int64.lt_iff_toInt_lt, Int32.toInt_toInt64]; exact hlt
        simp [this]
      · cases fm with
        | zero => simp [Hash.loop]
        | succ f => rw [loop_succ]; simp [hlt]

/-- **`jumpHash` as written in Go — `uint64` multiplication that wraps, `int64` products and
quotients, the final `int32` conversion — returns, for every key and every positive bucket
count, exactly the value of the unbounded-integer model** the C06 theorems (range, monotone
remapping) are about. Any fuel above the bucket count suffices: the Go loop terminates. -/
theorem jumpHash_refines (key : UInt64) (n : Int32) (hn : 0 < n.toInt) (fuel : Nat) (hf : n.toInt.toNat < fuel) :
    ∃ r, Code.jumpHash fuel key n = some r ∧ r.toInt = Hash.jumpHash key n.toInt.toNat := by
  have hm1 : (-1 : Int64).toInt = -1 := by decide
  have h00 : (0 : Int64).toInt = 0 := by decide
  obtain ⟨key', b', j', h1, h2⟩ := loop_sim n n.toInt.toNat fuel (n.toInt.toNat + 1) key (-1) 0
    (by rw [h00]; omega) (by rw [h00]; omega) hf (by omega)
  have hcast : ((n.toInt.toNat : Nat) : Int) = n.toInt := by omega
  have hr := jump_range key n.toInt.toNat (by omega)
  refine ⟨Int64.toInt32 b', ?_, ?_⟩
  · unfold Code.jumpHash
    simp only [h1]
  · have e : b'.toInt = Hash.jumpHash key n.toInt.toNat := by
      rw [h2, hm1, h00]; unfold Hash.jumpHash; rw [hcast]
    rw [Int64.toInt_toInt32, e]
    have := n.toInt_lt
    apply Int.bmod_eq_of_le <;> omega

end

/-! ### the translation itself -/

/-- every function on the list was translated; nothing in them fell outside the fragment -/
theorem translation_clean :
    Code.translationProblems = [] ∧
    Code.translated = ["setState", "beforeRequest", "afterRequest", "refillTokens", "Allow", "jumpHash", "eligible",
                       "MarkBackendUnhealthy", "IsBackendHealthy", "handleHealthCheckFailure", "processHealthCheckResponse",
                       "handlePassiveHealthCheck"] := by
  decide

/-! ### non-vacuity: the hypotheses are met by the states the constructors produce -/

example : WF { name := "b", maxRequests := 1, interval := 60000000000, timeout := 1000000000, failureThreshold := 2,
               successThreshold := 1, onStateChange := true, state := 0, failureCount := 0, successCount := 0,
               requestCount := 0, lastFailureTime := 0, lastSuccessTime := 0, nextAttempt := 0, generation := 0,
               pendingChanges := [] } := by simp [WF]
example : WFB { maxTokens := 3, refillRate := 1000000000, cleanupTick := 600000000000 } { tokens := 3, lastRefill := 5 } := by
  simp [WFB]
example : Code.jumpHash 10 12345 7 = some 1 ∧ Hash.jumpHash 12345 7 = 1 := by decide +kernel

end Helios.CodeTie
