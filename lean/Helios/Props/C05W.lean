import Helios.Model.Strategy
/-
C05 (weighted clause) — smooth weighted round robin over a stable candidate set.

The algorithm of `WeightedRoundRobinStrategy.NextBackend` on the eligible backends (in slice
order), abstracted to two parallel lists: running weights `cw : List Int` and configured
weights `w : List Nat` (already normalised to ≥ 1):

    bump   : cw[j] += w[j]           for every candidate
    pick   : the first index holding the maximum
    settle : cw[pick] -= Σw

Theorems, for every number of candidates and every weight vector with Σw ≥ 1:
  * `sum_step`      the running weights always sum to zero (from a fresh pool);
  * `lower_step`    every running weight stays above −Σw;
  * `wrr_exact`     in the first Σw picks from a fresh pool candidate j is picked exactly w[j] times,
                    and afterwards the state is fresh again (`wrr_period`);
  * `wrr_window`    therefore in EVERY window of Σw consecutive picks, at any offset, candidate j
                    is picked exactly w[j] times.
The tie of this abstraction to `wrrPickCore` (Model/Strategy.lean, which the differential ties
to the Go code) is `core_refines` below, for pools whose backends are all eligible.
-/
namespace Helios.WRR

def total (w : List Nat) : Int := (w.foldl (· + ·) 0 : Nat)

def sumI (l : List Int) : Int := l.foldl (· + ·) 0

def bump : List Int → List Nat → List Int
  | c :: cs, x :: xs => (c + (x : Int)) :: bump cs xs
  | _, _ => []

/-- index and value of the first maximum -/
def best : List Int → Nat → Option (Nat × Int) → Option (Nat × Int)
  | [], _, acc => acc
  | b :: bs, i, none => best bs (i + 1) (some (i, b))
  | b :: bs, i, some (j, m) => if m < b then best bs (i + 1) (some (i, b)) else best bs (i + 1) (some (j, m))

def step (w : List Nat) (cw : List Int) : List Int × Option Nat :=
  let b := bump cw w
  match best b 0 none with
  | none => (b, none)
  | some (i, _) => (b.modify i (fun c => c - total w), some i)

/-- `k` picks: final running weights and the picks in order -/
def run (w : List Nat) : Nat → List Int → List Int × List (Option Nat)
  | 0, cw => (cw, [])
  | k + 1, cw =>
    let s := step w cw
    let r := run w k s.1
    (r.1, s.2 :: r.2)

def count (j : Nat) (ps : List (Option Nat)) : Nat := (ps.filter (· == some j)).length

/-! ### sums -/

theorem sumI_foldl (l : List Int) (a : Int) : l.foldl (· + ·) a = a + sumI l := by
  induction l generalizing a with
  | nil => simp [sumI]
  | cons x xs ih => simp only [sumI, List.foldl_cons]; rw [ih, ih (0 + x)]; omega

theorem sumI_cons (x : Int) (xs : List Int) : sumI (x :: xs) = x + sumI xs := by
  simp only [sumI, List.foldl_cons]; rw [sumI_foldl]; simp [sumI]

theorem total_foldl (w : List Nat) (a : Nat) : w.foldl (· + ·) a = a + w.foldl (· + ·) 0 := by
  induction w generalizing a with
  | nil => simp
  | cons x xs ih => simp only [List.foldl_cons]; rw [ih, ih (0 + x)]; omega

theorem total_cons (x : Nat) (xs : List Nat) : total (x :: xs) = (x : Int) + total xs := by
  simp only [total, List.foldl_cons]; rw [total_foldl]; simp

theorem bump_length : ∀ (cw : List Int) (w : List Nat), cw.length = w.length → (bump cw w).length = w.length
  | [], [], _ => rfl
  | c :: cs, x :: xs, h => by simp only [bump, List.length_cons]; rw [bump_length cs xs (by simpa using h)]
  | [], _ :: _, h => by simp at h
  | _ :: _, [], h => by simp at h

theorem sum_bump : ∀ (cw : List Int) (w : List Nat), cw.length = w.length → sumI (bump cw w) = sumI cw + total w
  | [], [], _ => by simp [bump, sumI, total]
  | c :: cs, x :: xs, h => by
    simp only [bump, sumI_cons, total_cons]
    rw [sum_bump cs xs (by simpa using h)]; omega
  | [], _ :: _, h => by simp at h
  | _ :: _, [], h => by simp at h

theorem sum_modify : ∀ (l : List Int) (i : Nat) (d : Int), i < l.length →
    sumI (l.modify i (fun c => c - d)) = sumI l - d
  | [], _, _, h => by simp at h
  | x :: xs, 0, d, _ => by simp [List.modify, sumI_cons]; omega
  | x :: xs, i + 1, d, h => by
    simp only [List.modify_succ_cons, sumI_cons]
    rw [sum_modify xs i d (by simpa using h)]; omega

/-! ### the first maximum -/

theorem best_none (l : List Int) (i : Nat) (acc : Option (Nat × Int)) (h : best l i acc = none) :
    l = [] ∧ acc = none := by
  induction l generalizing i acc with
  | nil => cases acc <;> simp_all [best]
  | cons b bs ih =>
    cases acc with
    | none => simp only [best] at h; have := ih _ _ h; simp at this
    | some p =>
      obtain ⟨j, m⟩ := p
      simp only [best] at h
      split at h
      · have := ih _ _ h; simp at this
      · have := ih _ _ h; simp at this

theorem best_some (l : List Int) (i : Nat) (acc : Option (Nat × Int)) (k : Nat) (m : Int)
    (h : best l i acc = some (k, m)) :
    (∀ x ∈ l, x ≤ m) ∧ (∀ j v, acc = some (j, v) → v ≤ m) ∧
    (acc = some (k, m) ∨ (i ≤ k ∧ l[k - i]? = some m)) := by
  induction l generalizing i acc with
  | nil =>
    cases acc with
    | none => simp [best] at h
    | some p =>
      simp only [best, Option.some.injEq] at h
      subst h
      exact ⟨by simp, by intro j v e; cases e; exact Int.le_refl _, Or.inl rfl⟩
  | cons b bs ih =>
    have shift : ∀ k, i + 1 ≤ k → bs[k - (i + 1)]? = some m → (b :: bs)[k - i]? = some m := by
      intro k hk hg
      have : k - i = (k - (i + 1)) + 1 := by omega
      rw [this, List.getElem?_cons_succ]; exact hg
    cases acc with
    | none =>
      simp only [best] at h
      obtain ⟨h2, h3, h4⟩ := ih _ _ h
      refine ⟨?_, (by intro j v e; cases e), ?_⟩
      · intro x hx
        cases hx with
        | head => exact h3 i b rfl
        | tail _ hx' => exact h2 x hx'
      · right
        rcases h4 with h4 | ⟨h4, h5⟩
        · cases h4; exact ⟨Nat.le_refl _, by simp⟩
        · exact ⟨by omega, shift k h4 h5⟩
    | some p =>
      obtain ⟨j, v0⟩ := p
      simp only [best] at h
      split at h
      · rename_i hlt
        obtain ⟨h2, h3, h4⟩ := ih _ _ h
        have hbm := h3 i b rfl
        refine ⟨?_, ?_, ?_⟩
        · intro x hx
          cases hx with
          | head => exact hbm
          | tail _ hx' => exact h2 x hx'
        · intro j' v e; cases e; omega
        · right
          rcases h4 with h4 | ⟨h4, h5⟩
          · cases h4; exact ⟨Nat.le_refl _, by simp⟩
          · exact ⟨by omega, shift k h4 h5⟩
      · rename_i hnlt
        obtain ⟨h2, h3, h4⟩ := ih _ _ h
        have hmm := h3 j v0 rfl
        refine ⟨?_, ?_, ?_⟩
        · intro x hx
          cases hx with
          | head => omega
          | tail _ hx' => exact h2 x hx'
        · intro j' v e; cases e; exact hmm
        · rcases h4 with h4 | ⟨h4, h5⟩
          · left; exact h4
          · right; exact ⟨by omega, shift k h4 h5⟩

/-- on a non-empty list: an index in range holding a value that dominates every element -/
theorem best_max (l : List Int) (hl : l ≠ []) :
    ∃ k m, best l 0 none = some (k, m) ∧ k < l.length ∧ l[k]? = some m ∧ ∀ x ∈ l, x ≤ m := by
  cases hb : best l 0 none with
  | none => exact absurd (best_none l 0 none hb).1 hl
  | some p =>
    obtain ⟨k, m⟩ := p
    obtain ⟨h2, _, h4⟩ := best_some l 0 none k m hb
    rcases h4 with h4 | ⟨_, h5⟩
    · cases h4
    · have h5' : l[k]? = some m := by simpa using h5
      have hk : k < l.length := by
        apply Classical.byContradiction
        intro hn
        rw [List.getElem?_eq_none (by omega)] at h5'
        cases h5'
      exact ⟨k, m, rfl, hk, h5', h2⟩

/-- the maximum of a list is at least its average: `length * max ≥ sum` -/
theorem sum_le_len_mul : ∀ (l : List Int) (m : Int), (∀ x ∈ l, x ≤ m) → sumI l ≤ (l.length : Int) * m
  | [], _, _ => by simp [sumI]
  | x :: xs, m, h => by
    have h1 := h x (List.mem_cons_self ..)
    have h2 := sum_le_len_mul xs m (fun y hy => h y (List.mem_cons_of_mem _ hy))
    simp only [sumI_cons, List.length_cons]
    have : ((xs.length + 1 : Nat) : Int) * m = (xs.length : Int) * m + m := by
      rw [Int.natCast_add, Int.add_mul]; simp
    rw [this]; omega

/-! ### one step -/

structure Good (w : List Nat) (cw : List Int) : Prop where
  len : cw.length = w.length
  sum0 : sumI cw = 0
  lower : ∀ c ∈ cw, -(total w) < c

theorem step_picks (w : List Nat) (cw : List Int) (hlen : cw.length = w.length) (hw : w ≠ []) :
    ∃ i m, (step w cw) = ((bump cw w).modify i (fun c => c - total w), some i) ∧
      i < w.length ∧ (bump cw w)[i]? = some m ∧ ∀ x ∈ bump cw w, x ≤ m := by
  have hbl := bump_length cw w hlen
  have hne : bump cw w ≠ [] := by
    intro e; rw [e] at hbl; cases w with
    | nil => exact hw rfl
    | cons _ _ => simp at hbl
  obtain ⟨k, m, hb, hk, hget, hmax⟩ := best_max (bump cw w) hne
  refine ⟨k, m, ?_, by omega, hget, hmax⟩
  simp only [step, hb]

theorem mem_bump : ∀ (cw : List Int) (w : List Nat) (x : Int), x ∈ bump cw w → ∃ c ∈ cw, c ≤ x
  | [], [], x, h => by simp [bump] at h
  | [], _ :: _, x, h => by simp [bump] at h
  | _ :: _, [], x, h => by simp [bump] at h
  | c :: cs, y :: ys, x, h => by
    simp only [bump, List.mem_cons] at h
    rcases h with rfl | h
    · exact ⟨c, List.mem_cons_self .., by omega⟩
    · obtain ⟨c', hc', hle⟩ := mem_bump cs ys x h
      exact ⟨c', List.mem_cons_of_mem _ hc', hle⟩

theorem mem_modify (l : List Int) (i : Nat) (f : Int → Int) (x : Int) (hx : x ∈ l.modify i f) :
    x ∈ l ∨ ∃ y, l[i]? = some y ∧ x = f y := by
  induction l generalizing i with
  | nil => simp at hx
  | cons a as ih =>
    cases i with
    | zero =>
      simp only [List.modify_zero_cons, List.mem_cons] at hx
      rcases hx with rfl | hx
      · right; exact ⟨a, by simp, rfl⟩
      · left; exact List.mem_cons_of_mem _ hx
    | succ i =>
      simp only [List.modify_succ_cons, List.mem_cons] at hx
      rcases hx with rfl | hx
      · left; exact List.mem_cons_self ..
      · rcases ih i hx with h | ⟨y, hy, e⟩
        · left; exact List.mem_cons_of_mem _ h
        · right; exact ⟨y, by simpa using hy, e⟩

theorem good_step (w : List Nat) (cw : List Int) (hw : w ≠ []) (hpos : 0 < total w) (h : Good w cw) :
    Good w (step w cw).1 := by
  obtain ⟨i, m, hs, hi, hget, hmax⟩ := step_picks w cw h.len hw
  have hbl := bump_length cw w h.len
  rw [hs]
  refine ⟨by simp [hbl], ?_, ?_⟩
  · show sumI ((bump cw w).modify i _) = 0
    rw [sum_modify _ _ _ (by omega), sum_bump cw w h.len, h.sum0]; omega
  · intro c hc
    rcases mem_modify _ _ _ _ hc with hc | ⟨y, hy, rfl⟩
    · obtain ⟨c', hc', hle⟩ := mem_bump cw w c hc
      have := h.lower c' hc'; omega
    · -- the picked one: its bumped value is the maximum, hence positive
      rw [hget] at hy
      have hym : m = y := by simpa using hy
      have hsum : sumI (bump cw w) = total w := by rw [sum_bump cw w h.len, h.sum0]; omega
      have hle := sum_le_len_mul (bump cw w) m hmax
      rw [hsum] at hle
      have hm : 0 < m := by
        apply Classical.byContradiction
        intro hn
        have hm0 : m ≤ 0 := by omega
        have : ((bump cw w).length : Int) * m ≤ 0 := Int.mul_nonpos_of_nonneg_of_nonpos (Int.natCast_nonneg _) hm0
        omega
      show -(total w) < y - total w
      omega

/-! ### counting -/

def getD0 (l : List Int) (j : Nat) : Int := (l[j]?).getD 0
def getW (w : List Nat) (j : Nat) : Int := ((w[j]?).getD 0 : Nat)

theorem bump_get : ∀ (cw : List Int) (w : List Nat) (j : Nat), cw.length = w.length →
    getD0 (bump cw w) j = getD0 cw j + getW w j
  | [], [], j, _ => by simp [bump, getD0, getW]
  | c :: cs, x :: xs, 0, _ => by simp [bump, getD0, getW]
  | c :: cs, x :: xs, j + 1, h => by
    have := bump_get cs xs j (by simpa using h)
    simpa [bump, getD0, getW] using this
  | [], _ :: _, _, h => by simp at h
  | _ :: _, [], _, h => by simp at h

theorem modify_get (l : List Int) (i j : Nat) (d : Int) (hi : i < l.length) :
    getD0 (l.modify i (fun c => c - d)) j = getD0 l j - (if j = i then d else 0) := by
  simp only [getD0, List.getElem?_modify]
  by_cases hji : j = i
  · subst hji
    simp only [if_true]
    rw [List.getElem?_eq_getElem hi]; simp
  · have : ¬ i = j := fun e => hji e.symm
    simp only [this, if_false, hji]
    cases l[j]? <;> simp

/-- after any number of picks: `cw[j] = cw₀[j] + k·w[j] − Σw · (times j was picked)` -/
theorem run_account (w : List Nat) (hw : w ≠ []) (hpos : 0 < total w) :
    ∀ (k : Nat) (cw : List Int), Good w cw → ∀ j,
      getD0 (run w k cw).1 j = getD0 cw j + (k : Int) * getW w j - total w * (count j (run w k cw).2 : Nat) ∧
      Good w (run w k cw).1 ∧ (run w k cw).2.length = k ∧ (∀ p ∈ (run w k cw).2, ∃ i, p = some i ∧ i < w.length)
  | 0, cw, h, j => by simp [run, count, h]
  | k + 1, cw, h, j => by
    obtain ⟨i, m, hs, hi, hget, hmax⟩ := step_picks w cw h.len hw
    have hg := good_step w cw hw hpos h
    have ih := run_account w hw hpos k (step w cw).1 hg j
    obtain ⟨ih1, ih2, ih3, ih4⟩ := ih
    have hbl := bump_length cw w h.len
    have hstep : getD0 (step w cw).1 j = getD0 cw j + getW w j - (if j = i then total w else 0) := by
      rw [hs]; simp only []
      rw [modify_get _ _ _ _ (by omega), bump_get cw w j h.len]
    have hpick : (step w cw).2 = some i := by rw [hs]
    simp only [run]
    refine ⟨?_, ih2, by simp [ih3], ?_⟩
    · rw [ih1, hstep]
      simp only [count, hpick, List.filter_cons]
      by_cases hji : j = i
      · subst hji
        simp only [beq_self_eq_true, if_true, List.length_cons]
        have : ((List.length (List.filter (fun x => x == some j) (run w k (step w cw).1).2) + 1 : Nat) : Int)
             = (List.length (List.filter (fun x => x == some j) (run w k (step w cw).1).2) : Nat) + 1 := by simp
        rw [this, Int.mul_add, Int.natCast_add, Int.add_mul]
        simp; omega
      · have hne : (some i == some j) = false := by simp; exact fun e => hji e.symm
        simp only [hne, Bool.false_eq_true, if_false, hji]
        rw [Int.natCast_add, Int.add_mul]; simp; omega
    · intro p hp
      simp only [List.mem_cons] at hp
      rcases hp with rfl | hp
      · exact ⟨i, hpick, hi⟩
      · exact ih4 p hp

/-! ### exactness -/

theorem count_le_sum (w : List Nat) : ∀ (ps : List (Option Nat)),
    (∀ p ∈ ps, ∃ i, p = some i ∧ i < w.length) →
    ps.length = ((List.range w.length).map (fun j => count j ps)).foldl (· + ·) 0 := by
  intro ps
  induction ps with
  | nil =>
    intro _
    have : ∀ n, ((List.range n).map (fun j => count j ([] : List (Option Nat)))).foldl (· + ·) 0 = 0 := by
      intro n; induction n with
      | zero => rfl
      | succ n ih => rw [List.range_succ, List.map_append, List.foldl_append, ih]; simp [count]
    rw [this]; rfl
  | cons p ps ih =>
    intro h
    obtain ⟨i, rfl, hi⟩ := h p (List.mem_cons_self ..)
    have ih' := ih (fun q hq => h q (List.mem_cons_of_mem _ hq))
    -- adding `some i` raises exactly the i-th count
    have key : ∀ n, ((List.range n).map (fun j => count j (some i :: ps))).foldl (· + ·) 0 =
        ((List.range n).map (fun j => count j ps)).foldl (· + ·) 0 + (if i < n then 1 else 0) := by
      intro n; induction n with
      | zero => simp
      | succ n ihn =>
        rw [List.range_succ, List.map_append, List.foldl_append, ihn, List.map_append, List.foldl_append]
        simp only [List.map_cons, List.map_nil, List.foldl_cons, List.foldl_nil, count, List.filter_cons]
        by_cases hin : i = n
        · subst hin; simp; omega
        · have h1 : (some i == some n) = false := by simp [hin]
          simp only [h1, Bool.false_eq_true, if_false]
          by_cases hlt : i < n
          · have : i < n + 1 := by omega
            simp [hlt, this]; omega
          · have : ¬ i < n + 1 := by omega
            simp [hlt, this]
    rw [key, ← ih']; simp [hi]

theorem total_eq_sum_getW (w : List Nat) :
    total w = (((List.range w.length).map (fun j => (w[j]?).getD 0)).foldl (· + ·) 0 : Nat) := by
  have : ∀ (w : List Nat), (List.range w.length).map (fun j => (w[j]?).getD 0) = w := by
    intro w
    apply List.ext_getElem?
    intro n
    simp only [List.getElem?_map, List.getElem?_range]
    by_cases h : n < w.length
    · simp [List.getElem?_range h, List.getElem?_eq_getElem h]
    · have : w.length ≤ n := by omega
      rw [List.getElem?_eq_none (by simpa using this), List.getElem?_eq_none this]; rfl
  rw [this]; rfl

/-- pointwise ≤ and equal sums force pointwise equality -/
theorem eq_of_le_of_sum_eq : ∀ (n : Nat) (f g : Nat → Nat), (∀ j, j < n → f j ≤ g j) →
    ((List.range n).map f).foldl (· + ·) 0 = ((List.range n).map g).foldl (· + ·) 0 →
    ∀ j, j < n → f j = g j := by
  intro n
  induction n with
  | zero => intro f g _ _ j hj; omega
  | succ n ih =>
    intro f g hle hsum j hj
    rw [List.range_succ, List.map_append, List.foldl_append, List.map_append, List.foldl_append] at hsum
    simp only [List.map_cons, List.map_nil, List.foldl_cons, List.foldl_nil] at hsum
    have hsle : ∀ (m : Nat) (f g : Nat → Nat), (∀ j, j < m → f j ≤ g j) →
        ((List.range m).map f).foldl (· + ·) 0 ≤ ((List.range m).map g).foldl (· + ·) 0 := by
      intro m; induction m with
      | zero => intro _ _ _; simp
      | succ m ihm =>
        intro f g h
        rw [List.range_succ, List.map_append, List.foldl_append, List.map_append, List.foldl_append]
        simp only [List.map_cons, List.map_nil, List.foldl_cons, List.foldl_nil]
        have := ihm f g (fun j hj => h j (by omega)); have := h m (by omega); omega
    have h1 := hsle n f g (fun j hj => hle j (by omega))
    have h2 := hle n (by omega)
    have hn : f n = g n := by omega
    by_cases hjn : j = n
    · rw [hjn]; exact hn
    · exact ih f g (fun j hj => hle j (by omega)) (by omega) j (by omega)

/-- **Exactness.** From a fresh pool (all running weights zero), for every weight vector with a
positive total: in the first Σw picks candidate j is picked exactly w[j] times, and the running
weights are all zero again. -/
theorem wrr_exact (w : List Nat) (hw : w ≠ []) (hpos : 0 < total w) :
    (∀ j, j < w.length → count j (run w (total w).toNat (List.replicate w.length 0)).2 = (w[j]?).getD 0) ∧
    (run w (total w).toNat (List.replicate w.length 0)).1 = List.replicate w.length 0 := by
  have hfresh : Good w (List.replicate w.length 0) := by
    refine ⟨by simp, ?_, ?_⟩
    · have : ∀ n, sumI (List.replicate n 0) = 0 := by
        intro n; induction n with
        | zero => rfl
        | succ n ih => rw [List.replicate_succ, sumI_cons, ih]; rfl
      exact this _
    · intro c hc; rw [List.eq_of_mem_replicate hc]; omega
  have acct := run_account w hw hpos (total w).toNat _ hfresh
  have hW : (((total w).toNat : Nat) : Int) = total w := by omega
  generalize run w (total w).toNat (List.replicate w.length 0) = r at acct ⊢
  generalize (total w).toNat = W at acct hW
  generalize hT : total w = T at *
  have hlen := (acct 0).2.2.1
  have hall := (acct 0).2.2.2
  have hgood := (acct 0).2.1
  have hz : ∀ j, j < w.length → getD0 (List.replicate w.length 0) j = 0 := by
    intro j hj; simp [getD0, hj]
  -- each count is at most the weight: cw[j] = T·w[j] − T·count > −T
  have hle : ∀ j, j < w.length → count j r.2 ≤ (w[j]?).getD 0 := by
    intro j hj
    have h1 := (acct j).1
    rw [hz j hj, hW] at h1
    have hmem : getD0 r.1 j ∈ r.1 := by
      have : j < r.1.length := by rw [hgood.len]; exact hj
      simp only [getD0, List.getElem?_eq_getElem this, Option.getD_some]
      exact List.getElem_mem _
    have hlow := hgood.lower _ hmem
    rw [hT] at hlow
    rw [h1] at hlow
    simp only [getW] at hlow
    generalize ((w[j]?).getD 0 : Nat) = x at hlow ⊢
    generalize count j r.2 = c at hlow ⊢
    apply Classical.byContradiction
    intro hgt
    have hgt' : ((x + 1 : Nat) : Int) ≤ (c : Int) := by exact_mod_cast (by omega : x + 1 ≤ c)
    have hmul : T * ((x + 1 : Nat) : Int) ≤ T * (c : Int) := Int.mul_le_mul_of_nonneg_left hgt' (by omega)
    have e1 : T * ((x + 1 : Nat) : Int) = T * (x : Int) + T := by
      rw [Int.natCast_add, Int.mul_add]; simp
    generalize T * (c : Int) = tc at *
    generalize T * (x : Int) = tx at *
    omega
  -- the counts sum to W = Σw
  have hsumc := count_le_sum w r.2 hall
  have hsumw := total_eq_sum_getW w
  have hWn : W = ((List.range w.length).map (fun j => (w[j]?).getD 0)).foldl (· + ·) 0 := by
    have : (W : Int) = ((((List.range w.length).map (fun j => (w[j]?).getD 0)).foldl (· + ·) 0 : Nat) : Int) := by
      rw [hW, ← hT, hsumw]
    exact_mod_cast this
  have heq := eq_of_le_of_sum_eq w.length (fun j => count j r.2) (fun j => (w[j]?).getD 0) hle
    (by rw [← hsumc, hlen]; exact hWn)
  refine ⟨heq, ?_⟩
  -- all running weights are zero again
  apply List.ext_getElem?
  intro j
  by_cases hj : j < w.length
  · have h1 := (acct j).1
    rw [hz j hj, heq j hj, hW] at h1
    simp only [getW] at h1
    have hjr : j < r.1.length := by rw [hgood.len]; exact hj
    have hzero : getD0 r.1 j = 0 := by
      rw [h1]
      generalize ((w[j]?).getD 0 : Nat) = x
      generalize T * (x : Int) = tx
      omega
    simp only [getD0, List.getElem?_eq_getElem hjr, Option.getD_some] at hzero
    rw [List.getElem?_eq_getElem hjr, List.getElem?_replicate, if_pos hj, hzero]
  · have h1 : r.1.length ≤ j := by rw [hgood.len]; omega
    rw [List.getElem?_eq_none h1, List.getElem?_eq_none (by simpa using (by omega : w.length ≤ j))]

/-! ### drift after any number of picks -/

theorem sum_ge (m : Int) : ∀ (l : List Int), (∀ x ∈ l, m ≤ x) → (l.length : Int) * m ≤ sumI l
  | [], _ => by simp [sumI]
  | x :: xs, h => by
    have h1 := h x (List.mem_cons_self ..)
    have h2 := sum_ge m xs (fun y hy => h y (List.mem_cons_of_mem _ hy))
    simp only [sumI_cons, List.length_cons]
    have : ((xs.length + 1 : Nat) : Int) * m = (xs.length : Int) * m + m := by
      rw [Int.natCast_add, Int.add_mul]; simp
    rw [this]; omega

/-- the sum is at least one chosen element plus the lower bound for every other element -/
theorem sum_ge_one (m : Int) : ∀ (l : List Int) (j : Nat) (hj : j < l.length), (∀ x ∈ l, m ≤ x) →
    ((l.length : Int) - 1) * m + l[j] ≤ sumI l
  | [], _, hj, _ => by simp at hj
  | x :: xs, 0, _, h => by
    have h2 := sum_ge m xs (fun y hy => h y (List.mem_cons_of_mem _ hy))
    simp only [sumI_cons, List.length_cons, List.getElem_cons_zero]
    have : ((xs.length + 1 : Nat) : Int) - 1 = (xs.length : Int) := by omega
    rw [this]; omega
  | x :: xs, j + 1, hj, h => by
    have h1 := h x (List.mem_cons_self ..)
    have ih := sum_ge_one m xs j (by simpa using hj) (fun y hy => h y (List.mem_cons_of_mem _ hy))
    simp only [sumI_cons, List.length_cons, List.getElem_cons_succ]
    have e : (((xs.length + 1 : Nat) : Int) - 1) * m = ((xs.length : Int) - 1) * m + m := by
      have : ((xs.length + 1 : Nat) : Int) - 1 = ((xs.length : Int) - 1) + 1 := by omega
      rw [this, Int.add_mul]; simp
    rw [e]; omega

/-- **Bounded drift.** From a fresh pool, after ANY number `k` of picks candidate j has been
picked within a constant of its proportional share `k·w[j]/Σw` — the constant (less than 1 above,
at most n−1 below, n = number of candidates) does not grow with `k`:
`k·w[j] − (n−1)(Σw−1) ≤ Σw·count_j(k) < k·w[j] + Σw`. -/
theorem wrr_drift (w : List Nat) (hw : w ≠ []) (hpos : 0 < total w) (k : Nat) (j : Nat) (hj : j < w.length) :
    total w * ((count j (run w k (List.replicate w.length 0)).2 : Nat) : Int) < (k : Int) * getW w j + total w ∧
    (k : Int) * getW w j ≤ total w * ((count j (run w k (List.replicate w.length 0)).2 : Nat) : Int)
        + ((w.length : Int) - 1) * (total w - 1) := by
  have hfresh : Good w (List.replicate w.length 0) := by
    refine ⟨by simp, ?_, ?_⟩
    · have : ∀ n, sumI (List.replicate n 0) = 0 := by
        intro n; induction n with
        | zero => rfl
        | succ n ih => rw [List.replicate_succ, sumI_cons, ih]; rfl
      exact this _
    · intro c hc; rw [List.eq_of_mem_replicate hc]; omega
  have acct := run_account w hw hpos k _ hfresh j
  obtain ⟨h1, hgood, _, _⟩ := acct
  have hz : getD0 (List.replicate w.length 0) j = 0 := by simp [getD0, hj]
  rw [hz] at h1
  generalize run w k (List.replicate w.length 0) = r at h1 hgood ⊢
  have hjr : j < r.1.length := by rw [hgood.len]; exact hj
  have hget : getD0 r.1 j = r.1[j] := by simp [getD0, List.getElem?_eq_getElem hjr]
  have hlow : -(total w) < r.1[j] := hgood.lower _ (List.getElem_mem hjr)
  have hup := sum_ge_one (1 - total w) r.1 j hjr (fun x hx => by have := hgood.lower x hx; omega)
  rw [hgood.sum0, hgood.len] at hup
  rw [hget] at h1
  generalize total w * ((count j r.2 : Nat) : Int) = tc at *
  generalize (k : Int) * getW w j = kw at *
  have e : ((w.length : Int) - 1) * (1 - total w) = -(((w.length : Int) - 1) * (total w - 1)) := by
    rw [show (1 - total w) = -(total w - 1) by omega, Int.mul_neg]
  rw [e] at hup
  generalize ((w.length : Int) - 1) * (total w - 1) = B at *
  constructor <;> omega

/-! ### every window, at any offset -/

def fresh (w : List Nat) : List Int := List.replicate w.length 0

/-- running weights after `k` picks from a fresh pool, and the `k`-th pick -/
def state (w : List Nat) (k : Nat) : List Int := (run w k (fresh w)).1
def pick (w : List Nat) (k : Nat) : Option Nat := (step w (state w k)).2

theorem run_add (w : List Nat) : ∀ (a b : Nat) (cw : List Int),
    run w (a + b) cw = ((run w b (run w a cw).1).1, (run w a cw).2 ++ (run w b (run w a cw).1).2)
  | 0, b, cw => by simp [run]
  | a + 1, b, cw => by
    have : a + 1 + b = (a + b) + 1 := by omega
    rw [this]
    simp only [run]
    rw [run_add w a b]
    simp

theorem state_succ (w : List Nat) (k : Nat) : state w (k + 1) = (step w (state w k)).1 := by
  simp only [state]
  rw [run_add w k 1]
  simp [run]

theorem picks_succ (w : List Nat) (k : Nat) :
    (run w (k + 1) (fresh w)).2 = (run w k (fresh w)).2 ++ [pick w k] := by
  rw [run_add w k 1]
  simp [run, pick, state]

theorem picks_eq (w : List Nat) : ∀ k, (run w k (fresh w)).2 = (List.range k).map (pick w)
  | 0 => by simp [run]
  | k + 1 => by rw [picks_succ, picks_eq w k, List.range_succ, List.map_append]; rfl

/-- **Period.** After Σw picks a fresh pool is fresh again, so states and picks repeat. -/
theorem wrr_period (w : List Nat) (hw : w ≠ []) (hpos : 0 < total w) :
    ∀ k, state w (k + (total w).toNat) = state w k ∧ pick w (k + (total w).toNat) = pick w k := by
  have h0 : state w (total w).toNat = state w 0 := by
    have := (wrr_exact w hw hpos).2
    simp only [state, run, fresh]; exact this
  have hs : ∀ k, state w (k + (total w).toNat) = state w k := by
    intro k
    induction k with
    | zero => simpa using h0
    | succ k ih =>
      have : k + 1 + (total w).toNat = (k + (total w).toNat) + 1 := by omega
      rw [this, state_succ, state_succ, ih]
  intro k
  exact ⟨hs k, by simp only [pick, hs k]⟩

theorem count_append (j : Nat) (a b : List (Option Nat)) : count j (a ++ b) = count j a + count j b := by
  simp [count, List.filter_append]

theorem count_cons (j : Nat) (p : Option Nat) (a : List (Option Nat)) :
    count j (p :: a) = (if p == some j then 1 else 0) + count j a := by
  simp only [count, List.filter_cons]
  split <;> simp <;> omega

/-- **Every window.** From a fresh pool, in every window of Σw consecutive picks — starting at
any offset `s` — candidate j is picked exactly w[j] times. -/
theorem wrr_window (w : List Nat) (hw : w ≠ []) (hpos : 0 < total w) (j : Nat) (hj : j < w.length) :
    ∀ s, count j ((List.range' s (total w).toNat).map (pick w)) = (w[j]?).getD 0 := by
  intro s
  induction s with
  | zero =>
    have := (wrr_exact w hw hpos).1 j hj
    rw [show run w (total w).toNat (List.replicate w.length 0) = run w (total w).toNat (fresh w) from rfl,
      picks_eq] at this
    rw [← List.range_eq_range']; exact this
  | succ s ih =>
    -- sliding the window by one drops pick s and adds pick (s + Σw), which are equal
    generalize hW : (total w).toNat = W at *
    have hWpos : 0 < W := by omega
    obtain ⟨V, rfl⟩ : ∃ V, W = V + 1 := ⟨W - 1, by omega⟩
    have e1 : List.range' s (V + 1) = s :: List.range' (s + 1) V := by simp [List.range'_succ]
    have e2 : List.range' (s + 1) (V + 1) = List.range' (s + 1) V ++ [s + 1 + V] := by
      rw [List.range'_concat]; simp
    rw [e1, List.map_cons, count_cons] at ih
    rw [e2, List.map_append, count_append]
    have hp := (wrr_period w hw hpos s).2
    rw [hW] at hp
    have : s + 1 + V = s + (V + 1) := by omega
    simp only [List.map_cons, List.map_nil, count_cons, this, hp]
    simp only [count, List.filter_nil, List.length_nil] at ih ⊢
    omega

end Helios.WRR

/-! ### the abstraction is what `wrrPickCore` computes (all backends eligible) -/
namespace Helios.LB
open Helios.WRR

theorem wrrBump_all (pool : List Backend) (now : Nat) (h : ∀ b ∈ pool, b.eligible now = true) :
    (wrrBump pool now).map (·.cw) = bump (pool.map (·.cw)) (pool.map (·.weight)) ∧
    (wrrBump pool now).map (·.weight) = pool.map (·.weight) ∧
    (∀ b ∈ wrrBump pool now, b.eligible now = true) := by
  induction pool with
  | nil => simp [wrrBump, bump]
  | cons b bs ih =>
    have hb := h b (List.mem_cons_self ..)
    obtain ⟨i1, i2, i3⟩ := ih (fun x hx => h x (List.mem_cons_of_mem _ hx))
    simp only [wrrBump, List.map_cons, hb, if_true, bump] at i1 i2 i3 ⊢
    refine ⟨by rw [i1], by rw [i2], ?_⟩
    intro x hx
    simp only [List.mem_cons] at hx
    rcases hx with rfl | hx
    · simpa [Backend.eligible] using hb
    · exact i3 x hx

theorem wrrBest_all (now : Nat) : ∀ (l : List Backend) (i : Nat) (acc : Option (Nat × Int)),
    (∀ b ∈ l, b.eligible now = true) → wrrBest now l i acc = best (l.map (·.cw)) i acc
  | [], _, _, _ => by simp [wrrBest, best]
  | b :: bs, i, none, h => by
    have hb := h b (List.mem_cons_self ..)
    simp only [wrrBest, hb, if_true, List.map_cons, best]
    exact wrrBest_all now bs _ _ (fun x hx => h x (List.mem_cons_of_mem _ hx))
  | b :: bs, i, some (j, m), h => by
    have hb := h b (List.mem_cons_self ..)
    simp only [wrrBest, hb, if_true, List.map_cons, best]
    split <;> exact wrrBest_all now bs _ _ (fun x hx => h x (List.mem_cons_of_mem _ hx))

theorem wrrTotal_all (pool : List Backend) (now : Nat) (h : ∀ b ∈ pool, b.eligible now = true) :
    (wrrTotal pool now : Int) = total (pool.map (·.weight)) := by
  have hf : pool.filter (·.eligible now) = pool := List.filter_eq_self.mpr h
  simp only [wrrTotal, hf, total]
  congr 1
  have : ∀ (l : List Backend) (a : Nat), l.foldl (fun a b => a + b.weight) a = (l.map (·.weight)).foldl (· + ·) a := by
    intro l; induction l with
    | nil => intro a; rfl
    | cons x xs ih => intro a; simp only [List.foldl_cons, List.map_cons]; exact ih _
  exact this pool 0

theorem map_modify_cw (l : List Backend) (i : Nat) (d : Int) :
    (l.modify i (fun b => { b with cw := b.cw - d })).map (·.cw) = (l.map (·.cw)).modify i (fun c => c - d) := by
  induction l generalizing i with
  | nil => simp
  | cons x xs ih =>
    cases i with
    | zero => simp
    | succ i => simp only [List.modify_succ_cons, List.map_cons]; rw [ih]

/-- **Refinement.** On a pool whose backends are all eligible, one `NextBackend` of the weighted
strategy (model of the Go code, tied to it by the differential) picks the index the abstract
smooth-WRR step picks and leaves the running weights the abstract step leaves. -/
theorem core_refines (pool : List Backend) (now : Nat) (h : ∀ b ∈ pool, b.eligible now = true) :
    (wrrPickCore pool now).2 = (step (pool.map (·.weight)) (pool.map (·.cw))).2 ∧
    (wrrPickCore pool now).1.map (·.cw) = (step (pool.map (·.weight)) (pool.map (·.cw))).1 := by
  obtain ⟨b1, _, b3⟩ := wrrBump_all pool now h
  have hbest := wrrBest_all now (wrrBump pool now) 0 none b3
  rw [b1] at hbest
  have htot := wrrTotal_all pool now h
  simp only [wrrPickCore, step, hbest]
  cases hb : best (bump (pool.map (·.cw)) (pool.map (·.weight))) 0 none with
  | none => exact ⟨rfl, b1⟩
  | some p =>
    obtain ⟨i, m⟩ := p
    simp only [true_and]
    rw [map_modify_cw, b1, htot]

/-! ### pools with ineligible members: the strategy works on the eligible sub-list -/

def elig (now : Nat) (l : List Backend) : List Backend := l.filter (·.eligible now)

/-- number of eligible backends among the first `n` -/
def rank (now : Nat) (l : List Backend) (n : Nat) : Nat := (elig now (l.take n)).length

theorem eligible_cw (b : Backend) (c : Int) (now : Nat) : ({ b with cw := c } : Backend).eligible now = b.eligible now := rfl

theorem elig_bump (pool : List Backend) (now : Nat) :
    (elig now (wrrBump pool now)).map (·.cw) = bump ((elig now pool).map (·.cw)) ((elig now pool).map (·.weight)) ∧
    (elig now (wrrBump pool now)).map (·.weight) = (elig now pool).map (·.weight) := by
  induction pool with
  | nil => simp [elig, wrrBump, bump]
  | cons b bs ih =>
    simp only [elig, wrrBump, List.map_cons] at ih ⊢
    by_cases hb : b.eligible now = true
    · simp only [hb, if_true, List.filter_cons, eligible_cw, List.map_cons, bump]
      exact ⟨by rw [ih.1], by rw [ih.2]⟩
    · simp only [hb, Bool.false_eq_true, if_false, List.filter_cons]
      exact ih

theorem wrrTotal_elig (pool : List Backend) (now : Nat) :
    (wrrTotal pool now : Int) = total ((elig now pool).map (·.weight)) := by
  simp only [wrrTotal, total, elig]
  congr 1
  have : ∀ (l : List Backend) (a : Nat), l.foldl (fun a b => a + b.weight) a = (l.map (·.weight)).foldl (· + ·) a := by
    intro l; induction l with
    | nil => intro a; rfl
    | cons x xs ih => intro a; simp only [List.foldl_cons, List.map_cons]; exact ih _
  exact this _ 0

/-- the scan over the whole pool and the scan over the eligible sub-list find the same maximum;
the pool index found is eligible and its rank among the eligible backends is the sub-list index -/
theorem best_elig (now : Nat) : ∀ (l : List Backend) (i i' : Nat) (acc acc' : Option (Nat × Int)),
    (acc = none ∧ acc' = none ∨ ∃ j j' m, acc = some (j, m) ∧ acc' = some (j', m)) →
    (wrrBest now l i acc = none ∧ best ((elig now l).map (·.cw)) i' acc' = none) ∨
    (∃ fi ki m, wrrBest now l i acc = some (fi, m) ∧ best ((elig now l).map (·.cw)) i' acc' = some (ki, m) ∧
      ((∃ m0, acc = some (fi, m0) ∧ acc' = some (ki, m0) ∧ m0 = m) ∨
       (i ≤ fi ∧ i' ≤ ki ∧ (∃ b, l[fi - i]? = some b ∧ b.eligible now = true) ∧ ki - i' = rank now l (fi - i))))
  | [], i, i', acc, acc', hrel => by
    rcases hrel with ⟨rfl, rfl⟩ | ⟨j, j', m, rfl, rfl⟩
    · left; simp [wrrBest, best, elig]
    · right; exact ⟨j, j', m, by simp [wrrBest], by simp [best, elig], Or.inl ⟨m, rfl, rfl, rfl⟩⟩
  | b :: bs, i, i', acc, acc', hrel => by
    -- shifting an index found in the tail by one position of the head
    have shift : ∀ (fi ki : Nat) (e : Bool), b.eligible now = e →
        i + 1 ≤ fi → (i' + (if e then 1 else 0)) ≤ ki →
        (∃ x, bs[fi - (i + 1)]? = some x ∧ x.eligible now = true) →
        ki - (i' + (if e then 1 else 0)) = rank now bs (fi - (i + 1)) →
        i ≤ fi ∧ i' ≤ ki ∧ (∃ x, (b :: bs)[fi - i]? = some x ∧ x.eligible now = true) ∧ ki - i' = rank now (b :: bs) (fi - i) := by
      intro fi ki e he h1 h2 h3 h4
      have hfi : fi - i = (fi - (i + 1)) + 1 := by omega
      refine ⟨by omega, by cases e <;> simp at h2 <;> omega, ?_, ?_⟩
      · rw [hfi, List.getElem?_cons_succ]; exact h3
      · rw [hfi]
        simp only [rank, elig, List.take_succ_cons, List.filter_cons, he]
        cases e with
        | true => simp only [if_true, List.length_cons] at h2 h4 ⊢; simp only [rank, elig] at h4; omega
        | false => simp only [Bool.false_eq_true, if_false, Nat.add_zero] at h2 h4 ⊢; simp only [rank, elig] at h4; omega
    by_cases hb : b.eligible now = true
    · -- the head takes part in both scans
      have hel : (elig now (b :: bs)).map (·.cw) = b.cw :: (elig now bs).map (·.cw) := by
        simp [elig, List.filter_cons, hb]
      rw [hel]
      rcases hrel with ⟨rfl, rfl⟩ | ⟨j, j', m, rfl, rfl⟩
      · simp only [wrrBest, hb, if_true, best]
        have ih := best_elig now bs (i + 1) (i' + 1) (some (i, b.cw)) (some (i', b.cw)) (Or.inr ⟨i, i', b.cw, rfl, rfl⟩)
        rcases ih with ⟨h1, _⟩ | ⟨fi, ki, m, h1, h2, h3⟩
        · exfalso
          have := best_none _ _ _ (by
            have : best ((elig now bs).map (·.cw)) (i' + 1) (some (i', b.cw)) = none := by
              rcases best_elig now bs (i + 1) (i' + 1) (some (i, b.cw)) (some (i', b.cw)) (Or.inr ⟨i, i', b.cw, rfl, rfl⟩) with ⟨_, h⟩ | ⟨_, _, _, hx, _, _⟩
              · exact h
              · rw [h1] at hx; cases hx
            exact this)
          cases this.2
        · right
          refine ⟨fi, ki, m, h1, h2, Or.inr ?_⟩
          rcases h3 with ⟨m0, e1, e2, _⟩ | ⟨g1, g2, g3, g4⟩
          · -- the head itself
            simp only [Option.some.injEq, Prod.mk.injEq] at e1 e2
            obtain ⟨rfl, _⟩ := e1
            obtain ⟨rfl, _⟩ := e2
            refine ⟨Nat.le_refl _, Nat.le_refl _, ⟨b, by simp, hb⟩, by simp [rank, elig]⟩
          · exact shift fi ki true hb g1 (by simpa using g2) g3 (by simpa using g4)
      · simp only [wrrBest, hb, if_true, best]
        by_cases hlt : m < b.cw
        · simp only [hlt, if_true]
          have ih := best_elig now bs (i + 1) (i' + 1) (some (i, b.cw)) (some (i', b.cw)) (Or.inr ⟨i, i', b.cw, rfl, rfl⟩)
          rcases ih with ⟨h1, h2⟩ | ⟨fi, ki, m', h1, h2, h3⟩
          · exfalso; have := best_none _ _ _ h2; cases this.2
          · right
            refine ⟨fi, ki, m', h1, h2, Or.inr ?_⟩
            rcases h3 with ⟨m0, e1, e2, _⟩ | ⟨g1, g2, g3, g4⟩
            · simp only [Option.some.injEq, Prod.mk.injEq] at e1 e2
              obtain ⟨rfl, _⟩ := e1
              obtain ⟨rfl, _⟩ := e2
              refine ⟨Nat.le_refl _, Nat.le_refl _, ⟨b, by simp, hb⟩, by simp [rank, elig]⟩
            · exact shift fi ki true hb g1 (by simpa using g2) g3 (by simpa using g4)
        · simp only [hlt, if_false]
          have ih := best_elig now bs (i + 1) (i' + 1) (some (j, m)) (some (j', m)) (Or.inr ⟨j, j', m, rfl, rfl⟩)
          rcases ih with ⟨h1, h2⟩ | ⟨fi, ki, m', h1, h2, h3⟩
          · exfalso; have := best_none _ _ _ h2; cases this.2
          · right
            refine ⟨fi, ki, m', h1, h2, ?_⟩
            rcases h3 with ⟨m0, e1, e2, e3⟩ | ⟨g1, g2, g3, g4⟩
            · exact Or.inl ⟨m0, e1, e2, e3⟩
            · exact Or.inr (shift fi ki true hb g1 (by simpa using g2) g3 (by simpa using g4))
    · -- the head is skipped by both
      have hbf : b.eligible now = false := by simpa using hb
      have hel : (elig now (b :: bs)).map (·.cw) = (elig now bs).map (·.cw) := by
        simp [elig, List.filter_cons, hbf]
      rw [hel]
      simp only [wrrBest, hbf, Bool.false_eq_true, if_false]
      have ih := best_elig now bs (i + 1) i' acc acc' hrel
      rcases ih with h | ⟨fi, ki, m, h1, h2, h3⟩
      · exact Or.inl h
      · right
        refine ⟨fi, ki, m, h1, h2, ?_⟩
        rcases h3 with h3 | ⟨g1, g2, g3, g4⟩
        · exact Or.inl h3
        · exact Or.inr (shift fi ki false hbf g1 (by simpa using g2) g3 (by simpa using g4))

theorem elig_modify (now : Nat) (d : Int) : ∀ (l : List Backend) (fi : Nat) (b : Backend),
    l[fi]? = some b → b.eligible now = true →
    (elig now (l.modify fi (fun b => { b with cw := b.cw - d }))).map (·.cw) =
      ((elig now l).map (·.cw)).modify (rank now l fi) (fun c => c - d)
  | [], _, _, h, _ => by simp at h
  | x :: xs, 0, b, h, hb => by
    simp only [List.getElem?_cons_zero, Option.some.injEq] at h
    subst h
    simp [elig, rank, List.filter_cons, hb, eligible_cw]
  | x :: xs, fi + 1, b, h, hb => by
    simp only [List.getElem?_cons_succ] at h
    have ih := elig_modify now d xs fi b h hb
    simp only [elig, rank] at ih ⊢
    simp only [List.modify_succ_cons, List.take_succ_cons, List.filter_cons]
    by_cases hx : x.eligible now = true
    · simp only [hx, if_true, List.map_cons, List.length_cons, List.modify_succ_cons]
      rw [ih]
    · simp only [hx, Bool.false_eq_true, if_false]
      exact ih

theorem rank_bump (pool : List Backend) (now n : Nat) : rank now (wrrBump pool now) n = rank now pool n := by
  simp only [rank, elig, wrrBump, ← List.map_take]
  rw [List.filter_map, List.length_map]
  congr 1
  apply List.filter_congr
  intro b _
  simp only [Function.comp]
  split <;> rfl

/-- **Refinement, general.** One `NextBackend` of the weighted strategy acts on the eligible
sub-list exactly like the abstract smooth-WRR step: the running weights of the eligible
backends afterwards are the abstract step's, and the backend picked is eligible and is the
abstract pick counted among the eligible ones. Ineligible backends are skipped by bump, scan
and total alike. With `wrr_exact / wrr_window / wrr_drift` this gives the weighted clauses for
every stable set of eligible backends inside any pool. -/
theorem core_refines_elig (pool : List Backend) (now : Nat) :
    (elig now (wrrPickCore pool now).1).map (·.cw) =
      (step ((elig now pool).map (·.weight)) ((elig now pool).map (·.cw))).1 ∧
    (match (wrrPickCore pool now).2, (step ((elig now pool).map (·.weight)) ((elig now pool).map (·.cw))).2 with
     | none, none => True
     | some fi, some ki => (∃ b, pool[fi]? = some b ∧ b.eligible now = true) ∧ ki = rank now pool fi
     | _, _ => False) := by
  have hb := elig_bump pool now
  have hbest := best_elig now (wrrBump pool now) 0 0 none none (Or.inl ⟨rfl, rfl⟩)
  rw [hb.1] at hbest
  simp only [wrrPickCore, step]
  rcases hbest with ⟨h1, h2⟩ | ⟨fi, ki, m, h1, h2, h3⟩
  · simp only [h1, h2]
    exact ⟨hb.1, trivial⟩
  · simp only [h1, h2]
    rcases h3 with ⟨m0, e1, _, _⟩ | ⟨_, _, ⟨b, hbi, hbe⟩, hrank⟩
    · cases e1
    · simp only [Nat.sub_zero] at hbi hrank
      refine ⟨?_, ?_, ?_⟩
      · rw [elig_modify now _ (wrrBump pool now) fi b hbi hbe, hb.1, wrrTotal_elig, ← hrank]
      · -- the slot of the original pool holds a backend with the same eligibility
        simp only [wrrBump, List.getElem?_map] at hbi
        cases hp : pool[fi]? with
        | none => simp [hp] at hbi
        | some b0 =>
          simp only [hp, Option.map_some, Option.some.injEq] at hbi
          refine ⟨b0, rfl, ?_⟩
          rw [← hbi] at hbe
          split at hbe
          · rename_i he; exact he
          · exact hbe
      · rw [hrank, rank_bump]

/-- **Histories.** When the set of candidates differs from the one of the previous pick (a
backend was added, removed, ejected or came back), `NextBackend` first restarts every running
weight from zero: the eligible sub-list is a fresh pool again, so `wrr_exact`, `wrr_window` and
`wrr_drift` apply from that pick on, whatever the history before it. -/
theorem reset_fresh (pool : List Backend) (ids lastEl : List Nat) (now : Nat)
    (hchg : eligibleIds pool ids now ≠ lastEl) :
    (elig now (wrrReset pool ids lastEl now)).map (·.cw) = List.replicate (elig now pool).length 0 ∧
    (elig now (wrrReset pool ids lastEl now)).map (·.weight) = (elig now pool).map (·.weight) := by
  simp only [wrrReset, hchg, if_false, elig]
  rw [List.filter_map]
  have hf : (List.filter ((fun b : Backend => b.eligible now) ∘ fun b => { b with cw := 0 }) pool) =
      List.filter (fun b => b.eligible now) pool := by
    apply List.filter_congr; intro b _; rfl
  rw [hf]
  constructor
  · simp only [List.map_map]
    apply List.ext_getElem?
    intro n
    simp only [List.getElem?_map, List.getElem?_replicate]
    cases h : (List.filter (fun b => b.eligible now) pool)[n]? with
    | none =>
      have := List.getElem?_eq_none_iff.mp h
      simp only [Option.map_none]
      rw [if_neg (by omega)]
    | some b =>
      have := (List.getElem?_eq_some_iff.mp h).1
      simp only [Option.map_some, Function.comp]
      rw [if_pos this]
  · simp only [List.map_map]; rfl

/-- and without a change nothing is reset -/
theorem reset_same (pool : List Backend) (ids lastEl : List Nat) (now : Nat)
    (hsame : eligibleIds pool ids now = lastEl) : wrrReset pool ids lastEl now = pool := by
  simp [wrrReset, hsame]

end Helios.LB
