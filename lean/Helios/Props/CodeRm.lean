import Helios.Props.CodeStrat
/-
Tie C for removal (C11): `RemoveBackend` of the round-robin, least-connections and the two hash strategies,
translated from the source on every run. Records have no identity, so the pointer comparison `b == backend` of the
Go code is a parameter `ptrEq` of the translated functions; the theorems assume of it what pointer equality gives:
among the pool's entries it singles out exactly the one at the position of the backend to be removed (or none).
-/
namespace Helios.CodeTie
open Helios Helios.Generated

/-- swap the entry at `i` with the last one and drop the last one — on the code's records (the model's `LB.removeAt`
is the same function on the model's records, see `removeAtC_abs`) -/
def removeAtC (pool : List Code.Backend) (i : Nat) : List Code.Backend :=
  match pool.getLast? with
  | none => pool
  | some l => if i < pool.length then (pool.set i l).dropLast else pool

theorem removeAtC_abs (pool : List Code.Backend) (i : Nat) :
    absPool (removeAtC pool i) = LB.removeAt (absPool pool) i := by
  unfold removeAtC LB.removeAt absPool
  cases h : pool.getLast? with
  | none => simp [List.getLast?_map, h]
  | some l =>
    simp only [List.getLast?_map, h, Option.map_some, List.length_map]
    split
    · simp [List.map_dropLast, List.map_set]
    · rfl

theorem set_last_take (pool : List Code.Backend) (i : Nat) (hi : i < pool.length) (l : Code.Backend)
    (hl : pool.getLast? = some l) :
    List.take (Int.toNat ((Int.ofNat (List.set pool i (Code.listGet pool (Int.toNat ((Int.ofNat pool.length) - (1 : Int))))).length) - (1 : Int)))
      (List.set pool i (Code.listGet pool (Int.toNat ((Int.ofNat pool.length) - (1 : Int)))))
    = (pool.set i l).dropLast := by
  have hne : pool ≠ [] := by intro h; simp [h] at hi
  have hlen : 0 < pool.length := by omega
  have e1 : Int.toNat ((Int.ofNat pool.length) - (1 : Int)) = pool.length - 1 := by
    simp only [Int.ofNat_eq_natCast]; omega
  have hget : Code.listGet pool (pool.length - 1) = l := by
    rw [listGet_lt _ _ (by omega)]
    rw [List.getLast?_eq_getElem?] at hl
    have := List.getElem?_eq_getElem (l := pool) (i := pool.length - 1) (by omega)
    rw [this] at hl
    exact Option.some.inj hl
  rw [e1, hget]
  simp only [List.length_set]
  rw [e1, List.dropLast_eq_take, List.length_set]

/-- the scan: entries before position `k` are not the one sought, the one at `k` is -/
theorem rr_scan (ptrEq : Code.Backend → Code.Backend → Bool) (rr : Code.RoundRobinStrategy) (target : Code.Backend)
    (pre rest : List Code.Backend) (hall : rr.backends = pre ++ rest) (j : Int) (hj : j = pre.length) :
    Code.rrRemoveBackend_range1 ptrEq rest j (rr, target) =
      match rest.findIdx? (ptrEq · target) with
      | none => .inr (rr, target)
      | some k => .inl ({ rr with backends := removeAtC rr.backends (pre.length + k) }, target) := by
  induction rest generalizing pre j with
  | nil => simp [Code.rrRemoveBackend_range1]
  | cons b rest ih =>
    unfold Code.rrRemoveBackend_range1
    by_cases hb : ptrEq b target = true
    · simp only [hb, if_true, List.findIdx?_cons, Nat.add_zero]
      have hi : pre.length < rr.backends.length := by simp [hall]
      obtain ⟨l, hl⟩ : ∃ l, rr.backends.getLast? = some l := by
        cases h : rr.backends.getLast? with
        | none => simp [List.getLast?_eq_none_iff] at h; simp [h] at hi
        | some l => exact ⟨l, rfl⟩
      have hjn : Int.toNat j = pre.length := by omega
      simp only [hjn, set_last_take rr.backends pre.length hi l hl, removeAtC, hl, hi, if_true]
    · have hb' : ptrEq b target = false := by simpa using hb
      simp only [hb', Bool.false_eq_true, if_false, List.findIdx?_cons]
      have := ih (pre ++ [b]) (by simp [hall]) (j + 1) (by simp [hj])
      rw [this]
      cases h : rest.findIdx? (ptrEq · target) with
      | none => simp
      | some k => simp [Nat.add_assoc, Nat.add_comm 1 k]

/-- **`RoundRobinStrategy.RemoveBackend`, as written**: the first pool entry that is the given backend (by pointer) is
swapped with the last entry and the pool shortened by one — the model's `removeAt` at that position —; with no such
entry nothing changes. Every other field of the strategy (the rotation counter) stays as it was. -/
theorem rrRemove_refines (ptrEq : Code.Backend → Code.Backend → Bool) (rr : Code.RoundRobinStrategy) (target : Code.Backend) :
    (Code.rrRemoveBackend ptrEq rr target).1 =
      match rr.backends.findIdx? (ptrEq · target) with
      | none => rr
      | some k => { rr with backends := removeAtC rr.backends k } := by
  unfold Code.rrRemoveBackend
  rw [rr_scan ptrEq rr target [] rr.backends rfl 0 rfl]
  cases rr.backends.findIdx? (ptrEq · target) <;> simp

/-- the scan: entries before position `k` are not the one sought, the one at `k` is -/
theorem lc_scan (ptrEq : Code.Backend → Code.Backend → Bool) (rr : Code.LeastConnectionsStrategy) (target : Code.Backend)
    (pre rest : List Code.Backend) (hall : rr.backends = pre ++ rest) (j : Int) (hj : j = pre.length) :
    Code.lcRemoveBackend_range1 ptrEq rest j (rr, target) =
      match rest.findIdx? (ptrEq · target) with
      | none => .inr (rr, target)
      | some k => .inl ({ rr with backends := removeAtC rr.backends (pre.length + k) }, target) := by
  induction rest generalizing pre j with
  | nil => simp [Code.lcRemoveBackend_range1]
  | cons b rest ih =>
    unfold Code.lcRemoveBackend_range1
    by_cases hb : ptrEq b target = true
    · simp only [hb, if_true, List.findIdx?_cons, Nat.add_zero]
      have hi : pre.length < rr.backends.length := by simp [hall]
      obtain ⟨l, hl⟩ : ∃ l, rr.backends.getLast? = some l := by
        cases h : rr.backends.getLast? with
        | none => simp [List.getLast?_eq_none_iff] at h; simp [h] at hi
        | some l => exact ⟨l, rfl⟩
      have hjn : Int.toNat j = pre.length := by omega
      simp only [hjn, set_last_take rr.backends pre.length hi l hl, removeAtC, hl, hi, if_true]
    · have hb' : ptrEq b target = false := by simpa using hb
      simp only [hb', Bool.false_eq_true, if_false, List.findIdx?_cons]
      have := ih (pre ++ [b]) (by simp [hall]) (j + 1) (by simp [hj])
      rw [this]
      cases h : rest.findIdx? (ptrEq · target) with
      | none => simp
      | some k => simp [Nat.add_assoc, Nat.add_comm 1 k]

/-- **`LeastConnectionsStrategy.RemoveBackend`, as written**: the first pool entry that is the given backend (by pointer) is
swapped with the last entry and the pool shortened by one — the model's `removeAt` at that position —; with no such
entry nothing changes. -/
theorem lcRemove_refines (ptrEq : Code.Backend → Code.Backend → Bool) (rr : Code.LeastConnectionsStrategy) (target : Code.Backend) :
    (Code.lcRemoveBackend ptrEq rr target).1 =
      match rr.backends.findIdx? (ptrEq · target) with
      | none => rr
      | some k => { rr with backends := removeAtC rr.backends k } := by
  unfold Code.lcRemoveBackend
  rw [lc_scan ptrEq rr target [] rr.backends rfl 0 rfl]
  cases rr.backends.findIdx? (ptrEq · target) <;> simp

/-- the scan: entries before position `k` are not the one sought, the one at `k` is -/
theorem ip_scan (ptrEq : Code.Backend → Code.Backend → Bool) (rr : Code.IPHashStrategy) (target : Code.Backend)
    (pre rest : List Code.Backend) (hall : rr.backends = pre ++ rest) (j : Int) (hj : j = pre.length) :
    Code.ipRemoveBackend_range1 ptrEq rest j (rr, target) =
      match rest.findIdx? (ptrEq · target) with
      | none => .inr (rr, target)
      | some k => .inl ({ rr with backends := removeAtC rr.backends (pre.length + k) }, target) := by
  induction rest generalizing pre j with
  | nil => simp [Code.ipRemoveBackend_range1]
  | cons b rest ih =>
    unfold Code.ipRemoveBackend_range1
    by_cases hb : ptrEq b target = true
    · simp only [hb, if_true, List.findIdx?_cons, Nat.add_zero]
      have hi : pre.length < rr.backends.length := by simp [hall]
      obtain ⟨l, hl⟩ : ∃ l, rr.backends.getLast? = some l := by
        cases h : rr.backends.getLast? with
        | none => simp [List.getLast?_eq_none_iff] at h; simp [h] at hi
        | some l => exact ⟨l, rfl⟩
      have hjn : Int.toNat j = pre.length := by omega
      simp only [hjn, set_last_take rr.backends pre.length hi l hl, removeAtC, hl, hi, if_true]
    · have hb' : ptrEq b target = false := by simpa using hb
      simp only [hb', Bool.false_eq_true, if_false, List.findIdx?_cons]
      have := ih (pre ++ [b]) (by simp [hall]) (j + 1) (by simp [hj])
      rw [this]
      cases h : rest.findIdx? (ptrEq · target) with
      | none => simp
      | some k => simp [Nat.add_assoc, Nat.add_comm 1 k]

/-- **`IPHashStrategy.RemoveBackend`, as written**: the first pool entry that is the given backend (by pointer) is
swapped with the last entry and the pool shortened by one — the model's `removeAt` at that position —; with no such
entry nothing changes. -/
theorem ipRemove_refines (ptrEq : Code.Backend → Code.Backend → Bool) (rr : Code.IPHashStrategy) (target : Code.Backend) :
    (Code.ipRemoveBackend ptrEq rr target).1 =
      match rr.backends.findIdx? (ptrEq · target) with
      | none => rr
      | some k => { rr with backends := removeAtC rr.backends k } := by
  unfold Code.ipRemoveBackend
  rw [ip_scan ptrEq rr target [] rr.backends rfl 0 rfl]
  cases rr.backends.findIdx? (ptrEq · target) <;> simp

/-- the scan: entries before position `k` are not the one sought, the one at `k` is -/
theorem ipc_scan (ptrEq : Code.Backend → Code.Backend → Bool) (rr : Code.IPHashConsistentStrategy) (target : Code.Backend)
    (pre rest : List Code.Backend) (hall : rr.backends = pre ++ rest) (j : Int) (hj : j = pre.length) :
    Code.ipcRemoveBackend_range1 ptrEq rest j (rr, target) =
      match rest.findIdx? (ptrEq · target) with
      | none => .inr (rr, target)
      | some k => .inl ({ rr with backends := removeAtC rr.backends (pre.length + k) }, target) := by
  induction rest generalizing pre j with
  | nil => simp [Code.ipcRemoveBackend_range1]
  | cons b rest ih =>
    unfold Code.ipcRemoveBackend_range1
    by_cases hb : ptrEq b target = true
    · simp only [hb, if_true, List.findIdx?_cons, Nat.add_zero]
      have hi : pre.length < rr.backends.length := by simp [hall]
      obtain ⟨l, hl⟩ : ∃ l, rr.backends.getLast? = some l := by
        cases h : rr.backends.getLast? with
        | none => simp [List.getLast?_eq_none_iff] at h; simp [h] at hi
        | some l => exact ⟨l, rfl⟩
      have hjn : Int.toNat j = pre.length := by omega
      simp only [hjn, set_last_take rr.backends pre.length hi l hl, removeAtC, hl, hi, if_true]
    · have hb' : ptrEq b target = false := by simpa using hb
      simp only [hb', Bool.false_eq_true, if_false, List.findIdx?_cons]
      have := ih (pre ++ [b]) (by simp [hall]) (j + 1) (by simp [hj])
      rw [this]
      cases h : rest.findIdx? (ptrEq · target) with
      | none => simp
      | some k => simp [Nat.add_assoc, Nat.add_comm 1 k]

/-- **`IPHashConsistentStrategy.RemoveBackend`, as written**: the first pool entry that is the given backend (by pointer) is
swapped with the last entry and the pool shortened by one — the model's `removeAt` at that position —; with no such
entry nothing changes. -/
theorem ipcRemove_refines (ptrEq : Code.Backend → Code.Backend → Bool) (rr : Code.IPHashConsistentStrategy) (target : Code.Backend) :
    (Code.ipcRemoveBackend ptrEq rr target).1 =
      match rr.backends.findIdx? (ptrEq · target) with
      | none => rr
      | some k => { rr with backends := removeAtC rr.backends k } := by
  unfold Code.ipcRemoveBackend
  rw [ipc_scan ptrEq rr target [] rr.backends rfl 0 rfl]
  cases rr.backends.findIdx? (ptrEq · target) <;> simp

/-- what the assumption on `ptrEq` gives: when it singles out position `k` among the pool's entries, that is the
position found -/
theorem findIdx_of_ptrEq (ptrEq : Code.Backend → Code.Backend → Bool) (pool : List Code.Backend) (target : Code.Backend) (k : Nat)
    (hk : k < pool.length) (h : ∀ j (hj : j < pool.length), ptrEq pool[j] target = decide (j = k)) :
    pool.findIdx? (ptrEq · target) = some k := by
  rw [List.findIdx?_eq_some_iff_getElem]
  refine ⟨hk, by simp [h k hk], ?_⟩
  intro j hj
  have := h j (by omega)
  simp [this]; omega

/-- no entry is the given backend: nothing is found -/
theorem findIdx_none_of_ptrEq (ptrEq : Code.Backend → Code.Backend → Bool) (pool : List Code.Backend) (target : Code.Backend)
    (h : ∀ b ∈ pool, ptrEq b target = false) : pool.findIdx? (ptrEq · target) = none := by
  rw [List.findIdx?_eq_none_iff]
  intro b hb; simp [h b hb]

/-- **removal on the code, in the model's terms**: the pool the strategy holds afterwards abstracts to the model's
`removeAt` of the abstract pool at the position of the removed backend -/
theorem rrRemove_abs (ptrEq : Code.Backend → Code.Backend → Bool) (rr : Code.RoundRobinStrategy) (target : Code.Backend) (k : Nat)
    (hk : k < rr.backends.length) (h : ∀ j (hj : j < rr.backends.length), ptrEq rr.backends[j] target = decide (j = k)) :
    absPool (Code.rrRemoveBackend ptrEq rr target).1.backends = LB.removeAt (absPool rr.backends) k ∧
    (Code.rrRemoveBackend ptrEq rr target).1.current = rr.current := by
  rw [rrRemove_refines, findIdx_of_ptrEq ptrEq rr.backends target k hk h]
  exact ⟨removeAtC_abs _ _, rfl⟩

/-! ### `AddBackend`: append -/

theorem rrAdd_refines (rr : Code.RoundRobinStrategy) (b : Code.Backend) :
    (Code.rrAddBackend rr b).1 = { rr with backends := rr.backends ++ [b] } := rfl
theorem lcAdd_refines (s : Code.LeastConnectionsStrategy) (b : Code.Backend) :
    (Code.lcAddBackend s b).1 = { s with backends := s.backends ++ [b] } := rfl
theorem ipAdd_refines (s : Code.IPHashStrategy) (b : Code.Backend) :
    (Code.ipAddBackend s b).1 = { s with backends := s.backends ++ [b] } := rfl
theorem ipcAdd_refines (s : Code.IPHashConsistentStrategy) (b : Code.Backend) :
    (Code.ipcAddBackend s b).1 = { s with backends := s.backends ++ [b] } := rfl

/-- in the model's terms: the new backend goes to the end (`Strat.add`), nothing else moves — jump-hash buckets are
positions, so this is what `append_minimal` (C06) is about -/
theorem rrAdd_abs (rr : Code.RoundRobinStrategy) (b : Code.Backend) :
    absPool (Code.rrAddBackend rr b).1.backends = absPool rr.backends ++ [absBackend b 0] ∧
    (Code.rrAddBackend rr b).1.current = rr.current := by
  simp [rrAdd_refines, absPool]
theorem ipcAdd_abs (s : Code.IPHashConsistentStrategy) (b : Code.Backend) :
    absPool (Code.ipcAddBackend s b).1.backends = absPool s.backends ++ [absBackend b 0] := by
  simp [ipcAdd_refines, absPool]

def samplePool3 : List Code.Backend :=
  [{ (default : Code.Backend) with Weight := 1 }, { (default : Code.Backend) with Weight := 2 },
   { (default : Code.Backend) with Weight := 3 }, { (default : Code.Backend) with Weight := 4 }]

/-- remove the second of four: the last takes its place -/
example : ((Code.rrRemoveBackend (fun a b => a.Weight == b.Weight) ⟨samplePool3, 7⟩ { (default : Code.Backend) with Weight := 2 }).1.backends.map (·.Weight))
    = [1, 4, 3] := by decide
example : ((Code.ipcRemoveBackend (fun a b => a.Weight == b.Weight) ⟨samplePool3⟩ { (default : Code.Backend) with Weight := 4 }).1.backends.map (·.Weight))
    = [1, 2, 3] := by decide
example : ((Code.lcRemoveBackend (fun a b => a.Weight == b.Weight) ⟨samplePool3⟩ { (default : Code.Backend) with Weight := 9 }).1.backends.map (·.Weight))
    = [1, 2, 3, 4] := by decide

/-- every function of this group was translated; nothing in them fell outside the fragment -/
theorem translation_clean_rm :
    ["rrRemoveBackend", "lcRemoveBackend", "ipRemoveBackend", "ipcRemoveBackend",
     "rrAddBackend", "lcAddBackend", "ipAddBackend", "ipcAddBackend"].all (fun f => Code.translated.contains f) = true ∧
    (Code.translationProblems.filter (fun p => ["RemoveBackend", "AddBackend"].contains p.1)) = [] := by
  decide

end Helios.CodeTie
