import Helios.Lemmas.Jump
import Helios.Lemmas.Addr
import Helios.Lemmas.Strategy
/-
C06 — Client affinity (ip_hash) and minimal remapping (ip_hash_consistent).
Property theorems only.
-/
namespace Helios.LB
open Helios Helios.Hash Helios.Addr

/-- **Jump hash range**: for every 64-bit key and every pool size `n ≥ 1` the bucket is in `[0,n)`. -/
theorem jump_range' (key : UInt64) (n : Nat) (hn : 1 ≤ n) :
    0 ≤ jumpHash key n ∧ jumpHash key n < n := jump_range key n hn

/-- **Jump hash monotonicity** (minimal remapping), all 2^64 keys, all sizes: growing the
pool by one bucket either keeps a key where it is or moves it to the new bucket. -/
theorem jump_monotone' (key : UInt64) (n : Nat) :
    jumpHash key (n+1) = jumpHash key n ∨ jumpHash key (n+1) = n := jump_monotone key n

/-- **No int64 overflow in the Go loop**: while `j < n ≤ 2^31` the next `j` computed is at
most `2^62`, and the divisor `(key>>33)+1` is in `[1, 2^31]` — so the unbounded `Int`
arithmetic of the model coincides with Go's `int64`. -/
theorem jump_no_overflow (key : UInt64) (j n : Int) (h0 : 0 ≤ j) (hj : j < n) (hn : n ≤ 2147483648) :
    0 ≤ (j + 1) * quo key ∧ (j + 1) * quo key ≤ 4611686018427387904 ∧
    1 ≤ (key >>> 33).toNat + 1 ∧ (key >>> 33).toNat + 1 ≤ 2147483648 := by
  have hq := quo_pos key
  have hs := shift_lt key
  have hq2 : quo key ≤ 2147483648 := by
    unfold quo
    apply Int.ediv_le_self
    decide
  refine ⟨Int.mul_nonneg (by omega) (by omega), ?_, by omega, by omega⟩
  calc (j + 1) * quo key ≤ 2147483648 * quo key := Int.mul_le_mul_of_nonneg_right (by omega) (by omega)
    _ ≤ 2147483648 * 2147483648 := Int.mul_le_mul_of_nonneg_left hq2 (by decide)
    _ = 4611686018427387904 := by decide

/-- **Affinity**: the choice of both hash strategies is a function of the attributed
client address and the eligible list only — nothing else of the request (path, port,
other headers), of the pool (gauges, weights, rotation state) or of time enters. -/
theorem affinity (p1 p2 : List Backend) (t1 t2 : Nat) (r1 r2 : Req)
    (hk : strategyKey r1 = strategyKey r2) (he : eligibleIdx p1 t1 = eligibleIdx p2 t2) :
    ipHashPick p1 t1 (strategyKey r1) = ipHashPick p2 t2 (strategyKey r2) ∧
    ipHashCPick p1 t1 (strategyKey r1) = ipHashCPick p2 t2 (strategyKey r2) := by
  simp [ipHashPick, ipHashCPick, hk, he]

/-- affinity is not disturbed by other clients' requests: neither hash strategy changes
its own state -/
theorem hash_stateless (s : Strat) (now : Nat) (key : Bytes)
    (hk : s.kind = .iphash ∨ s.kind = .iphashc) : (s.next now key).1 = s := by
  rcases hk with h | h <;> simp [Strat.next, h]

/-- source port independence: with no forwarding headers the key of `host:port` is the host -/
theorem key_ignores_port (h p1 p2 : Bytes)
    (h1 : Bytes.colon ∉ h) (h2 : Bytes.lbrack ∉ h) (h3 : Bytes.rbrack ∉ h)
    (a1 : Bytes.colon ∉ p1) (a2 : Bytes.lbrack ∉ p1) (a3 : Bytes.rbrack ∉ p1)
    (b1 : Bytes.colon ∉ p2) (b2 : Bytes.lbrack ∉ p2) (b3 : Bytes.rbrack ∉ p2) :
    strategyKey { xff := [], xri := [], remote := h ++ Bytes.colon :: p1 } =
    strategyKey { xff := [], xri := [], remote := h ++ Bytes.colon :: p2 } := by
  simp only [strategyKey, ne_eq, not_true_eq_false, if_false,
    splitHost_plain h p1 h1 h2 h3 a1 a2 a3, splitHost_plain h p2 h1 h2 h3 b1 b2 b3]

/-- **Validity of the choice**: for every address string, pool and instant, a chosen index
is inside the pool and designates an eligible backend; and a backend is chosen whenever
one is eligible. -/
theorem choice_valid (pool : List Backend) (now : Nat) (key : Bytes) :
    (∀ i, ipHashPick pool now key = some i → ∃ b, pool[i]? = some b ∧ b.eligible now = true) ∧
    (∀ i, ipHashCPick pool now key = some i → ∃ b, pool[i]? = some b ∧ b.eligible now = true) ∧
    (eligibleIdx pool now ≠ [] → (ipHashPick pool now key).isSome ∧ (ipHashCPick pool now key).isSome) := by
  refine ⟨?_, ?_, ?_⟩
  · intro i h
    simp only [ipHashPick] at h
    split at h
    · simp at h
    · exact eligibleIdx_mem pool now i (List.mem_of_getElem? h)
  · intro i h
    simp only [ipHashCPick] at h
    split at h
    · simp at h
    · exact eligibleIdx_mem pool now i (List.mem_of_getElem? h)
  · intro hne
    have hlen : 0 < (eligibleIdx pool now).length := List.length_pos_iff.mpr hne
    have hl0 : ¬ (eligibleIdx pool now).length = 0 := by omega
    constructor
    · simp only [ipHashPick, hl0, if_false]
      rw [List.getElem?_eq_getElem (Nat.mod_lt _ hlen)]; rfl
    · simp only [ipHashCPick, hl0, if_false]
      have hr := jump_range (fnv1a key).toUInt64 (eligibleIdx pool now).length hlen
      have : (jumpHash (fnv1a key).toUInt64 (eligibleIdx pool now).length).toNat < (eligibleIdx pool now).length := by
        omega
      rw [List.getElem?_eq_getElem this]; rfl

/-- **Minimal remapping**: appending a backend to an ip_hash_consistent pool moves a client
only onto the appended backend; every other client keeps its backend (for every key,
every pool, every health state). -/
theorem append_minimal (pool : List Backend) (b : Backend) (now : Nat) (key : Bytes)
    (hne : eligibleIdx pool now ≠ []) :
    ipHashCPick (pool ++ [b]) now key = ipHashCPick pool now key ∨
    ipHashCPick (pool ++ [b]) now key = some pool.length := by
  have hlen : 0 < (eligibleIdx pool now).length := List.length_pos_iff.mpr hne
  have hl0 : ¬ (eligibleIdx pool now).length = 0 := by omega
  simp only [ipHashCPick, eligibleIdx_append, hl0, if_false]
  by_cases hb : b.eligible now = true
  · simp only [hb, if_true, List.length_append, List.length_singleton]
    have hl1 : ¬ (eligibleIdx pool now).length + 1 = 0 := by omega
    simp only [hl1, if_false]
    have hr := jump_range (fnv1a key).toUInt64 (eligibleIdx pool now).length hlen
    rcases jump_monotone (fnv1a key).toUInt64 (eligibleIdx pool now).length with h | h
    · left
      rw [h]
      have : (jumpHash (fnv1a key).toUInt64 (eligibleIdx pool now).length).toNat < (eligibleIdx pool now).length := by
        omega
      rw [List.getElem?_append_left this]
    · right
      rw [h]
      simp
  · left
    have hb' : b.eligible now = false := by simpa using hb
    simp only [hb', Bool.false_eq_true, if_false, List.append_nil, hl0]

/-! ### non-vacuity and calibration against the Go function -/

example : jumpHash 12345 10 = 1 := by decide
-- "10.1.2.3:4567" ↦ "10.1.2.3";  "[::1]:80" ↦ "::1";  "::1" is rejected (raw RemoteAddr is used)
example : splitHost [49,48,46,49,46,50,46,51,58,52,53,54,55] = some [49,48,46,49,46,50,46,51] := by decide
example : splitHost [91,58,58,49,93,58,56,48] = some [58,58,49] := by decide
example : splitHost [58,58,49] = none := by decide
-- FNV-1a("a") = 0xe40c292c (Go: fnv.New32a)
example : fnv1a [97] = 0xe40c292c := by decide

end Helios.LB
