import Helios.Generated.Code
/-
Tie C for `sameBackends` (C05): the comparison the weighted strategy uses to decide whether its candidate set is the one
of the previous pick, translated from the source on every run. Pointer identity is the parameter `ptrEq`.
-/
namespace Helios.CodeTie
open Helios Helios.Generated

theorem same_loop (ptrEq : Code.WeightedBackend → Code.WeightedBackend → Bool) (a b : List Code.WeightedBackend)
    (hlen : a.length = b.length) : ∀ (rest : List Code.WeightedBackend) (i : Nat), i + rest.length = a.length →
    Code.sameBackends_range1 ptrEq a b rest (Int.ofNat i) =
      if (List.zipWith ptrEq (a.drop i) (b.drop i)).all id then none else some false := by
  intro rest
  induction rest with
  | nil =>
    intro i hi
    have : i = a.length := by simpa using hi
    subst this
    simp [Code.sameBackends_range1, hlen]
  | cons x rest ih =>
    intro i hi
    have hia : i < a.length := by simp at hi; omega
    have hib : i < b.length := by omega
    unfold Code.sameBackends_range1
    have ga : Code.listGet a (Int.toNat (Int.ofNat i)) = a[i] := by simp [Code.listGet, hia]
    have gb : Code.listGet b (Int.toNat (Int.ofNat i)) = b[i] := by simp [Code.listGet, hib]
    have da : a.drop i = a[i] :: a.drop (i + 1) := List.drop_eq_getElem_cons hia
    have db : b.drop i = b[i] :: b.drop (i + 1) := List.drop_eq_getElem_cons hib
    have hnext := ih (i + 1) (by simp at hi ⊢; omega)
    have hs : Int.ofNat (i + 1) = Int.ofNat i + 1 := rfl
    rw [hs] at hnext
    simp only [ga, gb, da, db, List.zipWith_cons_cons, List.all_cons, id, hnext]
    cases ptrEq a[i] b[i] <;> simp

/-- **`sameBackends`, as written**: true exactly when the two lists have the same length and hold the same objects,
position by position -/
theorem sameBackends_refines (ptrEq : Code.WeightedBackend → Code.WeightedBackend → Bool) (a b : List Code.WeightedBackend) :
    Code.sameBackends ptrEq a b = (decide (a.length = b.length) && (List.zipWith ptrEq a b).all id) := by
  unfold Code.sameBackends
  by_cases h : a.length = b.length
  · have e : ((Int.ofNat a.length) != (Int.ofNat b.length)) = false := by simp [h]
    simp only [e, Bool.false_eq_true, if_false]
    have := same_loop ptrEq a b h a 0 (by simp)
    rw [show (0 : Int) = Int.ofNat 0 from rfl, this]
    simp only [List.drop_zero, h, decide_true, Bool.true_and]
    cases (List.zipWith ptrEq a b).all id <;> simp
  · have e : ((Int.ofNat a.length) != (Int.ofNat b.length)) = true := by simp; omega
    simp only [e, if_true, h, decide_false, Bool.false_and]

/-- a proper prefix is not the same set (what round 8's C11-m16 lost) -/
example : Code.sameBackends (fun x y => x.currentWeight == y.currentWeight) [⟨true, 1⟩] [⟨true, 1⟩, ⟨true, 2⟩] = false := by decide
example : Code.sameBackends (fun x y => x.currentWeight == y.currentWeight) [⟨true, 1⟩, ⟨true, 2⟩] [⟨true, 1⟩, ⟨true, 2⟩] = true := by decide

theorem translation_clean_same :
    ["sameBackends"].all (fun f => Code.translated.contains f) = true ∧
    (Code.translationProblems.filter (fun p => ["sameBackends"].contains p.1)) = [] := by
  decide

end Helios.CodeTie
