import Helios.Generated.Code
/-
Tie C for the header-name check that repair 23ca3a9 added (C18 / C16): `logging.validHeaderFieldName`, translated from
the source on every run with Go strings as byte strings. A name is accepted exactly when it is a non-empty RFC 7230
token — the theorem is about every byte string, so a rewrite that admits one more byte (or loses one) breaks it.
-/
namespace Helios.CodeTie
open Helios Helios.Generated

/-- the punctuation RFC 7230 allows in a token: ! # $ % & ' * + - . ^ _ ` | ~ -/
def tcharPunct : Bytes := [0x21, 0x23, 0x24, 0x25, 0x26, 0x27, 0x2A, 0x2B, 0x2D, 0x2E, 0x5E, 0x5F, 0x60, 0x7C, 0x7E]

/-- RFC 7230 `tchar`: a letter, a digit, or one of the fifteen punctuation characters -/
def isTchar (c : UInt8) : Bool :=
  ((97 ≤ c && c ≤ 122) || (65 ≤ c && c ≤ 90) || (48 ≤ c && c ≤ 57)) || Bytes.contains c tcharPunct

/-- an HTTP header field name: a non-empty token -/
def isToken (name : Bytes) : Bool := !name.isEmpty && name.all isTchar

theorem strIndexByte_nonneg (l : Bytes) (c : UInt8) : decide (Code.strIndexByte l c ≥ 0) = Bytes.contains c l := by
  unfold Code.strIndexByte Bytes.contains
  cases Bytes.indexOf c l with
  | none => simp
  | some i => simp

/-- the loop: from position `i` on, every byte is a `tchar` (then the loop runs to the end) or some byte is not (then
the function answers false) -/
theorem hdr_loop (name : Bytes) : ∀ (n fuel i : Nat), i + n = name.length → n < fuel →
    Code.validHeaderFieldName_loop1 name fuel (Int.ofNat i) =
      if (name.drop i).all isTchar then some (.inr (Int.ofNat name.length)) else some (.inl false) := by
  intro n
  induction n with
  | zero =>
    intro fuel i hi hf
    cases fuel with
    | zero => omega
    | succ fuel =>
      have : i = name.length := by omega
      subst this
      unfold Code.validHeaderFieldName_loop1
      simp
  | succ n ih =>
    intro fuel i hi hf
    cases fuel with
    | zero => omega
    | succ fuel =>
      have hlt : i < name.length := by omega
      unfold Code.validHeaderFieldName_loop1
      have hc : decide ((Int.ofNat i) < (Int.ofNat name.length)) = true := by
        simp only [decide_eq_true_eq, Int.ofNat_eq_natCast]; omega
      have hget : Code.listGet name (Int.toNat (Int.ofNat i)) = name[i] := by simp [Code.listGet, hlt]
      have hdrop : name.drop i = name[i] :: name.drop (i + 1) := (List.drop_eq_getElem_cons hlt)
      have hnext := ih fuel (i + 1) (by omega) (by omega)
      have hsucc : Int.ofNat (i + 1) = Int.ofNat i + 1 := rfl
      rw [hsucc] at hnext
      have hp := strIndexByte_nonneg tcharPunct name[i]
      unfold tcharPunct at hp
      simp only [hc, if_true, hget, hp, hnext, hdrop, List.all_cons]
      unfold isTchar tcharPunct
      cases h1 : ((decide ((97 : UInt8) ≤ name[i])) && (decide (name[i] ≤ (122 : UInt8)))) || ((decide ((65 : UInt8) ≤ name[i])) && (decide (name[i] ≤ (90 : UInt8)))) || ((decide ((48 : UInt8) ≤ name[i])) && (decide (name[i] ≤ (57 : UInt8)))) with
      | true => simp
      | false =>
        cases h2 : Bytes.contains name[i] ([0x21, 0x23, 0x24, 0x25, 0x26, 0x27, 0x2A, 0x2B, 0x2D, 0x2E, 0x5E, 0x5F, 0x60, 0x7C, 0x7E] : Bytes) <;> simp

/-- **`validHeaderFieldName`, as written, accepts exactly the non-empty RFC 7230 tokens** — for every byte string,
with any fuel above its length (the loop terminates) -/
theorem validHeaderFieldName_refines (name : Bytes) (fuel : Nat) (hf : name.length < fuel) :
    Code.validHeaderFieldName fuel name = some (isToken name) := by
  unfold Code.validHeaderFieldName isToken
  cases name with
  | nil => rfl
  | cons a as =>
    have e : ((a :: as : Bytes) == []) = false := rfl
    simp only [e, Bool.false_eq_true, if_false]
    have := hdr_loop (a :: as) (a :: as).length fuel 0 (by simp) hf
    rw [show (0 : Int) = Int.ofNat 0 from rfl, this]
    simp only [List.drop_zero]
    cases ((a :: as).all isTchar) <;> simp

/-- "X-Request-ID" is accepted, "X Request ID", "X:Y", "x,y" and the empty name are not -/
example : Code.validHeaderFieldName 20 [88, 45, 82, 101, 113, 117, 101, 115, 116, 45, 73, 68] = some true := by decide
example : Code.validHeaderFieldName 20 [88, 32, 82, 101, 113] = some false := by decide
example : Code.validHeaderFieldName 20 [88, 58, 89] = some false := by decide
example : Code.validHeaderFieldName 20 [120, 44, 121] = some false := by decide
example : Code.validHeaderFieldName 20 [] = some false := by decide

/-- the function was translated; nothing in it fell outside the fragment -/
theorem translation_clean_hdr :
    ["validHeaderFieldName"].all (fun f => Code.translated.contains f) = true ∧
    (Code.translationProblems.filter (fun p => ["validHeaderFieldName"].contains p.1)) = [] := by
  decide

end Helios.CodeTie
