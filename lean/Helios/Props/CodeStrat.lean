import Helios.Props.CodeLB
/-
Tie C for the selection functions of the strategies (C02/C05): `NextBackend` of the
least-connections strategy, translated from the source on every run, picks the backend the
model's `lcPick` picks — for every pool, every gauge assignment and every health state.
-/
namespace Helios.CodeTie
open Helios Helios.Generated

/-- the model's view of the strategy's slice (running weights play no part here) -/
def absPool (bs : List Code.Backend) : List LB.Backend := bs.map (absBackend · 0)

theorem lc_scan_sim (lc : Code.LeastConnectionsStrategy) (now : Int) (hn : 0 ≤ now) (all : List Code.Backend)
    (bs pre : List Code.Backend) (hall : all = pre ++ bs) (hu : ∀ b ∈ bs, 0 ≤ b.UnhealthyUntil)
    (j : Int) (mn : Int) (sel : Option Nat) :
    ∃ mn', Code.lcNextBackend_range1 lc now bs j (sel.bind (all[·]?), mn) =
      .inr ((LB.lcScan now.toNat (absPool bs) pre.length mn sel).bind (all[·]?), mn') := by
  induction bs generalizing pre j mn sel with
  | nil => exact ⟨mn, rfl⟩
  | cons b bs ih =>
    have hb := eligible_refines b now 0 (hu b (List.mem_cons_self ..)) hn
    have hu' : ∀ x ∈ bs, 0 ≤ x.UnhealthyUntil := fun x hx => hu x (List.mem_cons_of_mem _ hx)
    have hall' : all = (pre ++ [b]) ++ bs := by simp [hall]
    have hlen : (pre ++ [b]).length = pre.length + 1 := by simp
    have hget : all[pre.length]? = some b := by simp [hall]
    have hconn : (absBackend b 0).conns = b.ActiveConnections := rfl
    unfold Code.lcNextBackend_range1
    simp only [absPool, List.map, LB.lcScan]
    rw [hb.1, hconn]
    simp only [Code.GetActiveConnections]
    cases he : (absBackend b 0).eligible now.toNat with
    | true =>
      by_cases hc : b.ActiveConnections < mn
      · have := ih (pre ++ [b]) hall' hu' (j + 1) b.ActiveConnections (some pre.length)
        rw [hlen] at this
        rw [show ((some pre.length).bind (all[·]?)) = some b from by simp [hget]] at this
        simpa [hc, absPool] using this
      · have := ih (pre ++ [b]) hall' hu' (j + 1) mn sel
        rw [hlen] at this
        simpa [hc, absPool] using this
    | false =>
      have := ih (pre ++ [b]) hall' hu' (j + 1) mn sel
      rw [hlen] at this
      simpa [absPool] using this

/-- **least connections, as written**: the strategy object is left as it was and the backend
returned is the one in the slot the model's `lcPick` names (none when the model picks none) -/
theorem lcNext_refines (lc : Code.LeastConnectionsStrategy) (now : Int) (hn : 0 ≤ now)
    (hu : ∀ b ∈ lc.backends, 0 ≤ b.UnhealthyUntil) :
    (Code.lcNextBackend lc now).1 = lc ∧
    (Code.lcNextBackend lc now).2 = (LB.lcPick (absPool lc.backends) now.toNat).bind (lc.backends[·]?) := by
  unfold Code.lcNextBackend LB.lcPick
  cases hb : lc.backends with
  | nil => simp [absPool, LB.lcScan]
  | cons b bs =>
    have h0 : ¬ ((Int.ofNat (b :: bs).length) == (0 : Int)) = true := by simp; omega
    obtain ⟨mn', h⟩ := lc_scan_sim lc now hn (b :: bs) (b :: bs) [] rfl (by simpa [hb] using hu) 0 2147483647 none
    simp only [Option.bind, List.length_nil] at h
    simp only [h0, if_false, Bool.false_eq_true]
    rw [h]
    exact ⟨rfl, rfl⟩

/-! ### round robin -/

theorem listGet_lt {α : Type} [Inhabited α] (xs : List α) (i : Nat) (h : i < xs.length) : Code.listGet xs i = xs[i] := by
  simp [Code.listGet, h]

/-- every residue is visited by `n` consecutive counter values -/
theorem residues_covered (n cur j : Nat) (hj : j < n) : ∃ t, 1 ≤ t ∧ t ≤ n ∧ (cur + t) % n = j := by
  have hn : 0 < n := by omega
  have hq := Nat.div_add_mod cur n
  have hr : cur % n < n := Nat.mod_lt _ hn
  by_cases c : cur % n < j
  · refine ⟨j - cur % n, by omega, by omega, ?_⟩
    have : cur + (j - cur % n) = n * (cur / n) + j := by omega
    rw [this, Nat.mul_add_mod, Nat.mod_eq_of_lt hj]
  · refine ⟨n + j - cur % n, by omega, by omega, ?_⟩
    have : cur + (n + j - cur % n) = n * (cur / n + 1) + j := by rw [Nat.mul_add]; omega
    rw [this, Nat.mul_add_mod, Nat.mod_eq_of_lt hj]

section rr
variable (bs : List Code.Backend) (now : Int) (hn : 0 ≤ now) (hu : ∀ b ∈ bs, 0 ≤ b.UnhealthyUntil)

/-- slot `j` may be offered traffic -/
def el (j : Nat) : Bool := (Code.eligible (Code.listGet bs j) now).2

include hn hu in
theorem el_model (j : Nat) (hj : j < bs.length) :
    (absPool bs)[j]? = some (absBackend bs[j] 0) ∧ el bs now j = (absBackend bs[j] 0).eligible now.toNat := by
  refine ⟨by simp [absPool, hj], ?_⟩
  unfold el
  rw [listGet_lt bs j hj]
  exact (eligible_refines bs[j] now 0 (hu _ (List.getElem_mem hj)) hn).1

include hn hu in
/-- the first loop is the model's `rrLoop`; when it gives up it has probed `m` consecutive slots in vain -/
theorem loop1_sim (m : Nat) : ∀ (fuel c idx i : Nat) (rr : Code.RoundRobinStrategy), rr.backends = bs → rr.current = c →
    i + m = bs.length → m < fuel → c + m < LB.two64 →
    (Code.rrNextBackend_loop1 now bs.length fuel (rr, idx, i) =
      (match LB.rrLoop (absPool bs) now.toNat m c with
       | (c', some j) => some (.inl ((⟨bs, c'⟩ : Code.RoundRobinStrategy), bs[j]?))
       | (c', none) => some (.inr ((⟨bs, c'⟩ : Code.RoundRobinStrategy), (if m = 0 then idx else c' % bs.length), bs.length)))) ∧
    ((LB.rrLoop (absPool bs) now.toNat m c).2 = none →
      (LB.rrLoop (absPool bs) now.toNat m c).1 = c + m ∧ ∀ t, 1 ≤ t → t ≤ m → el bs now ((c + t) % bs.length) = false) := by
  induction m with
  | zero =>
    intro fuel c idx i rr hb hc hi hf _
    obtain ⟨fuel, rfl⟩ : ∃ f, fuel = f + 1 := ⟨fuel - 1, by omega⟩
    have : ¬ i < bs.length := by omega
    have hi' : i = bs.length := by omega
    subst hc
    refine ⟨?_, fun _ => ⟨rfl, fun t h1 h2 => by omega⟩⟩
    cases rr with
    | mk b c => simp only at hb; subst hb; simp [Code.rrNextBackend_loop1, LB.rrLoop, hi']
  | succ m ih =>
    intro fuel c idx i rr hb hc hi hf hw
    obtain ⟨fuel, rfl⟩ : ∃ f, fuel = f + 1 := ⟨fuel - 1, by omega⟩
    have hlt : i < bs.length := by omega
    have hn0 : 0 < bs.length := by omega
    have hmod : (c + 1) % LB.two64 = c + 1 := Nat.mod_eq_of_lt (by omega)
    have hidx : (c + 1) % bs.length < bs.length := Nat.mod_lt _ hn0
    obtain ⟨hp, he⟩ := el_model bs now hn hu _ hidx
    have hlen : (absPool bs).length = bs.length := by simp [absPool]
    unfold Code.rrNextBackend_loop1 LB.rrLoop
    simp only [hlt, decide_true, if_true, hmod, hlen, hp, hc, hb]
    have hel : (Code.eligible (Code.listGet bs ((c + 1) % bs.length)) now).2 = el bs now ((c + 1) % bs.length) := rfl
    rw [hel, he]
    cases hcase : (absBackend bs[(c + 1) % bs.length] 0).eligible now.toNat with
    | true =>
      refine ⟨?_, fun h => by simp at h⟩
      simp [List.getElem?_eq_getElem hidx, listGet_lt bs _ hidx]
    | false =>
      have ih' := ih fuel (c + 1) ((c + 1) % bs.length) (i + 1) ⟨bs, c + 1⟩ rfl rfl (by omega) (by omega) (by omega)
      obtain ⟨h1, h2⟩ := ih'
      refine ⟨?_, ?_⟩
      · simp only [Bool.false_eq_true, if_false]
        rw [h1]
        cases hres : LB.rrLoop (absPool bs) now.toNat m (c + 1) with
        | mk c' o =>
          cases o with
          | some j => rfl
          | none =>
            simp only [Nat.succ_ne_zero, if_false]
            have := (h2 (by rw [hres])).1
            rw [hres] at this
            simp only at this
            by_cases hm : m = 0
            · subst hm; simp [this]
            · simp [hm]
      · intro hnone
        simp only [Bool.false_eq_true, if_false] at hnone ⊢
        obtain ⟨h3, h4⟩ := h2 hnone
        refine ⟨by omega, fun t ht1 ht2 => ?_⟩
        by_cases ht : t = 1
        · subst ht; rw [he]; exact hcase
        · have := h4 (t - 1) (by omega) (by omega)
          have e : c + 1 + (t - 1) = c + t := by omega
          rwa [e] at this

/-- when no slot is eligible the second loop (for concurrent pickers) finds nothing either -/
theorem loop2_dead (hdead : ∀ j, j < bs.length → el bs now j = false) (m : Nat) :
    ∀ (fuel idx i : Nat) (rr : Code.RoundRobinStrategy), rr.backends = bs → 0 < bs.length → i + m = bs.length + 1 → m < fuel →
    Code.rrNextBackend_loop2 now bs.length idx fuel (rr, i) = some (.inr (rr, bs.length + 1)) := by
  induction m with
  | zero =>
    intro fuel idx i rr hb h0 hi hf
    obtain ⟨fuel, rfl⟩ : ∃ f, fuel = f + 1 := ⟨fuel - 1, by omega⟩
    have : ¬ i ≤ bs.length := by omega
    have hi' : i = bs.length + 1 := by omega
    subst hi'
    unfold Code.rrNextBackend_loop2
    simp only [this, decide_false, Bool.false_eq_true, if_false]
  | succ m ih =>
    intro fuel idx i rr hb h0 hi hf
    obtain ⟨fuel, rfl⟩ : ∃ f, fuel = f + 1 := ⟨fuel - 1, by omega⟩
    have hle : i ≤ bs.length := by omega
    have hd := hdead ((idx + i) % bs.length) (Nat.mod_lt _ h0)
    unfold el at hd
    unfold Code.rrNextBackend_loop2
    simp only [hle, decide_true, if_true, hb, hd, Bool.false_eq_true, if_false]
    exact ih fuel idx (i + 1) rr hb h0 (by omega) (by omega)

include hn hu in
/-- **round robin, as written**: with fuel for both loops and a counter that does not wrap within
this call, `NextBackend` advances the counter as the model's `rrPick` does and returns the backend in
the slot it names; the second loop never changes the outcome of a pick that runs alone. -/
theorem rrNext_refines (rr : Code.RoundRobinStrategy) (fuel : Nat) (hb : rr.backends = bs)
    (hf : bs.length + 1 < fuel) (hw : rr.current + bs.length < LB.two64) :
    Code.rrNextBackend fuel rr now =
      some ((⟨bs, (LB.rrPick (absPool bs) now.toNat rr.current).1⟩ : Code.RoundRobinStrategy),
            ((LB.rrPick (absPool bs) now.toNat rr.current).2).bind (bs[·]?)) := by
  unfold Code.rrNextBackend LB.rrPick
  have hlen : (absPool bs).length = bs.length := by simp [absPool]
  rw [hb, hlen]
  by_cases h0 : bs.length = 0
  · cases rr with
    | mk b c => simp only at hb; subst hb; simp [h0]
  · have hpos : 0 < bs.length := by omega
    have hnil : bs ≠ [] := by intro h; simp [h] at h0
    have hne : ((Int.ofNat bs.length) == (0 : Int)) = false := by simp [hnil]
    simp only [hne, Bool.false_eq_true, if_false]
    simp only [h0, if_false, Int.toNat_natCast, Int.ofNat_eq_natCast]
    obtain ⟨h1, h2⟩ := loop1_sim bs now hn hu bs.length fuel rr.current 0 0 rr hb rfl (by omega) (by omega) hw
    rw [h1]
    cases hres : LB.rrLoop (absPool bs) now.toNat bs.length rr.current with
    | mk c' o =>
      cases o with
      | some j => simp
      | none =>
        obtain ⟨h3, h4⟩ := h2 (by rw [hres])
        have hdead : ∀ j, j < bs.length → el bs now j = false := by
          intro j hj
          obtain ⟨t, t1, t2, t3⟩ := residues_covered bs.length rr.current j hj
          have := h4 t t1 t2
          rwa [t3] at this
        simp only [h0, if_false]
        rw [loop2_dead bs now hdead bs.length fuel (c' % bs.length) 1 ⟨bs, c'⟩ rfl hpos (by omega) (by omega)]
        simp
end rr

theorem translation_clean_strat :
    (["lcNextBackend", "rrNextBackend", "GetActiveConnections", "eligible"].all Code.translated.contains) = true ∧
    (Code.translationProblems.filter (fun p => p.1 == "NextBackend" || p.1 == "GetActiveConnections")).isEmpty = true := by
  decide +kernel

end Helios.CodeTie
