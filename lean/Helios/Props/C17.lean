import Helios.Model.Registry
/-
C17 — Plugin chain: configured order, rejection stops the chain, startup fails closed.
-/
namespace Helios.Http

/-- plugins that never answer a request themselves -/
def Plugin.passes : Plugin → Prop
  | .logging | .headers _ _ | .probe _ => True
  | _ => False

def enters : List Plugin → List Ev
  | [] => []
  | .probe id :: ps => .enter id :: enters ps
  | _ :: ps => enters ps

def exits : List Plugin → List Ev
  | [] => []
  | .probe id :: ps => exits ps ++ [.exit id]
  | _ :: ps => exits ps

/-- **Configured order, first listed outermost.** For every chain of any length whose
plugins let the request through, the request enters the plugins in the configured order,
reaches the backend once, and leaves them in reverse order. -/
theorem chain_order (gzLen : Body → Nat) (ps : List Plugin) (hp : ∀ p ∈ ps, p.passes) :
    ∀ (req : Request) (h : Hdr) (inner : Request → List Op),
      (serve gzLen ps req h inner).2 = enters ps ++ [.inner] ++ exits ps := by
  induction ps with
  | nil => intro req h inner; simp [serve, enters, exits]
  | cons p ps ih =>
    intro req h inner
    have hp' : ∀ q ∈ ps, q.passes := fun q hq => hp q (List.mem_cons_of_mem _ hq)
    have hpp := hp p (List.mem_cons_self ..)
    cases p with
    | logging => simp [serve, enters, exits, ih hp']
    | headers a b => simp [serve, enters, exits, ih hp']
    | probe id => simp [serve, enters, exits, ih hp']
    | sizeLimit a b => exact absurd hpp (by simp [Plugin.passes])
    | gzip a b => exact absurd hpp (by simp [Plugin.passes])
    | auth k => exact absurd hpp (by simp [Plugin.passes])

/-- the order also holds through the transforming plugins when they do not reject -/
theorem chain_order_general (gzLen : Body → Nat) (ps : List Plugin) :
    ∀ (req : Request) (h : Hdr) (inner : Request → List Op),
      Ev.inner ∈ (serve gzLen ps req h inner).2 →
      (serve gzLen ps req h inner).2 = enters ps ++ [.inner] ++ exits ps := by
  induction ps with
  | nil => intro req h inner _; simp [serve, enters, exits]
  | cons p ps ih =>
    intro req h inner hin
    cases p with
    | logging => simp only [serve] at hin ⊢; simp [enters, exits, ih _ _ _ hin]
    | headers a b => simp only [serve] at hin ⊢; simp [enters, exits, ih _ _ _ hin]
    | probe id =>
      simp only [serve] at hin ⊢
      have : Ev.inner ∈ (serve gzLen ps req h inner).2 := by simpa using hin
      simp [enters, exits, ih _ _ _ this]
    | sizeLimit a b =>
      simp only [serve] at hin ⊢
      by_cases ht : tooLarge req a = true
      · simp [ht] at hin
      · simp only [ht, Bool.false_eq_true, if_false] at hin ⊢
        simp [enters, exits, ih _ _ _ hin]
    | gzip a b =>
      simp only [serve] at hin ⊢
      by_cases hg : (!acceptsGzip (req.hdr.get "Accept-Encoding")) = true
      · simp only [hg, if_true] at hin ⊢; simp [enters, exits, ih _ _ _ hin]
      · simp only [hg, Bool.false_eq_true, if_false] at hin ⊢; simp [enters, exits, ih _ _ _ hin]
    | auth k =>
      simp only [serve] at hin ⊢
      by_cases hk : req.hdr.get "X-Api-Key" ≠ k
      · simp [hk] at hin
      · simp only [hk, if_false] at hin ⊢; simp [enters, exits, ih _ _ _ hin]

/-- plugins that neither answer nor alter the request -/
def Plugin.observer : Plugin → Prop
  | .logging | .probe _ => True
  | _ => False

/-- **A rejecting plugin stops the chain.** If custom-auth refuses the key (or size_limit the
declared length), no later plugin and not the backend see the request; the plugins before
it see it and its 401 / 413 answer, which is all the client gets. -/
theorem reject_stops (gzLen : Body → Nat) (pre post : List Plugin) (hp : ∀ p ∈ pre, p.observer)
    (rej : Plugin) (req : Request) (h : Hdr) (inner : Request → List Op)
    (hrej : (∃ k, rej = .auth k ∧ req.hdr.get "X-Api-Key" ≠ k) ∨
            (∃ mr mp d, rej = .sizeLimit mr mp ∧ req.declared = some d ∧ d > mr)) :
    (serve gzLen (pre ++ rej :: post) req h inner).2 = enters pre ++ exits pre ∧
    Ev.inner ∉ (serve gzLen (pre ++ rej :: post) req h inner).2 := by
  have key : (serve gzLen (pre ++ rej :: post) req h inner).2 = enters pre ++ exits pre := by
    induction pre generalizing h with
    | nil =>
      rcases hrej with ⟨k, rfl, hk⟩ | ⟨mr, mp, d, rfl, hd, hgt⟩
      · simp [serve, hk, enters, exits]
      · simp [serve, tooLarge, hd, hgt, enters, exits]
    | cons p ps ih =>
      have hp' : ∀ q ∈ ps, q.observer := fun q hq => hp q (List.mem_cons_of_mem _ hq)
      have hpp := hp p (List.mem_cons_self ..)
      cases p with
      | logging => simp only [List.cons_append, serve]; simp [enters, exits, ih hp']
      | probe id => simp only [List.cons_append, serve]; simp [enters, exits, ih hp']
      | headers a b => exact absurd hpp (by simp [Plugin.observer])
      | sizeLimit a b => exact absurd hpp (by simp [Plugin.observer])
      | gzip a b => exact absurd hpp (by simp [Plugin.observer])
      | auth k => exact absurd hpp (by simp [Plugin.observer])
  refine ⟨key, ?_⟩
  rw [key]
  have h1 : ∀ ps : List Plugin, Ev.inner ∉ enters ps := by
    intro ps; induction ps with
    | nil => simp [enters]
    | cons q qs ih => cases q <;> simp [enters, ih]
  have h2 : ∀ ps : List Plugin, Ev.inner ∉ exits ps := by
    intro ps; induction ps with
    | nil => simp [exits]
    | cons q qs ih => cases q <;> simp [exits, ih]
  simp [h1, h2]

/-! ### startup fails closed -/

/-- **All or nothing.** `BuildChain` yields a chain exactly when every listed plugin is
known and its configuration is valid; the chain then has one plugin per entry, in order.
Otherwise construction fails and *no* handler is produced — Helios never starts with a
configured plugin missing. -/
theorem startup_fail_closed (specs : List (String × Cfg)) :
    (∀ ps, buildChain specs = some ps →
        ps.length = specs.length ∧ ∀ i (hi : i < specs.length) (hj : i < ps.length),
          factory specs[i].1 specs[i].2 = some ps[i]) ∧
    ((∃ s ∈ specs, factory s.1 s.2 = none) → buildChain specs = none) := by
  constructor
  · intro ps hps
    induction specs generalizing ps with
    | nil => simp [buildChain] at hps; subst hps; simp
    | cons s ss ih =>
      simp only [buildChain, List.mapM_cons] at hps
      cases hf : factory s.1 s.2 with
      | none => simp [hf] at hps
      | some p =>
        cases hr : ss.mapM (fun s => factory s.1 s.2) with
        | none => simp [hf, hr] at hps
        | some rest =>
          simp [hf, hr] at hps
          subst hps
          obtain ⟨l1, l2⟩ := ih rest hr
          refine ⟨by simp [l1], ?_⟩
          intro i hi hj
          cases i with
          | zero => simpa using hf
          | succ j => simpa using l2 j (by simp at hi; omega) (by simp at hj; omega)
  · rintro ⟨s, hs, hf⟩
    induction specs with
    | nil => cases hs
    | cons t ts ih =>
      simp only [buildChain, List.mapM_cons]
      rcases List.mem_cons.mp hs with rfl | h
      · simp [hf]
      · cases factory t.1 t.2 with
        | none => simp
        | some p =>
          have := ih h
          simp only [buildChain] at this
          simp [this]

/-- an unknown plugin name is a construction error -/
theorem unknown_plugin_fails (name : String) (c : Cfg)
    (h : name ∉ ["size_limit", "gzip", "logging", "headers", "custom-auth"]) : factory name c = none := by
  simp only [List.mem_cons, List.mem_nil_iff, or_false, not_or] at h
  simp [factory, h]

/-! ### non-vacuity -/
example : (serve (fun _ => 0) [.probe 1, .logging, .probe 2] ⟨"GET", [], 0, some 0, none⟩ [] (fun _ => [])).2
    = [.enter 1, .enter 2, .inner, .exit 2, .exit 1] := by decide
example : (serve (fun _ => 0) [.probe 1, .auth "k", .probe 2] ⟨"GET", [], 0, some 0, none⟩ [] (fun _ => [])).2
    = [.enter 1, .exit 1] := by decide
example : buildChain [("logging", []), ("no-such-plugin", [])] = none := by decide
example : buildChain [("gzip", [("level", .int 5), ("min_size", .int 1024), ("content_types", .strs ["text/"])])]
    = some [.gzip 1024 ["text/"]] := by decide
example : buildChain [("gzip", [("level", .int 10), ("min_size", .int 1), ("content_types", .strs [])])] = none := by decide

end Helios.Http
