import Helios.Props.C05
import Helios.Lemmas.ListExtra
/-
C11 — Runtime reconfiguration is atomic and consistent under traffic.
Each admin operation holds the balancer's write lock for its whole body (lock-set fact,
re-derived from the source), so it is one atomic step `LB.add / LB.remove / LB.setStrategy`
of the interleaving semantics; the theorems below are about those steps.
-/
namespace Helios.LB

/-- the externally visible backend set: what `/v1/backends` lists -/
def listing (y : Sys) : List (String × Nat × Bool × Int) :=
  y.pool.map (fun o => (o.b.name, o.b.weight, o.b.healthy, o.b.conns))

def names (y : Sys) : List String := y.pool.map (·.b.name)

/-- backend names are unique (established by `add`, kept by everything else) -/
def NodupNames (y : Sys) : Prop := (names y).Nodup

/-- **add**: once it returns success the backend is listed, with the normalised weight, and
eligible for traffic at any time. -/
theorem add_listed_eligible (y : Sys) (n : String) (w : Int) (h : (add y n w true).2 = true) :
    ∃ o ∈ (add y n w true).1.pool, o.b.name = n ∧ o.b.weight = normWeight w ∧ ∀ now, o.b.eligible now = true := by
  simp only [add] at h ⊢
  by_cases hd : y.pool.any (·.b.name = n) = true
  · simp [hd] at h
  · simp only [Bool.not_true, Bool.false_eq_true, if_false, hd]
    refine ⟨_, List.mem_append_right _ (List.mem_singleton.mpr rfl), rfl, ?_, ?_⟩
    · simp only [normWeight]
    · intro now; simp [Backend.eligible]

/-- **failed add changes nothing**: unparsable address or a name already in use. -/
theorem add_failed_noop (y : Sys) (n : String) (w : Int) (a : Bool) (h : (add y n w a).2 = false) :
    (add y n w a).1 = y := by
  simp only [add] at h ⊢
  by_cases ha : a = true
  · subst ha
    by_cases hd : y.pool.any (·.b.name = n) = true
    · simp [hd]
    · simp [hd] at h
  · have : a = false := by simpa using ha
    subst this; simp

theorem add_nodup (y : Sys) (n : String) (w : Int) (a : Bool) (h : NodupNames y) :
    NodupNames (add y n w a).1 := by
  unfold NodupNames names at *
  simp only [add]
  by_cases ha : a = true
  · subst ha
    by_cases hd : y.pool.any (·.b.name = n) = true
    · simpa [hd] using h
    · simp only [Bool.not_true, Bool.false_eq_true, if_false, hd, List.map_append, List.map_cons, List.map_nil]
      rw [List.nodup_append]
      refine ⟨h, by simp, ?_⟩
      intro a ha b hb
      simp only [List.mem_singleton] at hb
      subst hb
      simp only [List.any_eq_true, not_exists, not_and, decide_eq_true_eq] at hd
      obtain ⟨o, ho, rfl⟩ := List.mem_map.mp ha
      exact hd o ho
  · have : a = false := by simpa using ha
    subst this; simpa using h

/-- the pool after `remove` is a sub-multiset of the pool before, without the removed object -/
theorem remove_pool (y : Sys) (n : String) :
    (∀ o ∈ (remove y n).pool, o ∈ y.pool) ∧
    (∀ i o, y.pool.findIdx? (·.b.name = n) = some i → y.pool[i]? = some o →
        (remove y n).pool.Perm (y.pool.eraseIdx i)) := by
  simp only [remove]
  constructor
  · intro o ho
    split at ho
    · exact ho
    · rename_i i _
      split at ho
      · rename_i oi l hoi hl
        simp only [] at ho
        have := (List.dropLast_sublist _).subset ho
        rcases List.mem_or_eq_of_mem_set this with h | h
        · exact h
        · rw [h]; exact List.mem_of_getLast? hl
      · exact ho
  · intro i o hi ho
    simp only [hi]
    cases hl : y.pool.getLast? with
    | none =>
      have : y.pool = [] := by simpa using hl
      rw [this] at ho; simp at ho
    | some l =>
      simp only [ho]
      have hlt : i < y.pool.length := (List.getElem?_eq_some_iff.mp ho).1
      -- swap-with-last then truncate is a permutation of erasing slot i
      exact set_dropLast_perm_eraseIdx y.pool i l hlt hl

/-- **remove**: once it returns, no backend of that name is listed (hence none can be chosen). -/
theorem remove_absent_after (y : Sys) (n : String) (h : NodupNames y) :
    ∀ o ∈ (remove y n).pool, o.b.name ≠ n := by
  intro o ho
  cases hi : y.pool.findIdx? (·.b.name = n) with
  | none =>
    simp only [remove, hi] at ho
    have := List.findIdx?_eq_none_iff.mp hi o ho
    simpa using this
  | some i =>
    have hlt : i < y.pool.length := (List.findIdx?_eq_some_iff_getElem.mp hi).1
    have hoi := List.getElem?_eq_getElem hlt
    have hperm := (remove_pool y n).2 i _ hi hoi
    have hmem : o ∈ y.pool.eraseIdx i := hperm.mem_iff.mp ho
    -- the removed slot held the only object with that name
    have hname : (y.pool[i]).b.name = n := by
      have := (List.findIdx?_eq_some_iff_getElem.mp hi).2.1
      simpa using this
    intro hon
    exact eraseIdx_name_absent y.pool i hlt h o hmem (by rw [hon, hname])

/-- **remove** leaves every other backend in place. -/
theorem remove_keeps_others (y : Sys) (n : String) (o : Obj) (ho : o ∈ y.pool) (hne : o.b.name ≠ n) :
    o ∈ (remove y n).pool := by
  cases hi : y.pool.findIdx? (·.b.name = n) with
  | none => simp only [remove, hi]; exact ho
  | some i =>
    have hlt : i < y.pool.length := (List.findIdx?_eq_some_iff_getElem.mp hi).1
    have hoi := List.getElem?_eq_getElem hlt
    have hperm := (remove_pool y n).2 i _ hi hoi
    apply hperm.mem_iff.mpr
    have hname : (y.pool[i]).b.name = n := by
      have := (List.findIdx?_eq_some_iff_getElem.mp hi).2.1
      simpa using this
    exact mem_eraseIdx_of_ne y.pool i hlt o ho (by intro e; exact hne (by rw [e, hname]))

/-- **strategy switch**: exactly the same backends, in the same order, with their weights,
health state and in-flight gauges. -/
theorem switch_preserves (y : Sys) (s : String) :
    listing (setStrategy y s).1 = listing y ∧
    (setStrategy y s).1.pool.map (·.b.until_) = y.pool.map (·.b.until_) ∧
    (setStrategy y s).1.pool.map (·.id) = y.pool.map (·.id) := by
  simp only [setStrategy]
  split
  · exact ⟨rfl, rfl, rfl⟩
  · simp [listing, List.map_map, Function.comp]

/-- **failed switch changes nothing** (unknown strategy name). -/
theorem switch_failed_noop (y : Sys) (s : String) (h : (setStrategy y s).2 = false) :
    (setStrategy y s).1 = y := by
  simp only [setStrategy] at h ⊢
  split
  · rfl
  · rename_i k hk; simp [hk] at h

/-- only the five documented names select a strategy -/
theorem strategy_names (s : String) : (kindOfName s).isSome ↔
    s = "round_robin" ∨ s = "least_connections" ∨ s = "weighted_round_robin" ∨ s = "ip_hash" ∨ s = "ip_hash_consistent" := by
  unfold kindOfName
  constructor
  · intro h; split at h <;> simp_all
  · intro h; rcases h with h | h | h | h | h <;> subst h <;> rfl

/-! ### non-vacuity -/
private def hc0 : HC := { passive := false, threshold := 1, ejectFor := 1 }
private def y0 : Sys := { kind := .rr, hc := hc0 }
example : names (remove (add (add (add y0 "a" 1 true).1 "b" 0 true).1 "c" 5 true).1 "a") = ["c", "b"] := by decide
/-- a duplicate add is refused (was: accepted, and `remove` then left one behind) -/
example : (add (add y0 "dup" 1 true).1 "dup" 1 true).2 = false := by decide

end Helios.LB
