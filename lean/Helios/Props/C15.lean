import Helios.Model.Http
/-
C15 — gzip plugin: what the client decodes is exactly what the backend sent.

Statements are about the operations the plugin hands to the writer underneath (`.wgz b`
stands for the gzip encoding of `b`; `gunzip (gzip b) = b` is the assumed contract of
compress/gzip).  They hold for *every* sequence of handler operations.
-/
namespace Helios.Http

def nz (b : Body) : Body := b.filter (·.1 > 0)

/-- the body bytes a sequence of writer operations delivers, after decoding gzip members -/
def payload : List Op → Body
  | [] => []
  | .w c :: ops => nz [c] ++ payload ops
  | .wgz b :: ops => nz b ++ payload ops
  | _ :: ops => payload ops

theorem payload_append (a b : List Op) : payload (a ++ b) = payload a ++ payload b := by
  induction a with
  | nil => rfl
  | cons o os ih => cases o <;> simp [payload, ih]

theorem nz_append (a b : Body) : nz (a ++ b) = nz a ++ nz b := by simp [nz]

theorem payload_map_w (b : Body) : payload ((nz b).map .w) = nz b := by
  induction b with
  | nil => rfl
  | cons c cs ih =>
    by_cases h : c.1 > 0
    · simp only [nz, List.filter_cons, h, decide_true, if_true, List.map_cons, payload] at ih ⊢
      simp [nz, h, ih]
    · simp only [nz, List.filter_cons, h, decide_false, Bool.false_eq_true, if_false] at ih ⊢
      exact ih

theorem gz_commit_payload (g : Gz) : payload g.commit.1 = [] ∧ g.commit.2.buf = g.buf ∧
    g.commit.2.bufferExceeded = g.bufferExceeded := by
  simp only [Gz.commit]; split <;> simp [payload]

/-- handler operations: everything except ready-made gzip members -/
def plain (ops : List Op) : Prop := ∀ o ∈ ops, ∀ b, o ≠ .wgz b

/-- invariant of the writer: what went down plus what is buffered is what came in; once
streaming, nothing is buffered -/
theorem gz_step_payload (g : Gz) (op : Op) (hop : ∀ b, op ≠ .wgz b)
    (hinv : g.bufferExceeded = true → g.buf = []) :
    payload (g.step op).1 ++ nz (g.step op).2.buf = nz g.buf ++ payload [op] ∧
    ((g.step op).2.bufferExceeded = true → (g.step op).2.buf = []) := by
  cases op with
  | setH k v => simpa [Gz.step, payload] using hinv
  | delH k => simpa [Gz.step, payload] using hinv
  | wh c =>
    simp only [Gz.step]
    split
    · simpa [payload] using hinv
    · split <;> simpa [payload] using hinv
  | fl => simp only [Gz.step]; split <;> simpa [payload] using hinv
  | wgz b => exact absurd rfl (hop b)
  | w c =>
    simp only [Gz.step]
    by_cases hx : (g.bufferExceeded || decide (g.buf.len + c.1 > g.cap)) = true
    · simp only [hx, if_true]
      by_cases he : g.bufferExceeded = true
      · simp only [he, if_true]
        have hb := hinv he
        refine ⟨by simp [payload, hb, nz], fun _ => hb⟩
      · simp only [he, Bool.false_eq_true, if_false]
        have hc := gz_commit_payload g
        refine ⟨?_, fun _ => by simp [hc.2.1]⟩
        simp only [payload_append, hc.1, List.nil_append]
        have : payload (List.map Op.w (List.filter (fun x => decide (x.1 > 0)) g.buf)) = nz g.buf := payload_map_w g.buf
        simp [this, payload, nz]
    · simp only [hx, Bool.false_eq_true, if_false]
      have he : g.bufferExceeded = false := by
        cases h : g.bufferExceeded <;> simp_all
      exact ⟨by simp [payload, nz_append], fun h => by simp [he] at h⟩

theorem transGz_payload (ops : List Op) (hp : plain ops) : ∀ (g : Gz) (h : Hdr),
    (g.bufferExceeded = true → g.buf = []) →
    payload (transGz g h ops).1 ++ nz (transGz g h ops).2.1.buf = nz g.buf ++ payload ops ∧
    ((transGz g h ops).2.1.bufferExceeded = true → (transGz g h ops).2.1.buf = []) := by
  induction ops with
  | nil => intro g h hinv; simpa [transGz, payload] using hinv
  | cons o os ih =>
    intro g h hinv
    have hp' : plain os := fun x hx => hp x (List.mem_cons_of_mem _ hx)
    obtain ⟨s1, s2⟩ := gz_step_payload g o (hp o (List.mem_cons_self ..)) hinv
    obtain ⟨r1, r2⟩ := ih hp' (g.step o).2 ((g.step o).1.foldl applyHdr h) s2
    simp only [transGz, payload_append]
    refine ⟨?_, r2⟩
    rw [List.append_assoc, r1, ← List.append_assoc, s1, List.append_assoc]
    congr 1
    cases o <;> simp [payload]

/-- **What the client decodes is what the backend sent.** For every sequence of handler
operations, every configuration (min_size, content types, cap) and every header state, the
bytes the gzip plugin passes down — its streamed writes plus whatever `Finish` emits, with
a gzip member counted as its decoded content — are exactly the handler's body bytes, in
order. Nothing is dropped, duplicated or reordered, below or above the buffering cap. -/
theorem payload_preserved (ops : List Op) (hp : plain ops) (ms : Nat) (types : List String) (cap : Nat) (h : Hdr) :
    let t := transGz { minSize := ms, types := types, cap := cap } h ops
    payload (t.1 ++ (t.2.1.finish t.2.2).1) = payload ops := by
  intro t
  obtain ⟨r1, r2⟩ := transGz_payload ops hp { minSize := ms, types := types, cap := cap } h (by intro h; cases h)
  simp only [payload_append]
  have hfin : payload (t.2.1.finish t.2.2).1 = nz t.2.1.buf := by
    simp only [Gz.finish]
    by_cases he : t.2.1.bufferExceeded = true
    · have hb : t.2.1.buf = [] := r2 he
      simp [he, payload, hb, nz]
    · simp only [he, Bool.false_eq_true, if_false]
      have hc := gz_commit_payload t.2.1
      have hw : payload (List.map Op.w (List.filter (fun x => decide (x.1 > 0)) t.2.1.buf)) = nz t.2.1.buf :=
        payload_map_w t.2.1.buf
      split <;> simp [payload_append, hc.1, hw, payload, nz]
  rw [hfin]
  simpa [nz] using r1

/-! ### status -/

/-- the status-line operations in a sequence -/
def whs : List Op → List Nat
  | [] => []
  | .wh c :: ops => c :: whs ops
  | _ :: ops => whs ops

theorem whs_append (a b : List Op) : whs (a ++ b) = whs a ++ whs b := by
  induction a with
  | nil => rfl
  | cons o os ih => cases o <;> simp [whs, ih]

theorem whs_map_w (b : Body) : whs (b.map .w) = [] := by
  induction b with
  | nil => rfl
  | cons c cs ih => simpa [whs] using ih

/-- the status line still owed to the client -/
def pending (g : Gz) : List Nat := if g.headerSent then [] else [if g.wroteHeader then g.statusCode else 200]

theorem gz_commit_whs (g : Gz) : whs g.commit.1 = pending g ∧ g.commit.2.headerSent = true := by
  simp only [Gz.commit, pending]; split <;> simp_all [whs]


theorem gz_body_whs (ops : List Op) (hb : bodyOnly ops) : ∀ (g : Gz) (h : Hdr),
    (g.bufferExceeded = true → g.headerSent = true) →
    whs (transGz g h ops).1 ++ pending (transGz g h ops).2.1 = pending g ∧
    ((transGz g h ops).2.1.bufferExceeded = true → (transGz g h ops).2.1.headerSent = true) := by
  induction ops with
  | nil => intro g h hi; simpa [transGz, whs] using hi
  | cons o os ih =>
    intro g h hi
    have hb' : bodyOnly os := fun x hx => hb x (List.mem_cons_of_mem _ hx)
    simp only [transGz, whs_append]
    rcases hb o (List.mem_cons_self ..) with ⟨c, rfl⟩ | rfl
    · simp only [Gz.step]
      by_cases hx : (g.bufferExceeded || decide (g.buf.len + c.1 > g.cap)) = true
      · simp only [hx, if_true]
        by_cases he : g.bufferExceeded = true
        · simp only [he, if_true]
          have := ih hb' g (([Op.w c] : List Op).foldl applyHdr h) hi
          simpa [whs] using this
        · simp only [he, Bool.false_eq_true, if_false]
          have hc := gz_commit_whs g
          have := ih hb' { g.commit.2 with bufferExceeded := true, buf := [] }
            ((g.commit.1 ++ List.map Op.w (List.filter (fun x => decide (x.1 > 0)) g.buf) ++ [Op.w c]).foldl applyHdr h)
            (fun _ => hc.2)
          refine ⟨?_, this.2⟩
          have h1 := this.1
          simp only [pending, hc.2, if_true] at h1
          simp only [whs_append, hc.1, whs_map_w, whs, List.append_nil]
          simp only [pending, hc.2, if_true, List.append_nil] at h1 ⊢
          rw [List.append_assoc, h1]; simp
      · simp only [hx, Bool.false_eq_true, if_false]
        have he : g.bufferExceeded = false := by cases h' : g.bufferExceeded <;> simp_all
        have := ih hb' { g with buf := g.buf ++ [c] } (([] : List Op).foldl applyHdr h) (by simpa [he] using hi)
        simpa [whs, pending] using this
    · simp only [Gz.step]
      split
      · have := ih hb' g (([Op.fl] : List Op).foldl applyHdr h) hi
        simpa [whs] using this
      · have := ih hb' g (([] : List Op).foldl applyHdr h) hi
        simpa [whs] using this

theorem gz_finish_whs (g : Gz) (h : Hdr) (hi : g.bufferExceeded = true → g.headerSent = true) :
    whs (g.finish h).1 = pending g := by
  simp only [Gz.finish]
  by_cases he : g.bufferExceeded = true
  · simp [he, whs, pending, hi he]
  · simp only [he, Bool.false_eq_true, if_false]
    have hc := gz_commit_whs g
    split <;> simp [whs_append, hc.1, whs_map_w, whs]

theorem transGz_headers (hs : List Op) (hh : headerOnly hs) (rest : List Op) : ∀ (g : Gz) (h : Hdr),
    (transGz g h (hs ++ rest)).1 = hs ++ (transGz g (hs.foldl applyHdr h) rest).1 ∧
    (transGz g h (hs ++ rest)).2 = (transGz g (hs.foldl applyHdr h) rest).2 := by
  induction hs with
  | nil => intro g h; simp
  | cons x xs ih =>
    intro g h
    have hh' : headerOnly xs := fun o ho => hh o (List.mem_cons_of_mem _ ho)
    have hop := hh x (List.mem_cons_self ..)
    cases x with
    | setH k v => simp only [List.cons_append, transGz, Gz.step, List.foldl_cons, List.foldl_nil]; simp [ih hh']
    | delH k => simp only [List.cons_append, transGz, Gz.step, List.foldl_cons, List.foldl_nil]; simp [ih hh']
    | wh c => simp [Op.isHeaderOp] at hop
    | w c => simp [Op.isHeaderOp] at hop
    | wgz b => simp [Op.isHeaderOp] at hop
    | fl => simp [Op.isHeaderOp] at hop

/-- **The backend's status, once.** For a response `headers; WriteHeader(c); writes/flushes`
(`c ≥ 200`) the plugin sends exactly one status line, and it is `c` — whether the body is
compressed, passed as is, or streamed after the cap. Without WriteHeader it is 200. -/
theorem status_preserved (ms : Nat) (types : List String) (cap : Nat) (h0 : Hdr) (hs body : List Op) (c : Nat)
    (hh : headerOnly hs) (hb : bodyOnly body) (hc : 200 ≤ c) :
    (let t := transGz { minSize := ms, types := types, cap := cap } h0 (hs ++ [.wh c] ++ body)
     whs (t.1 ++ (t.2.1.finish t.2.2).1) = [c]) ∧
    (let t := transGz { minSize := ms, types := types, cap := cap } h0 (hs ++ body)
     whs (t.1 ++ (t.2.1.finish t.2.2).1) = [200]) := by
  have hwh : whs hs = [] := by
    clear hb
    induction hs with
    | nil => rfl
    | cons x xs ih =>
      have hop := hh x (List.mem_cons_self ..)
      have := ih (fun o ho => hh o (List.mem_cons_of_mem _ ho))
      cases x <;> simp_all [whs, Op.isHeaderOp]
  have hni : ¬ (c ≥ 100 ∧ c < 200) := by omega
  constructor
  · intro t
    have e := transGz_headers hs hh ([.wh c] ++ body) { minSize := ms, types := types, cap := cap } h0
    have et : t = transGz { minSize := ms, types := types, cap := cap } h0 (hs ++ ([.wh c] ++ body)) := by
      show transGz _ _ (hs ++ [.wh c] ++ body) = _; rw [List.append_assoc]
    rw [et, whs_append, e.1, e.2, whs_append, hwh, List.nil_append]
    simp only [List.singleton_append, transGz, Gz.step, Bool.false_eq_true, if_false, hni, List.nil_append,
      List.foldl_nil]
    have hb1 := gz_body_whs body hb
      { minSize := ms, types := types, cap := cap, statusCode := c, wroteHeader := true }
      (hs.foldl applyHdr h0) (by intro h; cases h)
    rw [gz_finish_whs _ _ hb1.2]
    simpa [pending] using hb1.1
  · intro t
    have e := transGz_headers hs hh body { minSize := ms, types := types, cap := cap } h0
    rw [whs_append, e.1, e.2, whs_append, hwh, List.nil_append]
    have hb1 := gz_body_whs body hb { minSize := ms, types := types, cap := cap }
      (hs.foldl applyHdr h0) (by intro h; cases h)
    rw [gz_finish_whs _ _ hb1.2]
    simpa [pending] using hb1.1

/-! ### when is a response compressed -/

/-- **Compression only if …** `Finish` emits a gzip member only when nothing was streamed
(the body stayed within the buffering cap), the body is non-empty and at least `min_size`
bytes, a declared Content-Length is not below `min_size`, the response is not already
encoded, and the Content-Type has a configured prefix; it then labels the response
`Content-Encoding: gzip` and drops Content-Length *before* the status line. -/
theorem compress_only_if (g : Gz) (h : Hdr) (b : Body) (hm : Op.wgz b ∈ (g.finish h).1) :
    g.bufferExceeded = false ∧ b = g.buf ∧ b.len ≠ 0 ∧ g.minSize ≤ b.len ∧
    h.get "Content-Encoding" = "" ∧ matchesType (h.get "Content-Type") g.types = true ∧
    (∀ cl, parseInt? (h.get "Content-Length") = some cl → (g.minSize : Int) ≤ cl) ∧
    (g.finish h).1 = [.setH "Content-Encoding" "gzip", .delH "Content-Length"] ++ g.commit.1 ++ [.wgz b] := by
  have hnc : ∀ b', Op.wgz b' ∉ g.commit.1 := by
    intro b'; simp only [Gz.commit]; split <;> simp
  simp only [Gz.finish] at hm ⊢
  by_cases he : g.bufferExceeded = true
  · simp [he] at hm
  · have he' : g.bufferExceeded = false := by simpa using he
    simp only [he, Bool.false_eq_true, if_false] at hm ⊢
    by_cases hs : g.shouldCompress h = true
    · simp only [hs, if_true] at hm ⊢
      simp only [List.mem_append, List.mem_cons, List.mem_nil_iff, or_false, reduceCtorEq, false_or, hnc,
        Op.wgz.injEq] at hm
      subst hm
      simp only [Gz.shouldCompress, Bool.and_eq_true, Bool.not_eq_true', decide_eq_false_iff_not, beq_iff_eq] at hs
      obtain ⟨⟨⟨⟨h1, h2⟩, h3⟩, h4⟩, h5⟩ := hs
      refine ⟨trivial, rfl, h1, by omega, h2, h5, ?_, rfl⟩
      intro cl hcl
      rw [hcl] at h3
      simp only [decide_eq_false_iff_not] at h3
      omega
    · simp only [hs, Bool.false_eq_true, if_false] at hm
      simp [hnc] at hm

/-- **Identity otherwise.** When no gzip member is emitted, the plugin adds no header
operation of its own: the writes it passes down are the handler's own chunks and
Content-Encoding / Content-Length stay as the backend set them. -/
theorem identity_otherwise (g : Gz) (h : Hdr) (hn : ∀ b, Op.wgz b ∉ (g.finish h).1) :
    ∀ o ∈ (g.finish h).1, o.isHeaderOp = false := by
  intro o ho
  simp only [Gz.finish] at ho hn
  have hcm : ∀ o ∈ g.commit.1, o.isHeaderOp = false := by
    intro o ho; simp only [Gz.commit] at ho; split at ho <;> simp at ho; subst ho; rfl
  by_cases he : g.bufferExceeded = true
  · simp [he] at ho
  · simp only [he, Bool.false_eq_true, if_false] at ho hn
    by_cases hs : g.shouldCompress h = true
    · simp only [hs, if_true] at hn
      exact absurd (by simp) (hn g.buf)
    · simp only [hs, Bool.false_eq_true, if_false] at ho
      rcases List.mem_append.mp ho with h1 | h1
      · exact hcm o h1
      · simp at h1; obtain ⟨a, b, _, rfl⟩ := h1; rfl

/-- a client that does not list `gzip` in Accept-Encoding bypasses the plugin entirely -/
theorem not_accepting_passthrough (gzLen : Body → Nat) (ms : Nat) (types : List String) (ps : List Plugin)
    (req : Request) (h : Hdr) (inner : Request → List Op)
    (hna : acceptsGzip (req.hdr.get "Accept-Encoding") = false) :
    serve gzLen (.gzip ms types :: ps) req h inner = serve gzLen ps req h inner := by
  simp [serve, hna]

/-! ### non-vacuity -/
private def g0 : Gz := { minSize := 10, types := ["text/"], cap := 1000 }
private def hText : Hdr := [("Content-Type", "text/plain")]
/-- ReverseProxy-shaped response: compressed, labelled, original length dropped, status kept -/
example : let t := transGz g0 hText [.wh 201, .w (20, 1)]
    t.1 ++ (t.2.1.finish t.2.2).1 =
      [.setH "Content-Encoding" "gzip", .delH "Content-Length", .wh 201, .wgz [(20, 1)]] := by decide
/-- already encoded: delivered as is -/
example : let t := transGz g0 (hText ++ [("Content-Encoding", "br")]) [.wh 200, .w (20, 1)]
    t.1 ++ (t.2.1.finish t.2.2).1 = [.wh 200, .w (20, 1)] := by decide
/-- above the cap: streamed, nothing lost after the chunk that crossed it -/
example : let t := transGz { g0 with cap := 25 } hText [.w (20, 1), .w (20, 2), .w (3, 3)]
    t.1 ++ (t.2.1.finish t.2.2).1 = [.wh 200, .w (20, 1), .w (20, 2), .w (3, 3)] := by decide

end Helios.Http
