import Helios.Props.CodeCfg
import Helios.Model.Wiring
/-
Tie C for the glue between configuration and components (C08, C09, C04, C20, C18):
`setupRateLimiter`, `setupWebSocketPool`, `setupCircuitBreaker` and `createHealthChecker`, translated
from the source on every run, construct each component with exactly the numbers of `Wire.*Eff`: the
configured values, seconds as nanoseconds, documented defaults for values left at zero — and, for
every configuration validation accepts, the configured numbers themselves.
The translation records a constructor call `x.f = NewT(a, b, …)` as an entry of `built`.
-/
namespace Helios.CodeTie
open Helios Helios.Generated

theorem setupRateLimiter_refines (lb : Code.LoadBalancer) (g : Code.Config) :
    (Code.setupRateLimiter lb g).2 = g ∧
    (if g.RateLimit.Enabled then
       (Code.setupRateLimiter lb g).1 = { lb with built := lb.built ++ [("NewTokenBucketRateLimiter", Wire.rlEff (absCfg g))], rateLimiter := true }
     else (Code.setupRateLimiter lb g).1 = lb) := by
  unfold Code.setupRateLimiter Wire.rlEff Wire.sec
  cases g.RateLimit.Enabled <;> simp

theorem setupWebSocketPool_refines (lb : Code.LoadBalancer) (g : Code.Config) :
    (Code.setupWebSocketPool lb g).2 = g ∧
    (if g.LoadBalancer.WebSocketPool.Enabled then
       (Code.setupWebSocketPool lb g).1 = { lb with built := lb.built ++ [("NewWebSocketPool", Wire.wsEff (absCfg g))], wsPool := true }
     else (Code.setupWebSocketPool lb g).1 = lb) := by
  unfold Code.setupWebSocketPool Wire.wsEff Wire.sec
  cases g.LoadBalancer.WebSocketPool.Enabled <;> simp

theorem setupCircuitBreaker_refines (lb : Code.LoadBalancer) (g : Code.Config) :
    (Code.setupCircuitBreaker lb g).2 = g ∧
    (if g.CircuitBreaker.Enabled then
       (Code.setupCircuitBreaker lb g).1 = { lb with built := lb.built ++ [("NewCircuitBreaker", Wire.cbEff (absCfg g))], circuitBreaker := true }
     else (Code.setupCircuitBreaker lb g).1 = lb) := by
  unfold Code.setupCircuitBreaker Wire.cbEff Wire.sec
  cases g.CircuitBreaker.Enabled with
  | false => simp
  | true =>
    refine ⟨rfl, ?_⟩
    simp only [Bool.not_true, Bool.false_eq_true, if_false, if_true, absCfg]
    by_cases h1 : g.CircuitBreaker.SuccessThreshold.toNat = 0 <;>
    by_cases h2 : g.CircuitBreaker.MaxRequests.toNat = 0 <;>
    by_cases h3 : g.CircuitBreaker.IntervalSeconds * 1000000000 = 0 <;>
    by_cases h4 : g.CircuitBreaker.TimeoutSeconds * 1000000000 = 0 <;>
    by_cases h5 : g.CircuitBreaker.FailureThreshold.toNat = 0 <;>
    simp [h1, h2, h3, h4, h5]

theorem createHealthChecker_refines (g : Code.Config) :
    (Code.createHealthChecker g).1 = g ∧
    ∃ hc, (Code.createHealthChecker g).2 = some hc ∧
      (hc.activeEnabled, hc.activeInterval, hc.activeTimeout, hc.activePath, hc.passiveEnabled, hc.passiveThreshold, hc.passiveTimeout)
        = Wire.hcEff (absCfg g) ∧ hc.unhealthyBackends = fun _ => 0 := by
  refine ⟨rfl, _, rfl, ?_, ?_⟩
  · simp [Wire.hcEff, Wire.sec]
  · rfl

/-! ### for a configuration validation accepts: the configured numbers themselves -/

/-- the breaker: an omitted `max_requests` becomes `success_threshold`, everything else is as configured —
so the trial budget is never below the successes needed to close (C08) -/
theorem cbEff_accepted (c : Cfg.Config) (h : Cfg.validate c = none) (hon : c.cbOn = true) :
    Wire.cbEff c = [if c.cbMax = 0 then c.cbSuccess else c.cbMax, c.cbInterval * Wire.sec, c.cbTimeout * Wire.sec, c.cbFailure, c.cbSuccess] ∧
    c.cbSuccess ≤ (if c.cbMax = 0 then c.cbSuccess else c.cbMax) := by
  have hd := ((Cfg.validate_iff_documented c).mp h).2.2.2.2.2.2.1 hon
  obtain ⟨d1, d2, d3, d4, d5, d6⟩ := hd
  unfold Wire.cbEff Wire.sec
  have e1 : ¬ c.cbSuccess.toNat = 0 := by omega
  have e3 : ¬ c.cbInterval * 1000000000 = 0 := by omega
  have e4 : ¬ c.cbTimeout * 1000000000 = 0 := by omega
  have e5 : ¬ c.cbFailure.toNat = 0 := by omega
  by_cases hm : c.cbMax = 0
  · have e2 : c.cbMax.toNat = 0 := by omega
    simp [e1, e2, e3, e4, e5, hm]; omega
  · have e2 : ¬ c.cbMax.toNat = 0 := by omega
    simp [e1, e2, e3, e4, e5, hm]; omega

theorem rlEff_accepted (c : Cfg.Config) (h : Cfg.validate c = none) (hon : c.rlOn = true) :
    Wire.rlEff c = [c.rlMax, c.rlRefill * Wire.sec] := by
  have hd := ((Cfg.validate_iff_documented c).mp h).2.2.2.2.2.1 hon
  unfold Wire.rlEff Wire.sec
  have e1 : ¬ c.rlMax ≤ 0 := by omega
  have e2 : ¬ c.rlRefill * 1000000000 ≤ 0 := by omega
  simp [e1, e2]

theorem wsEff_accepted (c : Cfg.Config) (h : Cfg.validate c = none) (hon : c.wsOn = true) :
    Wire.wsEff c = [if c.wsMaxIdle = 0 then 10 else c.wsMaxIdle, if c.wsMaxActive = 0 then 100 else c.wsMaxActive,
                    (if c.wsIdleTimeout = 0 then 300 else c.wsIdleTimeout) * Wire.sec] := by
  have hd := ((Cfg.validate_iff_documented c).mp h).2.2.2.1.2 hon
  obtain ⟨d1, d2, d3, d4⟩ := hd
  unfold Wire.wsEff Wire.sec
  by_cases h1 : c.wsMaxIdle = 0 <;> by_cases h2 : c.wsMaxActive = 0 <;> by_cases h3 : c.wsIdleTimeout = 0 <;>
    simp [h1, h2, h3] <;> omega

theorem translation_clean_wire :
    (["createHealthChecker", "setupWebSocketPool", "setupRateLimiter", "setupCircuitBreaker"].all Code.translated.contains) = true ∧
    (Code.translationProblems.filter (fun p => ["createHealthChecker", "setupWebSocketPool", "setupRateLimiter", "setupCircuitBreaker"].contains p.1)).isEmpty = true := by
  decide +kernel

end Helios.CodeTie
