import Helios.Props.C07
/-
C08 — Circuit breaker liveness: no reachable state locks traffic out forever.
-/
namespace Helios.CB

/-- in-flight requests stamped with the current generation -/
def curInflight (gen : Nat) : List (Nat × Nat) → Nat
  | [] => 0
  | (_, g) :: rest => (if g = gen then 1 else 0) + curInflight gen rest

/-- invariant of every reachable system state -/
def Inv (c : Cfg) (y : Sys) : Prop :=
  (∀ p ∈ y.inflight, p.2 ≤ y.s.generation) ∧
  (y.s.st = .halfOpen →
    y.s.successCount + curInflight y.s.generation y.inflight = y.s.requestCount ∧
    y.s.successCount < c.successThreshold)

theorem inv_init (c : Cfg) : Inv c {} := by
  constructor
  · intro p hp; cases hp
  · intro h; cases h

theorem curInflight_zero_of_lt (gen : Nat) (l : List (Nat × Nat)) (h : ∀ p ∈ l, p.2 < gen) :
    curInflight gen l = 0 := by
  induction l with
  | nil => rfl
  | cons p ps ih =>
    obtain ⟨t, g⟩ := p
    have hp := h (t, g) (List.mem_cons_self ..)
    have : ¬ g = gen := by simp only at hp; omega
    simp [curInflight, this, ih (fun q hq => h q (List.mem_cons_of_mem _ hq))]

theorem mem_eraseTid (tid : Nat) (l : List (Nat × Nat)) (p : Nat × Nat) (h : p ∈ eraseTid tid l) : p ∈ l := by
  induction l with
  | nil => simp [eraseTid] at h
  | cons q qs ih =>
    obtain ⟨t, g⟩ := q
    simp only [eraseTid] at h
    split at h
    · exact List.mem_cons_of_mem _ h
    · rcases List.mem_cons.mp h with h | h
      · exact h ▸ List.mem_cons_self ..
      · exact List.mem_cons_of_mem _ (ih h)

theorem curInflight_erase (gen tid gq : Nat) (l : List (Nat × Nat)) (h : lookupTid tid l = some gq) :
    curInflight gen (eraseTid tid l) + (if gq = gen then 1 else 0) = curInflight gen l := by
  induction l with
  | nil => simp [lookupTid] at h
  | cons q qs ih =>
    obtain ⟨t, g⟩ := q
    simp only [lookupTid] at h
    simp only [eraseTid]
    by_cases ht : t = tid
    · simp only [ht, if_true] at h ⊢
      have : g = gq := by simpa using h
      subst this
      simp only [curInflight]; omega
    · simp only [ht, if_false] at h ⊢
      have := ih h
      simp only [curInflight]; omega

theorem lookupTid_mem (tid gq : Nat) (l : List (Nat × Nat)) (h : lookupTid tid l = some gq) :
    (tid, gq) ∈ l := by
  induction l with
  | nil => simp [lookupTid] at h
  | cons q qs ih =>
    obtain ⟨t, g⟩ := q
    simp only [lookupTid] at h
    by_cases ht : t = tid
    · simp only [ht, if_true] at h
      have : g = gq := by simpa using h
      subst this; subst ht; exact List.mem_cons_self ..
    · simp only [ht, if_false] at h
      exact List.mem_cons_of_mem _ (ih h)

/-- the invariant is preserved by every step (thresholds at least 1, as `NewCircuitBreaker` ensures) -/
theorem inv_step (c : Cfg) (h1 : 1 ≤ c.successThreshold) (y : Sys) (e : Ev) (hinv : Inv c y) :
    Inv c (step c y e).1 := by
  obtain ⟨i1, i2⟩ := hinv
  cases e with
  | begin tid now =>
    simp only [step]
    by_cases hd : (lookupTid tid y.inflight).isSome = true
    · simp only [hd, if_true]; exact ⟨i1, i2⟩
    · simp only [hd, if_false, Bool.false_eq_true]
      cases hst : y.s.st with
      | closed =>
        simp only [begin, hst]
        constructor
        · intro p hp
          rcases List.mem_cons.mp hp with rfl | hp
          · exact Nat.le_refl _
          · exact i1 p hp
        · intro h; simp at h
      | open_ =>
        simp only [begin, hst]
        by_cases hna : y.s.nextAttempt < now
        · simp only [hna, if_true]
          have hz : curInflight (y.s.generation + 1) y.inflight = 0 :=
            curInflight_zero_of_lt _ _ (fun p hp => Nat.lt_succ_of_le (i1 p hp))
          by_cases hm : c.maxRequests = 0
          · simp only [hm, if_true]
            refine ⟨fun p hp => Nat.le_succ_of_le (i1 p hp), fun _ => ⟨?_, Nat.lt_of_lt_of_le Nat.zero_lt_one h1⟩⟩
            simp [hz]
          · simp only [hm, if_false]
            constructor
            · intro p hp
              rcases List.mem_cons.mp hp with rfl | hp
              · exact Nat.le_refl _
              · exact Nat.le_succ_of_le (i1 p hp)
            · intro _
              refine ⟨?_, Nat.lt_of_lt_of_le Nat.zero_lt_one h1⟩
              simp [curInflight, hz]
        · simp only [hna, if_false]
          exact ⟨i1, by simp [hst]⟩
      | halfOpen =>
        have i2' := i2 hst
        simp only [begin, hst]
        by_cases hm : y.s.requestCount ≥ c.maxRequests
        · simp only [hm, if_true]; exact ⟨i1, fun _ => i2'⟩
        · simp only [hm, if_false]
          constructor
          · intro p hp
            rcases List.mem_cons.mp hp with rfl | hp
            · exact Nat.le_refl _
            · exact i1 p hp
          · intro _
            refine ⟨?_, i2'.2⟩
            simp only [curInflight, if_true]
            have := i2'.1
            omega
  | end_ tid ok now =>
    simp only [step]
    cases hl : lookupTid tid y.inflight with
    | none => exact ⟨i1, i2⟩
    | some gq =>
      simp only []
      have hmem := lookupTid_mem tid gq y.inflight hl
      have hle : gq ≤ y.s.generation := i1 _ hmem
      have herase := curInflight_erase y.s.generation tid gq y.inflight hl
      have i1' : ∀ p ∈ eraseTid tid y.inflight, p.2 ≤ y.s.generation :=
        fun p hp => i1 p (mem_eraseTid tid _ p hp)
      by_cases hg : gq ≠ y.s.generation
      · rw [stale_completion_ignored c y.s gq ok now hg]
        refine ⟨i1', fun h => ?_⟩
        have := i2 h
        have hg' : ¬ gq = y.s.generation := hg
        simp only [hg', if_false, Nat.add_zero] at herase
        rw [herase]; exact this
      · have hg' : gq = y.s.generation := by simpa using hg
        simp only [hg', if_true] at herase
        subst hg'
        simp only [end_, ne_eq, not_true_eq_false, if_false]
        cases ok with
        | true =>
          simp only [if_true]
          cases hst : y.s.st with
          | closed => simp only []; exact ⟨i1', by simp [hst]⟩
          | open_ => simp only []; exact ⟨i1', by simp [hst]⟩
          | halfOpen =>
            have i2' := i2 hst
            simp only []
            by_cases hth : y.s.successCount + 1 ≥ c.successThreshold
            · simp only [hth, if_true]
              exact ⟨fun p hp => Nat.le_succ_of_le (i1' p hp), by simp⟩
            · simp only [hth, if_false]
              refine ⟨i1', fun _ => ⟨?_, ?_⟩⟩
              · have := i2'.1
                show y.s.successCount + 1 + curInflight y.s.generation (eraseTid tid y.inflight) = y.s.requestCount
                omega
              · show y.s.successCount + 1 < c.successThreshold
                omega
        | false =>
          simp only [Bool.false_eq_true, if_false]
          cases hst : y.s.st with
          | closed =>
            simp only []
            split
            · exact ⟨fun p hp => Nat.le_succ_of_le (i1' p hp), by simp⟩
            · exact ⟨i1', by simp [hst]⟩
          | open_ => simp only []; exact ⟨i1', by simp [hst]⟩
          | halfOpen =>
            simp only []
            exact ⟨fun p hp => Nat.le_succ_of_le (i1' p hp), by simp⟩

/-- every state reachable by any history (any overlap of requests) satisfies the invariant -/
theorem inv_run (c : Cfg) (h1 : 1 ≤ c.successThreshold) (evs : List Ev) : ∀ y, Inv c y → Inv c (run c y evs).1 := by
  induction evs with
  | nil => intro y h; exact h
  | cons e es ih => intro y h; exact ih _ (inv_step c h1 y e h)

/-- all requests of a sequential history are admitted -/
def allAdm (c : Cfg) : State → List (Bool × Nat) → Bool
  | _, [] => true
  | s, (ok, t) :: es =>
    (match (exec c s ok t).2 with | .admitted _ => true | _ => false) && allAdm c (exec c s ok t).1 es

theorem closed_stays (c : Cfg) (now : Nat) (n : Nat) : ∀ (s : State), s.st = .closed →
    (runSeq c s (List.replicate n (true, now))).st = .closed ∧
    allAdm c s (List.replicate n (true, now)) = true := by
  induction n with
  | zero => intro s h; simp [runSeq, allAdm, h]
  | succ k ih =>
    intro s h
    have he : (exec c s true now).1.st = .closed ∧ ∃ g, (exec c s true now).2 = .admitted g := by
      simp [exec, begin, h, end_]
    obtain ⟨he1, g, he2⟩ := he
    simp only [List.replicate_succ, runSeq, allAdm, he2, Bool.true_and]
    exact ih _ he1

theorem exec_halfOpen_ok (c : Cfg) (s : State) (now : Nat) (hs : s.st = .halfOpen)
    (hadm : s.requestCount < c.maxRequests) :
    exec c s true now =
      (if s.successCount + 1 ≥ c.successThreshold then
         { s with requestCount := s.requestCount + 1, successCount := s.successCount + 1, st := .closed,
                  generation := s.generation + 1, failureCount := 0 }
       else { s with requestCount := s.requestCount + 1, successCount := s.successCount + 1 },
       .admitted s.generation) := by
  obtain ⟨st, fc, sc, rc, lf, na, gen⟩ := s
  simp only at hs hadm
  subst hs
  have : ¬ (rc ≥ c.maxRequests) := by omega
  simp only [exec, begin, this, if_false, end_, ne_eq, not_true_eq_false, if_true]

theorem exec_open_ok (c : Cfg) (s : State) (now : Nat) (hs : s.st = .open_)
    (hna : s.nextAttempt < now) (hm : c.maxRequests ≠ 0) :
    exec c s true now =
      (if 0 + 1 ≥ c.successThreshold then
         { s with requestCount := 1, successCount := 1, st := .closed,
                  generation := s.generation + 1 + 1, failureCount := 0 }
       else { s with st := .halfOpen, generation := s.generation + 1, requestCount := 1, successCount := 1 },
       .admitted (s.generation + 1)) := by
  obtain ⟨st, fc, sc, rc, lf, na, gen⟩ := s
  simp only at hs hna
  subst hs
  simp only [exec, begin, hna, if_true, hm, if_false, end_, ne_eq, not_true_eq_false]

/-- quiescent half-open state with `d` successes still missing: `d` more successful
requests are all admitted and close the breaker -/
theorem halfopen_recovers (c : Cfg) (h2 : c.successThreshold ≤ c.maxRequests) (now : Nat) (d : Nat) :
    ∀ (s : State) (n : Nat), s.st = .halfOpen → s.requestCount = s.successCount →
      s.successCount + d = c.successThreshold → 1 ≤ d → d ≤ n →
      (runSeq c s (List.replicate n (true, now))).st = .closed ∧
      allAdm c s (List.replicate n (true, now)) = true := by
  induction d with
  | zero => intro s n _ _ _ h; omega
  | succ k ih =>
    intro s n hs hq hd _ hn
    obtain ⟨m, rfl⟩ : ∃ m, n = m + 1 := ⟨n - 1, by omega⟩
    have hadm : ¬ (s.requestCount ≥ c.maxRequests) := by omega
    by_cases hk : k = 0
    · -- last missing success: closes
      have hth : s.successCount + 1 ≥ c.successThreshold := by omega
      have he : (exec c s true now).1.st = .closed ∧ ∃ g, (exec c s true now).2 = .admitted g := by
        rw [exec_halfOpen_ok c s now hs (by omega)]; simp [hth, hs]
      obtain ⟨he1, g, he2⟩ := he
      simp only [List.replicate_succ, runSeq, allAdm, he2, Bool.true_and]
      exact closed_stays c now m _ he1
    · have hth : ¬ (s.successCount + 1 ≥ c.successThreshold) := by omega
      have he : (exec c s true now).1.st = .halfOpen ∧
          (exec c s true now).1.requestCount = (exec c s true now).1.successCount ∧
          (exec c s true now).1.successCount = s.successCount + 1 ∧
          ∃ g, (exec c s true now).2 = .admitted g := by
        rw [exec_halfOpen_ok c s now hs (by omega)]; simp [hth, hq, hs]
      obtain ⟨he1, he2, he3, g, he4⟩ := he
      simp only [List.replicate_succ, runSeq, allAdm, he4, Bool.true_and]
      exact ih _ m he1 he2 (by omega) (by omega) (by omega)

/-- **Never stuck.** For every configuration with `1 ≤ success_threshold ≤ max_requests`
(what validation plus defaulting guarantee), from every reachable breaker state with no
request in flight: once the open timeout has elapsed, `success_threshold` successful
requests are all admitted and leave the breaker closed — and it stays closed and admitting
for every further successful request. -/
theorem never_stuck (c : Cfg) (h1 : 1 ≤ c.successThreshold) (h2 : c.successThreshold ≤ c.maxRequests)
    (y : Sys) (hinv : Inv c y) (hq : y.inflight = []) (now : Nat)
    (hopen : y.s.st = .open_ → y.s.nextAttempt < now) (n : Nat) (hn : c.successThreshold ≤ n) :
    (runSeq c y.s (List.replicate n (true, now))).st = .closed ∧
    allAdm c y.s (List.replicate n (true, now)) = true := by
  obtain ⟨_, i2⟩ := hinv
  cases hst : y.s.st with
  | closed => exact closed_stays c now n _ hst
  | halfOpen =>
    have := i2 hst
    rw [hq] at this
    simp only [curInflight, Nat.add_zero] at this
    exact halfopen_recovers c h2 now (c.successThreshold - y.s.successCount) y.s n hst this.1.symm
      (by omega) (by omega) (by omega)
  | open_ =>
    have hna := hopen hst
    obtain ⟨m, rfl⟩ : ∃ m, n = m + 1 := ⟨n - 1, by omega⟩
    have hm : ¬ c.maxRequests = 0 := by omega
    by_cases hone : c.successThreshold = 1
    · have he : (exec c y.s true now).1.st = .closed ∧ ∃ g, (exec c y.s true now).2 = .admitted g := by
        simp [exec, begin, hst, hna, hm, end_, hone]
      obtain ⟨he1, g, he2⟩ := he
      simp only [List.replicate_succ, runSeq, allAdm, he2, Bool.true_and]
      exact closed_stays c now m _ he1
    · have hth : ¬ (0 + 1 ≥ c.successThreshold) := by omega
      have he : (exec c y.s true now).1.st = .halfOpen ∧
          (exec c y.s true now).1.requestCount = (exec c y.s true now).1.successCount ∧
          (exec c y.s true now).1.successCount = 1 ∧
          ∃ g, (exec c y.s true now).2 = .admitted g := by
        rw [exec_open_ok c y.s now hst hna hm]; simp [hth]
      obtain ⟨he1, he2, he3, g, he4⟩ := he
      simp only [List.replicate_succ, runSeq, allAdm, he4, Bool.true_and]
      exact halfopen_recovers c h2 now (c.successThreshold - 1) _ m he1 he2 (by omega) (by omega) (by omega)

/-- the repaired defaulting + validation: `max_requests = 0` means `success_threshold` -/
def effective (ft st mx iv to : Nat) : Cfg :=
  ({ maxRequests := if mx = 0 then (if st = 0 then 1 else st) else mx, interval := iv, timeout := to,
     failureThreshold := ft, successThreshold := st } : Cfg).withDefaults

/-- every configuration the validator accepts (`st ≥ 1`, and `mx = 0 ∨ st ≤ mx`) yields a
breaker configuration meeting the hypotheses of `never_stuck` -/
theorem accepted_config_live (ft st mx iv to : Nat) (hst : 1 ≤ st) (hrel : mx = 0 ∨ st ≤ mx) :
    1 ≤ (effective ft st mx iv to).successThreshold ∧
    (effective ft st mx iv to).successThreshold ≤ (effective ft st mx iv to).maxRequests := by
  have hst0 : ¬ st = 0 := by omega
  simp only [effective, Cfg.withDefaults, hst0, if_false]
  by_cases hm : mx = 0
  · simp only [hm, if_true, hst0, if_false]; omega
  · have : st ≤ mx := by rcases hrel with h | h; exact absurd h hm; exact h
    simp only [hm, if_false]; omega

/-! ### the stuck state of the unrepaired defaults, kept as a regression witness:
`success_threshold = 2`, `max_requests = 1`: one successful trial, then `tooMany` forever -/
private def cStuck : Cfg := { maxRequests := 1, interval := 100, timeout := 50, failureThreshold := 1, successThreshold := 2 }
example : allAdm cStuck (runSeq cStuck {} [(false, 0)]) (List.replicate 2 (true, 51)) = false := by decide
example : (runSeq cStuck {} [(false, 0), (true, 51), (true, 51), (true, 1000)]).st = .halfOpen := by decide
/-- non-vacuity of `never_stuck`: an open state of an accepted configuration -/
private def cLive : Cfg := effective 1 2 0 100 50
example : Inv cLive { s := runSeq cLive {} [(false, 0)] } ∧ (runSeq cLive {} [(false, 0)]).st = .open_ := by
  refine ⟨?_, by decide⟩
  unfold Inv
  constructor
  · intro p hp; exact absurd hp (List.not_mem_nil)
  · intro h; exact absurd h (by decide)

end Helios.CB
