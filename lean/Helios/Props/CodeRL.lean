import Helios.Generated.Code
import Helios.Model.RateLimiter
/-
Tie C — the translated code refines the hand-written models.

`Generated/Code.lean` is rewritten on every run by /verif/go/trans from the Go source as it is
now: `beforeRequest`, `afterRequest`, `setState` (circuit breaker), `refillTokens`, `Allow` (rate
limiter), `Backend.eligible`, `jumpHash`.  The theorems below state, for EVERY state and input
(not a sample), that each translated function computes exactly what the corresponding function of
the model computes, through an explicit abstraction map.  The property theorems (C03, C06–C09) are
about the models; these theorems carry them over to what the code says.

What the translator decides (trusted, see DESIGN §6): integer widths are unbounded in abstract
mode (exact for jumpHash), one `time.Now()` per call, lock operations skipped (one atomic step).
-/
namespace Helios.CodeTie
open Helios Helios.Generated

/-! ### rate limiter -/

def rlCfg (rl : Code.TokenBucketRateLimiter) (cutoff : Nat) : RL.Cfg :=
  { max := rl.maxTokens.toNat, refill := rl.refillRate.toNat, cutoff := cutoff }

def absB (b : Code.Bucket) : RL.Bucket := { tokens := b.tokens.toNat, last := b.lastRefill.toNat }

/-- what the constructor and the translated functions keep: a positive refill period, a
non-negative capacity, token count and instant -/
def WFB (rl : Code.TokenBucketRateLimiter) (b : Code.Bucket) : Prop :=
  0 < rl.refillRate ∧ 0 ≤ rl.maxTokens ∧ 0 ≤ b.tokens ∧ 0 ≤ b.lastRefill

/-- Go's truncating division against the model's natural-number division: equal when the
elapsed time is non-negative, and not positive when the clock stepped back -/
theorem tdiv_bridge (a r : Int) (hr : 0 < r) :
    (Int.tdiv a r).toNat = a.toNat / r.toNat ∧ (0 < Int.tdiv a r ↔ 0 < a.toNat / r.toNat) := by
  by_cases ha : 0 ≤ a
  · rw [Int.tdiv_eq_ediv_of_nonneg ha]
    obtain ⟨n, rfl⟩ := Int.eq_ofNat_of_zero_le ha
    obtain ⟨m, rfl⟩ := Int.eq_ofNat_of_zero_le (Int.le_of_lt hr)
    simp only [Int.toNat_natCast]
    rw [← Int.natCast_ediv]
    exact ⟨Int.toNat_natCast _, Int.natCast_pos⟩
  · have h1 := Int.tdiv_nonneg (a := -a) (b := r) (by omega) (by omega)
    rw [Int.neg_tdiv] at h1
    have h2 : a.toNat = 0 := by omega
    simp only [h2, Nat.zero_div, Nat.lt_irrefl, iff_false]
    omega

theorem refillTokens_refines (rl : Code.TokenBucketRateLimiter) (b : Code.Bucket) (now : Int) (cutoff : Nat)
    (hw : WFB rl b) (hn : 0 ≤ now) :
    absB (Code.refillTokens rl b now).2 = RL.refill (rlCfg rl cutoff) (absB b) now.toNat ∧
    (Code.refillTokens rl b now).1 = rl ∧ WFB rl (Code.refillTokens rl b now).2 := by
  obtain ⟨hr, hm, ht, hl⟩ := hw
  have hb := tdiv_bridge (now - b.lastRefill) rl.refillRate hr
  have hsub : (now - b.lastRefill).toNat = now.toNat - b.lastRefill.toNat := by omega
  rw [hsub] at hb
  unfold Code.refillTokens RL.refill
  simp only [absB, rlCfg]
  -- (the case facts are given to `simp` in both polarities — `0 < x` and `¬ x ≤ 0` —, so that the proof does not care
  -- whether the code tests `x > 0` and goes on or tests `x <= 0` and returns)
  by_cases c : 0 < Int.tdiv (now - b.lastRefill) rl.refillRate
  · have c' := hb.2.mp c
    have cn : ¬ Int.tdiv (now - b.lastRefill) rl.refillRate ≤ 0 := by omega
    by_cases c2 : rl.maxTokens < b.tokens + Int.tdiv (now - b.lastRefill) rl.refillRate
    · have e : min (b.tokens.toNat + (now.toNat - b.lastRefill.toNat) / rl.refillRate.toNat) rl.maxTokens.toNat
          = rl.maxTokens.toNat := by rw [← hb.1]; omega
      have c2n : ¬ b.tokens + Int.tdiv (now - b.lastRefill) rl.refillRate ≤ rl.maxTokens := by omega
      simp [c, c', cn, c2, c2n, WFB, hr, hm, hn, e]
    · have e : min (b.tokens.toNat + (now.toNat - b.lastRefill.toNat) / rl.refillRate.toNat) rl.maxTokens.toNat
          = (b.tokens + Int.tdiv (now - b.lastRefill) rl.refillRate).toNat := by rw [← hb.1]; omega
      have c2n : b.tokens + Int.tdiv (now - b.lastRefill) rl.refillRate ≤ rl.maxTokens := by omega
      simp [c, c', cn, c2, c2n, WFB, hr, hm, hn, e]
      omega
  · have c' : ¬ 0 < (now.toNat - b.lastRefill.toNat) / rl.refillRate.toNat := fun h => c (hb.2.mpr h)
    have cn : Int.tdiv (now - b.lastRefill) rl.refillRate ≤ 0 := by omega
    simp [c, c', cn, WFB, hr, hm, ht, hl]

theorem allow_refines (rl : Code.TokenBucketRateLimiter) (b : Code.Bucket) (now : Int) (cutoff : Nat)
    (hw : WFB rl b) (hn : 0 ≤ now) :
    absB (Code.Allow rl b now).2.1 = (RL.spend (rlCfg rl cutoff) (absB b) now.toNat).1 ∧
    (Code.Allow rl b now).2.2 = (RL.spend (rlCfg rl cutoff) (absB b) now.toNat).2 ∧
    (Code.Allow rl b now).1 = rl ∧ WFB rl (Code.Allow rl b now).2.1 := by
  obtain ⟨h1, h2, h3⟩ := refillTokens_refines rl b now cutoff hw hn
  unfold Code.Allow RL.spend
  rw [← h1]
  generalize Code.refillTokens rl b now = r at *
  obtain ⟨rl', b'⟩ := r
  simp only at h2 h3 ⊢
  subst h2
  obtain ⟨hr, hm, ht, hl⟩ := h3
  by_cases c : 0 < b'.tokens
  · have c' : 0 < b'.tokens.toNat := by omega
    have e : (b'.tokens - 1).toNat = b'.tokens.toNat - 1 := by omega
    simp [c, absB, c', WFB, hr, hm, hl, e]
    omega
  · have c' : ¬ 0 < b'.tokens.toNat := by omega
    simp [c, absB, c', WFB, hr, hm, ht, hl]


/-! ### the translation of these functions -/

/-- every function of this group was translated; nothing in them fell outside the fragment -/
theorem translation_clean_rl :
    ["refillTokens", "Allow"].all (fun f => Code.translated.contains f) = true ∧
    (Code.translationProblems.filter (fun p => ["refillTokens", "Allow"].contains p.1)) = [] := by
  decide

example : WFB { maxTokens := 3, refillRate := 1000000000, cleanupTick := 600000000000 } { tokens := 3, lastRefill := 5 } := by
  simp [WFB]
end Helios.CodeTie
