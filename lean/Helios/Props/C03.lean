import Helios.Props.C02
import Helios.Props.C08
import Helios.Props.C13
/-
C03 — fault containment.

What the model can carry of "no fault can wedge or permanently degrade the proxy":

 * after ANY history (any fault sequence, any interleaving of begins and ends — the state `y`
   below is arbitrary), a request is forwarded to a healthy backend as soon as the three
   gates let it through, and each gate opens by the passage of time alone:
     - the limiter: a client whose bucket has a token (refill is time driven — C09);
     - the breaker: closed, or open with the timeout elapsed, or half-open with budget left —
       and from every reachable breaker state with nothing in flight that is the case once
       the timeout has elapsed (`breaker_gate_opens`, from C08's invariant);
     - health: some backend is outside its unhealthy window — windows end by themselves
       (lazy expiry, C04) — and then no strategy answers 503 (C02).
   `recovers` puts the three together.
 * the gauges cannot be skewed by faults: every completed or aborted exchange leaves the
   in-flight gauge equal to the number of exchanges really in flight (C13's conservation
   theorems, re-exported here as the fault-containment clause they are).
 * no lock is held while a callback runs and locks are taken in rank order, so no fault
   sequence can deadlock the mutexes (C12's `lockorder_sound` + regenerated facts).

The socket-level part — that every faulted request ends within the configured timeouts — is
the standard library's transport / server timeouts; that Helios sets every one of them to a
non-zero value on every construction path is a regenerated fact (`timeouts_set`).
-/
namespace Helios.LB
open Helios

/-- the breaker lets a request through at `now` -/
def cbAdmits (c : CB.Cfg) (s : CB.State) (now : Nat) : Prop :=
  s.st = .closed ∨ (s.st = .open_ ∧ s.nextAttempt < now ∧ c.maxRequests ≠ 0) ∨
  (s.st = .halfOpen ∧ s.requestCount < c.maxRequests)

theorem cbGate_admits (y : Sys) (now : Nat)
    (h : ∀ c s, y.cb = some (c, s) → cbAdmits c s now) :
    ∃ g, (cbGate y now).2 = .inr g := by
  simp only [cbGate]
  cases hcb : y.cb with
  | none => exact ⟨none, rfl⟩
  | some p =>
    obtain ⟨c, s⟩ := p
    have ha := h c s hcb
    simp only []
    rcases ha with h1 | ⟨h1, h2, h3⟩ | ⟨h1, h2⟩
    · simp [CB.begin, h1]
    · simp [CB.begin, h1, h2, h3]
    · have : ¬ s.requestCount ≥ c.maxRequests := by omega
      simp [CB.begin, h1, this]

/-- **Recovery.** Whatever happened before — `y` is an arbitrary state of the balancer: any
strategy, any pool, any health flags, gauges, rotation position, passive counters, breaker
and limiter state — a request whose client has a token, that the breaker admits, and for
which some backend is outside its unhealthy window, is forwarded to a configured backend
outside its unhealthy window. No fault history can leave the balancer refusing traffic that
its gates would admit. -/
theorem recovers (y : Sys) (tid now : Nat) (r : Addr.Req) (hg : Guard y.strat)
    (hrl : (rlGate { y with total := y.total + 1 } now r).2 = true)
    (hcb : ∀ c s, (rlGate { y with total := y.total + 1 } now r).1.cb = some (c, s) → cbAdmits c s now)
    (o : Obj) (ho : o ∈ y.pool) (hh : o.b.inWindow now = false) :
    ∃ name, (begin y tid now r).2 = .fwd name ∧
      ∃ o' ∈ y.pool, o'.b.name = name ∧ o'.b.inWindow now = false := by
  have hno := no_503_while_healthy y tid now r hg o ho hh
  cases hres : (begin y tid now r).2 with
  | fwd name => exact ⟨name, rfl, dispatch_sound y tid now r name hres⟩
  | noBackend => exact absurd hres hno
  | limited =>
    exfalso
    simp only [begin, hrl, Bool.not_true, Bool.false_eq_true, if_false] at hres
    obtain ⟨g, hg'⟩ := cbGate_admits _ now hcb
    rw [hg'] at hres
    exact (dispatch_result _ g tid now r).2.2.1 hres
  | cbOpen =>
    exfalso
    simp only [begin, hrl, Bool.not_true, Bool.false_eq_true, if_false] at hres
    obtain ⟨g, hg'⟩ := cbGate_admits _ now hcb
    rw [hg'] at hres
    exact (dispatch_result _ g tid now r).2.2.2.1 hres
  | cbTooMany =>
    exfalso
    simp only [begin, hrl, Bool.not_true, Bool.false_eq_true, if_false] at hres
    obtain ⟨g, hg'⟩ := cbGate_admits _ now hcb
    rw [hg'] at hres
    exact (dispatch_result _ g tid now r).2.2.2.2 hres

/-- **The limiter gate opens by itself.** A client that has no bucket yet, or whose bucket was last
touched at least one refill period ago, is admitted — whatever the bucket holds (any fault
history may have drained it), for every configuration with `max_tokens ≥ 1`. -/
theorem spend_after_refill (c : RL.Cfg) (b : RL.Bucket) (now : Nat) (hmax : 1 ≤ c.max) (hR : 0 < c.refill)
    (hidle : b.last + c.refill ≤ now) : (RL.spend c b now).2 = true := by
  have hadd : 1 ≤ (now - b.last) / c.refill := by
    rw [Nat.le_div_iff_mul_le hR]; omega
  simp only [RL.spend, RL.refill]
  have h0 : 0 < (now - b.last) / c.refill := by omega
  simp only [h0, if_true]
  have : 0 < min (b.tokens + (now - b.last) / c.refill) c.max := by
    rw [Nat.lt_min]; omega
  simp [this]

theorem rlGate_admits (y : Sys) (now : Nat) (r : Addr.Req)
    (h : ∀ c m, y.rl = some (c, m) → 1 ≤ c.max ∧ 0 < c.refill ∧
      (m (Bytes.hex (Addr.clientIP r)) = none ∨
       ∃ b, m (Bytes.hex (Addr.clientIP r)) = some b ∧ b.last + c.refill ≤ now)) :
    (rlGate y now r).2 = true := by
  simp only [rlGate]
  cases hrl : y.rl with
  | none => rfl
  | some p =>
    obtain ⟨c, m⟩ := p
    obtain ⟨hmax, hR, hb⟩ := h c m hrl
    simp only [RL.step, RL.allow1]
    rcases hb with hb | ⟨b, hb, hidle⟩
    · -- a fresh bucket is full
      simp only [hb, RL.bucketOf, RL.fresh, RL.spend, RL.refill]
      have : ¬ (0 < (now - now) / c.refill) := by simp
      simp only [this, if_false]
      have : 0 < c.max := by omega
      simp [this]
    · simp only [hb, RL.bucketOf]
      rw [spend_after_refill c b now hmax hR hidle]; simp

/-- **Recovery by the passage of time alone.** From ANY balancer state — whatever faults
happened before — once (i) the client's bucket has been idle for one refill period (or the
client is new), (ii) the breaker is closed, or its open timeout has elapsed, or it is half-open
with budget left (`breaker_gate_opens`: true whenever nothing is in flight and the timeout
elapsed), and (iii) some backend's unhealthy window has ended, the next request is forwarded
to a backend outside its unhealthy window. -/
theorem recovers_by_time (y : Sys) (tid now : Nat) (r : Addr.Req) (hg : Guard y.strat)
    (hrl : ∀ c m, y.rl = some (c, m) → 1 ≤ c.max ∧ 0 < c.refill ∧
      (m (Bytes.hex (Addr.clientIP r)) = none ∨
       ∃ b, m (Bytes.hex (Addr.clientIP r)) = some b ∧ b.last + c.refill ≤ now))
    (hcb : ∀ c s, y.cb = some (c, s) → cbAdmits c s now)
    (o : Obj) (ho : o ∈ y.pool) (hh : o.b.inWindow now = false) :
    ∃ name, (begin y tid now r).2 = .fwd name ∧
      ∃ o' ∈ y.pool, o'.b.name = name ∧ o'.b.inWindow now = false := by
  apply recovers y tid now r hg
  · exact rlGate_admits { y with total := y.total + 1 } now r hrl
  · intro c s hcs
    have : (rlGate { y with total := y.total + 1 } now r).1.cb = y.cb := by
      simp only [rlGate]; split <;> rfl
    rw [this] at hcs
    exact hcb c s hcs
  · exact ho
  · exact hh

end Helios.LB

namespace Helios.CB

/-- **The breaker gate opens by itself.** In every reachable breaker state with no request in
flight, once the open timeout has elapsed the next request is admitted — for every
configuration with `1 ≤ success_threshold ≤ max_requests` (what validation guarantees, C18). -/
theorem breaker_gate_opens (c : Cfg) (h1 : 1 ≤ c.successThreshold) (h2 : c.successThreshold ≤ c.maxRequests)
    (y : Sys) (hinv : Inv c y) (hq : y.inflight = []) (now : Nat)
    (hopen : y.s.st = .open_ → y.s.nextAttempt < now) :
    Helios.LB.cbAdmits c y.s now := by
  cases hst : y.s.st with
  | closed => exact Or.inl hst
  | open_ => exact Or.inr (Or.inl ⟨hst, hopen hst, by omega⟩)
  | halfOpen =>
    have := hinv.2 hst
    rw [hq] at this
    simp only [curInflight, Nat.add_zero] at this
    exact Or.inr (Or.inr ⟨hst, by omega⟩)

end Helios.CB
