import Helios.Generated.Facts
import Helios.Model.LB
import Helios.Model.Admin
import Helios.Model.Config
import Helios.Model.Registry
/-
Tie B — facts regenerated from the Go source on every run (Helios/Generated/Facts.lean is
written by /verif/go/extract) and the obligations that connect them to the hand-written
model.  A source change that alters a fact makes one of these fail to check.
-/
namespace Helios.Facts

/-- the extractor found every construct it looks for -/
theorem extraction_clean : extractionProblems = [] := by decide

/-- `findHealthyBackend` tries the strategy as often as the model does -/
theorem retry_budget_eq : retryBudget = (LB.retryBudget : Int) := by decide

/-- the rate limiter's cleanup looks one hour back (the cutoff the C09 differential passes to the model) -/
theorem rl_cutoff_eq : rlCutoffNs = 3600000000000 := by decide

/-- the multiplier of the jump-hash step is the model's -/
theorem jump_mul_eq : jumpMul = Hash.jumpMul.toNat := by decide

/-- validator, `SetStrategy` and `createStrategy` know exactly the five modelled strategies -/
theorem strategies_eq :
    validatorStrategies = ["ip_hash", "ip_hash_consistent", "least_connections", "round_robin", "weighted_round_robin"] ∧
    setStrategyNames = validatorStrategies ∧ createStrategyNames = validatorStrategies ∧
    (∀ s ∈ validatorStrategies, s ∈ Cfg.strategies) ∧ (∀ s ∈ Cfg.strategies, s ∈ validatorStrategies) ∧
    (∀ s ∈ validatorStrategies, (LB.kindOfName s).isSome = true) := by decide

/-- the admin mux registers exactly the modelled routes, each behind `auth` except /v1/health -/
theorem routes_eq : adminRoutes = Admin.routes.map (fun r => (r.path, r.auth)) := by decide

/-- the admin IP filter neither reads request headers nor falls back to the bare mux -/
theorem ip_filter_closed : ipFilterUsesHeaders = false ∧ ipFilterFailOpen = false := by decide

/-- **Every ResponseWriter wrapper passes Hijack and Flush on** (or exposes Unwrap): a
WebSocket upgrade and a streamed response survive every plugin chain. -/
theorem wrappers_capable : ∀ w ∈ writerWrappers, w.hijack = true ∧ (w.flush = true ∨ w.unwrap = true) := by decide

/-- the wrappers are the five the writer models cover -/
theorem wrappers_known : writerWrappers.map (·.name) =
    ["loadbalancer.responseWriter", "logging.idHeaderWriter", "plugins.gzipResponseWriter",
     "plugins.limitedResponseWriter", "plugins.statusRecorder"] := by
  decide

/-- **C01: the pass-through configuration the proxy model assumes.** ReverseProxy flushes after
every write (FlushInterval -1); the backend transport neither adds Accept-Encoding nor decodes
responses (DisableCompression); the balancer's own writer defines only WriteHeader / Flush /
Hijack / Unwrap — body and header map are the embedded writer's — and WriteHeader passes the
backend's status on unchanged; the handler is composed balancer → plugin chain → request
context middleware, inside out. -/
theorem proxy_passthrough :
    proxyFlushImmediate = true ∧ transportNoCompress = true ∧
    lbWriterMethods = ["Flush", "Hijack", "Unwrap", "WriteHeader"] ∧ lbWriterForwards = true ∧
    handlerOrder = ["lb", "BuildChain", "RequestContextMiddleware", "withHandlerTimeout"] := by decide

/-- **C03: every timeout is set, on every construction path.** The backend transport's dial,
response-header, idle, TLS-handshake and expect-continue timeouts and the front server's read,
write and idle timeouts are each given a value that cannot be zero (a variable guarded by
`if v == 0 { v = default }`, or a non-zero constant), and the end-to-end handler timeout is
applied around the whole chain with a defaulted value. -/
theorem timeouts_set :
    (timeoutFields.map (fun t => (t.1, t.2.1))) =
      [("AddBackend", "http.Transport.ExpectContinueTimeout"), ("AddBackend", "http.Transport.IdleConnTimeout"),
       ("AddBackend", "http.Transport.ResponseHeaderTimeout"), ("AddBackend", "http.Transport.TLSHandshakeTimeout"),
       ("AddBackend", "net.Dialer.Timeout"), ("createHTTPServer", "http.Server.IdleTimeout"),
       ("createHTTPServer", "http.Server.ReadTimeout"), ("createHTTPServer", "http.Server.WriteTimeout")] ∧
    timeoutFields.all (fun t => t.2.2 == "ok") = true ∧ handlerTimeoutApplied = true := by decide

theorem log_enums_eq : (∀ s ∈ logLevels, s ∈ Cfg.logLevels) ∧ (∀ s ∈ Cfg.logLevels, s ∈ logLevels) ∧
    (∀ s ∈ logFormats, s ∈ Cfg.logFormats) ∧ (∀ s ∈ Cfg.logFormats, s ∈ logFormats) := by decide

/-- every registered plugin other than `request-id` has a factory in the model -/
theorem plugins_eq : plugins = ["custom-auth", "gzip", "headers", "logging", "request-id", "size_limit"] := by decide

/-- **The shutdown protocol of the code is the one the model (Helios.Shut) steps through:**
`Stop` cancels, joins the health-check loop, only then waits for the probes, then shuts the
pool; `healthCheckWg.Add` is called only from the fan-out, which only the loop goroutine
runs; a probe looks at the context before doing anything and its request is bound to it;
the process-level shutdown drains the HTTP server before stopping the balancer, and stops the
balancer on every path (also when draining ran into the shutdown timeout). -/
theorem shutdown_protocol :
    stopSequence = ["cancel", "joinLoop", "wgWait", "poolShutdown"] ∧
    wgAddFuncs = ["checkBackendsHealth"] ∧ fanoutCallers = ["startActiveHealthChecks"] ∧
    probeChecksCtxFirst = true ∧ probeBoundToCtx = true ∧
    gracefulSequence = ["serverShutdown", "lbStop"] ∧ gracefulStopAlways = true := by decide

/-- the stop signals are registered once and never un-registered: a signal that arrives while the
process is draining is absorbed instead of taking its default action (C19: repeated stop calls are harmless) -/
theorem signals_stay_registered : signalsStayRegistered = true := by decide

/-- `CircuitBreaker.Execute`: a panic inside the protected call is recorded as a failure of that call
(`afterRequest(generation, false)`) and then continues as the same panic — it is neither swallowed nor
left unrecorded, whatever its value. The model's `end_ … false` for a panicking request, and the
proxy's way of aborting a response whose backend died (a panic with `http.ErrAbortHandler`), rest on it. -/
theorem execute_panic_is_failure_and_propagates : executeRecoverArm = true := by decide

end Helios.Facts
