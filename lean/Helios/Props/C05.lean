import Helios.Lemmas.Strategy
/-
C05 — Distribution contracts of round_robin, least_connections (weighted_round_robin: see
Helios/Props/C05W.lean).
-/
namespace Helios.LB

/-! ### round robin -/

/-- indices chosen by `m` consecutive round-robin picks -/
def rrSeq (pool : List Backend) (now : Nat) : Nat → Nat → List Nat
  | 0, _ => []
  | m+1, cur =>
    let r := rrPick pool now cur
    (match r.2 with | some i => [i] | none => []) ++ rrSeq pool now m r.1

theorem rrPick_all_eligible (pool : List Backend) (now cur : Nat) (hn : 0 < pool.length)
    (hall : ∀ b ∈ pool, b.eligible now = true) (hw : cur + 1 < two64) :
    rrPick pool now cur = (cur + 1, some ((cur + 1) % pool.length)) := by
  have h0 : ¬ pool.length = 0 := by omega
  obtain ⟨k, hk⟩ : ∃ k, pool.length = k + 1 := ⟨pool.length - 1, by omega⟩
  simp only [rrPick, h0, if_false]
  rw [hk]
  simp only [rrLoop]
  have hmod : (cur + 1) % two64 = cur + 1 := Nat.mod_eq_of_lt hw
  rw [hmod, ← hk]
  have hidx : (cur + 1) % pool.length < pool.length := Nat.mod_lt _ hn
  rw [List.getElem?_eq_getElem hidx]
  simp only []
  rw [hall _ (List.getElem_mem hidx)]
  simp

theorem rrSeq_all_eligible (pool : List Backend) (now : Nat) (hn : 0 < pool.length)
    (hall : ∀ b ∈ pool, b.eligible now = true) (m : Nat) : ∀ cur, cur + m < two64 →
    rrSeq pool now m cur = (List.range m).map (fun t => (cur + 1 + t) % pool.length) := by
  induction m with
  | zero => intro cur _; simp [rrSeq]
  | succ k ih =>
    intro cur hw
    simp only [rrSeq]
    rw [rrPick_all_eligible pool now cur hn hall (by omega)]
    simp only []
    rw [ih (cur + 1) (by omega)]
    rw [List.range_succ_eq_map]
    simp only [List.map_cons, List.map_map, List.singleton_append, Nat.add_zero]
    congr 1
    apply List.map_congr_left
    intro t _
    simp only [Function.comp]
    congr 1; omega

theorem count_range (n j : Nat) : (List.range n).count j = if j < n then 1 else 0 := by
  induction n with
  | zero => simp
  | succ n ih =>
    rw [List.range_succ, List.count_append, ih]
    simp only [List.count_cons, List.count_nil]
    by_cases h1 : j < n
    · have : ¬ (n == j) = true := by simp; omega
      simp [h1, this]; omega
    · by_cases h2 : j = n
      · subst h2; simp
      · have : ¬ (n == j) = true := by simp; omega
        simp [h1, this]; omega

/-- one full turn starting anywhere visits index `j` exactly once -/
theorem count_window (n j : Nat) (hj : j < n) : ∀ c,
    ((List.range n).map (fun t => (c + t) % n)).count j = 1 := by
  intro c
  induction c with
  | zero =>
    have : (List.range n).map (fun t => (0 + t) % n) = List.range n := by
      conv => rhs; rw [← List.map_id (List.range n)]
      apply List.map_congr_left
      intro t ht
      simp only [List.mem_range] at ht
      simp [Nat.mod_eq_of_lt ht]
    rw [this]
    rw [count_range]; simp [hj]
  | succ c ih =>
    -- window(c+1) = tail(window c) ++ [(c+n) % n], and (c+n) % n = c % n = head(window c)
    obtain ⟨k, rfl⟩ : ∃ k, n = k + 1 := ⟨n - 1, by omega⟩
    have e1 : (List.range (k + 1)).map (fun t => (c + t) % (k + 1)) =
        (c % (k + 1)) :: (List.range k).map (fun t => (c + 1 + t) % (k + 1)) := by
      rw [List.range_succ_eq_map]
      simp only [List.map_cons, List.map_map, Nat.add_zero]
      congr 1
      apply List.map_congr_left
      intro t _
      simp only [Function.comp]
      congr 1; omega
    have e2 : (List.range (k + 1)).map (fun t => (c + 1 + t) % (k + 1)) =
        (List.range k).map (fun t => (c + 1 + t) % (k + 1)) ++ [(c % (k + 1))] := by
      rw [List.range_succ, List.map_append]
      simp only [List.map_cons, List.map_nil]
      congr 2
      rw [show c + 1 + k = c + (k + 1) by omega, Nat.add_mod_right]
    rw [e1] at ih
    rw [e2, List.count_append]
    simp only [List.count_cons, List.count_nil] at ih ⊢
    omega

theorem count_periods (n j : Nat) (hj : j < n) (k : Nat) : ∀ c,
    ((List.range (n * k)).map (fun t => (c + t) % n)).count j = k := by
  induction k with
  | zero => intro c; simp
  | succ k ih =>
    intro c
    have hsplit : List.range (n * (k + 1)) = List.range (n * k) ++ (List.range n).map (· + n * k) := by
      rw [Nat.mul_succ, List.range_add]
      congr 1
      apply List.map_congr_left
      intro t _; omega
    rw [hsplit, List.map_append, List.count_append, ih c, List.map_map]
    have : ((List.range n).map ((fun t => (c + t) % n) ∘ (· + n * k))) =
        (List.range n).map (fun t => (c + t) % n) := by
      apply List.map_congr_left
      intro t _
      simp only [Function.comp]
      rw [show c + (t + n * k) = c + t + n * k by omega, Nat.add_mul_mod_self_left]
    rw [this, count_window n j hj c]

/-- **Round robin, exact shares.** With all `n` backends eligible, any `n·k` consecutive
picks — starting at any rotation position, as long as the 64-bit counter does not wrap —
give every backend exactly `k` of them (`k = 1`: one of every `n` consecutive requests).
Each pick is one atomic increment, so the sequence is any interleaving of concurrent
pickers. -/
theorem rr_exact (pool : List Backend) (now cur k : Nat) (hn : 0 < pool.length)
    (hall : ∀ b ∈ pool, b.eligible now = true) (hw : cur + pool.length * k < two64)
    (j : Nat) (hj : j < pool.length) :
    (rrSeq pool now (pool.length * k) cur).count j = k := by
  rw [rrSeq_all_eligible pool now hn hall _ cur hw]
  exact count_periods pool.length j hj k (cur + 1)

/-! ### least connections -/

/-- **Least connections.** The chosen backend is eligible and its in-flight gauge is
minimal among all eligible backends (for the gauge values the scan read). -/
theorem lc_min (pool : List Backend) (now r : Nat) (h : lcPick pool now = some r) :
    ∃ b, pool[r]? = some b ∧ b.eligible now = true ∧
      ∀ b' ∈ pool, b'.eligible now = true → b.conns ≤ b'.conns := by
  obtain ⟨b, h1, h2, h3⟩ := (lcPick_spec pool now).1 r h
  refine ⟨b, h1, h2, ?_⟩
  intro b' hb' he
  obtain ⟨j, hj, hjb⟩ := List.getElem_of_mem hb'
  exact h3 j b' (by rw [List.getElem?_eq_getElem hj, hjb]) he

/-! ### weights -/

/-- weights below 1 count as 1 (the normalisation of `AddBackend`) -/
def normWeight (w : Int) : Nat := if w < 1 then 1 else w.toNat

theorem normWeight_pos (w : Int) : 1 ≤ normWeight w := by
  simp only [normWeight]; split <;> omega

/-! ### non-vacuity -/
private def mkb (n : String) : Backend := { name := n, weight := 1, healthy := true, until_ := none, conns := 0, cw := 0 }
example : rrSeq [mkb "a", mkb "b", mkb "c"] 0 6 7 = [2, 0, 1, 2, 0, 1] := by decide

end Helios.LB
