import Helios.Generated.Code
import Helios.Model.Strategy
import Helios.Model.LB
/-
Tie C — the translated code refines the hand-written models.

`Generated/Code.lean` is rewritten on every run by /verif/go/trans from the Go source as it is
now: `beforeRequest`, `afterRequest`, `setState` (circuit breaker), `refillTokens`, `Allow` (rate
limiter), `Backend.eligible`, `jumpHash`.  The theorems below state, for EVERY state and input
(not a sample), that each translated function computes exactly what the corresponding function of
the model computes, through an explicit abstraction map.  The property theorems (C03, C06–C09) are
about the models; these theorems carry them over to what the code says.

What the translator decides (trusted, see DESIGN §6): integer widths are unbounded in abstract
mode (exact for jumpHash), one `time.Now()` per call, lock operations skipped (one atomic step).
-/
namespace Helios.CodeTie
open Helios Helios.Generated

/-! ### backend eligibility -/

def absBackend (b : Code.Backend) (cw : Int) : LB.Backend :=
  { name := b.Name, weight := b.Weight.toNat, healthy := b.IsHealthy,
    until_ := if b.UnhealthyUntil = 0 then none else some b.UnhealthyUntil.toNat,
    conns := b.ActiveConnections, cw := cw }

theorem eligible_refines (b : Code.Backend) (now : Int) (cw : Int) (hu : 0 ≤ b.UnhealthyUntil) (hn : 0 ≤ now) :
    (Code.eligible b now).2 = (absBackend b cw).eligible now.toNat ∧ (Code.eligible b now).1 = b := by
  unfold Code.eligible LB.Backend.eligible absBackend
  by_cases c : b.UnhealthyUntil = 0
  · simp [c]
  · have e : (b.UnhealthyUntil == 0) = false := by simpa using c
    have : (b.UnhealthyUntil.toNat < now.toNat) ↔ (b.UnhealthyUntil < now) := by omega
    simp [c, e, this]

/-! ### the health state machine (C04): ejection, lazy expiry, probe answers -/

/-- object-level reading of the model's `isHealthyAt`: the verdict and the flag afterwards -/
def checkObj (b : LB.Backend) (now : Nat) : LB.Backend × Bool :=
  if b.healthy then (b, true)
  else if LB.expired b now then ({ b with healthy := true }, true) else (b, false)

/-- the model's `isHealthyAt` on pool slot `i` is `checkObj` on the backend in that slot -/
theorem isHealthyAt_checkObj (y : LB.Sys) (i now : Nat) (o : LB.Obj) (ho : y.pool[i]? = some o) :
    (LB.isHealthyAt y i now).2 = (checkObj o.b now).2 ∧
    (LB.isHealthyAt y i now).1.pool[i]? = some { o with b := (checkObj o.b now).1 } := by
  have hlt : i < y.pool.length := (List.getElem?_eq_some_iff.mp ho).1
  unfold LB.isHealthyAt checkObj
  simp only [ho]
  by_cases h : o.b.healthy = true
  · simp [h, ho]
  · have h' : o.b.healthy = false := by simpa using h
    by_cases hx : LB.expired o.b now = true
    · simp [h', hx, List.getElem?_set_self hlt]
    · have hx' : LB.expired o.b now = false := by simpa using hx
      simp [h', hx', ho]

theorem markUnhealthy_refines (lb : Code.LoadBalancer) (b : Code.Backend) (dur now cw : Int) (id : Nat)
    (hn : 0 < now) (hd : 0 ≤ dur) :
    absBackend (Code.MarkBackendUnhealthy lb b dur now).2 cw =
      (LB.ejectObj ⟨id, absBackend b cw⟩ now.toNat dur.toNat).b ∧
    (Code.MarkBackendUnhealthy lb b dur now).1.fx =
      lb.fx ++ (if lb.metricsCollector then [(b.Name, false)] else []) ∧
    (Code.MarkBackendUnhealthy lb b dur now).1.healthChecks = lb.healthChecks ∧
    (Code.MarkBackendUnhealthy lb b dur now).1.metricsCollector = lb.metricsCollector := by
  have hne : now + dur ≠ 0 := by omega
  have ht : (now + dur).toNat = now.toNat + dur.toNat := by omega
  unfold Code.MarkBackendUnhealthy
  cases hm : lb.metricsCollector <;> simp [absBackend, LB.ejectObj, hne, ht, hm]

/-- `handleHealthCheckFailure` (a probe that failed in transport) ejects for the configured passive
timeout — the same window as a probe answered with a bad status -/
theorem handleFailure_is_eject (lb : Code.LoadBalancer) (b : Code.Backend) (err : Option (String × List String)) (now : Int) :
    Code.handleHealthCheckFailure lb b err now = Code.MarkBackendUnhealthy lb b lb.healthChecks.passiveTimeout now := by
  unfold Code.handleHealthCheckFailure
  rfl

theorem isBackendHealthy_refines (lb : Code.LoadBalancer) (b : Code.Backend) (now cw : Int)
    (hn : 0 < now) (hu : 0 ≤ b.UnhealthyUntil) :
    (Code.IsBackendHealthy lb b now).2.2 = (checkObj (absBackend b cw) now.toNat).2 ∧
    absBackend (Code.IsBackendHealthy lb b now).2.1 cw = (checkObj (absBackend b cw) now.toNat).1 ∧
    (Code.IsBackendHealthy lb b now).1.fx =
      lb.fx ++ (if lb.metricsCollector && !b.IsHealthy && (checkObj (absBackend b cw) now.toNat).2
                then [(b.Name, true)] else []) := by
  unfold Code.IsBackendHealthy checkObj LB.expired
  cases hh : b.IsHealthy
  · by_cases hz : b.UnhealthyUntil = 0
    · have hgt : now > b.UnhealthyUntil := by omega
      cases hm : lb.metricsCollector <;> simp [absBackend, hh, hz, hgt, hm, hn]
    · by_cases hgt : now > b.UnhealthyUntil
      · have hlt : b.UnhealthyUntil.toNat < now.toNat := by omega
        cases hm : lb.metricsCollector <;> simp [absBackend, hh, hz, hgt, hm, hlt]
      · have hlt : ¬ b.UnhealthyUntil.toNat < now.toNat := by omega
        cases hm : lb.metricsCollector <;> simp [absBackend, hh, hz, hgt, hm, hlt]
  · simp [absBackend, hh]

/-- the probe-answer step of the model on one backend: a bad answer ejects for `ejectFor`; a good
one marks healthy unless the backend was ejected meanwhile and that window still runs -/
def probeEndObj (o : LB.Obj) (now ejectFor : Nat) (ok : Bool) : LB.Obj :=
  if !ok then LB.ejectObj o now ejectFor
  else if LB.stillEjected o.b now then o else { o with b := { o.b with healthy := true } }

/-- the model's `probeEnd` on the pool slot of the probed backend is `probeEndObj` -/
theorem probeEnd_probeEndObj (y : LB.Sys) (name : String) (now i : Nat) (ok : Bool) (o : LB.Obj)
    (hi : y.pool.findIdx? (·.b.name = name) = some i) (ho : y.pool[i]? = some o) :
    (LB.probeEnd y name now ok).1.pool[i]? = some (probeEndObj o now y.hc.ejectFor ok) := by
  have hlt : i < y.pool.length := (List.getElem?_eq_some_iff.mp ho).1
  unfold LB.probeEnd probeEndObj
  simp only [hi]
  cases ok
  · simp [LB.eject, hi, ho, List.getElem?_set_self hlt]
  · simp only [Bool.not_true, Bool.false_eq_true, if_false, ho]
    by_cases hs : LB.stillEjected o.b now = true
    · simp [hs, ho]
    · have hs' : LB.stillEjected o.b now = false := by simpa using hs
      simp [hs', List.getElem?_set_self hlt]

theorem processResponse_refines (lb : Code.LoadBalancer) (b : Code.Backend) (status now cw : Int) (id : Nat)
    (hn : 0 < now) (hu : 0 ≤ b.UnhealthyUntil) (hp : 0 ≤ lb.healthChecks.passiveTimeout) :
    absBackend (Code.processHealthCheckResponse lb b status now).2 cw =
      (probeEndObj ⟨id, absBackend b cw⟩ now.toNat lb.healthChecks.passiveTimeout.toNat (status == 200)).b := by
  unfold Code.processHealthCheckResponse probeEndObj
  by_cases hs : status = 200
  · subst hs
    unfold LB.stillEjected
    cases hh : b.IsHealthy
    · by_cases hz : b.UnhealthyUntil = 0
      · have hgt : now > b.UnhealthyUntil := by omega
        have hn0 : ¬ now ≤ 0 := by omega
        cases hm : lb.metricsCollector <;> simp [absBackend, hh, hz, hgt, hm, hn0]
      · by_cases hgt : now > b.UnhealthyUntil
        · have hle : ¬ now.toNat ≤ b.UnhealthyUntil.toNat := by omega
          cases hm : lb.metricsCollector <;> simp [absBackend, hh, hz, hgt, hm, hle]
        · have hle : now.toNat ≤ b.UnhealthyUntil.toNat := by omega
          cases hm : lb.metricsCollector <;> simp [absBackend, hh, hz, hgt, hm, hle]
    · cases hm : lb.metricsCollector <;> simp [absBackend, hh, hm]
  · have hs' : (status != 200) = true := by simpa using hs
    have hs'' : (status == 200) = false := by simpa using hs
    simp only [hs', hs'', if_true, Bool.not_false]
    exact (markUnhealthy_refines lb b lb.healthChecks.passiveTimeout now cw id hn hp).1

/-- object-level reading of the model's `passiveFail`: the new per-name failure counter and
whether the threshold was reached (then the backend is ejected and its counter cleared) -/
def passiveObj (cnt : String → Nat) (thr : Int) (name : String) : (String → Nat) × Bool :=
  let n := cnt name + 1
  if (n : Int) ≥ thr then (fun k => if k = name then 0 else cnt k, true)
  else (fun k => if k = name then n else cnt k, false)

theorem passiveFail_passiveObj (y : LB.Sys) (id : Nat) (name : String) (now : Nat) :
    (LB.passiveFail y id name now).failCnt = (passiveObj y.failCnt y.hc.threshold name).1 ∧
    (LB.passiveFail y id name now).pool =
      (if (passiveObj y.failCnt y.hc.threshold name).2
       then LB.updObj y.pool id (fun o => LB.ejectObj o now y.hc.ejectFor) else y.pool) := by
  unfold LB.passiveFail passiveObj
  by_cases h : y.hc.threshold ≤ (y.failCnt name : Int) + 1
  · simp [h]
  · simp [h]

/-- **`handlePassiveHealthCheck` is the model's passive accounting**: the per-name counter goes up
by one; when it reaches the configured threshold the backend is ejected for the configured
timeout and the counter is cleared — for every counter map, threshold and instant. -/
theorem passive_refines (lb : Code.LoadBalancer) (b : Code.Backend) (status now cw : Int) (id : Nat)
    (hn : 0 < now) (hp : 0 ≤ lb.healthChecks.passiveTimeout)
    (hc : ∀ k, 0 ≤ lb.healthChecks.unhealthyBackends k) :
    (∀ k, ((Code.handlePassiveHealthCheck lb b status now).1.healthChecks.unhealthyBackends k).toNat =
        (passiveObj (fun k => (lb.healthChecks.unhealthyBackends k).toNat) lb.healthChecks.passiveThreshold b.Name).1 k) ∧
    absBackend (Code.handlePassiveHealthCheck lb b status now).2 cw =
      (if (passiveObj (fun k => (lb.healthChecks.unhealthyBackends k).toNat) lb.healthChecks.passiveThreshold b.Name).2
       then (LB.ejectObj ⟨id, absBackend b cw⟩ now.toNat lb.healthChecks.passiveTimeout.toNat).b
       else absBackend b cw) := by
  have h0 := hc b.Name
  have hcast : (((lb.healthChecks.unhealthyBackends b.Name).toNat + 1 : Nat) : Int)
      = lb.healthChecks.unhealthyBackends b.Name + 1 := by omega
  have hne : now + lb.healthChecks.passiveTimeout ≠ 0 := by omega
  have ht : (now + lb.healthChecks.passiveTimeout).toNat = now.toNat + lb.healthChecks.passiveTimeout.toNat := by omega
  unfold Code.handlePassiveHealthCheck Code.MarkBackendUnhealthy passiveObj
  by_cases hr : lb.healthChecks.passiveThreshold ≤ lb.healthChecks.unhealthyBackends b.Name + 1
  · cases hmc : lb.metricsCollector <;>
      simp [Code.mapSet, hr, hcast, hmc, absBackend, LB.ejectObj, hne, ht] <;>
      (intro k; by_cases hk : k = b.Name <;> simp [hk])
  · simp [Code.mapSet, hr, hcast]
    intro k
    by_cases hk : k = b.Name
    · simp [hk]; omega
    · simp [hk]


/-! ### the translation of these functions -/

/-- every function of this group was translated; nothing in them fell outside the fragment -/
theorem translation_clean_lb :
    ["eligible", "MarkBackendUnhealthy", "IsBackendHealthy", "handleHealthCheckFailure", "processHealthCheckResponse", "handlePassiveHealthCheck"].all (fun f => Code.translated.contains f) = true ∧
    (Code.translationProblems.filter (fun p => ["eligible", "MarkBackendUnhealthy", "IsBackendHealthy", "handleHealthCheckFailure", "processHealthCheckResponse", "handlePassiveHealthCheck"].contains p.1)) = [] := by
  decide


end Helios.CodeTie
