import Helios.Generated.Code
import Helios.Model.Http
/-
Tie C for C14 — the response writer of the size_limit plugin (`limitedResponseWriter`: `Write`,
`checkLimit`, `ensureHeaderWritten`, `WriteHeader`, `Flush`), translated from the source on every
run, is the model's `Lim.step`: same state afterwards, and the same calls handed on to the wrapped
writer in the same order — for every state of the writer and every write.

The calls the wrapper makes on the writer it wraps are kept by the translation as an ordered list
(`out`); `enc` reads a model `Op` as such a call.
-/
namespace Helios.CodeTie
open Helios Helios.Generated Helios.Http

/-- a call on the wrapped writer, as the translation records it -/
def enc : Op → String × Int
  | .wh c => ("WriteHeader", c)
  | .w c => ("Write", c.1)
  | .wgz _ => ("Write", 0)
  | .fl => ("Flush", 0)
  | .setH _ _ => ("Header", 0)
  | .delH _ => ("Header", 0)

def absLim (w : Code.LimitedResponseWriter) : Lim :=
  { limit := w.limit.toNat, written := w.written.toNat, limitReached := w.limitReached,
    wroteHeader := w.wroteHeader, statusCode := w.statusCode.toNat }

/-- the counters are never negative (true of a fresh writer and kept by every method) -/
def WFL (w : Code.LimitedResponseWriter) : Prop := 0 ≤ w.limit ∧ 0 ≤ w.written ∧ 0 ≤ w.statusCode

/-- `w'` is what the model step `r` makes of `w`: state, and the calls handed on after those already made -/
def SimL (w w' : Code.LimitedResponseWriter) (r : List Op × Lim) : Prop :=
  absLim w' = r.2 ∧ w'.out = w.out ++ r.1.map enc ∧ WFL w' ∧ w'.limit = w.limit ∧ w'.rwFlusher = w.rwFlusher

theorem ensure_refines (w : Code.LimitedResponseWriter) (h : WFL w) :
    SimL w (Code.limEnsureHeaderWritten w) (absLim w).ensure := by
  obtain ⟨h1, h2, h3⟩ := h
  unfold Code.limEnsureHeaderWritten Lim.ensure SimL absLim WFL
  cases hw : w.wroteHeader with
  | true => simp [hw, h1, h2, h3]
  | false =>
    by_cases hs : w.statusCode = 0
    · simp [hw, hs, enc, h1, h2]
    · have hs' : ¬ w.statusCode.toNat = 0 := by omega
      have e : (w.statusCode == 0) = false := by simpa using hs
      simp [hw, hs', e, enc, h1, h2, h3]
      omega

theorem writeHeader_refines (gzLen : Body → Nat) (w : Code.LimitedResponseWriter) (h : WFL w) (code : Int) (hc : 0 ≤ code) :
    SimL w (Code.limWriteHeader w code) (Lim.step gzLen (absLim w) (.wh code.toNat)) := by
  obtain ⟨h1, h2, h3⟩ := h
  unfold Code.limWriteHeader Lim.step SimL absLim WFL
  cases hw : w.wroteHeader with
  | true => simp [hw, h1, h2, h3]
  | false =>
    by_cases hi : 100 ≤ code ∧ code < 200
    · have : code.toNat ≥ 100 ∧ code.toNat < 200 := by omega
      simp [hw, hi, this, enc, h1, h2, h3]
      omega
    · have : ¬ (code.toNat ≥ 100 ∧ code.toNat < 200) := by omega
      have e : (decide (code ≥ 100) && decide (code < 200)) = false := by
        simp only [Bool.and_eq_false_iff, decide_eq_false_iff_not]; omega
      simp [hw, this, hi, e, h1, h2, hc]

/-- **`Write` as written**: the model's step on a body write of the same length — refused (nothing
handed on, or a 413 if the header is still ours to send) exactly when the total would pass the
limit or a write was refused before; otherwise the recorded status goes out first (once) and the
bytes after it. The count returned is the length when accepted and 0 with an error when refused. -/
theorem write_refines (gzLen : Body → Nat) (w : Code.LimitedResponseWriter) (h : WFL w) (b : List Nat) (seed : Nat) :
    SimL w (Code.limWrite w b).1 (Lim.step gzLen (absLim w) (.w (b.length, seed))) ∧
    ((Code.limWrite w b).2.2.isSome = (Code.limWrite w b).1.limitReached) ∧
    ((Code.limWrite w b).2.1 = if (Code.limWrite w b).1.limitReached then 0 else (b.length : Int)) := by
  obtain ⟨h1, h2, h3⟩ := h
  cases hr : w.limitReached with
  | true =>
    unfold Code.limWrite Lim.step SimL absLim WFL
    simp [hr, h1, h2, h3]
  | false =>
    by_cases hfit : w.written + (b.length : Int) ≤ w.limit
    · -- accepted
      have hfit' : ¬ (w.written.toNat + b.length > w.limit.toNat) := by omega
      have hck : Code.limCheckLimit w b = (w, none) := by
        unfold Code.limCheckLimit; simp [hfit]
      unfold Code.limWrite
      simp only [hr, Bool.false_eq_true, if_false, hck, Option.isSome_none]
      unfold Code.limEnsureHeaderWritten Lim.step Lim.ensure SimL absLim WFL
      cases hw : w.wroteHeader with
      | true =>
        simp [hr, hfit', hw, enc, h1, h3]
        omega
      | false =>
        by_cases hs : w.statusCode = 0
        · simp [hr, hfit', hw, hs, enc, h1]
          omega
        · have hs' : ¬ w.statusCode.toNat = 0 := by omega
          have e : (w.statusCode == 0) = false := by simpa using hs
          simp [hr, hfit', hw, hs', e, enc, h1, h3]
          omega
    · -- refused now
      have hfit' : w.written.toNat + b.length > w.limit.toNat := by omega
      unfold Code.limWrite Code.limCheckLimit Lim.step SimL absLim WFL
      cases hw : w.wroteHeader <;> simp [hr, hfit, hfit', hw, enc, h1, h2, h3]

/-- `Flush` as written: the recorded status goes out first; the flush is handed on when the wrapped
writer can flush (the model's writers all can) -/
theorem flush_refines (gzLen : Body → Nat) (w : Code.LimitedResponseWriter) (h : WFL w) (hf : w.rwFlusher = true) :
    SimL w (Code.limFlush w) (Lim.step gzLen (absLim w) .fl) := by
  obtain ⟨e1, e2, e3, e4, e5⟩ := ensure_refines w h
  unfold Code.limFlush Lim.step
  simp only [e5, hf, if_true]
  refine ⟨?_, ?_, ?_, ?_, ?_⟩
  · simpa [absLim] using e1
  · simp [e2, enc]
  · exact e3
  · simpa using e4
  · simp [hf]

/-- a writer that cannot flush: `Flush` still commits the recorded status, and hands nothing else on -/
theorem flush_no_flusher (w : Code.LimitedResponseWriter) (h : WFL w) (hf : w.rwFlusher = false) :
    SimL w (Code.limFlush w) (absLim w).ensure := by
  obtain ⟨e1, e2, e3, e4, e5⟩ := ensure_refines w h
  unfold Code.limFlush
  simp only [e5, hf, Bool.false_eq_true, if_false]
  exact ⟨e1, e2, e3, e4, e5⟩

/-- non-vacuity: a fresh writer as the middleware builds it is well-formed, and a write that does not
fit is answered 413 with nothing of the body handed on -/
def freshLim (limit : Int) : Code.LimitedResponseWriter :=
  { written := 0, limit := limit, limitReached := false, wroteHeader := false, statusCode := 0, out := [], rwFlusher := true }
example : WFL (freshLim 10) := by simp [WFL, freshLim]
example : (Code.limWrite (freshLim 3) [1, 2, 3, 4]).1.out = [("WriteHeader", 413)] := by decide
example : (Code.limWrite (Code.limWriteHeader (freshLim 3) 201) [1, 2, 3]).1.out = [("WriteHeader", 201), ("Write", 3)] := by decide

/-! ### the gzip plugin's response writer: `WriteHeader`, `commitHeader`, `Write`, `Flush`

The model keeps the buffered body as the list of chunks written; the code keeps the bytes. They are
related by the total length. When the buffer is given up the code hands the buffered bytes on in
one `Write`, the model chunk by chunk: the two call sequences are compared as byte streams (`flat`:
a `Write` of n bytes is n bytes, every other call is itself). -/

def flat (l : List (String × Int)) : List (Option (String × Int)) :=
  l.flatMap (fun e => if e.1 = "Write" then List.replicate e.2.toNat none else [some e])

theorem flat_append (a b : List (String × Int)) : flat (a ++ b) = flat a ++ flat b := by
  simp [flat, List.flatMap_append]

theorem len_foldl (b : Body) (a : Nat) : b.foldl (fun a c => a + c.1) a = a + Body.len b := by
  unfold Body.len
  induction b generalizing a with
  | nil => simp
  | cons c cs ih => simp only [List.foldl_cons]; rw [ih, ih (0 + c.1)]; omega

theorem len_cons (c : Chunk) (b : Body) : Body.len (c :: b) = c.1 + Body.len b := by
  show (c :: b).foldl (fun a c => a + c.1) 0 = _
  simp only [List.foldl_cons]; rw [len_foldl]; omega

theorem len_append (b : Body) (c : Chunk) : Body.len (b ++ [c]) = Body.len b + c.1 := by
  induction b with
  | nil => simp [len_cons, Body.len]
  | cons x xs ih => simp only [List.cons_append, len_cons, ih]; omega

/-- the buffered chunks, handed on one by one, are as many bytes as the buffer holds -/
theorem flat_chunks (b : Body) :
    flat (((b.filter (·.1 > 0)).map Op.w).map enc) = List.replicate (Body.len b) none := by
  induction b with
  | nil => simp [flat, Body.len]
  | cons c cs ih =>
    rw [len_cons, ← List.replicate_append_replicate]
    by_cases h : c.1 > 0
    · simp only [List.filter_cons, h, decide_true, if_true, List.map_cons]
      rw [show (enc (Op.w c) :: List.map enc (List.map Op.w (List.filter (fun x => decide (x.1 > 0)) cs))) =
        [enc (Op.w c)] ++ List.map enc (List.map Op.w (List.filter (fun x => decide (x.1 > 0)) cs)) from rfl, flat_append, ih]
      simp [flat, enc]
    · have h0 : c.1 = 0 := by omega
      simp only [List.filter_cons, h, decide_false, Bool.false_eq_true, if_false]
      rw [ih, h0]; simp

def RelG (w : Code.GzipResponseWriter) (g : Gz) : Prop :=
  g.statusCode = w.statusCode.toNat ∧ g.wroteHeader = w.wroteHeader ∧ g.bufferExceeded = w.bufferExceeded ∧
  g.headerSent = w.headerSent ∧ Body.len g.buf = w.buf.length ∧ g.cap = 10485760 ∧ 0 ≤ w.statusCode

theorem gzCommit_sim (w : Code.GzipResponseWriter) (g : Gz) (h : RelG w g) :
    RelG (Code.gzCommitHeader w) g.commit.2 ∧ (Code.gzCommitHeader w).out = w.out ++ g.commit.1.map enc ∧
    (Code.gzCommitHeader w).buf = w.buf ∧ (Code.gzCommitHeader w).bufferExceeded = w.bufferExceeded ∧
    (Code.gzCommitHeader w).rwFlusher = w.rwFlusher := by
  obtain ⟨h1, h2, h3, h4, h5, h6, h7⟩ := h
  unfold Code.gzCommitHeader Gz.commit RelG
  cases hs : w.headerSent with
  | true => simp [h4, hs, h1, h2, h3, h5, h6, h7]
  | false =>
    cases hw : w.wroteHeader with
    | true => simp [h4, hs, h2, hw, h1, h3, h5, h6, h7, enc]; omega
    | false => simp [h4, hs, h2, hw, h3, h5, h6, enc]

theorem gzWriteHeader_sim (w : Code.GzipResponseWriter) (g : Gz) (h : RelG w g) (code : Int) (hc : 0 ≤ code) :
    RelG (Code.gzWriteHeader w code) (Gz.step g (.wh code.toNat)).2 ∧
    (Code.gzWriteHeader w code).out = w.out ++ (Gz.step g (.wh code.toNat)).1.map enc := by
  obtain ⟨h1, h2, h3, h4, h5, h6, h7⟩ := h
  unfold Code.gzWriteHeader Gz.step RelG
  cases hw : w.wroteHeader with
  | true => simp [h2, hw, h1, h3, h4, h5, h6, h7]
  | false =>
    by_cases hi : 100 ≤ code ∧ code < 200
    · have : code.toNat ≥ 100 ∧ code.toNat < 200 := by omega
      simp [h2, hw, hi, this, enc, h1, h3, h4, h5, h6, h7]
      omega
    · have : ¬ (code.toNat ≥ 100 ∧ code.toNat < 200) := by omega
      have e : (decide (code ≥ 100) && decide (code < 200)) = false := by
        simp only [Bool.and_eq_false_iff, decide_eq_false_iff_not]; omega
      simp [h2, hw, this, hi, e, h3, h4, h5, h6, hc]

/-- **the gzip writer's `Write` as written**: buffered while the total stays within the 10 MB cap;
on the write that would pass it the recorded status is committed, the buffered bytes are handed on
and then this write, and every later write is handed on directly — the same byte stream the model
produces, and the same state. The write always reports all bytes taken. -/
theorem gzWrite_sim (w : Code.GzipResponseWriter) (g : Gz) (h : RelG w g) (b : List Nat) (seed : Nat) :
    RelG (Code.gzWrite w b).1 (Gz.step g (.w (b.length, seed))).2 ∧
    (∃ delta, (Code.gzWrite w b).1.out = w.out ++ delta ∧ flat delta = flat ((Gz.step g (.w (b.length, seed))).1.map enc)) ∧
    (Code.gzWrite w b).2 = ((b.length : Int), none) := by
  obtain ⟨h1, h2, h3, h4, h5, h6, h7⟩ := h
  cases hx : w.bufferExceeded with
  | true =>
    -- already streaming: handed on directly
    have hgx : g.bufferExceeded = true := by rw [h3, hx]
    unfold Code.gzWrite Gz.step
    simp only [hx, hgx, Bool.true_or, if_true, Bool.not_true, Bool.false_eq_true, if_false]
    exact ⟨⟨h1, h2, by simp [hgx, hx], h4, h5, h6, h7⟩, ⟨[("Write", (b.length : Int))], rfl, by simp [enc]⟩, rfl⟩
  | false =>
    have hgx : g.bufferExceeded = false := by rw [h3, hx]
    by_cases hfit : (Int.ofNat w.buf.length) + (Int.ofNat b.length) > 10485760
    · -- the write that passes the cap
      have hfit' : Body.len g.buf + b.length > g.cap := by
        rw [h5, h6]; simp only [Int.ofNat_eq_natCast] at hfit; omega
      let w1 : Code.GzipResponseWriter := { w with bufferExceeded := true }
      let g1 : Gz := { g with bufferExceeded := true }
      have hrel1 : RelG w1 g1 := ⟨h1, h2, rfl, h4, h5, h6, h7⟩
      obtain ⟨c1, c2, c3, c4, c5⟩ := gzCommit_sim w1 g1 hrel1
      have hcm1 : g1.commit.1 = g.commit.1 := by unfold Gz.commit; split <;> rfl
      have hcm2 : g1.commit.2 = { g.commit.2 with bufferExceeded := true } := by unfold Gz.commit; split <;> rfl
      obtain ⟨d1, d2, d3, d4, d5, d6, d7⟩ := c1
      rw [hcm2] at d1 d2 d4 d6
      simp only at d1 d2 d4 d6
      unfold Code.gzWrite Gz.step
      simp only [hx, hgx, Bool.false_or, hfit, hfit', decide_true, if_true, Bool.not_false, Bool.false_eq_true, if_false]
      show RelG (if _ then _ else _ : Code.GzipResponseWriter × Int × Option (String × List String)).1 _ ∧ _
      have hbuf : (Code.gzCommitHeader w1).buf = w.buf := c3
      by_cases hpos : (Int.ofNat w.buf.length) > 0
      · simp only [show (Code.gzCommitHeader { w with bufferExceeded := true }) = Code.gzCommitHeader w1 from rfl, hbuf, hpos,
          decide_true, if_true]
        refine ⟨⟨d1, d2, by simpa using c4, d4, by simp [Body.len], d6, d7⟩,
          ⟨g.commit.1.map enc ++ [("Write", Int.ofNat w.buf.length)] ++ [("Write", Int.ofNat b.length)], ?_, ?_⟩, rfl⟩
        · simp only [c2, hcm1, List.append_assoc]; rfl
        · simp only [List.map_append, flat_append, flat_chunks, h5, List.map_cons, List.map_nil]
          simp [flat, enc]
      · have hz : w.buf.length = 0 := by simp only [Int.ofNat_eq_natCast] at hpos; omega
        have hz' : Body.len g.buf = 0 := by rw [h5, hz]
        simp only [show (Code.gzCommitHeader { w with bufferExceeded := true }) = Code.gzCommitHeader w1 from rfl, hbuf, hpos,
          decide_false, Bool.false_eq_true, if_false]
        refine ⟨⟨d1, d2, by simpa using c4, d4, by simp [Body.len, hz], d6, d7⟩,
          ⟨g.commit.1.map enc ++ [("Write", Int.ofNat b.length)], ?_, ?_⟩, rfl⟩
        · simp only [c2, hcm1, List.append_assoc]; rfl
        · simp only [List.map_append, flat_append, flat_chunks, hz', List.map_cons, List.map_nil]
          simp [flat, enc]
    · -- buffered
      have hfit' : ¬ (Body.len g.buf + b.length > g.cap) := by
        rw [h5, h6]; simp only [Int.ofNat_eq_natCast] at hfit; omega
      unfold Code.gzWrite Gz.step
      simp only [hx, hgx, Bool.false_or, hfit, hfit', decide_false, Bool.false_eq_true, if_false]
      exact ⟨⟨h1, h2, by simp [hgx, hx], h4, by simp [len_append, h5], h6, h7⟩, ⟨[], by simp, by simp [flat]⟩, rfl⟩

theorem gzFlush_sim (w : Code.GzipResponseWriter) (g : Gz) (h : RelG w g) (hf : w.rwFlusher = true) :
    RelG (Code.gzFlush w) (Gz.step g .fl).2 ∧ (Code.gzFlush w).out = w.out ++ (Gz.step g .fl).1.map enc := by
  obtain ⟨h1, h2, h3, h4, h5, h6, h7⟩ := h
  unfold Code.gzFlush Gz.step
  cases hx : w.bufferExceeded with
  | true => simp [h3, hx, hf, enc, RelG, h1, h2, h4, h5, h6, h7]
  | false => simp [h3, hx, RelG, h1, h2, h4, h5, h6, h7]

/-- non-vacuity: a fresh gzip writer is related to the fresh model writer, and a status recorded
before a write that passes the cap goes out before any byte -/
def freshGz : Code.GzipResponseWriter :=
  { statusCode := 0, wroteHeader := false, minSize := 0, level := 6, contentTypes := [], buf := [], bufferExceeded := false,
    headerSent := false, out := [], rwFlusher := true }
example : RelG freshGz { minSize := 0, types := [], cap := 10485760 } := by simp [RelG, freshGz, Body.len]
example : (Code.gzWrite (Code.gzWriteHeader freshGz 404) [1, 2, 3]).1.out = [] := by decide

theorem translation_clean_rw :
    (["limEnsureHeaderWritten", "limCheckLimit", "limWrite", "limWriteHeader", "limFlush",
      "gzCommitHeader", "gzWriteHeader", "gzWrite", "gzFlush"].all Code.translated.contains) = true ∧
    (Code.translationProblems.filter (fun p => ["ensureHeaderWritten", "checkLimit", "Write", "WriteHeader", "Flush",
      "commitHeader"].contains p.1)).isEmpty = true := by
  decide +kernel

end Helios.CodeTie
