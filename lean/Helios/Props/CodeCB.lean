import Helios.Generated.Code
import Helios.Model.Breaker
/-
Tie C — the translated code refines the hand-written models.

`Generated/Code.lean` is rewritten on every run by /verif/go/trans from the Go source as it is
now: `beforeRequest`, `afterRequest`, `setState` (circuit breaker), `refillTokens`, `Allow` (rate
limiter), `Backend.eligible`, `jumpHash`.  The theorems below state, for EVERY state and input
(not a sample), that each translated function computes exactly what the corresponding function of
the model computes, through an explicit abstraction map.  The property theorems (C03, C06–C09) are
about the models; these theorems carry them over to what the code says.

What the translator decides (trusted, see DESIGN §6): integer widths are unbounded in abstract
mode (exact for jumpHash), one `time.Now()` per call, lock operations skipped (one atomic step).
-/
namespace Helios.CodeTie
open Helios Helios.Generated

/-! ### circuit breaker -/

def stOf (i : Int) : CB.St := if i = 1 then .open_ else if i = 2 then .halfOpen else .closed

def cfgOf (g : Code.CircuitBreaker) : CB.Cfg :=
  { maxRequests := g.maxRequests, interval := g.interval.toNat, timeout := g.timeout.toNat,
    failureThreshold := g.failureThreshold, successThreshold := g.successThreshold }

/-- abstraction: the breaker fields the model keeps (`lastSuccessTime`, the queued notifications
and the name are not part of the admission logic) -/
def absCB (g : Code.CircuitBreaker) : CB.State :=
  { st := stOf g.state, failureCount := g.failureCount, successCount := g.successCount,
    requestCount := g.requestCount,
    lastFailure := if g.lastFailureTime = 0 then none else some g.lastFailureTime.toNat,
    nextAttempt := g.nextAttempt.toNat, generation := g.generation }

/-- states the constructors and the translated functions produce: a valid state constant,
non-negative durations and instants -/
def WF (g : Code.CircuitBreaker) : Prop :=
  (g.state = 0 ∨ g.state = 1 ∨ g.state = 2) ∧ 0 ≤ g.interval ∧ 0 ≤ g.timeout ∧
  0 ≤ g.lastFailureTime ∧ 0 ≤ g.nextAttempt

def admitOf (r : Nat × Option (String × List String)) : Option CB.Admit :=
  match r.2 with
  | none => some (.admitted r.1)
  | some ("ErrCircuitBreakerOpen", _) => some .rejectedOpen
  | some ("ErrTooManyRequests", _) => some .tooMany
  | some _ => none

theorem setState_spec (g : Code.CircuitBreaker) (s : Int) :
    (Code.setState g s).state = s ∧
    (Code.setState g s).generation = (if g.state = s then g.generation else g.generation + 1) ∧
    (Code.setState g s).failureCount = g.failureCount ∧ (Code.setState g s).successCount = g.successCount ∧
    (Code.setState g s).requestCount = g.requestCount ∧ (Code.setState g s).lastFailureTime = g.lastFailureTime ∧
    (Code.setState g s).nextAttempt = g.nextAttempt ∧ (Code.setState g s).maxRequests = g.maxRequests ∧
    (Code.setState g s).interval = g.interval ∧ (Code.setState g s).timeout = g.timeout ∧
    (Code.setState g s).failureThreshold = g.failureThreshold ∧
    (Code.setState g s).successThreshold = g.successThreshold := by
  unfold Code.setState
  by_cases h : g.state = s
  · simp [h]
  · have : (g.state == s) = false := by simpa using h
    simp only [this, Bool.false_eq_true, if_false]
    split <;> simp [h]

theorem beforeRequest_refines (g : Code.CircuitBreaker) (now : Int) (hw : WF g) (hn : 0 < now) :
    absCB (Code.beforeRequest g now).1 = (CB.begin (cfgOf g) (absCB g) now.toNat).1 ∧
    admitOf (Code.beforeRequest g now).2 = some (CB.begin (cfgOf g) (absCB g) now.toNat).2 ∧
    WF (Code.beforeRequest g now).1 ∧ cfgOf (Code.beforeRequest g now).1 = cfgOf g := by
  obtain ⟨hst, hi, ht, hlf, hna⟩ := hw
  rcases hst with h | h | h
  · -- closed
    by_cases c1 : g.lastFailureTime = 0
    · simp [Code.beforeRequest, CB.begin, absCB, stOf, h, CB.needsReset, cfgOf, admitOf, c1, WF, hi, ht, hna]
    · by_cases c2 : g.lastFailureTime + g.interval < now
      · simp [Code.beforeRequest, CB.begin, absCB, stOf, h, CB.needsReset, cfgOf, admitOf, c1, c2, WF, hi, ht, hna, hlf]
        omega
      · simp [Code.beforeRequest, CB.begin, absCB, stOf, h, CB.needsReset, cfgOf, admitOf, c1, c2, WF, hi, ht, hna, hlf]
        omega
  · -- open
    by_cases c1 : g.nextAttempt < now
    · have c1' : g.nextAttempt.toNat < now.toNat := by omega
      by_cases c2 : g.maxRequests = 0
      · cases hcb : g.onStateChange <;>
          simp [Code.beforeRequest, Code.setState, CB.begin, absCB, stOf, h, cfgOf, admitOf, c1, c1', c2, WF, hi, ht, hna, hlf, hcb]
      · have c2' : 0 < g.maxRequests := by omega
        cases hcb : g.onStateChange <;>
          simp [Code.beforeRequest, Code.setState, CB.begin, absCB, stOf, h, cfgOf, admitOf, c1, c1', c2, c2', WF, hi, ht, hna, hlf, hcb]
    · have c1' : ¬ g.nextAttempt.toNat < now.toNat := by omega
      simp [Code.beforeRequest, Code.setState, CB.begin, absCB, stOf, h, cfgOf, admitOf, c1, c1', WF, hi, ht, hna, hlf]
  · -- half-open
    by_cases c2 : g.maxRequests ≤ g.requestCount
    · simp [Code.beforeRequest, Code.setState, CB.begin, absCB, stOf, h, cfgOf, admitOf, c2, WF, hi, ht, hna, hlf]
    · simp [Code.beforeRequest, Code.setState, CB.begin, absCB, stOf, h, cfgOf, admitOf, c2, WF, hi, ht, hna, hlf]

theorem afterRequest_refines (g : Code.CircuitBreaker) (gen : Nat) (ok : Bool) (now : Int) (hw : WF g) (hn : 0 < now) :
    absCB (Code.afterRequest g gen ok now) = CB.end_ (cfgOf g) (absCB g) gen ok now.toNat ∧
    WF (Code.afterRequest g gen ok now) ∧ cfgOf (Code.afterRequest g gen ok now) = cfgOf g := by
  obtain ⟨hst, hi, ht, hlf, hna⟩ := hw
  have hn0 : now ≠ 0 := by omega
  by_cases hg : gen = g.generation
  · subst hg
    cases ok
    · -- failure
      rcases hst with h | h | h
      · by_cases c : g.failureThreshold ≤ g.failureCount + 1
        · cases hcb : g.onStateChange <;>
            simp [Code.afterRequest, Code.setState, CB.end_, absCB, stOf, h, cfgOf, c, WF, hi, ht, hna, hlf, hcb, hn0] <;> omega
        · simp [Code.afterRequest, Code.setState, CB.end_, absCB, stOf, h, cfgOf, c, WF, hi, ht, hna, hlf, hn0] <;> omega
      · simp [Code.afterRequest, Code.setState, CB.end_, absCB, stOf, h, cfgOf, WF, hi, ht, hna, hlf, hn0] <;> omega
      · cases hcb : g.onStateChange <;>
          simp [Code.afterRequest, Code.setState, CB.end_, absCB, stOf, h, cfgOf, WF, hi, ht, hna, hlf, hcb, hn0] <;> omega
    · -- success
      rcases hst with h | h | h
      · simp [Code.afterRequest, Code.setState, CB.end_, absCB, stOf, h, cfgOf, WF, hi, ht, hna, hlf]
      · simp [Code.afterRequest, Code.setState, CB.end_, absCB, stOf, h, cfgOf, WF, hi, ht, hna, hlf]
      · by_cases c : g.successThreshold ≤ g.successCount + 1
        · cases hcb : g.onStateChange <;>
            simp [Code.afterRequest, Code.setState, CB.end_, absCB, stOf, h, cfgOf, c, WF, hi, ht, hna, hlf, hcb]
        · simp [Code.afterRequest, Code.setState, CB.end_, absCB, stOf, h, cfgOf, c, WF, hi, ht, hna, hlf]
  · have hg' : (gen != g.generation) = true := by simpa using hg
    simp [Code.afterRequest, CB.end_, absCB, hg, hg', WF, hi, ht, hna, hlf, hst]


/-! ### the translation of these functions -/

/-- every function of this group was translated; nothing in them fell outside the fragment -/
theorem translation_clean_cb :
    ["setState", "beforeRequest", "afterRequest"].all (fun f => Code.translated.contains f) = true ∧
    (Code.translationProblems.filter (fun p => ["setState", "beforeRequest", "afterRequest"].contains p.1)) = [] := by
  decide

example : WF { name := "b", maxRequests := 1, interval := 60000000000, timeout := 1000000000, failureThreshold := 2,
               successThreshold := 1, onStateChange := true, state := 0, failureCount := 0, successCount := 0,
               requestCount := 0, lastFailureTime := 0, lastSuccessTime := 0, nextAttempt := 0, generation := 0,
               pendingChanges := [] } := by simp [WF]
end Helios.CodeTie
