import Helios.Props.C13
/-
C13 (gauges) — the in-flight gauge of every backend object equals the number of requests
really in flight on it, after EVERY history of request begins / ends (any overlap, any
outcome, aborts included), adds, removes, strategy switches, ejections and probes.
`gauges_zero_when_idle` (C13.lean) then needs no hypothesis: `gauges_zero_run`.

The invariant is stated on what the gauge depends on — identity and gauge of every backend
object the balancer still references (the strategy's slice and removed objects that may still
have requests in flight): `keys y`.
-/
namespace Helios.LB
open Helios

def key (o : Obj) : Nat × Int := (o.id, o.b.conns)
def keys (y : Sys) : List (Nat × Int) := (y.pool ++ y.dead).map key

structure GInv (y : Sys) : Prop where
  uniq  : (keys y).Pairwise (fun a b => a.1 ≠ b.1)
  fresh : ∀ p ∈ keys y, p.1 < y.nextId
  held  : ∀ f ∈ y.flights, ∃ p ∈ keys y, p.1 = f.bid
  gauge : ∀ p ∈ keys y, p.2 = (inflightOn y p.1 : Nat)
  tids  : UniqueTids y

/-! ### operations that do not touch identities, gauges or flights -/

theorem ginv_same (y y' : Sys) (hk : keys y' = keys y) (hf : y'.flights = y.flights) (hn : y'.nextId = y.nextId)
    (h : GInv y) : GInv y' := by
  refine ⟨by rw [hk]; exact h.uniq, by rw [hk, hn]; exact h.fresh, by rw [hk, hf]; exact h.held, ?_,
    by unfold UniqueTids at *; rw [hf]; exact h.tids⟩
  intro p hp
  rw [hk] at hp
  have := h.gauge p hp
  simp only [inflightOn, hf] at this ⊢
  exact this

/-- a permutation of the objects changes nothing either -/
theorem ginv_perm (y y' : Sys) (hk : (keys y').Perm (keys y)) (hf : y'.flights = y.flights) (hn : y'.nextId = y.nextId)
    (h : GInv y) : GInv y' := by
  refine ⟨?_, ?_, ?_, ?_, by unfold UniqueTids at *; rw [hf]; exact h.tids⟩
  · exact (hk.pairwise_iff (fun h => fun e => h e.symm)).mpr h.uniq
  · intro p hp; rw [hn]; exact h.fresh p (hk.mem_iff.mp hp)
  · intro f hf'
    rw [hf] at hf'
    obtain ⟨p, hp, e⟩ := h.held f hf'
    exact ⟨p, hk.mem_iff.mpr hp, e⟩
  · intro p hp
    have := h.gauge p (hk.mem_iff.mp hp)
    simp only [inflightOn, hf] at this ⊢
    exact this

theorem map_key_set (l : List Obj) (i : Nat) (o o' : Obj) (ho : l[i]? = some o) (hk : key o' = key o) :
    (l.set i o').map key = l.map key := by
  induction l generalizing i with
  | nil => simp
  | cons x xs ih =>
    cases i with
    | zero => simp only [List.getElem?_cons_zero, Option.some.injEq] at ho; subst ho; simp [hk]
    | succ i =>
      simp only [List.getElem?_cons_succ] at ho
      simp only [List.set_cons_succ, List.map_cons]
      rw [ih i ho]

theorem map_key_map (l : List Obj) (g : Obj → Obj) (hg : ∀ o, key (g o) = key o) : (l.map g).map key = l.map key := by
  simp only [List.map_map]
  apply List.map_congr_left
  intro o _; exact hg o

theorem map_key_updObj (l : List Obj) (id : Nat) (g : Obj → Obj) (hg : ∀ o, key (g o) = key o) :
    (updObj l id g).map key = l.map key := by
  simp only [updObj, List.map_map]
  apply List.map_congr_left
  intro o _
  simp only [Function.comp]
  split
  · exact hg o
  · rfl

theorem keys_of (y y' : Sys) (hp : y'.pool.map key = y.pool.map key) (hd : y'.dead = y.dead) : keys y' = keys y := by
  simp only [keys, List.map_append, hp, hd]

/-! ### the strategies only touch running weights -/

theorem map_modify_conns (l : List Backend) (i : Nat) (g : Backend → Int) :
    (l.modify i (fun b => { b with cw := g b })).map (·.conns) = l.map (·.conns) := by
  induction l generalizing i with
  | nil => simp
  | cons x xs ih =>
    cases i with
    | zero => simp
    | succ i => simp only [List.modify_succ_cons, List.map_cons]; rw [ih]

theorem next_conns (s : Strat) (now : Nat) (key : Bytes) :
    (s.next now key).1.pool.map (·.conns) = s.pool.map (·.conns) := by
  cases hk : s.kind <;> simp only [Strat.next, hk]
  · split
    · rfl
    · -- reset, bump, settle: all of them write `cw` only
      have hreset : (wrrReset s.pool s.ids s.lastEl now).map (·.conns) = s.pool.map (·.conns) := by
        simp only [wrrReset]
        split
        · rfl
        · simp [List.map_map, Function.comp]
      have hbump : ∀ p : List Backend, (wrrBump p now).map (·.conns) = p.map (·.conns) := by
        intro p
        simp only [wrrBump, List.map_map]
        apply List.map_congr_left
        intro b _
        simp only [Function.comp]
        split <;> rfl
      simp only [wrrPick, wrrPickCore]
      split
      · simp only []; rw [hbump, hreset]
      · simp only []; rw [map_modify_conns, hbump, hreset]

theorem zipBack_key : ∀ (pool : List Obj) (bs : List Backend),
    bs.map (·.conns) = (pool.map (·.b)).map (·.conns) → (zipBack pool bs).map key = pool.map key
  | [], [], _ => rfl
  | [], _ :: _, h => by simp at h
  | _ :: _, [], h => by simp at h
  | o :: os, b :: bs, h => by
    simp only [List.map_cons, List.cons.injEq] at h
    simp only [zipBack, List.zipWith_cons_cons, List.map_cons, key, h.1]
    have := zipBack_key os bs h.2
    simp only [zipBack, key] at this
    rw [this]

theorem isHealthyAt_keys (y : Sys) (i now : Nat) :
    (isHealthyAt y i now).1.pool.map key = y.pool.map key ∧ (isHealthyAt y i now).1.dead = y.dead ∧
    (isHealthyAt y i now).1.flights = y.flights ∧ (isHealthyAt y i now).1.nextId = y.nextId := by
  simp only [isHealthyAt]
  split
  · exact ⟨rfl, rfl, rfl, rfl⟩
  · rename_i o ho
    split
    · exact ⟨rfl, rfl, rfl, rfl⟩
    · split
      · exact ⟨map_key_set _ _ o _ ho rfl, rfl, rfl, rfl⟩
      · exact ⟨rfl, rfl, rfl, rfl⟩

theorem findBackend_keys (now : Nat) (k : Bytes) : ∀ (fuel : Nat) (y : Sys),
    (findBackend y now k fuel).1.pool.map key = y.pool.map key ∧ (findBackend y now k fuel).1.dead = y.dead ∧
    (findBackend y now k fuel).1.flights = y.flights ∧ (findBackend y now k fuel).1.nextId = y.nextId
  | 0, y => ⟨rfl, rfl, rfl, rfl⟩
  | fuel + 1, y => by
    have hz : (zipBack y.pool (y.strat.next now k).1.pool).map key = y.pool.map key := by
      apply zipBack_key
      have := next_conns y.strat now k
      simpa [Sys.strat, Sys.backends] using this
    simp only [findBackend]
    split
    · exact ⟨hz, rfl, rfl, rfl⟩
    · rename_i i _
      have hh := isHealthyAt_keys
        { y with pool := zipBack y.pool (y.strat.next now k).1.pool, cur := (y.strat.next now k).1.cur,
                 lastEl := (y.strat.next now k).1.lastEl } i now
      split
      · exact ⟨hh.1.trans hz, hh.2.1, hh.2.2.1, hh.2.2.2⟩
      · have ih := findBackend_keys now k fuel (isHealthyAt
          { y with pool := zipBack y.pool (y.strat.next now k).1.pool, cur := (y.strat.next now k).1.cur,
                   lastEl := (y.strat.next now k).1.lastEl } i now).1
        exact ⟨ih.1.trans (hh.1.trans hz), ih.2.1.trans hh.2.1, ih.2.2.1.trans hh.2.2.1, ih.2.2.2.trans hh.2.2.2⟩

/-! ### one object's gauge changes together with the flights on it -/

/-- change the gauge of the object with identity `id` by `δ` -/
def adj (id : Nat) (δ : Int) (p : Nat × Int) : Nat × Int := if p.1 = id then (p.1, p.2 + δ) else p

theorem adj_fst (id : Nat) (δ : Int) (p : Nat × Int) : (adj id δ p).1 = p.1 := by
  simp only [adj]; split <;> rfl

theorem map_adj_none (id : Nat) (δ : Int) : ∀ (l : List (Nat × Int)), (∀ q ∈ l, q.1 ≠ id) → l.map (adj id δ) = l
  | [], _ => rfl
  | q :: t, h => by
    have hq := h q (List.mem_cons_self ..)
    have ih := map_adj_none id δ t (fun x hx => h x (List.mem_cons_of_mem _ hx))
    simp only [List.map_cons, ih]
    simp [adj, hq]

/-- with distinct identities, replacing slot `i` is the same as adjusting by identity -/
theorem set_adj (id : Nat) (c δ : Int) : ∀ (K : List (Nat × Int)) (i : Nat),
    K.Pairwise (fun a b => a.1 ≠ b.1) → K[i]? = some (id, c) → K.set i (id, c + δ) = K.map (adj id δ)
  | [], _, _, h => by simp at h
  | p :: t, 0, hp, h => by
    simp only [List.getElem?_cons_zero, Option.some.injEq] at h
    subst h
    rw [List.pairwise_cons] at hp
    simp only [List.set_cons_zero, List.map_cons]
    rw [map_adj_none id δ t (fun q hq => fun e => hp.1 q hq e.symm)]
    simp [adj]
  | p :: t, i + 1, hp, h => by
    simp only [List.getElem?_cons_succ] at h
    rw [List.pairwise_cons] at hp
    have hmem : (id, c) ∈ t := List.mem_of_getElem? h
    have hne : p.1 ≠ id := hp.1 (id, c) hmem
    have hpa : adj id δ p = p := by simp [adj, hne]
    simp only [List.set_cons_succ, List.map_cons, hpa]
    rw [set_adj id c δ t i hp.2 h]

theorem ginv_adj (y y' : Sys) (id : Nat) (δ : Int)
    (hk : keys y' = (keys y).map (adj id δ)) (hn : y'.nextId = y.nextId)
    (hheld : ∀ f ∈ y'.flights, ∃ p ∈ keys y, p.1 = f.bid)
    (hcount : ∀ j, ((inflightOn y' j : Nat) : Int) = ((inflightOn y j : Nat) : Int) + (if j = id then δ else 0))
    (htids : UniqueTids y') (h : GInv y) : GInv y' := by
  refine ⟨?_, ?_, ?_, ?_, htids⟩
  · rw [hk, List.pairwise_map]
    simp only [adj_fst]
    exact h.uniq
  · intro p hp
    rw [hk] at hp
    obtain ⟨q, hq, rfl⟩ := List.mem_map.mp hp
    rw [adj_fst, hn]; exact h.fresh q hq
  · intro f hf
    obtain ⟨p, hp, e⟩ := hheld f hf
    exact ⟨adj id δ p, by rw [hk]; exact List.mem_map.mpr ⟨p, hp, rfl⟩, by rw [adj_fst]; exact e⟩
  · intro p hp
    rw [hk] at hp
    obtain ⟨q, hq, rfl⟩ := List.mem_map.mp hp
    have hg := h.gauge q hq
    have h1 : (adj id δ q).1 = q.1 := adj_fst id δ q
    have h2 : (adj id δ q).2 = q.2 + (if q.1 = id then δ else 0) := by
      simp only [adj]; split <;> simp
    rw [h1, h2, hcount q.1, hg]

/-! ### begin -/

theorem rlGate_shape (y : Sys) (now : Nat) (r : Addr.Req) :
    (rlGate y now r).1.pool = y.pool ∧ (rlGate y now r).1.dead = y.dead ∧
    (rlGate y now r).1.flights = y.flights ∧ (rlGate y now r).1.nextId = y.nextId := by
  simp only [rlGate]; split <;> exact ⟨rfl, rfl, rfl, rfl⟩

theorem cbGate_shape (y : Sys) (now : Nat) :
    (cbGate y now).1.pool = y.pool ∧ (cbGate y now).1.dead = y.dead ∧
    (cbGate y now).1.flights = y.flights ∧ (cbGate y now).1.nextId = y.nextId := by
  simp only [cbGate]
  split
  · exact ⟨rfl, rfl, rfl, rfl⟩
  · split <;> exact ⟨rfl, rfl, rfl, rfl⟩

theorem ginv_dispatch (y : Sys) (gen : Option Nat) (tid now : Nat) (r : Addr.Req) (h : GInv y)
    (hnew : y.flights.any (·.tid = tid) = false) : GInv (dispatch y gen tid now r).1 := by
  have hf := findBackend_keys now (Addr.strategyKey r) retryBudget y
  have hkf : keys (findBackend y now (Addr.strategyKey r) retryBudget).1 = keys y := keys_of _ _ hf.1 hf.2.1
  have hgf : GInv (findBackend y now (Addr.strategyKey r) retryBudget).1 := ginv_same y _ hkf hf.2.2.1 hf.2.2.2 h
  simp only [dispatch]
  generalize findBackend y now (Addr.strategyKey r) retryBudget = f at hf hkf hgf
  cases hsel : f.2.bind (fun i => (f.1.pool[i]?).map (fun o => (i, o))) with
  | none =>
    simp only []
    refine ginv_same f.1 _ ?_ ?_ ?_ hgf
    · split <;> rfl
    · split <;> rfl
    · split <;> rfl
  | some p =>
    obtain ⟨i, o⟩ := p
    simp only []
    -- the slot the strategy chose holds `o`
    have hio : f.1.pool[i]? = some o := by
      cases hf2 : f.2 with
      | none => rw [hf2] at hsel; simp at hsel
      | some j =>
        rw [hf2] at hsel
        simp only [Option.bind_some, Option.map_eq_some_iff] at hsel
        obtain ⟨o', ho', e⟩ := hsel
        simp only [Prod.mk.injEq] at e
        rw [← e.1, ← e.2]; exact ho'
    have hlt : i < f.1.pool.length := (List.getElem?_eq_some_iff.mp hio).1
    have hki : (keys f.1)[i]? = some (o.id, o.b.conns) := by
      simp only [keys, List.map_append]
      rw [List.getElem?_append_left (by simpa using hlt), List.getElem?_map, hio]
      rfl
    refine ginv_adj f.1 _ o.id 1 ?_ ?_ ?_ ?_ ?_ hgf
    · show ((f.1.pool.set i _) ++ f.1.dead).map key = _
      rw [← set_adj o.id o.b.conns 1 (keys f.1) i hgf.uniq hki]
      simp only [keys, List.map_append, List.map_set]
      rw [List.set_append_left _ _ (by simpa using hlt)]
      rfl
    · rfl
    · intro fl hfl
      simp only [List.mem_cons] at hfl
      rcases hfl with rfl | hfl
      · exact ⟨(o.id, o.b.conns), List.mem_of_getElem? hki, rfl⟩
      · exact hgf.held fl hfl
    · intro j
      simp only [inflightOn, List.filter_cons]
      by_cases hj : j = o.id
      · subst hj; simp
      · have : ¬ o.id = j := fun e => hj e.symm
        simp [hj, this]
    · -- the new request id was not in flight
      intro t
      simp only [List.filter_cons]
      by_cases ht : tid = t
      · subst ht
        have hnone : f.1.flights.filter (fun fl => decide (fl.tid = tid)) = [] := by
          rw [List.filter_eq_nil_iff]
          intro fl hfl
          rw [hf.2.2.1] at hfl
          have := List.any_eq_false.mp hnew fl hfl
          simpa using this
        simp [hnone]
      · simp only [ht, decide_false, Bool.false_eq_true, if_false]
        exact hgf.tids t

theorem ginv_begin (y : Sys) (tid now : Nat) (r : Addr.Req) (h : GInv y)
    (hnew : y.flights.any (·.tid = tid) = false) : GInv (begin y tid now r).1 := by
  have h0 : GInv { y with total := y.total + 1 } := by
    refine ginv_same y _ ?_ ?_ ?_ h <;> rfl
  have hr := rlGate_shape { y with total := y.total + 1 } now r
  have h1 : GInv (rlGate { y with total := y.total + 1 } now r).1 :=
    ginv_same _ _ (by simp only [keys, hr.1, hr.2.1]) hr.2.2.1 hr.2.2.2 h0
  simp only [begin]
  split
  · refine ginv_same (rlGate { y with total := y.total + 1 } now r).1 _ ?_ ?_ ?_ h1 <;> rfl
  · have hc := cbGate_shape (rlGate { y with total := y.total + 1 } now r).1 now
    have h2 : GInv (cbGate (rlGate { y with total := y.total + 1 } now r).1 now).1 :=
      ginv_same _ _ (by simp only [keys, hc.1, hc.2.1]) hc.2.2.1 hc.2.2.2 h1
    split
    · exact h2
    · apply ginv_dispatch _ _ _ _ _ h2
      rw [hc.2.2.1, hr.2.2.1]; exact hnew

/-! ### end -/

def decObj (o : Obj) : Obj := { o with b := { o.b with conns := o.b.conns - 1 } }

theorem updObj_dec_keys (l : List Obj) (id : Nat) :
    (updObj l id decObj).map key = (l.map key).map (adj id (-1)) := by
  simp only [updObj, List.map_map]
  apply List.map_congr_left
  intro o _
  simp only [Function.comp, key, adj, decObj]
  split
  · rename_i e; simp only [e, if_true]; rfl
  · rename_i e; simp only [e, if_false]

theorem ejectObj_key (now d : Nat) (o : Obj) : key (ejectObj o now d) = key o := rfl

theorem finish_keys (y : Sys) (fl : Flight) (o : Obj) (now : Nat) (out : Outcome) :
    (finish y fl o now out).pool.map key = (y.pool.map key).map (adj fl.bid (-1)) ∧
    (finish y fl o now out).dead.map key = (y.dead.map key).map (adj fl.bid (-1)) ∧
    (finish y fl o now out).flights = y.flights ∧ (finish y fl o now out).nextId = y.nextId := by
  have hp := updObj_dec_keys y.pool fl.bid
  have hd := updObj_dec_keys y.dead fl.bid
  refine ⟨?_, ?_, ?_, ?_⟩ <;> simp only [finish, passiveFail] <;> repeat' split
  all_goals first
    | rfl
    | exact hp
    | exact hd
    | (simp only [map_key_updObj _ _ _ (ejectObj_key now _)]; first | exact hp | exact hd)

/-- removing the one flight with request id `tid` lowers exactly its backend's count by one -/
theorem filter_remove_one (tid : Nat) : ∀ (l : List Flight) (fl : Flight),
    (l.filter (fun f => decide (f.tid = tid))).length ≤ 1 → fl ∈ l → fl.tid = tid → ∀ j,
    ((((l.filter (fun f => decide (f.tid ≠ tid))).filter (fun f => decide (f.bid = j))).length : Nat) : Int) =
      (((l.filter (fun f => decide (f.bid = j))).length : Nat) : Int) + (if j = fl.bid then -1 else 0)
  | [], fl, _, hm, _, _ => by cases hm
  | x :: t, fl, hu, hm, ht, j => by
    by_cases hx : x.tid = tid
    · -- x is the flight: no other flight in t has this id
      have hnone : t.filter (fun f => decide (f.tid = tid)) = [] := by
        simp only [List.filter_cons, hx, decide_true, if_true, List.length_cons] at hu
        exact List.length_eq_zero_iff.mp (by omega)
      have hfx : fl = x := by
        cases hm with
        | head => rfl
        | tail _ hmt =>
          have : fl ∈ t.filter (fun f => decide (f.tid = tid)) := List.mem_filter.mpr ⟨hmt, by simpa using ht⟩
          rw [hnone] at this; cases this
      subst hfx
      have hall : t.filter (fun f => decide (f.tid ≠ tid)) = t := by
        apply List.filter_eq_self.mpr
        intro f hf
        have : f ∉ t.filter (fun f => decide (f.tid = tid)) := by rw [hnone]; simp
        simp only [List.mem_filter, not_and] at this
        simpa using this hf
      simp only [List.filter_cons, hx, ne_eq, not_true_eq_false, decide_false, Bool.false_eq_true, if_false, hall]
      by_cases hj : fl.bid = j
      · subst hj
        simp only [decide_true, if_true, List.length_cons]
        omega
      · have : ¬ j = fl.bid := fun e => hj e.symm
        simp only [hj, decide_false, Bool.false_eq_true, if_false, this]
        omega
    · have hu' : (t.filter (fun f => decide (f.tid = tid))).length ≤ 1 := by
        simpa [List.filter_cons, hx] using hu
      have hmt : fl ∈ t := by
        cases hm with
        | head => exact absurd ht hx
        | tail _ h => exact h
      have ih := filter_remove_one tid t fl hu' hmt ht j
      simp only [List.filter_cons, hx, ne_eq, not_false_eq_true, decide_true, if_true]
      by_cases hj : x.bid = j
      · simp only [hj, decide_true, if_true, List.length_cons]
        simp only [ne_eq] at ih
        omega
      · simp only [hj, decide_false, Bool.false_eq_true, if_false]
        simp only [ne_eq] at ih
        exact ih

theorem ginv_end (y : Sys) (tid now : Nat) (out : Outcome) (h : GInv y) : GInv (end_ y tid now out).1 := by
  simp only [end_]
  cases hfl : y.flights.find? (·.tid = tid) with
  | none => exact h
  | some fl =>
    simp only []
    cases ho : (findObj y.pool fl.bid).orElse (fun _ => findObj y.dead fl.bid) with
    | none => exact h
    | some o =>
      simp only []
      have hmem : fl ∈ y.flights := List.mem_of_find?_eq_some hfl
      have htid : fl.tid = tid := by simpa using List.find?_some hfl
      have hk := finish_keys { y with flights := y.flights.filter (fun f => f.tid ≠ tid) } fl o now out
      refine ginv_adj y _ fl.bid (-1) ?_ hk.2.2.2 ?_ ?_ ?_ h
      · simp only [keys, List.map_append, hk.1, hk.2.1]
      · intro f hf
        rw [hk.2.2.1] at hf
        exact h.held f (List.mem_filter.mp hf).1
      · intro j
        simp only [inflightOn, hk.2.2.1]
        exact filter_remove_one tid y.flights fl (h.tids tid) hmem htid j
      · unfold UniqueTids
        intro t
        rw [hk.2.2.1]
        refine Nat.le_trans ?_ (h.tids t)
        rw [List.filter_filter]
        rw [show (fun a : Flight => decide (a.tid = t) && decide (a.tid ≠ tid)) = (fun a => decide (a.tid ≠ tid) && decide (a.tid = t)) by
          funext a; exact Bool.and_comm _ _]
        rw [← List.filter_filter]
        exact List.length_filter_le _ _

/-! ### admin and health operations -/

theorem ginv_add (y : Sys) (name : String) (w : Int) (ok : Bool) (h : GInv y) : GInv (add y name w ok).1 := by
  simp only [add]
  split
  · exact h
  · split
    · exact h
    · -- a new object: fresh identity, gauge zero, nothing in flight on it
      simp only []
      have hk : ∀ (b : Backend), keys { y with pool := y.pool ++ [{ id := y.nextId, b := b }] } =
          y.pool.map key ++ (y.nextId, b.conns) :: y.dead.map key := by
        intro b; simp [keys, key]
      refine ⟨?_, ?_, ?_, ?_, h.tids⟩
      · show (keys { y with pool := y.pool ++ [_] }).Pairwise _
        rw [hk]
        refine (List.perm_middle.pairwise_iff (fun h => fun e => h e.symm)).mpr ?_
        rw [List.pairwise_cons]
        refine ⟨?_, by simpa [keys] using h.uniq⟩
        intro q hq
        have := h.fresh q (by simpa [keys] using hq)
        simp only []; omega
      · intro p hp
        have hp' : p ∈ keys { y with pool := y.pool ++ [_] } := hp
        rw [hk] at hp'
        simp only [List.mem_append, List.mem_cons] at hp'
        show p.1 < y.nextId + 1
        rcases hp' with hp' | rfl | hp'
        · have := h.fresh p (by simp [keys, hp']); omega
        · simp
        · have := h.fresh p (by simp [keys, hp']); omega
      · intro f hf
        obtain ⟨p, hp, e⟩ := h.held f hf
        refine ⟨p, ?_, e⟩
        show p ∈ keys { y with pool := y.pool ++ [_] }
        rw [hk]
        simp only [keys, List.map_append, List.mem_append] at hp
        simp only [List.mem_append, List.mem_cons]
        rcases hp with hp | hp
        · exact Or.inl hp
        · exact Or.inr (Or.inr hp)
      · intro p hp
        have hp' : p ∈ keys { y with pool := y.pool ++ [_] } := hp
        rw [hk] at hp'
        simp only [List.mem_append, List.mem_cons] at hp'
        show p.2 = ((inflightOn y p.1 : Nat) : Int)
        rcases hp' with hp' | rfl | hp'
        · exact h.gauge p (by simp [keys, hp'])
        · -- no flight is held by an identity that was never handed out
          have : inflightOn y y.nextId = 0 := by
            simp only [inflightOn]
            apply List.length_eq_zero_iff.mpr
            apply List.filter_eq_nil_iff.mpr
            intro f hf
            obtain ⟨q, hq, e⟩ := h.held f hf
            have := h.fresh q hq
            simp only [decide_eq_true_eq]; omega
          simp [this]
        · exact h.gauge p (by simp [keys, hp'])

theorem set_swap_perm (l : Obj) : ∀ (init : List Obj) (i : Nat) (o : Obj), init[i]? = some o →
    (init.set i l ++ [o]).Perm (init ++ [l])
  | [], _, _, h => by simp at h
  | x :: t, 0, o, h => by
    simp only [List.getElem?_cons_zero, Option.some.injEq] at h
    subst h
    simp only [List.set_cons_zero, List.cons_append]
    exact (List.perm_append_singleton x (l :: t)).trans ((List.perm_append_singleton l t).symm.cons x)
  | x :: t, i + 1, o, h => by
    simp only [List.getElem?_cons_succ] at h
    simp only [List.set_cons_succ, List.cons_append]
    exact (set_swap_perm l t i o h).cons x

theorem removeAt_perm (pool : List Obj) (i : Nat) (o l : Obj) (ho : pool[i]? = some o) (hl : pool.getLast? = some l) :
    ((pool.set i l).dropLast ++ [o]).Perm pool := by
  have hne : pool ≠ [] := by intro e; rw [e] at ho; simp at ho
  have hsplit : pool = pool.dropLast ++ [l] := by
    have h1 := (List.dropLast_concat_getLast hne).symm
    have h2 : pool.getLast hne = l := by
      have := List.getLast?_eq_getLast hne
      rw [this] at hl; exact Option.some.inj hl
    rw [h2] at h1; exact h1
  have hi : i < pool.length := (List.getElem?_eq_some_iff.mp ho).1
  have hlen : pool.length = pool.dropLast.length + 1 := by
    rw [List.length_dropLast]; have := List.length_pos_iff.mpr hne; omega
  by_cases hlast : i = pool.dropLast.length
  · -- the last element itself
    have hol : o = l := by
      rw [hsplit, hlast] at ho
      simp at ho
      exact ho.symm
    have hset : pool.set i l = pool := by
      apply List.ext_getElem?
      intro n
      rw [List.getElem?_set]
      split
      · rename_i e; rw [← e, ho, hol]
      · rfl
    rw [hset, hol]
    exact List.Perm.of_eq hsplit.symm
  · have hi' : i < pool.dropLast.length := by omega
    have hset : pool.set i l = pool.dropLast.set i l ++ [l] := by
      conv => lhs; rw [hsplit]
      rw [List.set_append_left _ _ hi']
    have ho' : pool.dropLast[i]? = some o := by
      rw [hsplit, List.getElem?_append_left hi'] at ho; exact ho
    rw [hset, List.dropLast_concat]
    conv => rhs; rw [hsplit]
    exact set_swap_perm l pool.dropLast i o ho'

theorem ginv_remove (y : Sys) (name : String) (h : GInv y) : GInv (remove y name) := by
  simp only [remove]
  split
  · exact h
  · rename_i i _
    split
    · rename_i o l ho hl
      refine ginv_perm y _ ?_ rfl rfl h
      show (((y.pool.set i l).dropLast ++ o :: y.dead).map key).Perm ((y.pool ++ y.dead).map key)
      have hp := (removeAt_perm y.pool i o l ho hl).map key
      have : ((y.pool.set i l).dropLast ++ o :: y.dead).map key =
          ((y.pool.set i l).dropLast ++ [o]).map key ++ y.dead.map key := by simp
      rw [this]
      have e2 : (y.pool ++ y.dead).map key = y.pool.map key ++ y.dead.map key := List.map_append
      rw [e2]
      exact hp.append_right _
    · exact h

theorem ginv_setStrategy (y : Sys) (name : String) (h : GInv y) : GInv (setStrategy y name).1 := by
  simp only [setStrategy]
  split
  · exact h
  · refine ginv_same y _ ?_ rfl rfl h
    exact keys_of y _ (map_key_map y.pool _ (fun o => rfl)) rfl

theorem eject_keys (y : Sys) (name : String) (now d : Nat) :
    keys (eject y name now d).1 = keys y ∧ (eject y name now d).1.flights = y.flights ∧
    (eject y name now d).1.nextId = y.nextId := by
  simp only [eject]
  split
  · exact ⟨rfl, rfl, rfl⟩
  · split
    · exact ⟨rfl, rfl, rfl⟩
    · rename_i i _ o ho
      exact ⟨keys_of _ _ (map_key_set _ _ o _ ho rfl) rfl, rfl, rfl⟩

theorem ginv_eject (y : Sys) (name : String) (now d : Nat) (h : GInv y) : GInv (eject y name now d).1 := by
  have hk := eject_keys y name now d
  exact ginv_same y _ hk.1 hk.2.1 hk.2.2 h

theorem ginv_probe (y : Sys) (name : String) (now : Nat) (ok : Bool) (h : GInv y) : GInv (probe y name now ok).1 := by
  simp only [probe]
  split
  · exact h
  · rename_i i _
    have hh := isHealthyAt_keys y i now
    have h1 : GInv (isHealthyAt y i now).1 := ginv_same y _ (keys_of _ _ hh.1 hh.2.1) hh.2.2.1 hh.2.2.2 h
    split
    · exact h1
    · split
      · exact ginv_eject _ _ _ _ h1
      · split
        · exact h1
        · rename_i o ho
          refine ginv_same (isHealthyAt y i now).1 _ ?_ rfl rfl h1
          exact keys_of _ _ (map_key_set _ _ o _ ho rfl) rfl

/-! ### every history -/

theorem ginv_init (k : Kind) (hc : HC) (rl : Option (RL.Cfg × RL.Map)) (cb : Option (CB.Cfg × CB.State)) :
    GInv { kind := k, hc := hc, rl := rl, cb := cb } := by
  refine ⟨by simp [keys], by simp [keys], by simp, by simp [keys], ?_⟩
  intro t; simp

theorem ginv_step (y : Sys) (op : Op) (h : GInv y) : GInv (stepOp y op) := by
  cases op with
  | begin tid now r =>
    simp only [stepOp]
    by_cases hany : y.flights.any (·.tid = tid) = true
    · simp only [hany, if_true]; exact h
    · simp only [hany, Bool.false_eq_true, if_false]
      exact ginv_begin y tid now r h (by simpa using hany)
  | end_ tid now out => exact ginv_end y tid now out h
  | add n w a => exact ginv_add y n w a h
  | remove n => exact ginv_remove y n h
  | setStrategy n => exact ginv_setStrategy y n h
  | eject n now d => exact ginv_eject y n now d h
  | probe n now ok => exact ginv_probe y n now ok h

theorem ginv_run (ops : List Op) : ∀ (y : Sys), GInv y → GInv (runOps y ops) := by
  induction ops with
  | nil => intro y h; exact h
  | cons op rest ih => intro y h; exact ih _ (ginv_step y op h)

/-- **Gauges along every history.** From a fresh balancer, after any sequence of request
begins / ends (overlapping in any way, any outcome, aborts included), admin operations,
ejections and probes, the in-flight gauge of every backend object the balancer still references
equals the number of requests really in flight on it. -/
theorem gauge_ok_run (k : Kind) (hc : HC) (rl : Option (RL.Cfg × RL.Map)) (cb : Option (CB.Cfg × CB.State))
    (ops : List Op) : GaugeOK (runOps { kind := k, hc := hc, rl := rl, cb := cb } ops) := by
  have h := ginv_run ops _ (ginv_init k hc rl cb)
  intro o ho
  have := h.gauge (key o) (List.mem_map.mpr ⟨o, ho, rfl⟩)
  exact this

/-- … and therefore reads zero whenever nothing is in flight. -/
theorem gauges_zero_run (k : Kind) (hc : HC) (rl : Option (RL.Cfg × RL.Map)) (cb : Option (CB.Cfg × CB.State))
    (ops : List Op) (hq : (runOps { kind := k, hc := hc, rl := rl, cb := cb } ops).flights = []) :
    ∀ o ∈ (runOps { kind := k, hc := hc, rl := rl, cb := cb } ops).pool ++
          (runOps { kind := k, hc := hc, rl := rl, cb := cb } ops).dead, o.b.conns = 0 :=
  gauges_zero_when_idle _ (gauge_ok_run k hc rl cb ops) hq

end Helios.LB
