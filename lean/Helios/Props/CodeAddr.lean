import Helios.Props.CodeStrat
import Helios.Props.CodeHash
import Helios.Lemmas.Strategy
/-
Tie C for the client-address code (C06/C09/C10/C13): `utils.GetClientIP` and `NextBackend` of the two
hash strategies, translated from the source on every run with Go strings read as byte strings.
The standard-library functions they call are represented by their models (`net.SplitHostPort` =
`Addr.splitHost`, `strings.TrimSpace` = `Addr.trimSpace`, `hash/fnv.New32a` = `Hash.fnv1a`; those
three are validated against the Go functions by the address corpus of the differential tie, not
proven); everything Helios itself wrote — which header is consulted first, what happens around the
first comma, the fallbacks, the eligible sub-slice, the reduction of the hash to an index — is
covered by the theorems below for EVERY header value, peer address, pool and health state.
-/
namespace Helios.CodeTie
open Helios Helios.Generated

/-! ### `utils.GetClientIP` -/

theorem bne_nil {α : Type} [BEq α] (l : List α) : (l != ([] : List α)) = !l.isEmpty := by
  cases l <;> rfl

/-- **GetClientIP, as written, is the model's `clientIP`** (the limiter's bucket key, the identity
in the access log) for every header pair and peer address -/
theorem GetClientIP_refines (xff xri remote : Bytes) :
    Code.GetClientIP xff xri remote = Addr.clientIP ⟨xff, xri, remote⟩ := by
  unfold Code.GetClientIP Addr.clientIP Code.strIndexByte
  simp only []
  cases xff with
  | nil =>
    cases xri with
    | nil =>
      cases h : Addr.splitHost remote <;> simp [h]
    | cons a as => simp
  | cons a as =>
    have : Bytes.comma = (0x2C : UInt8) := rfl
    cases h : Bytes.indexOf 0x2C (a :: as) with
    | none => simp [h, this]
    | some i =>
      cases i with
      | zero => simp [h, this]
      | succ i =>
        simp [h, this]

/-! ### the hash strategies -/

/-- `if strings.Contains(s, ",") { s = strings.Split(s, ",")[0] }` is the model's `firstField` -/
theorem first_field_eq (s : Bytes) :
    (if Bytes.contains 0x2C s then Code.strSplitFirst s 0x2C else s) = Addr.firstField s := by
  have hc : Bytes.comma = (0x2C : UInt8) := rfl
  unfold Bytes.contains Code.strSplitFirst Addr.firstField
  rw [hc]
  cases Bytes.indexOf 0x2C s <;> simp

/-- the key the code hashes: which of the three sources, then the text before the first comma -/
theorem key_refines (xff xri remote : Bytes) :
    (let ipStr := if (xff == ([] : Bytes)) then xri else xff
     let ipStr := if (ipStr == ([] : Bytes)) then
        (if (if (Addr.splitHost remote).isSome then (none : Option (String × List String)) else some ("net.SplitHostPort", [])).isSome
          then remote else (Addr.splitHost remote).getD [])
        else ipStr
     if Bytes.contains 0x2C ipStr then Code.strSplitFirst ipStr 0x2C else ipStr)
    = Addr.strategyKey ⟨xff, xri, remote⟩ := by
  have hc : Bytes.comma = (0x2C : UInt8) := rfl
  have hf : ∀ s : Bytes, (if Bytes.contains 0x2C s then Code.strSplitFirst s 0x2C else s) = Addr.firstField s := by
    intro s
    unfold Bytes.contains Code.strSplitFirst Addr.firstField
    rw [hc]
    cases Bytes.indexOf 0x2C s <;> simp
  simp only [hf, Addr.strategyKey]
  congr 1
  cases xff with
  | cons a as => simp
  | nil =>
    cases xri with
    | cons a as => simp
    | nil => cases h : Addr.splitHost remote <;> simp [h]

/-- the eligible sub-slice the strategies build -/
def healthyOf (bs : List Code.Backend) (now : Int) : List Code.Backend := bs.filter (fun b => (Code.eligible b now).2)

theorem ip_range_is_filter (s : Code.IPHashStrategy) (now : Int) (bs : List Code.Backend) (j : Int) (acc : List Code.Backend) :
    Code.ipNextBackend_range1 s now bs j acc = .inr (acc ++ healthyOf bs now) := by
  induction bs generalizing j acc with
  | nil => simp [Code.ipNextBackend_range1, healthyOf]
  | cons b bs ih =>
    unfold Code.ipNextBackend_range1
    cases h : (Code.eligible b now).2 <;> simp [h, ih, healthyOf, List.filter_cons]

theorem eligibleIdx_cons (b : LB.Backend) (pool : List LB.Backend) (now : Nat) :
    LB.eligibleIdx (b :: pool) now =
      (if b.eligible now then [0] else []) ++ (LB.eligibleIdx pool now).map (· + 1) := by
  simp only [LB.eligibleIdx, List.length_cons, List.range_succ_eq_map, List.filter_cons, List.filter_map]
  cases h : b.eligible now <;> simp [h, Function.comp_def]

/-- position `k` of the code's eligible sub-slice holds the backend the model's `k`-th eligible index names -/
theorem healthy_is_eligibleIdx (bs : List Code.Backend) (now : Int) (hn : 0 ≤ now) (hu : ∀ b ∈ bs, 0 ≤ b.UnhealthyUntil) :
    (LB.eligibleIdx (absPool bs) now.toNat).map (bs[·]?) = (healthyOf bs now).map some := by
  induction bs with
  | nil => simp [LB.eligibleIdx, absPool, healthyOf]
  | cons b bs ih =>
    have hb := (eligible_refines b now 0 (hu b (List.mem_cons_self ..)) hn).1
    have ih' := ih (fun x hx => hu x (List.mem_cons_of_mem _ hx))
    have hm : absPool (b :: bs) = absBackend b 0 :: absPool bs := rfl
    rw [hm, eligibleIdx_cons, List.map_append, List.map_map]
    have : ((fun x => (b :: bs)[x]?) ∘ fun x => x + 1) = (bs[·]?) := by funext i; simp
    rw [this, ih']
    unfold healthyOf
    rw [List.filter_cons, hb]
    cases (absBackend b 0).eligible now.toNat <;> simp

theorem healthy_length (bs : List Code.Backend) (now : Int) (hn : 0 ≤ now) (hu : ∀ b ∈ bs, 0 ≤ b.UnhealthyUntil) :
    (healthyOf bs now).length = (LB.eligibleIdx (absPool bs) now.toNat).length := by
  have := congrArg List.length (healthy_is_eligibleIdx bs now hn hu)
  simpa using this.symm

theorem healthy_at (bs : List Code.Backend) (now : Int) (hn : 0 ≤ now) (hu : ∀ b ∈ bs, 0 ≤ b.UnhealthyUntil) (k : Nat) :
    (healthyOf bs now)[k]? = ((LB.eligibleIdx (absPool bs) now.toNat)[k]?).bind (bs[·]?) := by
  have := congrArg (·[k]?) (healthy_is_eligibleIdx bs now hn hu)
  simp only [List.getElem?_map] at this
  cases h1 : (LB.eligibleIdx (absPool bs) now.toNat)[k]? <;> cases h2 : (healthyOf bs now)[k]? <;> simp_all

theorem len_beq_zero {α : Type} (l : List α) : (Int.ofNat l.length == (0 : Int)) = l.isEmpty := by
  cases l with
  | nil => rfl
  | cons a l => simp; omega

/-- the last lines of `NextBackend` (ip_hash): the hash value reduced modulo the number of eligible backends -/
theorem ip_tail (healthy : List Code.Backend) (x : Nat) (hne : healthy.length ≠ 0) :
    some (Code.listGet healthy (Int.toNat (Int.ofNat (x % Int.toNat (Int.ofNat healthy.length)))))
      = healthy[x % healthy.length]? := by
  have hlt : x % healthy.length < healthy.length := Nat.mod_lt _ (by omega)
  simp only [Int.toNat_natCast, Int.ofNat_eq_natCast]
  rw [listGet_lt _ _ hlt]
  simp [hlt]

/-- **ip_hash, as written**: the strategy object is left as it was and the backend returned is the one in the slot
the model's `ipHashPick` names for the model's `strategyKey` of the request — for every pool, health state,
header pair and peer address -/
theorem ipNext_refines (s : Code.IPHashStrategy) (xff xri remote : Bytes) (now : Int) (hn : 0 ≤ now)
    (hu : ∀ b ∈ s.backends, 0 ≤ b.UnhealthyUntil) :
    Code.ipNextBackend s xff xri remote now =
      (s, (LB.ipHashPick (absPool s.backends) now.toNat (Addr.strategyKey ⟨xff, xri, remote⟩)).bind (s.backends[·]?)) := by
  have hlen := healthy_length s.backends now hn hu
  have hk := key_refines xff xri remote
  unfold Code.ipNextBackend LB.ipHashPick
  simp only [ip_range_is_filter, List.nil_append, len_beq_zero]
  cases hb : s.backends with
  | nil => simp [LB.eligibleIdx, absPool]
  | cons b0 bs0 =>
    rw [← hb]
    simp only [show s.backends.isEmpty = false by simp [hb], if_false, Bool.false_eq_true]
    cases hh : healthyOf s.backends now with
    | nil =>
      have : (LB.eligibleIdx (absPool s.backends) now.toNat).length = 0 := by rw [← hlen, hh]; rfl
      simp [this]
    | cons h0 hs0 =>
      rw [← hh]
      have h1 : (healthyOf s.backends now).length ≠ 0 := by simp [hh]
      have h1m : ¬ ((LB.eligibleIdx (absPool s.backends) now.toNat).length = 0) := by omega
      simp only [show (healthyOf s.backends now).isEmpty = false by simp [hh], if_false, Bool.false_eq_true, h1m]
      rw [← hk, ← hlen, ← healthy_at s.backends now hn hu]
      simp only [ip_tail _ _ h1]
      cases xff with
      | cons a as => simp
      | nil =>
        cases xri with
        | cons a as => simp
        | nil => cases hs : Addr.splitHost remote <;> simp [hs]

/-! ### ip_hash_consistent -/

theorem ipc_range_is_filter (s : Code.IPHashConsistentStrategy) (now : Int) (bs : List Code.Backend) (j : Int) (acc : List Code.Backend) :
    Code.ipcNextBackend_range1 s now bs j acc = .inr (acc ++ healthyOf bs now) := by
  induction bs generalizing j acc with
  | nil => simp [Code.ipcNextBackend_range1, healthyOf]
  | cons b bs ih =>
    unfold Code.ipcNextBackend_range1
    cases h : (Code.eligible b now).2 <;> simp [h, ih, healthyOf, List.filter_cons]

/-- the last lines of `NextBackend` (ip_hash_consistent): the translated `jumpHash` — machine integers, fuel — on the
32-bit hash widened to 64 bits and the number of eligible backends narrowed to `int32`: it returns … -/
theorem ipc_some (healthy : List Code.Backend) (x : UInt32) (hne : healthy.length ≠ 0)
    (hsmall : healthy.length < 2147483648) (fuel : Nat) (hf : healthy.length < fuel) :
    Code.jumpHash fuel (UInt64.ofNat x.toNat) (Int32.ofInt (Int.ofNat healthy.length)) ≠ none := by
  have hn : (Int32.ofInt (Int.ofNat healthy.length)).toInt = healthy.length := by
    apply Int32.toInt_ofInt_of_le <;> simp <;> omega
  obtain ⟨r, h1, _⟩ := jumpHash_refines (UInt64.ofNat x.toNat) (Int32.ofInt (Int.ofNat healthy.length))
    (by rw [hn]; omega) fuel (by rw [hn]; simpa using hf)
  intro h
  rw [h1] at h
  cases h

/-- … and what it returns indexes the eligible sub-slice where the model's `jumpHash` says -/
theorem ipc_val (healthy : List Code.Backend) (x : UInt32) (hne : healthy.length ≠ 0)
    (hsmall : healthy.length < 2147483648) (fuel : Nat) (hf : healthy.length < fuel) (r : Int32)
    (hr : Code.jumpHash fuel (UInt64.ofNat x.toNat) (Int32.ofInt (Int.ofNat healthy.length)) = some r) :
    some (Code.listGet healthy (Int.toNat (Int32.toInt r))) = healthy[(Hash.jumpHash x.toUInt64 healthy.length).toNat]? := by
  have hn : (Int32.ofInt (Int.ofNat healthy.length)).toInt = healthy.length := by
    apply Int32.toInt_ofInt_of_le <;> simp <;> omega
  obtain ⟨r', h1, h2⟩ := jumpHash_refines (UInt64.ofNat x.toNat) (Int32.ofInt (Int.ofNat healthy.length))
    (by rw [hn]; omega) fuel (by rw [hn]; simpa using hf)
  rw [h1] at hr
  cases hr
  simp only [h2, hn, Int.toNat_natCast, UInt64.ofNat_uInt32ToNat]
  have hr := Hash.jump_range x.toUInt64 healthy.length (by omega)
  have hlt : (Hash.jumpHash x.toUInt64 healthy.length).toNat < healthy.length := by omega
  rw [listGet_lt _ _ hlt]
  simp [hlt]

/-- **ip_hash_consistent, as written**: with fewer than 2³¹ backends (the `int32` conversion of the count) and any fuel
above their number, the function returns, leaves the strategy object as it was, and the backend returned is the one in
the slot the model's `ipHashCPick` names for the model's `strategyKey` of the request -/
theorem ipcNext_refines (s : Code.IPHashConsistentStrategy) (xff xri remote : Bytes) (now : Int) (hn : 0 ≤ now)
    (hu : ∀ b ∈ s.backends, 0 ≤ b.UnhealthyUntil) (hsmall : s.backends.length < 2147483648)
    (fuel : Nat) (hf : s.backends.length < fuel) :
    Code.ipcNextBackend fuel s xff xri remote now =
      some (s, (LB.ipHashCPick (absPool s.backends) now.toNat (Addr.strategyKey ⟨xff, xri, remote⟩)).bind (s.backends[·]?)) := by
  have hlen := healthy_length s.backends now hn hu
  have hle : (healthyOf s.backends now).length ≤ s.backends.length := List.length_filter_le _ _
  unfold Code.ipcNextBackend LB.ipHashCPick
  simp only [ipc_range_is_filter, List.nil_append, len_beq_zero]
  cases hb : s.backends with
  | nil => simp [LB.eligibleIdx, absPool]
  | cons b0 bs0 =>
    rw [← hb]
    simp only [show s.backends.isEmpty = false by simp [hb], if_false, Bool.false_eq_true]
    cases hh : healthyOf s.backends now with
    | nil =>
      have : (LB.eligibleIdx (absPool s.backends) now.toNat).length = 0 := by rw [← hlen, hh]; rfl
      simp [this]
    | cons h0 hs0 =>
      rw [← hh]
      have h1 : (healthyOf s.backends now).length ≠ 0 := by simp [hh]
      have h1m : ¬ ((LB.eligibleIdx (absPool s.backends) now.toNat).length = 0) := by omega
      simp only [show (healthyOf s.backends now).isEmpty = false by simp [hh], if_false, Bool.false_eq_true, h1m]
      rw [← hlen, ← healthy_at s.backends now hn hu]
      have hsm : (healthyOf s.backends now).length < 2147483648 := by omega
      have hfu : (healthyOf s.backends now).length < fuel := by omega
      have e0 : (([] : Bytes) == []) = true := rfl
      have e1 : ∀ (a : UInt8) (as : List UInt8), ((a :: as : Bytes) == []) = false := fun _ _ => rfl
      simp only [first_field_eq, Addr.strategyKey]
      cases xff with
      | cons a as =>
        simp only [e1, if_false, Bool.false_eq_true, ne_eq, reduceCtorEq, not_false_eq_true, if_true]
        split
        · rename_i hnone; exact absurd hnone (ipc_some _ _ h1 hsm fuel hfu)
        · rename_i r hsome; rw [ipc_val _ _ h1 hsm fuel hfu r hsome]
      | nil =>
        cases xri with
        | cons a as =>
          simp only [e0, e1, if_false, Bool.false_eq_true, ne_eq, reduceCtorEq, not_false_eq_true, if_true, not_true_eq_false]
          split
          · rename_i hnone; exact absurd hnone (ipc_some _ _ h1 hsm fuel hfu)
          · rename_i r hsome; rw [ipc_val _ _ h1 hsm fuel hfu r hsome]
        | nil =>
          cases hs : Addr.splitHost remote with
          | none =>
            simp only [e0, if_true, Option.isSome_none, Bool.false_eq_true, if_false, Option.isSome_some, ne_eq, not_true_eq_false]
            split
            · rename_i hnone; exact absurd hnone (ipc_some _ _ h1 hsm fuel hfu)
            · rename_i r hsome; rw [ipc_val _ _ h1 hsm fuel hfu r hsome]
          | some h =>
            simp only [e0, if_true, Option.isSome_none, Bool.false_eq_true, if_false, Option.isSome_some, Option.getD_some, ne_eq, not_true_eq_false]
            split
            · rename_i hnone; exact absurd hnone (ipc_some _ _ h1 hsm fuel hfu)
            · rename_i r hsome; rw [ipc_val _ _ h1 hsm fuel hfu r hsome]

/-! ### consequences on the code itself -/

/-- **client affinity of the code** (C06): two requests whose model key is the same are given the same backend by
`ip_hash` as written, whatever else differs in their headers or peer address — same pool, same instant -/
theorem ipNext_same_key (s : Code.IPHashStrategy) (x1 r1 a1 x2 r2 a2 : Bytes) (now : Int) (hn : 0 ≤ now)
    (hu : ∀ b ∈ s.backends, 0 ≤ b.UnhealthyUntil)
    (hk : Addr.strategyKey ⟨x1, r1, a1⟩ = Addr.strategyKey ⟨x2, r2, a2⟩) :
    Code.ipNextBackend s x1 r1 a1 now = Code.ipNextBackend s x2 r2 a2 now := by
  rw [ipNext_refines s x1 r1 a1 now hn hu, ipNext_refines s x2 r2 a2 now hn hu, hk]

theorem ipcNext_same_key (s : Code.IPHashConsistentStrategy) (x1 r1 a1 x2 r2 a2 : Bytes) (now : Int) (hn : 0 ≤ now)
    (hu : ∀ b ∈ s.backends, 0 ≤ b.UnhealthyUntil) (hsmall : s.backends.length < 2147483648)
    (fuel : Nat) (hf : s.backends.length < fuel)
    (hk : Addr.strategyKey ⟨x1, r1, a1⟩ = Addr.strategyKey ⟨x2, r2, a2⟩) :
    Code.ipcNextBackend fuel s x1 r1 a1 now = Code.ipcNextBackend fuel s x2 r2 a2 now := by
  rw [ipcNext_refines s x1 r1 a1 now hn hu hsmall fuel hf, ipcNext_refines s x2 r2 a2 now hn hu hsmall fuel hf, hk]

/-- the hash strategies as written never return a backend that is inside an unhealthy window (C02), and return one
whenever some backend is eligible -/
theorem ipNext_eligible (s : Code.IPHashStrategy) (xff xri remote : Bytes) (now : Int) (hn : 0 ≤ now)
    (hu : ∀ b ∈ s.backends, 0 ≤ b.UnhealthyUntil) (b : Code.Backend)
    (h : (Code.ipNextBackend s xff xri remote now).2 = some b) : (Code.eligible b now).2 = true ∧ b ∈ s.backends := by
  rw [ipNext_refines s xff xri remote now hn hu] at h
  simp only [LB.ipHashPick] at h
  split at h
  · simp at h
  · rw [← healthy_length s.backends now hn hu, ← healthy_at s.backends now hn hu] at h
    have hm := List.mem_of_getElem? h
    simp only [healthyOf, List.mem_filter] at hm
    exact ⟨hm.2, hm.1⟩

/-! ### the hypotheses are met, and the translated functions compute -/

def sampleBackends : List Code.Backend :=
  [{ (default : Code.Backend) with Weight := 1, IsHealthy := true },
   { (default : Code.Backend) with Weight := 2, IsHealthy := false, UnhealthyUntil := 50 },
   { (default : Code.Backend) with Weight := 3, IsHealthy := true }]

example : ∀ b ∈ sampleBackends, 0 ≤ b.UnhealthyUntil := by decide
/-- X-Forwarded-For " 203.0.113.9 , 10.0.0.1", X-Real-IP "9.9.9.9", peer "10.0.0.1:1234": the limiter's key is the first
element, trimmed -/
example : Code.GetClientIP [32, 50, 48, 51, 46, 48, 46, 49, 49, 51, 46, 57, 32, 44, 32, 49, 48, 46, 48, 46, 48, 46, 49] [57, 46, 57, 46, 57, 46, 57] [49, 48, 46, 48, 46, 48, 46, 49, 58, 49, 50, 51, 52] = [50, 48, 51, 46, 48, 46, 49, 49, 51, 46, 57] := by decide
/-- no headers, peer "[::1]:80": the host part -/
example : Code.GetClientIP [] [] [91, 58, 58, 49, 93, 58, 56, 48] = [58, 58, 49] := by decide
/-- a peer address without a port is used as it stands -/
example : Code.GetClientIP [] [] [49, 48, 46, 48, 46, 48, 46, 49] = [49, 48, 46, 48, 46, 48, 46, 49] := by decide
example : ((Code.ipNextBackend ⟨sampleBackends⟩ [] [] [49, 48, 46, 48, 46, 48, 46, 49, 58, 49, 50, 51, 52] 10).2.map (·.Weight)) = some 3 := by decide
example : ((Code.ipcNextBackend 4 ⟨sampleBackends⟩ [] [] [49, 48, 46, 48, 46, 48, 46, 49, 58, 49, 50, 51, 52] 10).map (·.2.map (·.Weight))) = some (some 3) := by decide

/-- every function of this group was translated; nothing in them fell outside the fragment -/
theorem translation_clean_addr :
    ["GetClientIP", "ipNextBackend", "ipcNextBackend"].all (fun f => Code.translated.contains f) = true ∧
    (Code.translationProblems.filter (fun p => ["GetClientIP", "NextBackend"].contains p.1)) = [] := by
  decide

end Helios.CodeTie
