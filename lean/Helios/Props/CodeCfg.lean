import Helios.Generated.Code
import Helios.Model.Config
import Helios.Props.C18
/-
Tie C for C18 — `Config.Validate` and its eleven section validators, translated from the source
on every run, compute exactly the model's `Cfg.validate`: the same first violated rule, for every
configuration. `validate_iff_documented` (Props/C18) is about the model; this carries it to the
code as written.
-/
namespace Helios.CodeTie
open Helios Helios.Generated

/-- first violated rule of a list -/
def fv (l : List (Bool × Nat)) : Option Nat := (l.find? (·.1)).map (·.2)

theorem validate_fv (c : Cfg.Config) : Cfg.validate c = fv (Cfg.rules c) := rfl

theorem fv_nil : fv [] = none := rfl
theorem fv_cons (b : Bool) (n : Nat) (l : List (Bool × Nat)) : fv ((b, n) :: l) = if b then some n else fv l := by
  cases b <;> simp [fv]
theorem fv_append (a b : List (Bool × Nat)) : fv (a ++ b) = (fv a).or (fv b) := by
  induction a with
  | nil => simp [fv]
  | cons x xs ih =>
    obtain ⟨p, n⟩ := x
    cases p <;> simp [fv_cons, ih]

def absBackendCfg (b : Code.BackendConfig) : Cfg.Backend := ⟨b.Name, b.Address, b.Weight⟩

/-- the flat record of the model from the nested records of the code -/
@[reducible] def absCfg (g : Code.Config) : Cfg.Config :=
  { backends := g.Backends.map absBackendCfg, port := g.Server.Port, tlsOn := g.Server.TLS.Enabled,
    tlsCert := g.Server.TLS.CertFile, tlsKey := g.Server.TLS.KeyFile,
    tRead := g.Server.Timeouts.Read, tWrite := g.Server.Timeouts.Write, tIdle := g.Server.Timeouts.Idle,
    tHandler := g.Server.Timeouts.Handler, tShutdown := g.Server.Timeouts.Shutdown,
    tDial := g.Server.Timeouts.BackendDial, tBRead := g.Server.Timeouts.BackendRead, tBIdle := g.Server.Timeouts.BackendIdle,
    strategy := g.LoadBalancer.Strategy, wsOn := g.LoadBalancer.WebSocketPool.Enabled,
    wsMaxIdle := g.LoadBalancer.WebSocketPool.MaxIdle, wsMaxActive := g.LoadBalancer.WebSocketPool.MaxActive,
    wsIdleTimeout := g.LoadBalancer.WebSocketPool.IdleTimeoutSeconds,
    actOn := g.HealthChecks.Active.Enabled, actInterval := g.HealthChecks.Active.Interval,
    actTimeout := g.HealthChecks.Active.Timeout, actPath := g.HealthChecks.Active.Path,
    pasOn := g.HealthChecks.Passive.Enabled, pasThreshold := g.HealthChecks.Passive.UnhealthyThreshold,
    pasTimeout := g.HealthChecks.Passive.UnhealthyTimeout,
    rlOn := g.RateLimit.Enabled, rlMax := g.RateLimit.MaxTokens, rlRefill := g.RateLimit.RefillRate,
    cbOn := g.CircuitBreaker.Enabled, cbMax := g.CircuitBreaker.MaxRequests, cbInterval := g.CircuitBreaker.IntervalSeconds,
    cbTimeout := g.CircuitBreaker.TimeoutSeconds, cbFailure := g.CircuitBreaker.FailureThreshold,
    cbSuccess := g.CircuitBreaker.SuccessThreshold,
    metOn := g.Metrics.Enabled, metPort := g.Metrics.Port, metPath := g.Metrics.Path,
    admOn := g.AdminAPI.Enabled, admPort := g.AdminAPI.Port,
    logLevel := g.Logging.Level, logFormat := g.Logging.Format }

def secondsRule (name : String) : Nat :=
  if name == "server read timeout" then 40 else if name == "server write timeout" then 41
  else if name == "server idle timeout" then 42 else if name == "server handler timeout" then 43
  else if name == "server shutdown timeout" then 44 else if name == "backend dial timeout" then 45
  else if name == "backend read timeout" then 46 else if name == "backend idle timeout" then 47
  else if name == "websocket pool idle_timeout_seconds" then 48 else if name == "active health check interval" then 49
  else if name == "active health check timeout" then 50 else if name == "passive health check unhealthy timeout" then 51
  else if name == "rate limit refill rate" then 52 else if name == "circuit breaker interval" then 53
  else if name == "circuit breaker timeout" then 54 else 0

def countsRule (name : String) : Nat :=
  if name == "circuit breaker max requests" then 55 else if name == "circuit breaker failure threshold" then 56
  else if name == "circuit breaker success threshold" then 57 else 0

/-- the rule a validation error stands for: by its format string (and, for the two range
messages shared by many fields, by the field name it was built with) -/
def ruleOf (e : String × List String) : Nat :=
  let m := e.1
  if m == "no backend servers configured" then 1
  else if m == "backend %d: name is required" then 2
  else if m == "backend %s: address is required" then 3
  else if m == "backend %s: weight must be non-negative (got %d)" then 4
  else if m == "server port must be between 1 and 65535 (got %d)" then 5
  else if m == "TLS enabled but cert file not specified" then 6
  else if m == "TLS enabled but key file not specified" then 7
  else if m == "server read timeout must be non-negative (got %d)" then 8
  else if m == "server write timeout must be non-negative (got %d)" then 9
  else if m == "server idle timeout must be non-negative (got %d)" then 10
  else if m == "server handler timeout must be non-negative (got %d)" then 11
  else if m == "server shutdown timeout must be non-negative (got %d)" then 12
  else if m == "backend dial timeout must be non-negative (got %d)" then 13
  else if m == "backend read timeout must be non-negative (got %d)" then 14
  else if m == "backend idle timeout must be non-negative (got %d)" then 15
  else if m == "invalid load balancer strategy: %s (valid: round_robin, least_connections, weighted_round_robin, ip_hash, ip_hash_consistent)" then 16
  else if m == "websocket pool max_idle must be non-negative (got %d)" then 17
  else if m == "websocket pool max_active must be non-negative (got %d)" then 18
  else if m == "websocket pool max_idle (%d) must be less than or equal to max_active (%d)" then 19
  else if m == "websocket pool idle_timeout_seconds must be non-negative (got %d)" then 20
  else if m == "active health check interval must be positive (got %d)" then 21
  else if m == "active health check timeout must be positive (got %d)" then 22
  else if m == "active health check timeout (%d) must be less than interval (%d)" then 23
  else if m == "active health check path is required when enabled" then 24
  else if m == "passive health check unhealthy threshold must be positive (got %d)" then 25
  else if m == "passive health check unhealthy timeout must be positive (got %d)" then 26
  else if m == "rate limit max tokens must be positive (got %d)" then 27
  else if m == "rate limit refill rate must be positive (got %d)" then 28
  else if m == "circuit breaker failure threshold must be positive (got %d)" then 29
  else if m == "circuit breaker success threshold must be positive (got %d)" then 30
  else if m == "circuit breaker timeout must be positive (got %d)" then 31
  else if m == "circuit breaker interval must be positive (got %d)" then 32
  else if m == "circuit breaker max requests must be non-negative (got %d)" then 33
  else if m == "circuit breaker success threshold (%d) must not exceed max requests (%d): the breaker could never close" then 34
  else if m == "metrics port must be between 1 and 65535 (got %d)" then 35
  else if m == "metrics path is required when enabled" then 36
  else if m == "admin API port must be between 1 and 65535 (got %d)" then 37
  else if m == "invalid log level: %s (valid: debug, info, warn, error, fatal)" then 38
  else if m == "invalid log format: %s (valid: json, console, text)" then 39
  else if m == "metrics path must start with '/' (got %q)" then 58
  else if m == "metrics path /health is reserved for the health endpoint of the metrics server" then 59
  else if m == "%s is too large (got %d seconds, at most %d)" then secondsRule (e.2.headD "")
  else if m == "%s is too large (got %d, at most %d)" then countsRule (e.2.headD "")
  else 0

/-- what a section validator must satisfy: the configuration comes back untouched and the error
it returns stands for the first violated rule of the model's section -/
def Sec (v : Code.Config → Code.Config × Option (String × List String)) (r : Cfg.Config → List (Bool × Nat)) : Prop :=
  ∀ g, (v g).1 = g ∧ (v g).2.map ruleOf = fv (r (absCfg g))

theorem sec_server : Sec Code.validateServer Cfg.rServer := by
  intro g
  unfold Code.validateServer Cfg.rServer
  simp only [fv_cons, fv_nil, Cfg.portBad]
  by_cases h1 : g.Server.Port ≤ 0 <;> by_cases h2 : g.Server.Port > 65535 <;> cases g.Server.TLS.Enabled <;>
    by_cases h3 : g.Server.TLS.CertFile = "" <;> by_cases h4 : g.Server.TLS.KeyFile = "" <;>
    simp [h1, h2, h3, h4, ruleOf]

theorem slash_toList : "/".toList = ['/'] := by decide

theorem hasPrefix_slash (s : String) : Code.strHasPrefix s "/" = Cfg.startsSlash s := by
  unfold Code.strHasPrefix Cfg.startsSlash
  rw [slash_toList]
  cases s.toList with
  | nil => rfl
  | cons a as =>
    simp only [List.isPrefixOf, List.head?, Bool.and_true]
    by_cases h : a = '/'
    · subst h; rfl
    · have h2 : ¬ '/' = a := fun h' => h h'.symm
      have h3 : ¬ some a = some '/' := fun h' => h (Option.some.inj h')
      rw [show (some a == some '/') = false from beq_eq_false_iff_ne.mpr h3, show ('/' == a) = false from beq_eq_false_iff_ne.mpr h2]

theorem sec_timeouts : Sec Code.validateTimeouts Cfg.rTimeouts := by
  intro g
  unfold Code.validateTimeouts Cfg.rTimeouts
  repeat' split
  all_goals (simp [fv_cons, fv_nil, ruleOf, *] <;> omega)

theorem sec_lb : Sec Code.validateLoadBalancer Cfg.rLB := by
  intro g
  unfold Code.validateLoadBalancer Cfg.rLB
  simp only [Cfg.strategies]
  generalize (g.LoadBalancer.Strategy != "" && !(["round_robin", "least_connections", "weighted_round_robin",
    "ip_hash", "ip_hash_consistent"].contains g.LoadBalancer.Strategy)) = bs
  cases bs
  · repeat' split
    all_goals (simp [fv_cons, fv_nil, ruleOf, *] <;> omega)
  · simp [fv_cons, ruleOf]

theorem sec_health : Sec Code.validateHealthChecks Cfg.rHealth := by
  intro g
  unfold Code.validateHealthChecks Cfg.rHealth
  repeat' split
  all_goals (simp [fv_cons, fv_nil, ruleOf, *] <;> omega)

theorem sec_rl : Sec Code.validateRateLimit Cfg.rRL := by
  intro g
  unfold Code.validateRateLimit Cfg.rRL
  repeat' split
  all_goals (simp [fv_cons, fv_nil, ruleOf, *] <;> omega)

theorem sec_cb : Sec Code.validateCircuitBreaker Cfg.rCB := by
  intro g
  unfold Code.validateCircuitBreaker Cfg.rCB
  repeat' split
  all_goals (simp [fv_cons, fv_nil, ruleOf, *] <;> omega)

theorem sec_metrics : Sec Code.validateMetrics Cfg.rMetrics := by
  intro g
  unfold Code.validateMetrics Cfg.rMetrics
  simp only [Cfg.portBad, hasPrefix_slash]
  repeat' split
  all_goals (simp [fv_cons, fv_nil, ruleOf, *] <;> omega)

theorem sec_admin : Sec Code.validateAdminAPI Cfg.rAdmin := by
  intro g
  unfold Code.validateAdminAPI Cfg.rAdmin
  simp only [Cfg.portBad]
  repeat' split
  all_goals (simp [fv_cons, fv_nil, ruleOf, *] <;> omega)

theorem sec_log : Sec Code.validateLogging Cfg.rLog := by
  intro g
  unfold Code.validateLogging Cfg.rLog
  simp only [Cfg.logLevels, Cfg.logFormats]
  generalize (g.Logging.Level != "" && !(["debug", "info", "warn", "error", "fatal"].contains g.Logging.Level)) = bl
  generalize (g.Logging.Format != "" && !(["json", "console", "text"].contains g.Logging.Format)) = bf
  cases bl <;> cases bf <;> simp [fv_cons, fv_nil, ruleOf]

/-! ### the two `range` loops -/

abbrev Err := String × List String

/-- what a `range` loop hands back: the body's `return`, or the fall-through -/
def outOf (g : Code.Config) (o : Option (Code.Config × Option Err)) : Code.Config × Option Err :=
  match o with
  | some r => r
  | none => (g, none)

theorem range1_spec (g : Code.Config) (bs : List Code.BackendConfig) (i : Int) :
    (Code.validateBackends_range1 g bs i = none ∧ fv (Cfg.backendRules (bs.map absBackendCfg)) = none) ∨
    (∃ e, Code.validateBackends_range1 g bs i = some (g, some e) ∧
      fv (Cfg.backendRules (bs.map absBackendCfg)) = some (ruleOf e)) := by
  induction bs generalizing i with
  | nil => left; exact ⟨rfl, rfl⟩
  | cons b bs ih =>
    simp only [List.map, Cfg.backendRules, absBackendCfg]
    unfold Code.validateBackends_range1
    by_cases h1 : b.Name = ""
    · right; exact ⟨("backend %d: name is required", []), by simp [h1], by simp [h1, fv_cons, ruleOf]⟩
    · by_cases h2 : b.Address = ""
      · right; exact ⟨("backend %s: address is required", [b.Name]), by simp [h1, h2], by simp [h1, h2, fv_cons, ruleOf]⟩
      · by_cases h3 : b.Weight < 0
        · right; exact ⟨("backend %s: weight must be non-negative (got %d)", [b.Name]), by simp [h1, h2, h3], by simp [h1, h2, h3, fv_cons, ruleOf]⟩
        · have := ih (i + 1)
          simpa [h1, h2, h3, fv_cons, fv_append] using this

theorem sec_backends : Sec Code.validateBackends (fun c => [(c.backends.isEmpty, 1)] ++ Cfg.backendRules c.backends) := by
  intro g
  unfold Code.validateBackends
  show _ ∧ _ = fv ([((g.Backends.map absBackendCfg).isEmpty, 1)] ++ Cfg.backendRules (g.Backends.map absBackendCfg))
  cases hb : g.Backends with
  | nil => simp [fv_cons, ruleOf]
  | cons b bs =>
    have h0 : ¬ ((Int.ofNat (b :: bs).length) == (0 : Int)) = true := by simp; omega
    simp only [h0, if_false, Bool.false_eq_true, List.map, List.isEmpty, List.cons_append, List.nil_append, fv_cons]
    rcases range1_spec g (b :: bs) 0 with ⟨h1, h2⟩ | ⟨e, h1, h2⟩
    · simp only [List.map] at h2; simp [h1, h2]
    · simp only [List.map] at h2; simp [h1, h2]

def f6 (s : String × Int) : Bool × Nat := (decide (s.2 > 9223372036), secondsRule s.1)
def f7 (s : String × Int) : Bool × Nat := (decide (s.2 > 4294967295), countsRule s.1)

theorem range6_spec (g : Code.Config) (l : List (String × Int)) (i : Int) :
    (Code.validateRanges_range6 g l i = none ∧ fv (l.map f6) = none) ∨
    (∃ e, Code.validateRanges_range6 g l i = some (g, some e) ∧ fv (l.map f6) = some (ruleOf e)) := by
  induction l generalizing i with
  | nil => left; exact ⟨rfl, rfl⟩
  | cons s l ih =>
    unfold Code.validateRanges_range6
    by_cases h : s.2 > 9223372036
    · right; exact ⟨("%s is too large (got %d seconds, at most %d)", [s.1]), by simp [h], by simp [h, f6, fv_cons, ruleOf]⟩
    · simpa [h, f6, fv_cons] using ih (i + 1)

theorem range7_spec (g : Code.Config) (l : List (String × Int)) (i : Int) :
    (Code.validateRanges_range7 g l i = none ∧ fv (l.map f7) = none) ∨
    (∃ e, Code.validateRanges_range7 g l i = some (g, some e) ∧ fv (l.map f7) = some (ruleOf e)) := by
  induction l generalizing i with
  | nil => left; exact ⟨rfl, rfl⟩
  | cons s l ih =>
    unfold Code.validateRanges_range7
    by_cases h : s.2 > 4294967295
    · right; exact ⟨("%s is too large (got %d, at most %d)", [s.1]), by simp [h], by simp [h, f7, fv_cons, ruleOf]⟩
    · simpa [h, f7, fv_cons] using ih (i + 1)

/-- the `seconds` table `validateRanges` builds: the server timeouts, then the timers of every enabled feature -/
def secondsOf (c : Code.Config) : List (String × Int) :=
  [("server read timeout", c.Server.Timeouts.Read), ("server write timeout", c.Server.Timeouts.Write),
   ("server idle timeout", c.Server.Timeouts.Idle), ("server handler timeout", c.Server.Timeouts.Handler),
   ("server shutdown timeout", c.Server.Timeouts.Shutdown), ("backend dial timeout", c.Server.Timeouts.BackendDial),
   ("backend read timeout", c.Server.Timeouts.BackendRead), ("backend idle timeout", c.Server.Timeouts.BackendIdle)] ++
  (if c.LoadBalancer.WebSocketPool.Enabled then [("websocket pool idle_timeout_seconds", c.LoadBalancer.WebSocketPool.IdleTimeoutSeconds)] else []) ++
  (if c.HealthChecks.Active.Enabled then [("active health check interval", c.HealthChecks.Active.Interval), ("active health check timeout", c.HealthChecks.Active.Timeout)] else []) ++
  (if c.HealthChecks.Passive.Enabled then [("passive health check unhealthy timeout", c.HealthChecks.Passive.UnhealthyTimeout)] else []) ++
  (if c.RateLimit.Enabled then [("rate limit refill rate", c.RateLimit.RefillRate)] else []) ++
  (if c.CircuitBreaker.Enabled then [("circuit breaker interval", c.CircuitBreaker.IntervalSeconds), ("circuit breaker timeout", c.CircuitBreaker.TimeoutSeconds)] else [])

def countsOf (c : Code.Config) : List (String × Int) :=
  if c.CircuitBreaker.Enabled then
    [("circuit breaker max requests", c.CircuitBreaker.MaxRequests), ("circuit breaker failure threshold", c.CircuitBreaker.FailureThreshold),
     ("circuit breaker success threshold", c.CircuitBreaker.SuccessThreshold)]
  else []

/-- the code's two tables are these -/
theorem validateRanges_tables (g : Code.Config) :
    Code.validateRanges g =
      match Code.validateRanges_range6 g (secondsOf g) 0 with
      | some r => r
      | none => match Code.validateRanges_range7 g (countsOf g) 0 with
        | some r => r
        | none => (g, none) := by
  unfold Code.validateRanges secondsOf countsOf
  cases g.LoadBalancer.WebSocketPool.Enabled <;> cases g.HealthChecks.Active.Enabled <;>
    cases g.HealthChecks.Passive.Enabled <;> cases g.RateLimit.Enabled <;> cases g.CircuitBreaker.Enabled <;> rfl

theorem ite_some_or (c : Prop) [Decidable c] (a : Nat) (x y : Option Nat) :
    (if c then some a else x).or y = if c then some a else x.or y := by
  split <;> simp

/-- and the model's range rules are the first hit in the first table, else in the second -/
theorem rRanges_tables (g : Code.Config) :
    fv (Cfg.rRanges (absCfg g)) = (fv ((secondsOf g).map f6)).or (fv ((countsOf g).map f7)) := by
  unfold Cfg.rRanges secondsOf countsOf
  simp only [Cfg.tooLong, Cfg.maxSeconds, Cfg.maxU32]
  cases g.LoadBalancer.WebSocketPool.Enabled <;> cases g.HealthChecks.Active.Enabled <;>
    cases g.HealthChecks.Passive.Enabled <;> cases g.RateLimit.Enabled <;> cases g.CircuitBreaker.Enabled <;>
    simp [fv_cons, fv_nil, f6, f7, secondsRule, countsRule, ite_some_or]

theorem sec_ranges : Sec Code.validateRanges Cfg.rRanges := by
  intro g
  rw [validateRanges_tables, rRanges_tables]
  rcases range6_spec g (secondsOf g) 0 with ⟨h1, h2⟩ | ⟨e, h1, h2⟩
  · rcases range7_spec g (countsOf g) 0 with ⟨h3, h4⟩ | ⟨e, h3, h4⟩
    · simp [h1, h2, h3, h4]
    · simp [h1, h2, h3, h4]
  · simp [h1, h2]

/-! ### `Validate`: the sections in order, the first error wins -/

/-- `if err := v(c); err != nil { return err }; k(c)` -/
def chain (v k : Code.Config → Code.Config × Option Err) (c : Code.Config) : Code.Config × Option Err :=
  if (v c).2.isSome then (c, (v c).2) else k c

theorem sec_chain {v k : Code.Config → Code.Config × Option Err} {r rs : Cfg.Config → List (Bool × Nat)}
    (hv : Sec v r) (hk : Sec k rs) : Sec (chain v k) (fun c => r c ++ rs c) := by
  intro g
  obtain ⟨h1, h2⟩ := hv g
  obtain ⟨h3, h4⟩ := hk g
  unfold chain
  simp only [fv_append]
  cases h : (v g).2 with
  | none => rw [h] at h2; simp [h3, h4, ← h2]
  | some e => rw [h] at h2; simp [← h2]

theorem sec_done : Sec (fun c => (c, none)) (fun _ => []) := fun _ => ⟨rfl, rfl⟩

theorem Validate_is_chain (g : Code.Config) :
    Code.Validate g =
      chain Code.validateBackends (chain Code.validateServer (chain Code.validateTimeouts (chain Code.validateLoadBalancer
        (chain Code.validateHealthChecks (chain Code.validateRateLimit (chain Code.validateCircuitBreaker
          (chain Code.validateMetrics (chain Code.validateAdminAPI (chain Code.validateLogging
            (chain Code.validateRanges (fun c => (c, none)))))))))))) g := rfl

/-- **`Config.Validate`, as written, is the model's `validate`**: for every configuration it
hands the configuration back untouched and reports an error exactly when some documented rule is
violated — the error of the first violated rule, in the documented order. -/
theorem Validate_refines (g : Code.Config) :
    (Code.Validate g).1 = g ∧ (Code.Validate g).2.map ruleOf = Cfg.validate (absCfg g) := by
  rw [Validate_is_chain, validate_fv]
  have h := sec_chain sec_backends (sec_chain sec_server (sec_chain sec_timeouts (sec_chain sec_lb (sec_chain sec_health
    (sec_chain sec_rl (sec_chain sec_cb (sec_chain sec_metrics (sec_chain sec_admin (sec_chain sec_log
      (sec_chain sec_ranges sec_done))))))))))
  have := h g
  simpa [Cfg.rules, List.append_assoc] using this

/-- accepted by the code ⇔ accepted by the model -/
theorem Validate_accepts_iff (g : Code.Config) :
    (Code.Validate g).2 = none ↔ Cfg.validate (absCfg g) = none := by
  rw [← (Validate_refines g).2]; cases (Code.Validate g).2 <;> simp

/-- with `validate_iff_documented`: the code accepts exactly the documented configurations -/
theorem Validate_iff_documented (g : Code.Config) :
    (Code.Validate g).2 = none ↔ Cfg.Documented (absCfg g) := by
  rw [Validate_accepts_iff]; exact Cfg.validate_iff_documented (absCfg g)

theorem backendRules_ids (bs : List Cfg.Backend) : ∀ r ∈ Cfg.backendRules bs, r.2 ≠ 0 := by
  induction bs with
  | nil => simp [Cfg.backendRules]
  | cons b bs ih =>
    intro r hr
    simp only [Cfg.backendRules, List.cons_append, List.nil_append, List.mem_cons] at hr
    rcases hr with rfl | rfl | rfl | hr
    · simp
    · simp
    · simp
    · exact ih r hr

theorem rules_ids (c : Cfg.Config) : ∀ r ∈ Cfg.rules c, r.2 ≠ 0 := by
  have hb := backendRules_ids c.backends
  simp only [Cfg.rules, List.forall_mem_append]
  refine ⟨⟨⟨⟨⟨⟨⟨⟨⟨⟨⟨?_, hb⟩, ?_⟩, ?_⟩, ?_⟩, ?_⟩, ?_⟩, ?_⟩, ?_⟩, ?_⟩, ?_⟩, ?_⟩ <;>
    simp [Cfg.rServer, Cfg.rTimeouts, Cfg.rLB, Cfg.rHealth, Cfg.rRL, Cfg.rCB, Cfg.rMetrics, Cfg.rAdmin, Cfg.rLog, Cfg.rRanges]

/-- an error the code returns always stands for a rule (`ruleOf` lost none: 0 is its "unknown") -/
theorem ruleOf_nonzero_on_code (g : Code.Config) (e : Err) (h : (Code.Validate g).2 = some e) : ruleOf e ≠ 0 := by
  have h2 := (Validate_refines g).2
  rw [h, validate_fv] at h2
  simp only [Option.map, fv] at h2
  intro h0
  rw [h0] at h2
  cases hf : (Cfg.rules (absCfg g)).find? (·.1) with
  | none => rw [hf] at h2; cases h2
  | some r =>
    rw [hf] at h2
    have hm := List.mem_of_find?_eq_some hf
    have := rules_ids _ r hm
    simp at h2
    exact this h2.symm

/-- a configuration the shipped `helios.yaml` resembles -/
def sampleCfg : Code.Config :=
  { Server := { Port := 8080, TLS := ⟨false, "", ""⟩, Timeouts := ⟨15, 15, 60, 30, 30, 5, 10, 90⟩ },
    Backends := [⟨"server1", "http://localhost:8081", 5⟩, ⟨"server2", "http://localhost:8082", 0⟩],
    LoadBalancer := { Strategy := "round_robin", WebSocketPool := ⟨true, 10, 100, 300⟩ },
    HealthChecks := { Active := ⟨true, 5, 3, "/health"⟩, Passive := ⟨true, 3, 30⟩ },
    RateLimit := ⟨true, 100, 10⟩, CircuitBreaker := ⟨true, 5, 60, 60, 5, 2⟩,
    Metrics := ⟨true, 9090, "/metrics"⟩, AdminAPI := ⟨true, 9091, "", [], []⟩,
    Plugins := ⟨false, []⟩, Logging := ⟨"info", "text", false, ⟨true, "X-Request-ID"⟩, ⟨true, "X-Trace-ID"⟩⟩ }

/-- non-vacuity: the code accepts the sample, and rejects it with the first violated rule when
broken in two places (metrics path without slash — rule 58 — before an over-long breaker timeout — rule 54) -/
example : (Code.Validate sampleCfg).2 = none := by decide +kernel
def longTimeout : Code.Config := { sampleCfg with CircuitBreaker := ⟨true, 5, 60, 9223372037, 5, 2⟩ }
def longTimeoutBadPath : Code.Config := { longTimeout with Metrics := ⟨true, 9090, "metrics"⟩ }
example : (Code.Validate longTimeoutBadPath).2.map ruleOf = some 58 := by decide +kernel
example : (Code.Validate longTimeout).2.map ruleOf = some 54 := by decide +kernel

theorem translation_clean_cfg :
    (["validateBackends", "validateServer", "validateTimeouts", "validateLoadBalancer", "validateHealthChecks",
      "validateRateLimit", "validateCircuitBreaker", "validateMetrics", "validateAdminAPI", "validateLogging",
      "validateRanges", "Validate"].all Code.translated.contains) = true ∧
    (Code.translationProblems.filter (fun p => p.1.startsWith "validate" || p.1 == "Validate")).isEmpty = true := by
  decide +kernel

end Helios.CodeTie
