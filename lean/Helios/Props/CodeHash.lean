import Helios.Generated.Code
import Helios.Model.Hash
import Helios.Props.C06
/-
Tie C — the translated code refines the hand-written models.

`Generated/Code.lean` is rewritten on every run by /verif/go/trans from the Go source as it is
now: `beforeRequest`, `afterRequest`, `setState` (circuit breaker), `refillTokens`, `Allow` (rate
limiter), `Backend.eligible`, `jumpHash`.  The theorems below state, for EVERY state and input
(not a sample), that each translated function computes exactly what the corresponding function of
the model computes, through an explicit abstraction map.  The property theorems (C03, C06–C09) are
about the models; these theorems carry them over to what the code says.

What the translator decides (trusted, see DESIGN §6): integer widths are unbounded in abstract
mode (exact for jumpHash), one `time.Now()` per call, lock operations skipped (one atomic step).
-/
namespace Helios.CodeTie
open Helios Helios.Generated

/-! ### jump consistent hash (exact machine integers) -/

open Helios.Hash in
section
theorem bmod64 (x : Int) (h1 : -9223372036854775808 ≤ x) (h2 : x < 9223372036854775808) :
    x.bmod (2^64) = x := by
  apply Int.bmod_eq_of_le <;> omega

theorem toInt64_small (d : UInt64) (h : d.toNat < 9223372036854775808) : d.toInt64.toInt = d.toNat := by
  have : d.toInt64.toInt = d.toBitVec.toInt := rfl
  rw [this, BitVec.toInt_eq_toNat_of_lt (by simp; omega)]
  rfl

theorem step64 (key : UInt64) (j : Int64) (n : Int) (h0 : 0 ≤ j.toInt) (hj : j.toInt < n) (hn : n ≤ 2147483648) :
    ((j + (1 : Int64)) * ((2147483648 : Int64) / (UInt64.toInt64 ((nextKey key >>> (33 : UInt64)) + (1 : UInt64))))).toInt
      = (j.toInt + 1) * quo (nextKey key) := by
  have hov := LB.jump_no_overflow (nextKey key) j.toInt n h0 hj hn
  obtain ⟨q0, q1, d0, d1⟩ := hov
  have hs := shift_lt (nextKey key)
  have hd : ((nextKey key >>> (33 : UInt64)) + (1 : UInt64)).toNat = (nextKey key >>> 33).toNat + 1 := by
    rw [UInt64.toNat_add]
    have : (1 : UInt64).toNat = 1 := rfl
    rw [this]; omega
  have hdi := toInt64_small ((nextKey key >>> (33 : UInt64)) + (1 : UInt64)) (by rw [hd]; omega)
  rw [hd] at hdi
  have h31 : (2147483648 : Int64).toInt = 2147483648 := by decide
  have h1 : (1 : Int64).toInt = 1 := by decide
  have hqpos := quo_pos (nextKey key)
  have hq2 : quo (nextKey key) ≤ 2147483648 := by
    unfold quo; apply Int.ediv_le_self; decide
  have hq : ((2147483648 : Int64) / (UInt64.toInt64 ((nextKey key >>> (33 : UInt64)) + (1 : UInt64)))).toInt
      = quo (nextKey key) := by
    rw [Int64.toInt_div, h31, hdi, Int.tdiv_eq_ediv_of_nonneg (by decide)]
    have e : (2147483648 : Int) / ((((nextKey key >>> 33).toNat + 1 : Nat)) : Int) = quo (nextKey key) := rfl
    rw [e]
    exact bmod64 _ (by omega) (by omega)
  have hj1 : (j + (1 : Int64)).toInt = j.toInt + 1 := by
    rw [Int64.toInt_add, h1]
    exact bmod64 _ (by omega) (by omega)
  rw [Int64.toInt_mul, hq, hj1]
  exact bmod64 _ (by omega) (by omega)
theorem loop_sim (n : Int32) : ∀ (k fg fm : Nat) (key : UInt64) (b j : Int64),
    0 ≤ j.toInt → (n.toInt - j.toInt).toNat ≤ k → k < fg → k ≤ fm →
    ∃ key' b' j', Code.jumpHash_loop1 n fg (key, b, j) = some (key', b', j') ∧
      b'.toInt = Hash.loop fm key b.toInt j.toInt n.toInt := by
  have hn31 : n.toInt ≤ 2147483648 := by have := n.toInt_lt; omega
  intro k
  induction k with
  | zero =>
    intro fg fm key b j h0 hm hfg _
    have hge : ¬ j.toInt < n.toInt := by omega
    obtain ⟨fg', rfl⟩ : ∃ f, fg = f + 1 := ⟨fg - 1, by omega⟩
    refine ⟨key, b, j, ?_, ?_⟩
    · unfold Code.jumpHash_loop1
      have : ¬ j < Int32.toInt64 n := by rw [Int64.lt_iff_toInt_lt, Int32.toInt_toInt64]; exact hge
      simp [this]
    · cases fm with
      | zero => simp [Hash.loop]
      | succ f => rw [loop_succ]; simp [hge]
  | succ k ih =>
    intro fg fm key b j h0 hm hfg hfm
    by_cases hlt : j.toInt < n.toInt
    · obtain ⟨fg', rfl⟩ : ∃ f, fg = f + 1 := ⟨fg - 1, by omega⟩
      obtain ⟨fm', rfl⟩ : ∃ f, fm = f + 1 := ⟨fm - 1, by omega⟩
      have hs := step64 key j n.toInt h0 hlt hn31
      have hgrow := step_grows (nextKey key) j.toInt h0
      have hk : key * (2862933555777941757 : UInt64) + (1 : UInt64) = nextKey key := rfl
      have hc : j < Int32.toInt64 n := by rw [Int64.lt_iff_toInt_lt, Int32.toInt_toInt64]; exact hlt
      obtain ⟨key', b', j', h1, h2⟩ := ih fg' fm' (nextKey key) j
        ((j + (1 : Int64)) * ((2147483648 : Int64) / (UInt64.toInt64 ((nextKey key >>> (33 : UInt64)) + (1 : UInt64)))))
        (by rw [hs]; omega) (by rw [hs]; omega) (by omega) (by omega)
      refine ⟨key', b', j', ?_, ?_⟩
      · rw [Code.jumpHash_loop1]
        simp only [hc, decide_true, if_true, hk]
        exact h1
      · rw [loop_succ, if_pos hlt, h2, hs]
    · obtain ⟨fg', rfl⟩ : ∃ f, fg = f + 1 := ⟨fg - 1, by omega⟩
      refine ⟨key, b, j, ?_, ?_⟩
      · unfold Code.jumpHash_loop1
        have : ¬ j < Int32.toInt64 n := by rw [Int64.lt_iff_toInt_lt, Int32.toInt_toInt64]; exact hlt
        simp [this]
      · cases fm with
        | zero => simp [Hash.loop]
        | succ f => rw [loop_succ]; simp [hlt]

/-- **`jumpHash` as written in Go — `uint64` multiplication that wraps, `int64` products and
quotients, the final `int32` conversion — returns, for every key and every positive bucket
count, exactly the value of the unbounded-integer model** the C06 theorems (range, monotone
remapping) are about. Any fuel above the bucket count suffices: the Go loop terminates. -/
theorem jumpHash_refines (key : UInt64) (n : Int32) (hn : 0 < n.toInt) (fuel : Nat) (hf : n.toInt.toNat < fuel) :
    ∃ r, Code.jumpHash fuel key n = some r ∧ r.toInt = Hash.jumpHash key n.toInt.toNat := by
  have hm1 : (-1 : Int64).toInt = -1 := by decide
  have h00 : (0 : Int64).toInt = 0 := by decide
  obtain ⟨key', b', j', h1, h2⟩ := loop_sim n n.toInt.toNat fuel (n.toInt.toNat + 1) key (-1) 0
    (by rw [h00]; omega) (by rw [h00]; omega) hf (by omega)
  have hcast : ((n.toInt.toNat : Nat) : Int) = n.toInt := by omega
  have hr := jump_range key n.toInt.toNat (by omega)
  refine ⟨Int64.toInt32 b', ?_, ?_⟩
  · unfold Code.jumpHash
    simp only [h1]
  · have e : b'.toInt = Hash.jumpHash key n.toInt.toNat := by
      rw [h2, hm1, h00]; unfold Hash.jumpHash; rw [hcast]
    rw [Int64.toInt_toInt32, e]
    have := n.toInt_lt
    apply Int.bmod_eq_of_le <;> omega

end


/-! ### the translation of these functions -/

/-- every function of this group was translated; nothing in them fell outside the fragment -/
theorem translation_clean_hash :
    ["jumpHash"].all (fun f => Code.translated.contains f) = true ∧
    (Code.translationProblems.filter (fun p => ["jumpHash"].contains p.1)) = [] := by
  decide

example : Code.jumpHash 10 12345 7 = some 1 ∧ Hash.jumpHash 12345 7 = 1 := by decide +kernel
end Helios.CodeTie
