import Helios.Model.Breaker
/-
C07 — Circuit breaker safety.  Property theorems over `CB.begin` / `CB.end_` / `CB.run`:
requests are two atomic steps, so the histories quantified over include every overlap of
concurrent requests at the granularity of the breaker's critical sections.
-/
namespace Helios.CB

/-! ### trip -/

/-- sequential history of whole `Execute` calls: (fn succeeds?, time) -/
def runSeq (c : Cfg) : State → List (Bool × Nat) → State
  | s, [] => s
  | s, (ok, t) :: es => runSeq c (exec c s ok t).1 es

def countFails : List (Bool × Nat) → Nat
  | [] => 0
  | (ok, _) :: es => (if ok then 0 else 1) + countFails es

/-- no request arrives later than `interval` after the failure before it (so in particular
no gap longer than `interval` between consecutive failures) -/
def NoGap (c : Cfg) : Option Nat → List (Bool × Nat) → Prop
  | _, [] => True
  | lf, (ok, t) :: es => (∀ l, lf = some l → t ≤ l + c.interval) ∧ NoGap c (if ok then lf else some t) es

theorem exec_closed_nogap (c : Cfg) (s : State) (ok : Bool) (t : Nat)
    (hs : s.st = .closed) (hg : ∀ l, s.lastFailure = some l → t ≤ l + c.interval) :
    exec c s ok t =
      (if ok then s
       else if s.failureCount + 1 ≥ c.failureThreshold then
         { s with lastFailure := some t, failureCount := s.failureCount + 1, st := .open_,
                  generation := s.generation + 1, nextAttempt := t + c.timeout }
       else { s with lastFailure := some t, failureCount := s.failureCount + 1 },
       .admitted s.generation) := by
  obtain ⟨st, fc, sc, rc, lf, na, gen⟩ := s
  simp only at hs hg
  subst hs
  have hr : needsReset c ⟨.closed, fc, sc, rc, lf, na, gen⟩ t = false := by
    simp only [needsReset]
    cases lf with
    | none => rfl
    | some l =>
      have := hg l rfl
      simp only [decide_eq_false_iff_not]; omega
  have hb : begin c ⟨.closed, fc, sc, rc, lf, na, gen⟩ t = (⟨.closed, fc, sc, rc, lf, na, gen⟩, .admitted gen) := by
    simp [begin, hr]
  simp only [exec, hb]
  cases ok with
  | true => simp [end_]
  | false => simp [end_]

/-- **Trip.** Starting closed, once `failure_threshold` failed requests have accumulated
with no gap longer than `interval` (successful requests may be interleaved anywhere), the
breaker is open immediately after the last of them, until `timeout` later. -/
theorem trips (c : Cfg) (pre : List (Bool × Nat)) : ∀ (s : State) (t : Nat),
    s.st = .closed → NoGap c s.lastFailure (pre ++ [(false, t)]) →
    s.failureCount + countFails pre + 1 = c.failureThreshold →
    (runSeq c s (pre ++ [(false, t)])).st = .open_ ∧
    (runSeq c s (pre ++ [(false, t)])).nextAttempt = t + c.timeout := by
  induction pre with
  | nil =>
    intro s t hs hg hc
    simp only [List.nil_append, runSeq, NoGap] at *
    rw [exec_closed_nogap c s false t hs hg.1]
    have : s.failureCount + 1 ≥ c.failureThreshold := by simp [countFails] at hc; omega
    simp [this]
  | cons e es ih =>
    intro s t hs hg hc
    obtain ⟨ok, te⟩ := e
    simp only [List.cons_append, runSeq, NoGap] at *
    rw [exec_closed_nogap c s ok te hs hg.1]
    cases ok with
    | true =>
      simp only [if_true] at hg ⊢
      apply ih s t hs hg.2
      simpa [countFails] using hc
    | false =>
      simp only [Bool.false_eq_true, if_false] at hg ⊢
      have hlt : ¬ (s.failureCount + 1 ≥ c.failureThreshold) := by
        simp [countFails] at hc; omega
      simp only [hlt, if_false]
      apply ih _ t (by simp [hs]) (by simpa using hg.2)
      simp [countFails] at hc ⊢; omega

/-! ### block while open -/

/-- **Blocked while open.** While the breaker is open and `timeout` has not elapsed
(`now ≤ nextAttempt`) every request is rejected, the protected function is not run
(no admission), and the breaker's state is untouched. -/
theorem blocks_while_open (c : Cfg) (s : State) (now : Nat)
    (h : s.st = .open_) (hn : now ≤ s.nextAttempt) :
    begin c s now = (s, .rejectedOpen) := by
  have : ¬ (s.nextAttempt < now) := by omega
  simp [begin, h, this]

/-! ### half-open budget, for every overlap of requests -/

/-- 1 if the answer is an admission stamped `g` into the half-open state, else 0 -/
def trialInd (g : Nat) (r : State × Admit) : Nat :=
  match r.2 with
  | .admitted g' => if g' = g then (if r.1.st = .halfOpen then 1 else 0) else 0
  | _ => 0

/-- number of half-open trial admissions stamped with generation `g` during a run -/
def trialsIn (c : Cfg) (g : Nat) : Sys → List Ev → Nat
  | _, [] => 0
  | y, .begin tid now :: es =>
    (if (lookupTid tid y.inflight).isSome then 0 else trialInd g (begin c y.s now))
      + trialsIn c g (step c y (.begin tid now)).1 es
  | y, e :: es => trialsIn c g (step c y e).1 es

/-- trials of generation `g` that can still be admitted from state `s` -/
def budget (c : Cfg) (g : Nat) (s : State) : Nat :=
  if g < s.generation then 0
  else if s.generation = g then (if s.st = .halfOpen then c.maxRequests - s.requestCount else 0)
  else c.maxRequests

theorem begin_budget (c : Cfg) (g : Nat) (s : State) (now : Nat) :
    trialInd g (begin c s now) + budget c g (begin c s now).1 ≤ budget c g s := by
  cases hst : s.st with
  | closed => simp [begin, hst, trialInd, budget]
  | open_ =>
    simp only [begin, hst]
    by_cases hna : s.nextAttempt < now
    · simp only [hna, if_true]
      by_cases hm : c.maxRequests = 0
      · simp only [hm, if_true, trialInd, budget, hst]
        repeat' split
        all_goals omega
      · simp only [hm, if_false, trialInd, budget, hst]
        repeat' split
        all_goals first | omega | (simp_all <;> omega)
    · simp [hna, trialInd]
  | halfOpen =>
    simp only [begin, hst]
    by_cases hm : s.requestCount ≥ c.maxRequests
    · simp [hm, trialInd]
    · simp only [hm, if_false, trialInd, budget, hst]
      repeat' split
      all_goals first | omega | (simp_all <;> omega)

theorem end_budget (c : Cfg) (g : Nat) (s : State) (gq : Nat) (ok : Bool) (now : Nat) :
    budget c g (end_ c s gq ok now) ≤ budget c g s := by
  simp only [end_]
  by_cases hg : gq ≠ s.generation
  · simp [hg]
  · simp only [hg, if_false]
    cases ok <;> cases hst : s.st <;> simp only [budget, hst, if_true, Bool.false_eq_true, if_false] <;>
      (repeat' split) <;> first | omega | (simp_all <;> omega)

theorem step_budget_state (c : Cfg) (g : Nat) (y : Sys) (e : Ev) :
    (match e with
     | .begin tid now => if (lookupTid tid y.inflight).isSome then 0 else trialInd g (begin c y.s now)
     | _ => 0) + budget c g (step c y e).1.s ≤ budget c g y.s := by
  cases e with
  | begin tid now =>
    simp only [step]
    by_cases hd : (lookupTid tid y.inflight).isSome = true
    · simp [hd]
    · simp only [hd, if_false, Bool.false_eq_true]
      have h := begin_budget c g y.s now
      cases hb : (begin c y.s now).2 <;> simp only [hb] <;> exact h
  | end_ tid ok now =>
    simp only [step, Nat.zero_add]
    cases hl : lookupTid tid y.inflight with
    | none => simp
    | some gq => simp only []; exact end_budget c g y.s gq ok now

/-- **Half-open budget.** In every history — any number of requests, overlapping in any
way — the trial requests admitted in one half-open episode (one generation `g`) number at
most `max_requests`. -/
theorem halfopen_budget (c : Cfg) (g : Nat) (evs : List Ev) : ∀ (y : Sys),
    trialsIn c g y evs ≤ c.maxRequests := by
  have key : ∀ (evs : List Ev) (y : Sys), trialsIn c g y evs ≤ budget c g y.s := by
    intro evs
    induction evs with
    | nil => intro y; simp [trialsIn]
    | cons e es ih =>
      intro y
      have h1 := step_budget_state c g y e
      have h2 := ih (step c y e).1
      cases e with
      | begin tid now => simp only [trialsIn] at *; omega
      | end_ tid ok now => simp only [trialsIn] at *; omega
  intro y
  have hb : budget c g y.s ≤ c.maxRequests := by
    simp only [budget]
    repeat' split
    all_goals omega
  exact Nat.le_trans (key evs y) hb

/-! ### closing and re-opening -/

/-- **Closes only after `success_threshold` trial successes.** A completion closes a
half-open breaker only if it is a success of a request admitted in *this* half-open
episode (same generation) and it is at least the `success_threshold`-th such success. -/
theorem closes_only_after_trial_successes (c : Cfg) (s : State) (g : Nat) (ok : Bool) (now : Nat)
    (hs : s.st = .halfOpen) (hc : (end_ c s g ok now).st = .closed) :
    g = s.generation ∧ ok = true ∧ c.successThreshold ≤ s.successCount + 1 := by
  simp only [end_] at hc
  by_cases hg : g ≠ s.generation
  · simp [hg, hs] at hc
  · simp only [hg, if_false] at hc
    have hg' : g = s.generation := by simpa using hg
    cases ok with
    | false => simp [hs] at hc
    | true =>
      simp only [if_true, hs] at hc
      by_cases hth : s.successCount + 1 ≥ c.successThreshold
      · exact ⟨hg', rfl, hth⟩
      · simp [hth, hs] at hc

/-- **Any trial failure re-opens** the breaker for a full `timeout`. -/
theorem reopens_on_trial_failure (c : Cfg) (s : State) (now : Nat) (hs : s.st = .halfOpen) :
    (end_ c s s.generation false now).st = .open_ ∧
    (end_ c s s.generation false now).nextAttempt = now + c.timeout := by
  simp [end_, hs]

/-- A completion of a request admitted before the last state change (for instance a slow
request from the closed state finishing during half-open) changes nothing: it is neither
a trial success nor a trial failure. -/
theorem stale_completion_ignored (c : Cfg) (s : State) (g : Nat) (ok : Bool) (now : Nat)
    (h : g ≠ s.generation) : end_ c s g ok now = s := by
  simp [end_, h]

/-! ### non-vacuity -/

private def cEx : Cfg := { maxRequests := 1, interval := 100, timeout := 50, failureThreshold := 2, successThreshold := 1 }

/-- two failures 1 apart trip the breaker; it then blocks until t = 53 and half-opens after -/
example : (runSeq cEx {} [(false, 1), (true, 2), (false, 3)]).st = .open_ := by decide
example : NoGap cEx none ([(false, 1), (true, 2)] ++ [(false, 3)]) := by simp [NoGap, cEx]
example : (begin cEx (runSeq cEx {} [(false, 1), (false, 3)]) 53).2 = .rejectedOpen := by decide
example : (begin cEx (runSeq cEx {} [(false, 1), (false, 3)]) 54).2 = .admitted 2 := by decide
/-- two concurrent callers after the timeout: exactly one trial -/
example : trialsIn cEx 2 { s := runSeq cEx {} [(false, 1), (false, 3)] } [.begin 1 54, .begin 2 54] = 1 := by decide

end Helios.CB
