/-
Small-step model of the shutdown protocol of internal/loadbalancer/loadbalancer.go
(after the repair): the active-health-check loop goroutine, the probe goroutines it fans
out, and any number of concurrent `Stop` callers.  A step is one atomic action of one
goroutine; every interleaving is a path of `Step`.

Go code modelled
  loop      : select { ctx.Done → wg.Wait; return | ticker.C → for each backend { wg.Add(1); go probe } }
  probe     : if ctx.Done { return } ; send request bound to ctx ; wg.Done
  Stop      : cancel ; <-healthLoopDone ; wg.Wait ; wsPool.Shutdown ; return
-/
namespace Helios.Shut

inductive Loop where
  | idle                      -- blocked in select
  | fanout (left : Nat)       -- inside checkBackendsHealth, `left` backends still to launch
  | draining                  -- saw ctx.Done, in wg.Wait
  | exited                    -- returned (healthLoopDone closed)
  deriving Repr, DecidableEq

inductive Probe where
  | spawned                   -- goroutine created, nothing done yet
  | cleared                   -- passed the ctx check, about to send
  | sent                      -- request sent (or attempted), about to call wg.Done
  | done
  deriving Repr, DecidableEq

inductive Stopper where
  | start | cancelled | loopJoined | probesJoined | poolShut | returned
  deriving Repr, DecidableEq

structure State where
  backends  : Nat                       -- number of configured backends
  cancelled : Bool := false
  loop      : Loop := .idle
  wg        : Nat := 0                  -- healthCheckWg counter
  probes    : List Probe := []
  stoppers  : List Stopper
  poolOpen  : Bool := true
  lateSends : Nat := 0                  -- probes sent after some Stop had returned (must stay 0)
  addDuringWait : Nat := 0              -- wg.Add executed while a Stop caller was in wg.Wait (must stay 0)
  deriving Repr, DecidableEq

def anyReturned (s : State) : Bool := s.stoppers.any (· == .returned)
def anyWaitingWg (s : State) : Bool := s.stoppers.any (· == .loopJoined)

inductive Step : State → State → Prop where
  | tick (s : State) (h : s.loop = .idle) :
      Step s { s with loop := .fanout s.backends }
  | launch (s : State) (n : Nat) (h : s.loop = .fanout (n + 1)) :
      Step s { s with loop := .fanout n, wg := s.wg + 1, probes := s.probes ++ [.spawned],
                      addDuringWait := s.addDuringWait + (if anyWaitingWg s then 1 else 0) }
  | fanoutDone (s : State) (h : s.loop = .fanout 0) :
      Step s { s with loop := .idle }
  | seeDone (s : State) (h : s.loop = .idle) (hc : s.cancelled = true) :
      Step s { s with loop := .draining }
  | drained (s : State) (h : s.loop = .draining) (hw : s.wg = 0) :
      Step s { s with loop := .exited }
  | probeCheck (s : State) (i : Nat) (h : s.probes[i]? = some .spawned) :
      Step s (if s.cancelled then { s with probes := s.probes.set i .done, wg := s.wg - 1 }
              else { s with probes := s.probes.set i .cleared })
  | probeSend (s : State) (i : Nat) (h : s.probes[i]? = some .cleared) :
      -- (a request bound to an already cancelled context is not actually put on the wire; the
      --  model counts it as sent, which only makes the safety claim stronger)
      Step s { s with probes := s.probes.set i .sent,
                      lateSends := s.lateSends + (if anyReturned s then 1 else 0) }
  | probeDone (s : State) (i : Nat) (h : s.probes[i]? = some .sent) :
      Step s { s with probes := s.probes.set i .done, wg := s.wg - 1 }
  | stopCancel (s : State) (j : Nat) (h : s.stoppers[j]? = some .start) :
      Step s { s with stoppers := s.stoppers.set j .cancelled, cancelled := true }
  | stopJoinLoop (s : State) (j : Nat) (h : s.stoppers[j]? = some .cancelled) (hl : s.loop = .exited) :
      Step s { s with stoppers := s.stoppers.set j .loopJoined }
  | stopJoinProbes (s : State) (j : Nat) (h : s.stoppers[j]? = some .loopJoined) (hw : s.wg = 0) :
      Step s { s with stoppers := s.stoppers.set j .probesJoined }
  | stopPool (s : State) (j : Nat) (h : s.stoppers[j]? = some .probesJoined) :
      Step s { s with stoppers := s.stoppers.set j .poolShut, poolOpen := false }
  | stopReturn (s : State) (j : Nat) (h : s.stoppers[j]? = some .poolShut) :
      Step s { s with stoppers := s.stoppers.set j .returned }

inductive Reach : State → State → Prop where
  | refl (s : State) : Reach s s
  | step {a b c : State} : Reach a b → Step b c → Reach a c

/-- the initial state: `n` backends, `k` future Stop callers, loop idle -/
def init (n k : Nat) : State := { backends := n, stoppers := List.replicate k .start }

end Helios.Shut
