import Helios.Model.Config
/-
What `NewLoadBalancer`'s set-up functions make of a configuration: the numbers each component is
constructed with (seconds become nanoseconds, zero / non-positive values become the documented defaults).
-/
namespace Helios.Wire
open Helios

def sec : Int := 1000000000

/-- `setupRateLimiter`: [max_tokens, refill period in ns] -/
def rlEff (c : Cfg.Config) : List Int :=
  [if c.rlMax ≤ 0 then 100 else c.rlMax, if c.rlRefill * sec ≤ 0 then sec else c.rlRefill * sec]

/-- `setupWebSocketPool`: [max_idle, max_active, idle timeout in ns] -/
def wsEff (c : Cfg.Config) : List Int :=
  [if c.wsMaxIdle ≤ 0 then 10 else c.wsMaxIdle, if c.wsMaxActive ≤ 0 then 100 else c.wsMaxActive,
   if c.wsIdleTimeout * sec ≤ 0 then 300 * sec else c.wsIdleTimeout * sec]

/-- `setupCircuitBreaker`: [max_requests, interval ns, timeout ns, failure_threshold, success_threshold];
an omitted max_requests becomes the success threshold (enough trials for the breaker to be able to close) -/
def cbEff (c : Cfg.Config) : List Int :=
  let st : Nat := if c.cbSuccess.toNat = 0 then 1 else c.cbSuccess.toNat
  let mx : Nat := if c.cbMax.toNat = 0 then st else c.cbMax.toNat
  let iv : Int := if c.cbInterval * sec = 0 then 60 * sec else c.cbInterval * sec
  let to : Int := if c.cbTimeout * sec = 0 then 60 * sec else c.cbTimeout * sec
  let ft : Nat := if c.cbFailure.toNat = 0 then 5 else c.cbFailure.toNat
  [(mx : Int), iv, to, (ft : Int), (st : Int)]

/-- `createHealthChecker`: (active on, interval ns, timeout ns, path, passive on, threshold, ejection ns) -/
def hcEff (c : Cfg.Config) : Bool × Int × Int × String × Bool × Int × Int :=
  (c.actOn, c.actInterval * sec, c.actTimeout * sec, c.actPath, c.pasOn, c.pasThreshold, c.pasTimeout * sec)

end Helios.Wire
