import Helios.Model.Addr
/-
Model of internal/logging/middleware.go (RequestContextMiddleware) after the repair: a
supplied identifier is propagated unchanged, a missing or blank one is replaced by a
generated one, and the same value is set on the request (for the backend) and on the
response (for the client) before anything else runs.
-/
namespace Helios.Ids
open Helios

/-- ASCII code of a lower-case hex digit -/
def hexNib (n : Nat) : UInt8 := if n < 10 then (48 + n).toUInt8 else (87 + n).toUInt8

/-- lower-case hex of a byte string (`hex.EncodeToString`) -/
def hexBytes (b : Bytes) : Bytes :=
  b.flatMap (fun x => [hexNib (x.toNat / 16), hexNib (x.toNat % 16)])

/-- `generateIdentifier(prefix)`: prefix, underscore, hex of 12 random bytes -/
def gen (pfx : Bytes) (draw : Bytes) : Bytes := pfx ++ [95] ++ hexBytes draw

def blank (v : Bytes) : Bool := (Addr.trimSpace v).isEmpty

/-- one feature (request id or trace id): new request-header value and response-header value -/
def handle (enabled : Bool) (supplied : Option Bytes) (pfx draw : Bytes) : Option Bytes × Option Bytes :=
  if !enabled then (supplied, none)
  else
    let v := supplied.getD []
    let v' := if blank v then gen pfx draw else v
    (some v', some v')

end Helios.Ids
